/-
C20 — small-step interleaving model of the first (and every later) parse on a shared parser.

What is modelled (hand-written, one Lean branch per Python branch; file:line refer to the utype copy
with fixes/C20-first-parse-race.patch applied, the pre-fix behaviour is kept under `lg = true`):

* `BaseParser.resolve_forward_refs`            utype/parser/base.py  (`rfr:*` labels)
* `FunctionParser.resolve_forward_refs` tail   utype/parser/func.py:507-515  (`frf:*`)
* `ParserField.resolve_forward_refs`           utype/parser/field.py:740-744 (`fld:*`)
* `resolve_forward_type`                       utype/parser/rule.py:38-46    (`rft:*`)
* the read of `field.type` in `ParserField.parse_value` (field.py:1020, `pv:*`) and the de-reference
  of a `ForwardRef` in `TypeTransformer.__call__` (utils/transform.py:708-712, `tc:*`)

One atomic step = one *source line that touches state shared between threads* (the `forward_refs`
dict of the parser, `__forward_evaluated__/__forward_value__` of every pending `ForwardRef`,
`fields[*].type`, the lock).  Lines that only work on locals are folded into the preceding step.
Every step carries the label of its source line; the correspondence run (harness/c20.py) executes the
real code under a line scheduler and replays the observed sequence of (thread, label) on `Sys.step`:
the model has to follow it label by label and to predict every call's outcome.

Tied to the code only by that correspondence (T2).  Not modelled: preemption inside a line.
-/
namespace Utv.C20

/-- `ForwardRef.__forward_value__`: `None`, the evaluated object, the parsed annotation, or (pre-fix
only) the `const None` rule built from a value another thread had just cleared. -/
inductive Val | none | raw | parsed | junk
  deriving DecidableEq, Repr, Inhabited

/-- `fields[i].type`: still the `ForwardRef`, or rewritten to what was read from it. -/
inductive FTy | ref | res (v : Val)
  deriving DecidableEq, Repr, Inhabited

/-- What is not the property's business: the declaration and the namespace. -/
structure World where
  nf      : Nat            -- number of fields / parameters
  isRef   : Nat → Bool     -- field i is annotated with a string: pending reference `$f<i>`
  defd    : Nat → Bool     -- the name evaluates in the module globals (else `NameError`)
  rawOk   : Nat → Bool     -- the evaluated object is usable as a type as it is (a class; not `List[B]`)
  isLocal : Bool           -- `self.is_local` (function-local declaration: evaluated refs are cleared)
  isFn    : Bool           -- FunctionParser (`ignore_errors=True`) / ClassParser.__call__ (`False`)
  schemaBase : Bool := true  -- the class derives from a data class (`Schema`): its parser is asked first
                             --   (`@utype.dataclass class A:` has base `object`: cls.py skips it)

def World.ref (W : World) (i : Nat) : Bool := decide (i < W.nf) && W.isRef i

inductive Outcome | ok | perr | nameError | keyError | wrong | unmodelled
  deriving DecidableEq, Repr, Inhabited

/-- one keyword of a call: which field, and whether the value is one its type rejects -/
structure Use where
  fld : Nat
  bad : Bool
  deriving DecidableEq, Repr

abbrev Call := List Use

/-- how a keyword's value was produced: converted by the declared / referenced type, or handed through as it came
(what happens when `field.type` is `None`) -/
inductive Conv | byType | asIs
  deriving DecidableEq, Repr

/-- the value of a call, as far as the parser determines it: per keyword, how it was converted -/
abbrev ValTrace := List (Nat × Conv)

inductive PC
  | start
  | chkBase | chk | lock | list | next | get | eval | isev | rdval | wrA | wrB | wrcA | wrcArg | wrcB | pop
  | fldTyQ | fldTy | rftIsev | rftRdval | rrfA | rrfB | rrfC | fldOtyQ | addn | clr1 | clr2 | popd | unlock
  | frfPos | frfRet
  | pv | tcIsev | tcRdval | nested | nested2 | nestedPv | nestedErr | pvErr
  | fin | stuck
  deriving DecidableEq, Repr, Inhabited

def PC.label : PC → String
  | .start => "start"
  | .chkBase => "rfr:chk"      -- ClassParser.resolve_forward_refs (cls.py): the base class's parser first —
                               --   `Schema`'s own `if not self.forward_refs:`; a FunctionParser starts at its own
  | .chk => "rfr:chk"          -- if not self.forward_refs:
  | .lock => "rfr:lock"        -- with _forward_refs_lock:
  | .list | .next => "rfr:list" -- for name in list(self.forward_refs):
  | .get => "rfr:get"          -- ref, constraints = self.forward_refs[name]
  | .eval => "rfr:eval"        -- evaluate_forward_ref(ref, self.globals, local_vars)
  | .isev => "rfr:isev"        -- if ref.__forward_evaluated__:
  | .rdval => "rfr:rdval"      -- value = ref.__forward_value__
  | .wrA | .wrB => "rfr:wr"    -- ref.__forward_value__ = self.rule_cls.parse_annotation(  [2 line events]
  | .wrcA | .wrcB => "rfr:wrc" -- ref.__forward_value__ = self.rule_cls.annotate(
  | .wrcArg => "rfr:wrcarg"    --     constraints={"const": ref.__forward_value__},
  | .pop => "rfr:pop"          -- self.forward_refs.pop(name)                [pre-fix]
  | .fldTyQ => "fld:ty?"       -- if self.type:
  | .fldTy => "fld:ty"         -- self.type, r = resolve_forward_type(self.type)
  | .rftIsev => "rft:isev"     -- if t.__forward_evaluated__:
  | .rftRdval => "rft:rdval"   -- return t.__forward_value__, True
  | .rrfA => "rrf:args?"       -- Rule.resolve_forward_refs of an already rewritten type: if not cls.__args__:
  | .rrfB | .rrfC => "rrf:zip" --   for arg, trans in zip(cls.__args__, cls.__arg_transformers__):  [2 line events]
  | .fldOtyQ => "fld:oty?"     -- if self.output_type:
  | .addn => "rfr:addn"        -- self.addition_type, r = resolve_forward_type(self.addition_type)
  | .clr1 => "rfr:clr1"        -- ref.__forward_evaluated__ = False
  | .clr2 => "rfr:clr2"        -- ref.__forward_value__ = None
  | .popd => "rfr:popd"        -- self.forward_refs.pop(name, None)          [finally, `if rewritten:`]
  | .unlock => "rfr:unlock"    -- leaving the `with` block
  | .frfPos => "frf:pos?"      -- if self.position_type:
  | .frfRet => "frf:ret?"      -- if self.return_type:
  | .pv => "pv:rdty"           -- type = self.type
  | .tcIsev => "tc:isev"       -- if not t.__forward_evaluated__:
  | .tcRdval => "tc:rdval"     -- t = t.__forward_value__
  | .nested => "rfr:chk"       -- the referenced class is parsed: its base's parser: if not self.forward_refs:
  | .nested2 => "rfr:chk"      --   … then its own parser: if not self.forward_refs:
  | .nestedPv => "pv:rdty"     --   … its field `x`: type = self.type
  | .nestedErr => "pv:errty"   --   … and the ParseError of that field
  | .pvErr => "pv:errty"       -- type=self.type,   (building the ParseError)
  | .fin => "<fin>"
  | .stuck => "<unmodelled>"

/-- shared state of one parser -/
structure G where
  pending : List Nat           -- keys of `self.forward_refs`, insertion order
  ev      : Nat → Bool         -- ref.__forward_evaluated__
  val     : Nat → Val          -- ref.__forward_value__
  fty     : Nat → FTy          -- self.fields[i].type
  lock    : Option Nat         -- owner of `_forward_refs_lock`

def upd {α : Type} (f : Nat → α) (i : Nat) (v : α) : Nat → α := fun j => if j = i then v else f j

/-- thread-local state -/
structure Th where
  pc       : PC := .start
  calls    : List Call := []     -- calls still to make; the head is the one in progress
  names    : List Nat := []      -- rest of `list(self.forward_refs)`
  cur      : Nat := 0            -- `name` / `ref` of the running loop
  tval     : Val := .none        -- `value`
  resolved : Bool := false
  clear    : List Nat := []      -- clear_refs
  clrIt    : List Nat := []      -- rest of `for ref in clear_refs`
  rn       : List Nat := []      -- resolved_names
  popIt    : List Nat := []      -- rest of `for name in resolved_names`
  fi       : Nat := 0            -- position of `for field in self.fields.values()`
  uses     : List Use := []      -- keywords of the current call still to parse
  exc      : Option Outcome := none   -- exception travelling through `finally` and the `with` exit
  wrongF   : Bool := false       -- a value went through unparsed (field.type was None)
  outs     : List Outcome := [] -- outcomes of the finished calls, oldest first
  vals     : ValTrace := []     -- conversions made so far in the current call
  vouts    : List ValTrace := [] -- value of every finished call ([] when it raised), oldest first

def G.init (W : World) : G where
  pending := (List.range W.nf).filter W.isRef
  ev := fun _ => false
  val := fun _ => .none
  fty := fun i => if W.ref i then .ref else .res .parsed
  lock := none

/-- the call is over: record the outcome, forget the locals, go to the next call -/
def endCall (t : Th) (o : Outcome) : Th :=
  { pc := if t.calls.tail.isEmpty then .fin else .chkBase, calls := t.calls.tail, outs := t.outs ++ [o],
    vouts := t.vouts ++ [if o = .ok then t.vals else []] }

def parseNext (t : Th) : Th :=
  match t.uses with
  | [] => endCall t (if t.wrongF then .wrong else .ok)
  | _ :: _ => { t with pc := .pv }

def startParse (t : Th) : Th := parseNext { t with uses := t.calls.headD [] }
/-- the keyword at the head of `uses` is done, converted as `c` -/
def nextUse (t : Th) (c : Conv := .byType) : Th :=
  parseNext { t with uses := t.uses.tail, vals := t.vals ++ (t.uses.head?.map fun u => (u.fld, c)).toList }

/-- `resolve_forward_refs` returned or raised -/
def leaveResolve (W : World) (t : Th) : Th :=
  match t.exc with
  | some e => endCall t e
  | none => if W.isFn && t.resolved then { t with pc := .frfPos } else startParse t

def popAdvance (t : Th) : Th :=
  match t.popIt with
  | [] => { t with pc := .unlock }
  | n :: ns => { t with cur := n, popIt := ns, pc := .popd }

/-- `finally:` (fixed code) / plain return (pre-fix) -/
def enterFinally (W : World) (lg : Bool) (t : Th) : Th :=
  if lg then leaveResolve W t
  -- `if rewritten:` — an aborted resolution (an exception is travelling) pops nothing: everything stays listed
  else popAdvance { t with popIt := if t.exc.isSome then [] else t.rn }

def clearAdvance (W : World) (lg : Bool) (t : Th) : Th :=
  match t.clrIt with
  | [] => enterFinally W lg t
  | r :: rs => { t with cur := r, clrIt := rs, pc := .clr1 }

def enterClear (W : World) (lg : Bool) (t : Th) : Th :=
  if W.isLocal then clearAdvance W lg { t with clrIt := t.clear } else enterFinally W lg t

def fieldAdvance (W : World) (t : Th) : Th :=
  if t.fi < W.nf then { t with pc := .fldTyQ } else { t with pc := .addn }

def afterLoop (W : World) (lg : Bool) (t : Th) : Th :=
  if t.resolved then fieldAdvance W { t with fi := 0 } else enterClear W lg t

/-- the `for name in …` line once the list exists -/
def advance (W : World) (lg : Bool) (t : Th) : Th :=
  match t.names with
  | [] => afterLoop W lg t
  | n :: ns => { t with cur := n, names := ns, pc := .get }

/-- an exception that is not caught inside the loop -/
def raise (W : World) (lg : Bool) (t : Th) (e : Outcome) : Th :=
  if lg then endCall t e else enterFinally W lg { t with exc := some e }

/-- `resolved = True; if self.is_local: clear_refs.append(ref); resolved_names.append(name)` -/
def afterWrite (W : World) (lg : Bool) (t : Th) : Th :=
  { t with resolved := true, clear := if W.isLocal then t.clear ++ [t.cur] else t.clear,
           rn := t.rn ++ [t.cur], pc := if lg then .pop else .next }

def parseAnn : Val → Val
  | .raw => .parsed
  | v => v

/-- the type of keyword `u` is known (`deref`: it came out of a ForwardRef at call time) -/
def afterType (W : World) (t : Th) (u : Use) (v : Val) (deref : Bool) : Th :=
  if !W.ref u.fld then (if u.bad then { t with pc := .pvErr } else nextUse t)
  else match v with
    | .parsed => { t with pc := .nested }
    | .raw => if W.rawOk u.fld then { t with pc := .nested } else { t with pc := .pvErr }
    | .none => if deref then { t with pc := .pvErr } else nextUse { t with wrongF := true } .asIs
    | .junk => { t with pc := .pvErr }

/-- `if not self.forward_refs:` of the parser itself -/
def stepChk (lg : Bool) (g : G) (t : Th) : G × Th :=
  if g.pending.isEmpty then (g, startParse t)
  else (g, { t with pc := if lg then .list else .lock, resolved := false, clear := [], rn := [], exc := none })

/-- One atomic step of thread `tid`.  `lg = true`: the code before the fix. -/
def stepTh (W : World) (lg : Bool) (tid : Nat) (g : G) (t : Th) : G × Th :=
  match t.pc with
  | .start => (g, { t with pc := if t.calls.isEmpty then .fin else .chkBase })
  | .chkBase =>
    -- a class parser first asks the parser of the base class (`Schema`: nothing pending, ever)
    if W.isFn || !W.schemaBase then stepChk lg g t else (g, { t with pc := .chk })
  | .chk => stepChk lg g t
  | .lock =>
    match g.lock with
    | none => ({ g with lock := some tid }, { t with pc := .list })
    | some _ => (g, t)                       -- not enabled
  | .list => (g, advance W lg { t with names := g.pending })
  | .next => (g, advance W lg t)
  | .get =>
    if g.pending.contains t.cur then (g, { t with pc := .eval })
    else (g, raise W lg t .keyError)        -- KeyError, outside the inner `try`
  | .eval =>
    if W.defd t.cur then
      ({ g with ev := upd g.ev t.cur true, val := upd g.val t.cur .raw }, { t with pc := .isev })
    else if W.isFn then (g, { t with pc := .next })      -- NameError, `continue`
    else (g, raise W lg t .nameError)
  | .isev => (g, { t with pc := if g.ev t.cur then .rdval else .next })
  | .rdval =>
    let v := g.val t.cur
    (g, { t with tval := v, pc := if v = .none then .wrcA else .wrA })
  | .wrA => (g, { t with pc := .wrB })
  | .wrB => ({ g with val := upd g.val t.cur (parseAnn t.tval) }, afterWrite W lg t)
  | .wrcA => (g, { t with pc := .wrcArg })
  | .wrcArg => (g, { t with pc := .wrcB })
  | .wrcB => ({ g with val := upd g.val t.cur .junk }, afterWrite W lg t)
  | .pop =>
    if g.pending.contains t.cur then ({ g with pending := g.pending.erase t.cur }, { t with pc := .next })
    else if W.isFn then (g, { t with pc := .next })      -- KeyError inside the `try`, `continue`
    else (g, endCall t .keyError)
  | .fldTyQ => (g, { t with pc := if g.fty t.fi = .res .none then .fldOtyQ else .fldTy })
  | .fldTy =>
    match g.fty t.fi with
    | .ref => (g, { t with pc := .rftIsev })
    | .res v =>
      -- a Rule with arguments (`List[B]` once parsed) is a LogicalType: its own resolve_forward_refs runs
      -- (nothing left to resolve in it); the `const None` rule of the pre-fix race is not modelled
      if v = .junk then (g, { t with pc := .stuck })
      else if v = .parsed && W.ref t.fi && !W.rawOk t.fi then (g, { t with pc := .rrfA })
      else (g, { t with pc := .fldOtyQ })
  | .rftIsev =>
    if g.ev t.fi then (g, { t with pc := .rftRdval })
    else ({ g with fty := upd g.fty t.fi .ref }, { t with pc := .fldOtyQ })
  | .rftRdval => ({ g with fty := upd g.fty t.fi (.res (g.val t.fi)) }, { t with pc := .fldOtyQ })
  | .rrfA => (g, { t with pc := .rrfB })
  | .rrfB => (g, { t with pc := .rrfC })
  | .rrfC => (g, { t with pc := .fldOtyQ })
  | .fldOtyQ => (g, fieldAdvance W { t with fi := t.fi + 1 })
  | .addn => (g, enterClear W lg t)
  | .clr1 => ({ g with ev := upd g.ev t.cur false }, { t with pc := .clr2 })
  | .clr2 => ({ g with val := upd g.val t.cur .none }, clearAdvance W lg t)
  | .popd => ({ g with pending := g.pending.erase t.cur }, popAdvance t)
  | .unlock => ({ g with lock := none }, leaveResolve W t)
  | .frfPos => (g, { t with pc := .frfRet })
  | .frfRet => (g, startParse t)
  | .pv =>
    match t.uses with
    | [] => (g, { t with pc := .stuck })
    | u :: _ =>
      match g.fty u.fld with
      | .ref => (g, { t with pc := .tcIsev })
      | .res v => (g, afterType W t u v false)
  | .tcIsev =>
    match t.uses with
    | [] => (g, { t with pc := .stuck })
    | u :: _ => (g, { t with pc := if g.ev u.fld then .tcRdval else .pvErr })
  | .tcRdval =>
    match t.uses with
    | [] => (g, { t with pc := .stuck })
    | u :: _ => (g, afterType W t u (g.val u.fld) true)
  | .nested =>
    match t.uses with
    | [] => (g, { t with pc := .stuck })
    | _ :: _ => (g, { t with pc := .nested2 })
  | .nested2 => (g, { t with pc := .nestedPv })
  | .nestedPv =>
    match t.uses with
    | [] => (g, { t with pc := .stuck })
    | u :: _ => (g, if u.bad then { t with pc := .nestedErr } else nextUse t)
  | .nestedErr => (g, { t with pc := .pvErr })
  | .pvErr => (g, endCall t .perr)
  | .fin => (g, t)
  | .stuck => (g, t)

structure Sys where
  g  : G
  th : Nat → Th

def Sys.step (W : World) (lg : Bool) (s : Sys) (tid : Nat) : Sys :=
  let r := stepTh W lg tid s.g (s.th tid)
  { g := r.1, th := fun k => if k = tid then r.2 else s.th k }

/-- A schedule is the list of thread ids that take the successive steps. -/
def run (W : World) (lg : Bool) (s : Sys) (sched : List Nat) : Sys := sched.foldl (Sys.step W lg) s

def init (W : World) (prog : Nat → List Call) : Sys where
  g := G.init W
  th := fun k => { calls := prog k }

/-! ### Specification: what a call returns when it is run alone -/

def fails (W : World) (u : Use) : Bool := u.bad || (W.ref u.fld && !W.defd u.fld)

def parseOutcome (W : World) : List Use → Outcome
  | [] => .ok
  | u :: us => if fails W u then .perr else parseOutcome W us

/-- a class whose annotations name something that does not exist cannot be instantiated at all -/
def undefinedRef (W : World) : Bool := (List.range W.nf).any fun i => W.isRef i && !W.defd i

def alone (W : World) (c : Call) : Outcome :=
  if !W.isFn && undefinedRef W then .nameError else parseOutcome W c

/-- … and the value it returns alone: every keyword converted by its declared type -/
def valsOf (c : List Use) : ValTrace := c.map fun u => (u.fld, Conv.byType)

def aloneVals (W : World) (c : Call) : ValTrace := if alone W c = .ok then valsOf c else []

end Utv.C20
