import Utv.Model.C01
/-! C01 — the args parsers, the combinator loops and the field loop over an arbitrary element parser `p`:
whatever ends up in the result came out of a successful call of `p` (or, under 'preserve', is the raw input). -/
namespace Utv.C01
open Utv.Conv

theorem guard_ok {α} {x : Outcome α} {a : α} (h : guard x = .ok a) : x = .ok a := by
  cases x <;> simp [guard] at h ⊢; exact h

/-- what `itemStep` can answer -/
theorem itemStep_ok {pol : Policy} {raw : V} {x : Outcome V} {s : Option V} (h : itemStep pol raw x = .ok s) :
    (∃ y, s = some y ∧ x = .ok y) ∨ (s = none ∧ pol = .exclude) ∨ (s = some raw ∧ pol = .preserve) := by
  cases x <;> simp [itemStep] at h
  case ok y => exact Or.inl ⟨y, h.symm, rfl⟩
  all_goals
    cases pol <;> simp at h
    · exact Or.inr (Or.inl ⟨h.symm, rfl⟩)
    · exact Or.inr (Or.inr ⟨h.symm, rfl⟩)

/-! ### `_parse_seq_args` -/

theorem seqLoop_conf (p : V → Outcome V) (pol : Policy) (hpol : pol ≠ .preserve) (Q : V → Prop)
    (hp : ∀ x y, p x = .ok y → Q y) :
    ∀ xs ys, seqLoop p pol xs = .ok ys → ∀ y ∈ ys, Q y := by
  intro xs
  induction xs with
  | nil => intro ys h; simp [seqLoop] at h; subst h; simp
  | cons x xs ih =>
    intro ys h
    simp only [seqLoop] at h
    obtain ⟨s, hs, h⟩ := Outcome.bind_eq_ok.mp h
    obtain ⟨rest, hrest, h⟩ := Outcome.bind_eq_ok.mp h
    simp only [Outcome.pure_eq, Outcome.ok.injEq] at h
    subst h
    rcases itemStep_ok hs with ⟨y, rfl, hy⟩ | ⟨rfl, _⟩ | ⟨_, hpres⟩
    · intro z hz
      simp only [List.mem_cons] at hz
      rcases hz with rfl | hz
      · exact hp x _ hy
      · exact ih rest hrest z hz
    · exact ih rest hrest
    · exact absurd hpres hpol

/-! ### `_parse_tuple_args` -/

/-- the declared prefix: position `i` of the result conforms to argument `i` -/
def tuplePrefix (c : Ty → V → Prop) : List Ty → List V → Prop
  | [], _ => True
  | _ :: _, [] => False
  | t :: ts, x :: xs => c t x ∧ tuplePrefix c ts xs

theorem tuplePrefix_append (c : Ty → V → Prop) : ∀ ts xs extra, tuplePrefix c ts xs → tuplePrefix c ts (xs ++ extra) := by
  intro ts
  induction ts with
  | nil => intro xs extra _; simp [tuplePrefix]
  | cons t ts ih =>
    intro xs extra h
    cases xs with
    | nil => simp [tuplePrefix] at h
    | cons x xs => simp only [tuplePrefix, List.cons_append] at h ⊢; exact ⟨h.1, ih xs extra h.2⟩

theorem tupleLoop_conf (p : Ty → V → Outcome V) (pol : Policy) (hpol : pol ≠ .preserve) (Q : Ty → V → Prop) :
    ∀ ts xs ys, (∀ t ∈ ts, ∀ x y, p t x = .ok y → Q t y) → tupleLoop p pol ts xs = .ok ys → tuplePrefix Q ts ys := by
  intro ts
  induction ts with
  | nil => intro xs ys _ h; simp [tuplePrefix]
  | cons t ts ih =>
    intro xs ys hp h
    cases xs with
    | nil => simp [tupleLoop] at h
    | cons x xs =>
      simp only [tupleLoop] at h
      obtain ⟨s, hs, h⟩ := Outcome.bind_eq_ok.mp h
      obtain ⟨rest, hrest, h⟩ := Outcome.bind_eq_ok.mp h
      simp only [Outcome.pure_eq, Outcome.ok.injEq] at h
      subst h
      have hne : (if pol == .preserve then Policy.preserve else Policy.throw) = .throw := by
        cases pol <;> simp at hpol ⊢
      rw [hne] at hs
      rcases itemStep_ok hs with ⟨y, rfl, hy⟩ | ⟨_, hex⟩ | ⟨_, hpres⟩
      · exact ⟨hp t (by simp) x y hy, ih xs rest (fun t' ht' => hp t' (by simp [ht'])) hrest⟩
      · cases hex
      · cases hpres

theorem tupleArgs_conf (p : Ty → V → Outcome V) (o : Opts) (hpol : o.invalidItems ≠ .preserve) (Q : Ty → V → Prop)
    (ts : List Ty) (xs ys : List V) (hp : ∀ t ∈ ts, ∀ x y, p t x = .ok y → Q t y)
    (h : tupleArgs p o ts xs = .ok ys) : tuplePrefix Q ts ys := by
  unfold tupleArgs at h
  split at h
  · simp at h
  · obtain ⟨zs, hzs, h⟩ := Outcome.bind_eq_ok.mp h
    simp only [Outcome.pure_eq, Outcome.ok.injEq] at h
    subst h
    have := tupleLoop_conf p o.invalidItems hpol Q ts xs zs hp hzs
    split
    · exact tuplePrefix_append Q ts zs _ this
    · exact this

/-! ### `_parse_map_args` -/

theorem mem_dictSet {acc : List (V × V)} {k v : V} {kv : V × V} (h : kv ∈ dictSet acc k v) :
    kv ∈ acc ∨ (kv.2 = v ∧ (kv.1 = k ∨ ∃ p ∈ acc, kv.1 = p.1)) := by
  unfold dictSet at h
  split at h
  · simp only [List.mem_map] at h
    obtain ⟨p, hp, hkv⟩ := h
    split at hkv
    · subst hkv; exact Or.inr ⟨rfl, Or.inr ⟨p, hp, rfl⟩⟩
    · subst hkv; exact Or.inl hp
  · simp only [List.mem_append, List.mem_singleton] at h
    rcases h with h | rfl
    · exact Or.inl h
    · exact Or.inr ⟨rfl, Or.inl rfl⟩

theorem mapLoop_conf (pk : V → Outcome V) (pv : Option (V → Outcome V)) (o : Opts)
    (hk : o.invalidKeys ≠ .preserve) (hv : o.invalidValues ≠ .preserve) (QK QV : V → Prop)
    (hpk : ∀ x y, pk x = .ok y → QK y)
    (hpv : match pv with | none => ∀ x, QV x | some pv' => ∀ x y, pv' x = .ok y → QV y) :
    ∀ kvs acc r, (∀ kv ∈ acc, QK kv.1 ∧ QV kv.2) → mapLoop pk pv o kvs acc = .ok r → ∀ kv ∈ r, QK kv.1 ∧ QV kv.2 := by
  intro kvs
  induction kvs with
  | nil => intro acc r hacc h; simp [mapLoop] at h; subst h; exact hacc
  | cons e rest ih =>
    intro acc r hacc h
    obtain ⟨k, x⟩ := e
    simp only [mapLoop] at h
    obtain ⟨key, hkey, h⟩ := Outcome.bind_eq_ok.mp h
    rcases itemStep_ok hkey with ⟨key', rfl, hk'⟩ | ⟨rfl, _⟩ | ⟨_, hpres⟩
    · simp only at h
      obtain ⟨val, hval, h⟩ := Outcome.bind_eq_ok.mp h
      have hvalq : ∀ w, val = some w → QV w := by
        intro w hw
        subst hw
        cases pv with
        | none => exact hpv w
        | some pv' =>
          simp only at hval hpv
          rcases itemStep_ok hval with ⟨y, hy, hy'⟩ | ⟨hn, _⟩ | ⟨_, hpres⟩
          · cases hy; exact hpv x _ hy'
          · cases hn
          · exact absurd hpres hv
      cases val with
      | none => exact ih acc r hacc h
      | some w =>
        simp only at h
        split at h
        · refine ih _ r ?_ h
          intro kv hkv
          rcases mem_dictSet hkv with hin | ⟨h2, h1 | ⟨p, hp, h1⟩⟩
          · exact hacc kv hin
          · exact ⟨h1 ▸ hpk k key' hk', h2 ▸ hvalq w rfl⟩
          · exact ⟨h1 ▸ (hacc p hp).1, h2 ▸ hvalq w rfl⟩
        · simp at h
    · exact ih acc r hacc h
    · exact absurd hpres hk

/-! ### `&`, `|`, `^`, `~` -/

theorem anyStage_some (p : Ty → V → Outcome V) : ∀ ts v y, anyStage p ts v = .ok (some y) → ∃ t ∈ ts, p t v = .ok y := by
  intro ts
  induction ts with
  | nil => intro v y h; simp [anyStage] at h
  | cons t ts ih =>
    intro v y h
    simp only [anyStage] at h
    split at h
    · rename_i y' hy
      simp at h; subst h
      exact ⟨t, by simp, hy⟩
    · simp at h
    · simp at h
    · obtain ⟨t', ht', h'⟩ := ih v y h
      exact ⟨t', by simp [ht'], h'⟩

theorem xorLoop_some (p : Ty → V → Outcome V) (v : V) :
    ∀ ts acc y, xorLoop p v ts acc = .ok (some y) → acc = some y ∨ ∃ t ∈ ts, p t v = .ok y := by
  intro ts
  induction ts with
  | nil => intro acc y h; simp [xorLoop] at h; exact Or.inl h
  | cons t ts ih =>
    intro acc y h
    simp only [xorLoop] at h
    split at h
    · rename_i y' hy
      split at h
      · rcases ih _ _ h with h' | ⟨t', ht', h'⟩
        · simp at h'; subst h'
          exact Or.inr ⟨t, by simp, hy⟩
        · exact Or.inr ⟨t', by simp [ht'], h'⟩
      · simp at h
    · simp at h
    · simp at h
    · rcases ih _ _ h with h' | ⟨t', ht', h'⟩
      · exact Or.inl h'
      · exact Or.inr ⟨t', by simp [ht'], h'⟩

theorem negLoop_id (p : Ty → V → Outcome V) (ts : List Ty) (v r : V) (h : negLoop p ts v = .ok r) : r = v := by
  cases ts with
  | nil => simp [negLoop] at h; exact h.symm
  | cons t ts =>
    simp only [negLoop] at h
    split at h <;> simp at h
    exact h.symm

def Ty.isNeg : Ty → Bool
  | .neg _ => true
  | _ => false

/-- the conditions of a conjunction the result is known to satisfy: the last non-negated one and the negations
after it (a negation hands its input on unchanged; every other condition converts it) -/
def trailing : List Ty → List Ty
  | [] => []
  | t :: ts => if ts.all Ty.isNeg then t :: ts else trailing ts

/-- a run of negations hands the value through and every one of them was checked on it -/
theorem allLoop_negs (p : Ty → V → Outcome V) (hneg : ∀ ts' x y, p (.neg ts') x = .ok y → y = x) :
    ∀ ts v r, ts.all Ty.isNeg = true → allLoop p ts v = .ok r → r = v ∧ ∀ t ∈ ts, p t v = .ok v := by
  intro ts
  induction ts with
  | nil => intro v r _ h; simp [allLoop] at h; exact ⟨h.symm, by simp⟩
  | cons t ts ih =>
    intro v r hall h
    simp only [List.all_cons, Bool.and_eq_true] at hall
    simp only [allLoop] at h
    split at h
    · rename_i y hy
      have hy' := guard_ok hy
      obtain ⟨hh, htl⟩ := hall
      cases t <;> simp [Ty.isNeg] at hh
      rename_i ts'
      have : y = v := hneg ts' v y hy'
      subst this
      obtain ⟨h1, h2⟩ := ih y r htl h
      refine ⟨h1, ?_⟩
      intro t' ht'
      simp only [List.mem_cons] at ht'
      rcases ht' with rfl | ht'
      · exact hy'
      · exact h2 t' ht'
    · rename_i hne
      exact absurd h (by cases hg : guard (p t v) <;> simp_all)

theorem allLoop_conf (p : Ty → V → Outcome V) (hneg : ∀ ts' x y, p (.neg ts') x = .ok y → y = x)
    (Q : Ty → V → Prop) :
    ∀ ts v r, (∀ t ∈ ts, ∀ x y, p t x = .ok y → Q t y) → allLoop p ts v = .ok r → ∀ t ∈ trailing ts, Q t r := by
  intro ts
  induction ts with
  | nil => intro v r _ _; simp [trailing]
  | cons t ts ih =>
    intro v r hp h
    simp only [allLoop] at h
    split at h
    · rename_i y hy
      have hy' := guard_ok hy
      simp only [trailing]
      split
      · rename_i hall
        obtain ⟨h1, h2⟩ := allLoop_negs p hneg ts y r hall h
        subst h1
        intro t' ht'
        simp only [List.mem_cons] at ht'
        rcases ht' with rfl | ht'
        · exact hp _ (by simp) v _ hy'
        · exact hp t' (by simp [ht']) _ _ (h2 t' ht')
      · exact ih y r (fun t' ht' => hp t' (by simp [ht'])) h
    · rename_i hne
      exact absurd h (by cases hg : guard (p t v) <;> simp_all)

end Utv.C01
