import Utv.GenEq.Support
import Utv.Gen.Options
import Utv.Model.C10
/-!
C10 — T1 obligations: the error bookkeeping of `RuntimeContext` (`handle_error raise_error collect_tmp_error
clear_tmp_error`, utype/parser/options.py), regenerated on every run as `Utv.Gen.Options.*`, is the hand model's
`Ctx.handleError / raiseError / collectTmp / clearTmp` (`Model/C10.lean`) — including what stays in the context when
the method leaves through `raise`.

Encoding: the model's abstract value type is `Err` (an error object); the context is the `RuntimeContext` instance with
its two lists and the two options `handle_error` reads; what is raised is the error object itself (`Exc.raw`) or a
`CollectedParseError(errors=…)` (`Exc.collected`).
-/
namespace Utv.GenEq.C10
open Utv.Obj Utv.C10 Utv.Gen

abbrev E := OVal Err

def encErrs (es : List Err) : E := .seq .list (es.map .val)

def encOptNat : Option Nat → E
  | none => .none
  | some n => .int n

/-- the `RuntimeContext` a `Ctx` stands for (the attributes the four methods touch) -/
def encCtx (c : Ctx) : E :=
  .obj "RuntimeContext" [
    ("errors", encErrs c.errors),
    ("tmp_errors", encErrs c.tmp),
    ("options", .obj "Options" [("collect_errors", .bool c.mode.collect), ("max_errors", encOptNat c.mode.maxErrors)])]

/-- how a method ends: returns `None`, or raises -/
def encEnd : Option Exc → Outcome Err
  | none => .ret .none
  | some (.raw e) => .raise (.val e)
  | some (.collected es) => .raise (.obj "CollectedParseError" [("errors", encErrs es)])

macro "ctx_simp" "[" ls:Lean.Parser.Tactic.simpLemma,* "]" : tactic =>
  `(tactic| obj_simp [encCtx, encErrs, encOptNat, encEnd, getattr, setattr, lookupAttr, setAttrL, append, extend, toList, iter,
      len, ge, le, intOf?, OVal.isNone, Ctx.handleError, Ctx.raiseError, Ctx.collectTmp, Ctx.clearTmp, $ls,*])

theorem C10_gen_handle_error (W : World Err) (c : Ctx) (e : Err) (force : Bool) :
    Options.handle_error W (encCtx c) (.val e) (.bool force)
      = .ok (encCtx (c.handleError e force).1, encEnd (c.handleError e force).2) := by
  gen_obligation "C10_gen_handle_error: the regenerated code (Utv.Gen) is no longer equal to the hand model here" by
    obtain ⟨⟨collect, maxErrors⟩, o, errors, tmp⟩ := c
    cases force <;> cases collect <;> cases maxErrors <;> ctx_simp [Options.handle_error]
    rename_i m
    by_cases hm : m ≤ errors.length + 1
    · have hm' : (m : Int) ≤ (errors.length : Int) + 1 := by omega
      cases tmp <;> simp [hm, hm']
    · have hm' : ¬ (m : Int) ≤ (errors.length : Int) + 1 := by omega
      simp [hm, hm']

theorem C10_gen_raise_error (W : World Err) (c : Ctx) :
    Options.raise_error W (encCtx c) = .ok (encCtx c, encEnd c.raiseError) := by
  gen_obligation "C10_gen_raise_error: the regenerated code (Utv.Gen) is no longer equal to the hand model here" by
    obtain ⟨⟨collect, maxErrors⟩, o, errors, tmp⟩ := c
    cases errors <;> cases tmp <;> ctx_simp [Options.raise_error]

theorem C10_gen_collect_tmp_error (W : World Err) (c : Ctx) (e : Err) :
    Options.collect_tmp_error W (encCtx c) (.val e) = .ok (encCtx (c.collectTmp e), .ret .none) := by
  gen_obligation "C10_gen_collect_tmp_error: the regenerated code (Utv.Gen) is no longer equal to the hand model here" by
    ctx_simp [Options.collect_tmp_error]

theorem C10_gen_clear_tmp_error (W : World Err) (c : Ctx) :
    Options.clear_tmp_error W (encCtx c) = .ok (encCtx c.clearTmp, .ret .none) := by
  gen_obligation "C10_gen_clear_tmp_error: the regenerated code (Utv.Gen) is no longer equal to the hand model here" by
    ctx_simp [Options.clear_tmp_error]

end Utv.GenEq.C10
