/-
C20 (lazily initialised parser attributes) — model of the first accesses, from several threads, of an attribute a
parser builds on first use and keeps: `FunctionParser.positional_fields` (utype/parser/func.py, a
`functools.cached_property`; `positional_only_fields`, `positional_params`, `BaseParser.property_fields` have the same
shape).  The protocol of `functools.cached_property` (Python >= 3.12: no lock): the instance `__dict__` is looked up;
on a miss the method body runs — it builds a *local* dict line by line —, and the finished value is stored into the
instance `__dict__` in one step when the body returns.  A later access returns the stored object.

  pf:new   fields = {}
  pf:for   for index, key in self.pos_key_map.items():     (one event per item, one more when exhausted)
  pf:get       field = self.get_field(key)
  pf:chk       if not field:
  pf:cont          continue
  pf:put       fields[index] = field
  pf:ret   return fields                                    (+ the store into `__dict__`, same step)

One atomic step = one of these lines; every other line a thread executes is an `other` step, during which it may
read the attribute (ghost `views` records what it would see).  `early = true` is the anti-pattern of a hand-written
lazy attribute that publishes the empty dict first and fills it in place (seeded change C20-r2-C).
-/
namespace Utv.C20.Lazy

structure World where
  n        : Nat            -- entries of `pos_key_map`
  hasField : Nat → Bool     -- `self.get_field(key)` finds a field for entry i

/-- the complete index -/
def full (W : World) : List Nat := (List.range W.n).filter W.hasField

inductive PC | out | new | forL | get | chk | cont | put | ret
  deriving DecidableEq, Repr

def PC.label : PC → String
  | .out => "<out>" | .new => "pf:new" | .forL => "pf:for" | .get => "pf:get" | .chk => "pf:chk" | .cont => "pf:cont" | .put => "pf:put"
  | .ret => "pf:ret"

structure Th where
  pc    : PC := .out
  i     : Nat := 0                       -- next entry of the iteration
  loc   : List Nat := []                 -- the local `fields` (keys filled so far, in order)
  miss  : Bool := true                   -- ghost: the attribute was not there when this thread last looked
  rets  : List (List Nat) := []          -- what the getter returned to this thread after building
  views : List (Option (List Nat)) := [] -- ghost: what an access during each of its other steps would have seen

structure Sys where
  slot : Option (List Nat)               -- instance.__dict__['positional_fields'] (the keys of the stored dict)
  th   : Nat → Th

def setTh (s : Sys) (k : Nat) (t : Th) (slot : Option (List Nat)) : Sys :=
  { slot := slot, th := fun j => if j = k then t else s.th j }

/-- a step of thread `k` outside the getter: whatever it does, an access of the attribute sees `slot` -/
def other (s : Sys) (k : Nat) : Sys :=
  let t := s.th k
  setTh s k { t with views := t.views ++ [s.slot], miss := s.slot.isNone } s.slot

/-- a step of thread `k` inside the getter body (`early`: publish the empty dict at `pf:new`, fill it in place) -/
def body (W : World) (early : Bool) (s : Sys) (k : Nat) : Sys :=
  let t := s.th k
  match t.pc with
  | .out => setTh s k { t with pc := .new } s.slot                      -- entering the body (the miss was earlier)
  | .new =>
    if early then setTh s k { t with pc := .forL, i := 0, loc := [] } (some [])
    else setTh s k { t with pc := .forL, i := 0, loc := [] } s.slot
  | .forL =>
    if t.i < W.n then setTh s k { t with pc := .get } s.slot else setTh s k { t with pc := .ret } s.slot
  | .get => setTh s k { t with pc := .chk } s.slot
  | .chk =>
    if W.hasField t.i then setTh s k { t with pc := .put } s.slot
    else setTh s k { t with pc := .cont } s.slot
  | .cont => setTh s k { t with pc := .forL, i := t.i + 1 } s.slot           -- continue
  | .put =>
    if early then
      -- the shared dict is the one being filled
      setTh s k { t with pc := .forL, i := t.i + 1, loc := t.loc ++ [t.i] } ((s.slot.getD []) ++ [t.i])
    else setTh s k { t with pc := .forL, i := t.i + 1, loc := t.loc ++ [t.i] } s.slot
  | .ret =>
    if early then setTh s k { t with pc := .out, rets := t.rets ++ [s.slot.getD []] } s.slot
    else setTh s k { t with pc := .out, rets := t.rets ++ [t.loc] } (some t.loc)   -- one store of the finished dict

/-- an event of the schedule: (thread, is it a line of the getter body?) -/
def step (W : World) (early : Bool) (s : Sys) (e : Nat × Bool) : Sys :=
  if e.2 then body W early s e.1 else other s e.1

def run (W : World) (early : Bool) (s : Sys) (sched : List (Nat × Bool)) : Sys := sched.foldl (step W early) s

def init : Sys := { slot := none, th := fun _ => {} }

end Utv.C20.Lazy
