import Utv.Lemmas.C15Object2
/-! Putting the shapes together: one schema object, given the induction hypotheses for its members. -/
set_option linter.unusedSimpArgs false
set_option linter.unusedVariables false
namespace Utv.C15
open Utv.JsonSchema

theorem validateEntry_simple (C : Ctx) (all : Obj) (k name : String) (v j : Json) (h : (k, name) ∈ simpleKws) :
    validateEntry C all k v j = checkSimple C k v j := by
  simp [simpleKws] at h
  rcases h with ⟨rfl, rfl⟩ | ⟨rfl, rfl⟩ | ⟨rfl, rfl⟩ | ⟨rfl, rfl⟩ | ⟨rfl, rfl⟩ | ⟨rfl, rfl⟩ | ⟨rfl, rfl⟩ | ⟨rfl, rfl⟩ |
    ⟨rfl, rfl⟩ | ⟨rfl, rfl⟩ | ⟨rfl, rfl⟩ | ⟨rfl, rfl⟩ | ⟨rfl, rfl⟩ | ⟨rfl, rfl⟩ | ⟨rfl, rfl⟩ <;> simp [validateEntry]

/-- object keywords say nothing about an array, array keywords nothing about an object -/
theorem object_kw_vacuous_arr (C : Ctx) (all : Obj) (k : String) (v : Json) (xs : List Json)
    (hk : k ∈ ["properties", "required", "additionalProperties", "dependentRequired"]) :
    validateEntry C all k v (.arr xs) = true := by
  simp at hk
  rcases hk with rfl | rfl | rfl | rfl <;> simp [validateEntry, checkSimple, kRequired, kDependentRequired] <;> cases v <;> simp

theorem array_kw_vacuous_obj (C : Ctx) (all : Obj) (k : String) (v : Json) (o : Obj) (hk : k = "items" ∨ k = "prefixItems") :
    validateEntry C all k v (.obj o) = true := by
  rcases hk with rfl | rfl <;> simp [validateEntry] <;> cases v <;> simp

/-- the type built for the schema itself: the value is of the schema's type and every keyword about that type holds -/
theorem base_ok (N : Names) (R : Rx) (hR : ∀ p x, R.full p x = true → R.search p x = true) (C : Ctx) (hC : C.search = R.search)
    (kvs : Obj) (j : Json) (hd : strDistinct (keys kvs) = true) (hf : fragKws kvs kvs = true)
    (hne : emptyEnum kvs = false)
    (ty : Option String) (hty : ∀ t, ty = some t → primitiveNames.contains t = true)
    (t0 : Ty) (hb : baseType N kvs (parseKws N kvs) ty = some t0) (hc : conforms R t0 j = true)
    (hone : KnownDefect.oneOfKws C kvs kvs j = true)
    (ih1 : ∀ k v, (k, v) ∈ kvs → SubSound N R C v)
    (ihA : ∀ k ss, (k, Json.arr ss) ∈ kvs → ∀ s ∈ ss, SubSound N R C s)
    (ihP : ∀ k ps, (k, Json.obj ps) ∈ kvs → ∀ p ∈ ps, SubSound N R C p.2) :
    (∀ t, ty = some t → typeIs t j = true) ∧
    ∀ k v, (k, v) ∈ kvs → ((∃ name, (k, name) ∈ simpleKws) ∨
        k ∈ ["items", "prefixItems", "properties", "required", "additionalProperties", "dependentRequired"]) →
      validateEntry C kvs k v j = true := by
  have hprim : ∀ t, (ty <|> inferType kvs) = some t → primitiveNames.contains t = true := by
    intro t ht
    cases ty with
    | some t' => simp at ht; subst ht; exact hty t' rfl
    | none => simp at ht; exact inferType_prim kvs t ht
  have hsub : ∀ t, ty = some t → (ty <|> inferType kvs) = some t := by
    intro t ht; subst ht; simp
  -- enough: the primitive type of the value, the kept constraints, the structural keywords
  suffices h : (∀ t, (ty <|> inferType kvs) = some t → typeIs t j = true) ∧
      (∀ c ∈ getConstraints kvs (ty <|> inferType kvs), sat R c j = true) ∧
      (∀ k v, (k, v) ∈ kvs → k ∈ ["items", "prefixItems", "properties", "required", "additionalProperties", "dependentRequired"] →
        validateEntry C kvs k v j = true) by
    refine ⟨fun t ht => h.1 t (hsub t ht), fun k v hm hk => ?_⟩
    rcases hk with ⟨name, hn⟩ | hk
    · rw [validateEntry_simple C kvs k name v j hn]
      exact simple_ok R hR C hC kvs _ j (fun t ht => ⟨hprim t ht, h.1 t ht⟩) h.2.1 k name v hn hm
    · exact h.2.2 k v hm hk
  by_cases ha : ((ty <|> inferType kvs) == some "array") = true
  · have hta : (ty <|> inferType kvs) = some "array" := by simpa using ha
    unfold baseType at hb
    simp only [ha, if_true] at hb
    rw [hta] at hb
    obtain ⟨⟨xs, rfl⟩, hcons, hitems⟩ := array_ok N R C kvs j hd hf _ t0 hb hc hone ih1 ihA
    rw [hta]
    refine ⟨fun t ht => by cases ht; simp [typeIs], hcons, fun k v hm hk => ?_⟩
    simp at hk
    rcases hk with rfl | rfl | rfl | rfl | rfl | rfl
    · exact hitems _ v hm (Or.inl rfl)
    · exact hitems _ v hm (Or.inr rfl)
    · exact object_kw_vacuous_arr C kvs _ v xs (by simp)
    · exact object_kw_vacuous_arr C kvs _ v xs (by simp)
    · exact object_kw_vacuous_arr C kvs _ v xs (by simp)
    · exact object_kw_vacuous_arr C kvs _ v xs (by simp)
  · have ha' : ((ty <|> inferType kvs) == some "array") = false := by simpa using ha
    by_cases ho : ((ty <|> inferType kvs) == some "object") = true
    · have hto : (ty <|> inferType kvs) = some "object" := by simpa using ho
      unfold baseType at hb
      simp only [ha', ho, Bool.false_eq_true, if_false, if_true] at hb
      rw [hto] at hb
      obtain ⟨⟨o, rfl⟩, hcons, hobj⟩ := object_ok N R C kvs j hd hf t0 hb hc hone ih1 ihP
      rw [hto]
      refine ⟨fun t ht => by cases ht; simp [typeIs], hcons, fun k v hm hk => ?_⟩
      simp at hk
      rcases hk with rfl | rfl | rfl | rfl | rfl | rfl
      · exact array_kw_vacuous_obj C kvs _ v o (Or.inl rfl)
      · exact array_kw_vacuous_obj C kvs _ v o (Or.inr rfl)
      · exact hobj _ v hm (by simp)
      · exact hobj _ v hm (by simp)
      · exact hobj _ v hm (by simp)
      · exact hobj _ v hm (by simp)
    · have ho' : ((ty <|> inferType kvs) == some "object") = false := by simpa using ho
      obtain ⟨htyp, hcons⟩ := scalar_ok N R kvs j hd hf hne ty hty ha' ho' t0 hb hc
      refine ⟨htyp, hcons, fun k v hm hk => ?_⟩
      cases hty' : (ty <|> inferType kvs) with
      | some t =>
        have h1 : (t == "array") = false := by rw [hty'] at ha'; simpa using ha'
        have h2 : (t == "object") = false := by rw [hty'] at ho'; simpa using ho'
        exact structural_vacuous_scalar C kvs k v j (typeIs_scalar t j (hprim t hty') h1 h2 (htyp t hty')) hk
      | none =>
        have hinf : inferType kvs = none := by
          cases ty with
          | some t => simp at hty'
          | none => simpa using hty'
        have := inferType_none_absent kvs hinf k (by
          simp at hk; simp [typedKeywords']
          rcases hk with rfl | rfl | rfl | rfl | rfl | rfl <;> simp)
        rw [hasKey_of_mem kvs k v hm] at this
        simp at this

/-- `parse_type` once the primitive type is fixed: everything but the `type` member -/
theorem with_ok (N : Names) (R : Rx) (hR : ∀ p x, R.full p x = true → R.search p x = true) (C : Ctx) (hC : C.search = R.search)
    (kvs : Obj) (j : Json) (hd : strDistinct (keys kvs) = true) (hf : fragKws kvs kvs = true)
    (hne : emptyEnum kvs = false)
    (ty : Option String) (hty : ∀ t, ty = some t → primitiveNames.contains t = true)
    (T : Ty) (hw : assembleWith N kvs (parseKws N kvs) ty = some T) (hc : conforms R T j = true)
    (hone : KnownDefect.oneOfKws C kvs kvs j = true)
    (ih1 : ∀ k v, (k, v) ∈ kvs → SubSound N R C v)
    (ihA : ∀ k ss, (k, Json.arr ss) ∈ kvs → ∀ s ∈ ss, SubSound N R C s)
    (ihP : ∀ k ps, (k, Json.obj ps) ∈ kvs → ∀ p ∈ ps, SubSound N R C p.2) :
    (∀ t, ty = some t → typeIs t j = true) ∧
    ∀ k v, (k, v) ∈ kvs → k ≠ "type" → validateEntry C kvs k v j = true := by
  unfold assembleWith at hw
  cases hb : baseType N kvs (parseKws N kvs) ty with
  | none => simp [hb] at hw
  | some t0 =>
    simp only [hb] at hw
    cases hcs : conditions kvs (parseKws N kvs) with
    | none => simp [hcs] at hw
    | some cs =>
      simp only [hcs] at hw
      have hparts : conforms R t0 j = true ∧ ∀ c ∈ cs, conforms R c j = true := by
        cases cs with
        | nil => simp at hw; subst hw; exact ⟨hc, by simp⟩
        | cons c rest =>
          simp at hw
          subst hw
          have := conforms_combine_all R (t0 :: c :: rest) j hc
          exact ⟨this t0 (by simp), fun c' hc' => this c' (List.mem_cons_of_mem _ hc')⟩
      obtain ⟨hbase, hconds⟩ := hparts
      have hbo := base_ok N R hR C hC kvs j hd hf hne ty hty t0 hb hbase hone ih1 ihA ihP
      refine ⟨hbo.1, fun k v hm hk => ?_⟩
      have hfe := fragKws_mem kvs kvs hf k v hm
      have hfk : fragmentKeywords.contains k = true := by
        simp only [fragEntry, Bool.and_eq_true] at hfe; exact hfe.1
      rcases frag_keyword_cases k hfk with rfl | rfl | h | h | h
      · exact absurd rfl hk
      · exact validateEntry_annotation C kvs _ v j (by simp [assertionKeywords])
      · exact hbo.2 k v hm (Or.inl h)
      · exact hbo.2 k v hm (Or.inr h)
      · exact cond_ok N R C kvs cs j hd hf hcs hconds hone ihA k v hm h

/-- one schema object, given the induction hypotheses for its members -/
theorem obj_ok (N : Names) (R : Rx) (hR : ∀ p x, R.full p x = true → R.search p x = true) (C : Ctx) (hC : C.search = R.search)
    (kvs : Obj)
    (ih1 : ∀ k v, (k, v) ∈ kvs → SubSound N R C v)
    (ihA : ∀ k ss, (k, Json.arr ss) ∈ kvs → ∀ s ∈ ss, SubSound N R C s)
    (ihP : ∀ k ps, (k, Json.obj ps) ∈ kvs → ∀ p ∈ ps, SubSound N R C p.2) : SubSound N R C (.obj kvs) := by
  intro T j hfr hp hc hone
  rw [inFragment_obj] at hfr
  simp only [Bool.and_eq_true] at hfr
  obtain ⟨hd, hf⟩ := hfr
  rw [parse_obj] at hp
  rw [oneOfAtMost_obj] at hone
  rw [validate_obj, validateKws_eq_all]
  apply List.all_eq_true.mpr
  rintro ⟨k, v⟩ hm
  simp only
  unfold assemble at hp
  by_cases hee : emptyEnum kvs = true
  · rw [if_pos hee] at hp
    cases hp
    simp [Ty.never, conforms, conformsAny] at hc
  have hnee : emptyEnum kvs = false := by simpa using hee
  rw [if_neg hee] at hp
  cases hlt : lookup "type" kvs with
  | none =>
    simp only [hlt] at hp
    have := with_ok N R hR C hC kvs j hd hf hnee none (by intro t ht; cases ht) T hp hc hone ih1 ihA ihP
    apply this.2 k v hm
    intro hk; subst hk
    rw [lookup_of_mem_distinct kvs hd _ _ hm] at hlt
    simp at hlt
  | some tv =>
    have htm := mem_of_lookup kvs _ _ hlt
    have hfe := fragKws_mem kvs kvs hf _ _ htm
    simp only [fragEntry, Bool.and_eq_true] at hfe
    have hft := hfe.2
    simp [manyKeywords, fragSimple] at hft
    cases tv with
    | str t =>
      simp at hft
      have hne : (t == "") = false := by
        simp [primitiveNames] at hft
        rcases hft with rfl | rfl | rfl | rfl | rfl | rfl | rfl <;> simp
      simp only [hlt, hne, Bool.false_eq_true, if_false] at hp
      have := with_ok N R hR C hC kvs j hd hf hnee (some t) (by intro t' ht'; cases ht'; simpa using hft) T hp hc hone ih1 ihA ihP
      by_cases hk : k = "type"
      · subst hk
        have hv : v = .str t := by
          have := lookup_of_mem_distinct kvs hd _ _ hm
          rw [hlt] at this; simpa using this.symm
        subst hv
        simp [validateEntry, checkSimple, checkType]
        exact this.1 t rfl
      · exact this.2 k v hm hk
    | arr ts =>
      simp only [hlt] at hp
      simp at hft
      obtain ⟨hne, hwf⟩ := hft
      simp only [wfType, Bool.and_eq_true] at hwf
      have hstrs : ∀ x ∈ ts, ∃ t, x = .str t ∧ primitiveNames.contains t = true := by
        intro x hx
        have := List.all_eq_true.mp hwf.1 x hx
        cases x <;> simp at this
        exact ⟨_, rfl, by simpa using this⟩
      cases hts : allSome ((ts.filterMap strOf).map fun t => assembleWith N kvs (parseKws N kvs) (some t)) with
      | none => simp [hts] at hp
      | some Ts =>
        simp [hts] at hp
        subst hp
        have hmap := allSome_eq_some _ _ hts
        have hTs : Ts ≠ [] := by
          intro h0; subst h0
          cases ts with
          | nil => simp at hne
          | cons x rest =>
            obtain ⟨t, rfl, _⟩ := hstrs x (by simp)
            simp [strOf] at hmap
        obtain ⟨T', hT', hcT'⟩ := conforms_combine_any R .any (Or.inl rfl) Ts hTs j hc
        have : some T' ∈ Ts.map some := List.mem_map.mpr ⟨T', hT', rfl⟩
        rw [← hmap] at this
        obtain ⟨t, htm2, hte⟩ := List.mem_map.mp this
        obtain ⟨x, hx, hxs⟩ := List.mem_filterMap.mp htm2
        obtain ⟨t', rfl, hpt⟩ := hstrs x hx
        simp [strOf] at hxs
        subst hxs
        have hw := with_ok N R hR C hC kvs j hd hf hnee (some t') (by intro t'' ht''; cases ht''; exact hpt) T' hte hcT' hone ih1 ihA ihP
        by_cases hk : k = "type"
        · subst hk
          have hv : v = .arr ts := by
            have := lookup_of_mem_distinct kvs hd _ _ hm
            rw [hlt] at this; simpa using this.symm
          subst hv
          simp [validateEntry, checkSimple, checkType]
          exact ⟨_, hx, by simpa using hw.1 t' rfl⟩
        · exact hw.2 k v hm hk
    | _ => simp at hft

end Utv.C15
