import Utv.Model.C15
import Utv.Lemmas.C13Json
namespace Utv.C15
open Utv.JsonSchema

theorem C15_never_conforms (R : Rx) (j : Json) : conforms R Ty.never j = false := by
  simp [Ty.never, conforms, conformsAny]

end Utv.C15
