import Utv.Lemmas.C05Pred
/-! Folding per-field contracts into a parser state; equality of states as finite maps / sets. -/
namespace Utv.C05
open Spec

variable {V : Type}

def foldOut (out : PField V → FieldOut V) (l : List (PField V)) (st : St V) : St V :=
  l.foldl (fun st g => applyOut g (out g) st) st

@[simp] theorem foldOut_nil (out : PField V → FieldOut V) (st : St V) : foldOut out [] st = st := rfl

@[simp] theorem foldOut_cons (out : PField V → FieldOut V) (g : PField V) (l : List (PField V)) (st : St V) :
    foldOut out (g :: l) st = foldOut out l (applyOut g (out g) st) := rfl

theorem foldOut_append (out : PField V → FieldOut V) (l₁ l₂ : List (PField V)) (st : St V) :
    foldOut out (l₁ ++ l₂) st = foldOut out l₂ (foldOut out l₁ st) := by
  unfold foldOut; rw [List.foldl_append]

theorem foldOut_errs (out : PField V → FieldOut V) (l : List (PField V)) (st : St V) (e : Err) :
    e ∈ (foldOut out l st).errs ↔ e ∈ st.errs ∨ ∃ g ∈ l, e ∈ (out g).errs := by
  induction l generalizing st with
  | nil => simp
  | cons g l ih =>
    rw [foldOut_cons, ih]
    simp only [applyOut, List.mem_append, List.mem_cons, exists_eq_or_imp]
    constructor
    · rintro ((h | h) | h)
      · exact Or.inl h
      · exact Or.inr (Or.inl h)
      · exact Or.inr (Or.inr h)
    · rintro (h | h | h)
      · exact Or.inl (Or.inl h)
      · exact Or.inl (Or.inr h)
      · exact Or.inr h

theorem foldOut_deps (out : PField V → FieldOut V) (l : List (PField V)) (st : St V) (d : Key) :
    d ∈ (foldOut out l st).deps ↔ d ∈ st.deps ∨ ∃ g ∈ l, (out g).active = true ∧ d ∈ g.deps := by
  induction l generalizing st with
  | nil => simp
  | cons g l ih =>
    rw [foldOut_cons, ih]
    simp only [applyOut, List.mem_cons, exists_eq_or_imp]
    cases ha : (out g).active
    · simp
    · simp only [if_true, List.mem_append, true_and]
      constructor
      · rintro ((h | h) | h)
        · exact Or.inl h
        · exact Or.inr (Or.inl h)
        · exact Or.inr (Or.inr h)
      · rintro (h | h | h)
        · exact Or.inl (Or.inl h)
        · exact Or.inl (Or.inr h)
        · exact Or.inr h

theorem foldOut_unprov (out : PField V → FieldOut V) (l : List (PField V)) (st : St V) (n : Key) :
    n ∈ (foldOut out l st).unprov ↔ n ∈ st.unprov ∨ ∃ g ∈ l, (out g).provided = false ∧ g.name = n := by
  induction l generalizing st with
  | nil => simp
  | cons g l ih =>
    rw [foldOut_cons, ih]
    simp only [applyOut, List.mem_cons, exists_eq_or_imp]
    cases ha : (out g).provided
    · simp only [Bool.false_eq_true, if_false, List.mem_append, List.mem_singleton, true_and]
      constructor
      · rintro ((h | h) | h)
        · exact Or.inl h
        · exact Or.inr (Or.inl h.symm)
        · exact Or.inr (Or.inr h)
      · rintro (h | h | h)
        · exact Or.inl (Or.inl h)
        · exact Or.inl (Or.inr h.symm)
        · exact Or.inr h
    · simp

theorem foldOut_result_other (out : PField V → FieldOut V) (l : List (PField V)) (st : St V) (n : Key)
    (hn : n ∉ l.map (·.name)) : dget n (foldOut out l st).result = dget n st.result := by
  induction l generalizing st with
  | nil => rfl
  | cons g l ih =>
    simp only [List.map_cons, List.mem_cons, not_or] at hn
    rw [foldOut_cons, ih _ hn.2]
    simp only [applyOut]
    cases (out g).value with
    | none => rfl
    | some v =>
      simp only; rw [dget_dset]
      have : ¬ g.name = n := fun e => hn.1 e.symm
      simp [this]

theorem foldOut_result_mem (out : PField V → FieldOut V) (l : List (PField V)) (st : St V)
    (hnd : (l.map (·.name)).Nodup) {g : PField V} (hg : g ∈ l) :
    dget g.name (foldOut out l st).result = ((out g).value).orElse (fun _ => dget g.name st.result) := by
  induction l generalizing st with
  | nil => simp at hg
  | cons x l ih =>
    simp only [List.map_cons, List.nodup_cons] at hnd
    rw [foldOut_cons]
    rcases List.mem_cons.mp hg with h | h
    · subst h
      rw [foldOut_result_other _ _ _ _ hnd.1]
      simp only [applyOut]
      cases (out g).value with
      | none => rfl
      | some v => simp [dget_dset]
    · rw [ih _ hnd.2 h]
      have hne : x.name ≠ g.name := by
        intro e; apply hnd.1; rw [e]; exact List.mem_map_of_mem (f := (·.name)) h
      simp only [applyOut]
      cases (out x).value with
      | none => rfl
      | some v => simp only; rw [dget_dset]; simp [hne]

/-! ### states equal as finite maps / sets -/

structure StEq (a b : St V) : Prop where
  result : ∀ k, dget k a.result = dget k b.result
  deps : ∀ d, d ∈ a.deps ↔ d ∈ b.deps
  unprov : ∀ n, n ∈ a.unprov ↔ n ∈ b.unprov
  errs : ∀ e, e ∈ a.errs ↔ e ∈ b.errs

theorem StEq.refl (a : St V) : StEq a a := ⟨fun _ => rfl, fun _ => Iff.rfl, fun _ => Iff.rfl, fun _ => Iff.rfl⟩

theorem StEq.symm {a b : St V} (h : StEq a b) : StEq b a :=
  ⟨fun k => (h.result k).symm, fun d => (h.deps d).symm, fun n => (h.unprov n).symm, fun e => (h.errs e).symm⟩

theorem StEq.trans {a b c : St V} (h₁ : StEq a b) (h₂ : StEq b c) : StEq a c :=
  ⟨fun k => (h₁.result k).trans (h₂.result k), fun d => (h₁.deps d).trans (h₂.deps d),
   fun n => (h₁.unprov n).trans (h₂.unprov n), fun e => (h₁.errs e).trans (h₂.errs e)⟩

theorem contains_congr {l₁ l₂ : List Key} (h : ∀ x, x ∈ l₁ ↔ x ∈ l₂) (n : Key) : l₁.contains n = l₂.contains n := by
  rw [Bool.eq_iff_iff]; simp [h n]

theorem isEmpty_congr {l₁ l₂ : List Key} (h : ∀ x, x ∈ l₁ ↔ x ∈ l₂) : l₁.isEmpty = l₂.isEmpty := by
  cases l₁ with
  | nil =>
    cases l₂ with
    | nil => rfl
    | cons y ys => exact absurd ((h y).2 (by simp)) (by simp)
  | cons x xs =>
    cases l₂ with
    | nil => exact absurd ((h x).1 (by simp)) (by simp)
    | cons y ys => rfl

/-- the `lack` set of the dependency check -/
def lackOf (P : Parser V) (st : St V) : List Key :=
  (P.fields.map (·.2.name)).filter fun n =>
    st.deps.contains n && (st.unprov.contains n || !dhas n st.result)

theorem lackOf_congr (P : Parser V) {a b : St V} (h : StEq a b) : lackOf P a = lackOf P b := by
  unfold lackOf
  congr 1
  funext n
  rw [contains_congr h.deps n, contains_congr h.unprov n]
  unfold dhas
  rw [h.result n]

theorem depsCheck_eq (P : Parser V) (st : St V) :
    depsCheck P st = if (lackOf P st).isEmpty then st else { st with errs := st.errs ++ [.depsAbsence (lackOf P st)] } := by
  unfold depsCheck
  by_cases h : st.deps.isEmpty = true
  · have : lackOf P st = [] := by
      unfold lackOf
      rw [List.filter_eq_nil_iff]
      intro n _
      have : st.deps = [] := by simpa using h
      simp [this]
    simp [h, this]
  · simp only [h, Bool.false_eq_true, if_false]
    rfl

theorem depsCheck_congr (P : Parser V) {a b : St V} (h : StEq a b) : StEq (depsCheck P a) (depsCheck P b) := by
  rw [depsCheck_eq, depsCheck_eq, lackOf_congr P h]
  by_cases he : (lackOf P b).isEmpty = true
  · simpa [he] using h
  · simp only [he, Bool.false_eq_true, if_false]
    exact ⟨h.result, h.deps, h.unprov, fun e => by simp [h.errs e]⟩

end Utv.C05
