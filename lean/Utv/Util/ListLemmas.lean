/-! Small list lemmas shared by the property files (core Lean only). -/
namespace Utv

theorem List.rev_ind {α : Type _} {P : List α → Prop} (nil : P [])
    (snoc : ∀ l a, P l → P (l ++ [a])) : ∀ l, P l := by
  intro l
  rw [← List.reverse_reverse l]
  induction l.reverse with
  | nil => exact nil
  | cons a l ih => simpa using snoc _ a ih

end Utv
