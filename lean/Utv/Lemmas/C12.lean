import Utv.Model.Conv
/-! Helper lemmas for the C12 theorems: how the two preferences act on `_attempt_from`,
`_from_byte_like`, `_attempt_from_number`. -/
namespace Utv.C12
open Utv.Conv Utv.Conv.Outcome
open Utv.Py (FloatV DecV NumV Q)

/-- `x` only restricts `y`: whatever `x` returns, `y` returns the same -/
def Sub {α} (x y : Outcome α) : Prop := ∀ r, x = .ok r → y = .ok r

theorem Sub.refl {α} (x : Outcome α) : Sub x x := fun _ h => h

theorem Sub.bind {α β} {x y : Outcome α} {f g : α → Outcome β}
    (h : Sub x y) (hf : ∀ a, Sub (f a) (g a)) : Sub (x >>= f) (y >>= g) := by
  intro r hr
  obtain ⟨a, ha, hfa⟩ := Outcome.bind_eq_ok.mp hr
  rw [h a ha]
  exact hf a r hfa

theorem Sub.of_not_ok {α} {x y : Outcome α} (h : ∀ r, x ≠ .ok r) : Sub x y :=
  fun r hr => absurd hr (h r)

theorem attemptFrom_ndl (E : Env) (v : V) :
    Sub (attemptFrom E ⟨false, true⟩ v) (attemptFrom E ⟨false, false⟩ v) := by
  intro r
  cases v <;> simp [attemptFrom]
  case seq k c xs =>
    cases xs with
    | nil => simp
    | cons x xs =>
      cases xs with
      | nil => simp
      | cons y ys => by_cases h : multi (V.seq k c (x :: y :: ys)) = true <;> simp [h]

theorem decodeB_strict (P : Prims) (L : PrimLaws P) (bs : List UInt8) (s : String) :
    decodeB P true bs = .ok s → decodeB P false bs = .ok s := by
  unfold decodeB
  split
  · exact id
  · exact L.decode_strict bs s

theorem fromByteLike_ndl (P : Prims) (L : PrimLaws P) (n : Bool) (v : V) :
    Sub (fromByteLike P ⟨n, true⟩ v) (fromByteLike P ⟨n, false⟩ v) := by
  intro r
  cases v <;> simp [fromByteLike]
  case bytes k c bs =>
    intro h
    obtain ⟨s, hs, hr⟩ := Outcome.bind_eq_ok.mp h
    rw [decodeB_strict P L bs s hs]
    simpa using hr


theorem attemptFrom_ndl' (E : Env) (n : Bool) (v : V) :
    Sub (attemptFrom E ⟨n, true⟩ v) (attemptFrom E ⟨n, false⟩ v) := by
  cases n
  · exact attemptFrom_ndl E v
  · intro r h; simpa [attemptFrom] using h

/-! ### (A) `no_data_loss` only restricts, flag `no_explicit_cast` fixed -/

theorem toNull_ndl (n : Bool) (v : V) : toNull ⟨n, true⟩ v = toNull ⟨n, false⟩ v := by
  cases v <;> rfl

theorem toStr_ndl (P : Prims) (L : PrimLaws P) (E : Env) (n : Bool) (c : Nat) (v : V) :
    Sub (toStr P E ⟨n, true⟩ c v) (toStr P E ⟨n, false⟩ c v) := by
  cases v <;> try exact Sub.refl _
  all_goals
    unfold toStr
    apply Sub.bind (attemptFrom_ndl' E n _)
    intro a
    apply Sub.bind (fromByteLike_ndl P L n a)
    intro b
    exact Sub.refl _

theorem toBytes_ndl (P : Prims) (E : Env) (n : Bool) (b : BytesK) (c : Nat) (v : V) :
    Sub (toBytes P E ⟨n, true⟩ b c v) (toBytes P E ⟨n, false⟩ b c v) := by
  unfold toBytes
  apply Sub.bind (attemptFrom_ndl' E n _)
  intro a
  exact Sub.refl _

theorem pyStrip_empty : pyStrip "" = "" := by decide
theorem bracketed_empty : bracketed "" = false := by decide
attribute [local irreducible] bracketed pyStrip splitFirstSep pyLower removeAll strContains endsWith startsWith rstripChar stripL

set_option hygiene false in
/-- split the first `if`/`match` of hypothesis `h` and replay the decision in the goal -/
macro "splith" h:ident : tactic =>
  `(tactic| (split at $h:ident <;> (try (rename_i hc; simp only [hc, if_true, if_false, Bool.false_eq_true] at ⊢))))


theorem arrayTail_ndl (n : Bool) (b : SeqK) (c : Nat) (d : V) :
    Sub (arrayTail ⟨n, true⟩ b c d) (arrayTail ⟨n, false⟩ b c d) := by
  intro r
  cases d <;> simp [arrayTail]
  case dict c' kvs => by_cases hb : b = SeqK.set <;> simp [hb]

theorem arrayOfString_ndl (P : Prims) (n : Bool) (b : SeqK) (c : Nat) (s0 : String) :
    Sub (arrayOfString P ⟨n, true⟩ b c s0) (arrayOfString P ⟨n, false⟩ b c s0) := by
  intro r h
  unfold arrayOfString at h ⊢
  simp only [] at h ⊢
  split at h
  · rename_i hb
    simp only [hb, if_true]
    split at h
    · split at h
      · exact h
      · exact arrayTail_ndl n b c _ r h
    · obtain ⟨lit, hl, hr⟩ := Outcome.bind_eq_ok.mp h
      simp only [hl, Outcome.ok_bind]
      by_cases hm : multi lit = true
      · simpa [hm] using hr
      · simp only [hm] at hr ⊢
        exact arrayTail_ndl n b c lit r hr
    all_goals simp at h
  · rename_i hb
    simp only [hb]
    split at h
    · exact h
    · exact arrayTail_ndl n b c _ r h

theorem toArray_ndl (P : Prims) (L : PrimLaws P) (n : Bool) (b : SeqK) (c : Nat) (v : V) :
    Sub (toArray P ⟨n, true⟩ b c v) (toArray P ⟨n, false⟩ b c v) := by
  intro r h
  cases n
  · unfold toArray at h ⊢
    split at h
    · rename_i h1; simp only [h1, if_true]; exact h
    · rename_i h1; simp only [h1]
      split at h
      · rename_i h2; simp only [h2, if_true]; exact h
      · rename_i h2; simp only [h2]
        simp only [Bool.false_eq_true, if_false] at h ⊢
        obtain ⟨d, hd, hr⟩ := Outcome.bind_eq_ok.mp h
        simp only [fromByteLike_ndl P L false v d hd, Outcome.ok_bind]
        split at hr
        · exact arrayOfString_ndl P false b c _ r hr
        · exact arrayTail_ndl false b c _ r hr
  · simpa [toArray] using h

theorem pairsOf_true_ok : ∀ (xs : List V) (acc kvs : List (V × V)), pairsOf true xs acc = .ok kvs →
    pairsOf false xs acc = .ok kvs ∧ xs.any (fun x => isInst x .dict) = false := by
  intro xs
  induction xs with
  | nil => intro acc kvs h; simpa [pairsOf] using h
  | cons item rest ih =>
    intro acc kvs h
    unfold pairsOf at h ⊢
    by_cases hd : isInst item .dict = true
    · simp [hd] at h
    · simp only [hd, Bool.and_false, Bool.false_eq_true, if_false] at h ⊢
      split at h
      · split at h
        · rename_i hh
          simp only [hh, if_true]
          have := ih _ _ h
          simp [this.1, this.2, hd]
        · simp at h
      all_goals simp at h

theorem pairsOf_true_perr : ∀ (xs : List V) (acc : List (V × V)) (e : PErr), pairsOf true xs acc = .perr e →
    xs.any (fun x => isInst x .dict) = true ∨ ∃ e', pairsOf false xs acc = .perr e' := by
  intro xs
  induction xs with
  | nil => intro acc e h; simp [pairsOf] at h
  | cons item rest ih =>
    intro acc e h
    unfold pairsOf at h ⊢
    by_cases hd : isInst item .dict = true
    · left; simp [hd]
    · simp only [hd, Bool.and_false, Bool.false_eq_true, if_false] at h ⊢
      split at h
      · split at h
        · rename_i hh
          simp only [hh, if_true]
          rcases ih _ _ h with h1 | h1
          · left; simp [h1]
          · right; exact h1
        · rename_i hh
          right; simp [hh]
      · right; exact ⟨_, rfl⟩
      · right; exact ⟨_, rfl⟩
      all_goals simp at h

/-- known defect `dict-json-control-char`: `json.loads(strict=True)` rejects the text but `strict=False`
accepts it (a raw control character inside a JSON string); under no_data_loss `to_dict` then falls back
to `ast.literal_eval`, which may read the same text differently -/
def KnownDefect.jsonControlCharText (P : Prims) (s : String) : Bool :=
  match P.jsonLoads true s, P.jsonLoads false s with
  | .perr .jsonDecode, .ok _ => true
  | _, _ => false

theorem jsonLoadsS_agree (P : Prims) (L : PrimLaws P) (s : String)
    (h : KnownDefect.jsonControlCharText P s = false) : jsonLoadsS P true s = jsonLoadsS P false s := by
  unfold jsonLoadsS
  split
  · rfl
  · rcases L.json_strict s with h1 | ⟨h1, j, h2⟩
    · exact h1
    · simp [KnownDefect.jsonControlCharText, h1, h2] at h

theorem dictOfString_ndl (P : Prims) (L : PrimLaws P) (E : Env) (c : Nat) (s0 : String)
    (hk : KnownDefect.jsonControlCharText P s0 = false) :
    Sub (dictOfString P E ⟨false, true⟩ c s0) (dictOfString P E ⟨false, false⟩ c s0) := by
  intro r h
  unfold dictOfString at h ⊢
  dsimp only at h ⊢
  simp only [jsonLoadsS_agree P L s0 hk] at h
  split at h
  · exact h
  · split at h
    · rename_i hb
      simp only [hb, if_true]
      obtain ⟨lit, hl, h2⟩ := Outcome.bind_eq_ok.mp h
      obtain ⟨res, hres, h3⟩ := Outcome.bind_eq_ok.mp h2
      simp only [hl, Outcome.ok_bind, attemptFrom_ndl E lit res hres]
      exact h3
    · rename_i hb
      simp only [hb]
      exact h
  all_goals simp at h

/-- the text `to_dict` ends up parsing for `v` (what `_attempt_from` and `_from_byte_like` leave) -/
def dictText (P : Prims) (E : Env) (v : V) : Option String :=
  match (attemptFrom E ⟨false, false⟩ v >>= fromByteLike P ⟨false, false⟩) with
  | .ok (.str _ s) => some s
  | _ => none

def KnownDefect.jsonControlChar (P : Prims) (E : Env) (v : V) : Bool :=
  match dictText P E v with
  | some s => KnownDefect.jsonControlCharText P s
  | none => false

theorem dictRest_ndl (P : Prims) (L : PrimLaws P) (E : Env) (c : Nat) (v : V)
    (hk : KnownDefect.jsonControlChar P E v = false) :
    Sub (dictRest P E ⟨false, true⟩ c v) (dictRest P E ⟨false, false⟩ c v) := by
  intro r h
  unfold dictRest at h ⊢
  obtain ⟨d1, h1, h'⟩ := Outcome.bind_eq_ok.mp h
  obtain ⟨d2, h2, h''⟩ := Outcome.bind_eq_ok.mp h'
  have l1 := attemptFrom_ndl E v d1 h1
  have l2 := fromByteLike_ndl P L false d1 d2 h2
  simp only [l1, l2, Outcome.ok_bind]
  split at h''
  · rename_i c' s
    have : KnownDefect.jsonControlCharText P s = false := by
      simpa [KnownDefect.jsonControlChar, dictText, l1, l2] using hk
    exact dictOfString_ndl P L E c s this r h''
  · exact h''

theorem dictOfString_empty (P : Prims) (E : Env) (f : Flags) (c : Nat) (r : V) :
    dictOfString P E f c "" ≠ .ok r := by
  simp [dictOfString, jsonLoadsS, pyStrip_empty, bracketed_empty]

theorem pairsOf_map_single {α} (g : α → V) (hg : ∀ a, (∃ e, iterOf (g a) = .perr e) ∨ ∃ x, iterOf (g a) = .ok [x])
    (a : α) (rest : List α) (acc : List (V × V)) : ∃ e, pairsOf false ((a :: rest).map g) acc = .perr e := by
  simp only [List.map_cons]
  unfold pairsOf
  simp only [Bool.false_and, Bool.false_eq_true, if_false]
  rcases hg a with ⟨e, he⟩ | ⟨x, hx⟩
  · exact ⟨e, by simp [he]⟩
  · exact ⟨.valueError, by simp [hx]⟩

/-- on a value that is not `multi`, the rest of `to_dict` either builds `dict(v)` or `dict(v)` raises -/
theorem dictRest_not_multi (P : Prims) (E : Env) (f : Flags) (c : Nat) (v : V)
    (hf : f.nec = false) (hm : multi v = false) (r : V) (h : dictRest P E f c v = .ok r) :
    (∃ kvs, dictOf v = .ok kvs ∧ r = .dict c kvs) ∨ (∃ e, dictOf v = .perr e) := by
  cases v
  case str c' s =>
    cases hs : s.toList with
    | nil =>
      have hs' : s = "" := String.toList_eq_nil_iff.mp hs
      subst hs'
      exfalso
      simp [dictRest, attemptFrom, hf, fromByteLike] at h
      exact dictOfString_empty P E f c r h
    | cons a rest =>
      right
      simp only [dictOf, iterOf, Outcome.ok_bind, hs]
      exact pairsOf_map_single (fun ch => V.str 0 (String.singleton ch))
        (fun a => Or.inr ⟨_, by simp [iterOf]; rfl⟩) a rest []
  case bytes k c' bs =>
    cases bs with
    | nil =>
      exfalso
      simp [dictRest, attemptFrom, hf, fromByteLike, decodeB] at h
      exact dictOfString_empty P E f c r h
    | cons a rest =>
      right
      simp only [dictOf, iterOf, Outcome.ok_bind]
      exact pairsOf_map_single (fun (b : UInt8) => V.int 0 b.toNat)
        (fun a => Or.inl ⟨.typeError, by simp [iterOf]⟩) a rest []
  case seq k c' xs =>
    cases k <;> simp [multi] at hm
    left
    simp [dictRest, attemptFrom, hf, fromByteLike, multi, dictOf, iterOf, SeqK.isSet] at h ⊢
    obtain ⟨kvs, hk, hr⟩ := Outcome.bind_eq_ok.mp h
    exact ⟨kvs, hk, by simpa using hr.symm⟩
  case dict c' kvs' =>
    left
    simp [dictRest, attemptFrom, hf, fromByteLike, dictOf] at h ⊢
    exact h.symm
  all_goals (right; simp [dictOf, iterOf])

theorem toDict_ndl (P : Prims) (L : PrimLaws P) (E : Env) (n : Bool) (c : Nat) (v : V)
    (hk : KnownDefect.jsonControlChar P E v = false) :
    Sub (toDict P E ⟨n, true⟩ c v) (toDict P E ⟨n, false⟩ c v) := by
  intro r h
  unfold toDict at h ⊢
  split at h
  · rename_i h1; simp only [h1, if_true]; exact h
  · rename_i h1; simp only [h1]
    split at h
    · exact h
    · cases n
      · dsimp only at h ⊢
        simp only [Bool.false_eq_true, if_false, if_true] at h ⊢
        by_cases hm : multi v = true
        · simp only [hm, if_true, Bool.true_and] at h ⊢
          obtain ⟨k, c', xs, rfl⟩ : ∃ k c' xs, v = V.seq k c' xs := by
            cases v <;> simp [multi] at hm
            exact ⟨_, _, _, rfl⟩
          simp only [itemsOf]
          cases hi : (iterOf (V.seq k c' xs) >>= fun items => pairsOf true items []) with
          | ok kvs =>
            simp only [hi] at h
            obtain ⟨items, h1', h2'⟩ := Outcome.bind_eq_ok.mp hi
            have hx : items = xs := by
              simp only [iterOf] at h1'
              split at h1' <;> simp_all
            subst hx
            obtain ⟨h3, h4⟩ := pairsOf_true_ok _ _ _ h2'
            simp [h4, dictOf, h1', h3]
            simpa using h
          | perr e =>
            simp only [hi] at h
            have hl := dictRest_ndl P L E c _ hk r h
            by_cases ha : (xs.any fun x => isInst x Base.dict) = true
            · simp only [ha, if_true]; exact hl
            · simp only [ha]
              cases hio : iterOf (V.seq k c' xs) with
              | ok items =>
                have hx : items = xs := by
                  simp only [iterOf] at hio
                  split at hio <;> simp_all
                subst hx
                simp only [hio, Outcome.ok_bind] at hi
                rcases pairsOf_true_perr _ _ _ hi with h5 | ⟨e', h5⟩
                · exact absurd h5 ha
                · simp [dictOf, hio, h5]; exact hl
              | perr e' => simp [iterOf] at hio; split at hio <;> simp at hio
              | escape e' => simp [hio] at hi
              | diverge => simp [hio] at hi
              | unmodelled w => simp [hio] at hi
          | escape e => simp [hi] at h
          | diverge => simp [hi] at h
          | unmodelled w => simp [hi] at h
        · have hm' : multi v = false := by simpa using hm
          simp only [hm', Bool.false_and, Bool.false_eq_true, if_false] at h ⊢
          have hl := dictRest_ndl P L E c _ hk r h
          rcases dictRest_not_multi P E ⟨false, false⟩ c v rfl hm' r hl with ⟨kvs, h1', h2'⟩ | ⟨e, h1'⟩
          · simp [h1', h2']
          · simp [h1']; exact hl
      · dsimp only at h ⊢
        simp at h

theorem attemptFromNumber_ndl (P : Prims) (L : PrimLaws P) (E : Env) (v d : V)
    (h : attemptFromNumber P E ⟨false, true⟩ v = .ok d) :
    attemptFromNumber P E ⟨false, false⟩ v = .ok d ∨
    (d = .int 0 0 ∧ ∃ re, fZero re = true ∧ attemptFromNumber P E ⟨false, false⟩ v = .ok (.float 0 re)) ∨
    (∃ re im, d = .complex re im ∧ fZero im = true ∧ attemptFromNumber P E ⟨false, false⟩ v = .ok (.float 0 re)) := by
  unfold attemptFromNumber at h ⊢
  obtain ⟨d1, h1, h'⟩ := Outcome.bind_eq_ok.mp h
  obtain ⟨d2, h2, h''⟩ := Outcome.bind_eq_ok.mp h'
  have l1 := attemptFrom_ndl E v d1 h1
  have l2 := fromByteLike_ndl P L false d1 d2 h2
  simp only [l1, l2, Outcome.ok_bind]
  cases d2 <;> try (left; exact h'')
  case complex re im =>
    dsimp only at h'' ⊢
    simp only [Bool.not_true, Bool.false_eq_true, if_false, Bool.not_false, if_true] at h'' ⊢
    by_cases hz : fZero im = true
    · simp only [hz, if_true]
      by_cases ht : truthy (V.complex re im) = true
      · simp [ht] at h''
        right; right
        exact ⟨re, im, h''.symm, hz, rfl⟩
      · simp [ht] at h''
        right; left
        refine ⟨h''.symm, re, ?_, rfl⟩
        simp [truthy, hz] at ht
        exact ht
    · have ht : truthy (V.complex re im) = true := by simp [truthy, hz]
      simp [ht] at h''
      left
      simp [hz, h'']

/-- "an equal value of the same type": identical, or numbers of the same class that compare equal
(`Decimal('0.0')` and `Decimal('0')`) -/
def sameValue (a b : V) : Prop :=
  a = b ∨ (a.typeOf = b.typeOf ∧ ∃ x y, num? a = some x ∧ num? b = some y ∧ NumV.eq x y = true)

theorem sameValue.rfl' (a : V) : sameValue a a := Or.inl rfl

theorem fZero_normZ (f : FloatV) (h : fZero f = true) : normZ f = .fin 0 0 := by
  cases f <;> simp [fZero] at h
  simp [normZ, h]

theorem toFloat_ndl (P : Prims) (L : PrimLaws P) (E : Env) (n : Bool) (c : Nat) (v : V) :
    Sub (toFloat P E ⟨n, true⟩ c v) (toFloat P E ⟨n, false⟩ c v) := by
  intro r h
  cases n
  · unfold toFloat at h ⊢
    split at h
    · exact h
    · dsimp only at h ⊢
      simp only [Bool.false_eq_true, if_false] at h ⊢
      obtain ⟨d, hd, hr⟩ := Outcome.bind_eq_ok.mp h
      rcases attemptFromNumber_ndl P L E v d hd with h1 | ⟨rfl, re, hz, h1⟩ | ⟨re, im, rfl, hz, h1⟩
      · simp only [h1, Outcome.ok_bind]; exact hr
      · simp only [h1, Outcome.ok_bind]
        simp [floatOf, floatOfInt] at hr ⊢
        simp [fZero_normZ re hz, hr]
      · simp [floatOf] at hr
  · unfold toFloat at h ⊢
    split at h
    · exact h
    · exact h

theorem decOfFloatExact_zero (re : FloatV) (hz : fZero re = true) :
    ∃ e, decOfFloatExact re = .fin false 0 e := by
  cases re <;> simp [fZero] at hz
  rename_i m e
  subst hz
  by_cases he : e ≥ 0 <;> simp [decOfFloatExact, he]

theorem intFinish_ndl (P : Prims) (n : Bool) (c : Nat) (d : V) :
    Sub (intFinish P ⟨n, true⟩ c d) (intFinish P ⟨n, false⟩ c d) := by
  intro r h
  unfold intFinish at h ⊢
  split at h
  · simp at h
  · dsimp only at h ⊢
    split at h
    · simp at h
    · simpa using h
  all_goals simp at h

theorem intAfter_ndl (P : Prims) (n : Bool) (c : Nat) (d : V) :
    Sub (intAfter P ⟨n, true⟩ c d) (intAfter P ⟨n, false⟩ c d) := by
  intro r h
  unfold intAfter at h ⊢
  split at h
  · split at h
    · rename_i h1; simp only [h1, if_true]; exact h
    · rename_i h1; simp only [h1]
      split at h
      · rename_i h2; simp only [h2, if_true]; exact h
      · rename_i h2; simp only [h2]; exact intFinish_ndl P n c _ r h
  · split at h
    · rename_i h1; simp only [h1, if_true]; exact h
    · rename_i h1; simp only [h1]; exact intFinish_ndl P n c _ r h

theorem toInteger_ndl (P : Prims) (L : PrimLaws P) (E : Env) (n : Bool) (c : Nat) (v : V) :
    Sub (toInteger P E ⟨n, true⟩ c v) (toInteger P E ⟨n, false⟩ c v) := by
  intro r h
  cases n
  · unfold toInteger at h ⊢
    split at h
    · exact h
    · exact h
    · dsimp only at h ⊢
      simp only [Bool.false_eq_true, if_false] at h ⊢
      obtain ⟨d, hd, hr⟩ := Outcome.bind_eq_ok.mp h
      rcases attemptFromNumber_ndl P L E v d hd with h1 | ⟨rfl, re, hz, h1⟩ | ⟨re, im, rfl, hz, h1⟩
      · simp only [h1, Outcome.ok_bind]
        exact intAfter_ndl P false c d r hr
      · simp only [h1, Outcome.ok_bind]
        obtain ⟨e, he⟩ := decOfFloatExact_zero re hz
        have hl : isInstT (V.float 0 re) (Target.cls Base.int c) = false := by
          cases c <;> simp [isInstT, isInst, V.cls?, Base.sub]
        simp only [intAfter, hl, Bool.false_eq_true, if_false, intFinish, decimalOf, he]
        cases c with
        | zero =>
          simp [intAfter, intOfInst, isInstT, isInst, V.cls?, Base.sub] at hr
          by_cases h0 : e ≥ 0 <;> simp [intOfDec, h0, ← hr]
        | succ k =>
          simp [intAfter, isInstT, V.cls?, intFinish, decimalOf, intOfDec, decFinExp0] at hr
          by_cases h0 : e ≥ 0 <;> simp [intOfDec, h0, ← hr]
      · cases c <;> simp [intAfter, intFinish, isInstT, isInst, V.cls?, Base.sub, decimalOf] at hr
  · unfold toInteger at h ⊢
    split at h
    · exact h
    · exact h
    · dsimp only at h ⊢
      simp only [if_true] at h ⊢
      split at h
      · rename_i h1; simp only [h1, if_true]; exact intFinish_ndl P true c _ r h
      · simp at h

theorem toDecimal_ndl_nec (P : Prims) (L : PrimLaws P) (E : Env) (c : Nat) (v : V) :
    Sub (toDecimal P E ⟨true, true⟩ c v) (toDecimal P E ⟨true, false⟩ c v) := by
  intro r h
  unfold toDecimal at h ⊢
  split at h
  · exact h
  · dsimp only at h ⊢
    simp only [if_true] at h ⊢
    obtain ⟨d, hd, hr⟩ := Outcome.bind_eq_ok.mp h
    obtain ⟨d1, hd1, hd2⟩ := Outcome.bind_eq_ok.mp hd
    simp only [fromByteLike_ndl P L true v d1 hd1, Outcome.ok_bind]
    split at hd2
    · rename_i h1
      simp only [h1, if_true]
      simp at hd2
      subst hd2
      exact hr
    · simp at hd2

theorem toDecimal_ndl_len (P : Prims) (L : PrimLaws P) (E : Env) (c : Nat) (v r : V)
    (h : toDecimal P E ⟨false, true⟩ c v = .ok r) :
    ∃ r', toDecimal P E ⟨false, false⟩ c v = .ok r' ∧ sameValue r' r := by
  unfold toDecimal at h ⊢
  split at h
  · exact ⟨_, h, sameValue.rfl' _⟩
  · dsimp only at h ⊢
    simp only [Bool.false_eq_true, if_false] at h ⊢
    obtain ⟨d, hd, hr⟩ := Outcome.bind_eq_ok.mp h
    rcases attemptFromNumber_ndl P L E v d hd with h1 | ⟨rfl, re, hz, h1⟩ | ⟨re, im, rfl, hz, h1⟩
    · simp only [h1, Outcome.ok_bind]
      exact ⟨_, hr, sameValue.rfl' _⟩
    · simp only [h1, Outcome.ok_bind]
      simp [decViaStr] at hr
      subst hr
      refine ⟨_, by simp [decViaStr, hz]; rfl, Or.inr ⟨by simp [V.typeOf, V.cls?], _, _, rfl, rfl, ?_⟩⟩
      simp [NumV.eq, Q.eq, Q.scaled]
    · simp [decViaStr] at hr

theorem toComplex_ndl (P : Prims) (L : PrimLaws P) (E : Env) (n : Bool) (c : Nat) (v : V) :
    Sub (toComplex P E ⟨n, true⟩ c v) (toComplex P E ⟨n, false⟩ c v) := by
  intro r h
  unfold toComplex at h ⊢
  split at h
  · rename_i h1; simp only [h1, if_true]; exact h
  · rename_i h1; simp only [h1]
    cases n
    · dsimp only at h ⊢
      simp only [Bool.false_eq_true, if_false] at h ⊢
      split at h
      · exact h
      · obtain ⟨d, hd, hr⟩ := Outcome.bind_eq_ok.mp h
        rcases attemptFromNumber_ndl P L E v d hd with h1' | ⟨rfl, re, hz, h1'⟩ | ⟨re, im, rfl, hz, h1'⟩
        · simp only [h1', Outcome.ok_bind]; exact hr
        · simp only [h1', Outcome.ok_bind]
          simp [complexOf] at hr ⊢
          simp [fZero_normZ re hz, hr]
        · simp only [h1', Outcome.ok_bind]
          simp [complexOf] at hr ⊢
          simp [fZero_normZ im hz] at hr
          exact hr
    · dsimp only at h ⊢
      simp only [if_true] at h ⊢
      obtain ⟨d, hd, hr⟩ := Outcome.bind_eq_ok.mp h
      simp only [fromByteLike_ndl P L true v d hd, Outcome.ok_bind]
      exact hr

theorem toBool_ndl (P : Prims) (n : Bool) (v : V) :
    Sub (Conv.toBool P ⟨n, true⟩ v) (Conv.toBool P ⟨n, false⟩ v) := by
  intro r h
  unfold Conv.toBool at h ⊢
  split at h
  · exact h
  · obtain ⟨b1, hb1, h2⟩ := Outcome.bind_eq_ok.mp h
    clear h
    simp only [hb1, Outcome.ok_bind]
    splith h2
    · exact h2
    · obtain ⟨b0, hb0, h3⟩ := Outcome.bind_eq_ok.mp h2
      clear h2
      simp only [hb0, Outcome.ok_bind]
      splith h3
      · exact h3
      · dsimp only at h3 ⊢
        splith h3
        · exact h3
        · obtain ⟨d, hd, h4⟩ := Outcome.bind_eq_ok.mp h3
          clear h3
          simp only [hd, Outcome.ok_bind]
          obtain ⟨s, hs, h5⟩ := Outcome.bind_eq_ok.mp h4
          clear h4
          simp only [hs, Outcome.ok_bind]
          splith h5
          · exact h5
          · splith h5
            · exact h5
            · simp at h5

theorem attemptFromNumber_str (P : Prims) (E : Env) (c : Nat) (s : String) :
    attemptFromNumber P E ⟨false, true⟩ (.str c s) = attemptFromNumber P E ⟨false, false⟩ (.str c s) := by
  simp [attemptFromNumber, attemptFrom, fromByteLike]

theorem toDatetime_ndl (P : Prims) (L : PrimLaws P) (E : Env) (n : Bool) (c : Nat) (df : Bool) (v : V) :
    Sub (toDatetime P E ⟨n, true⟩ c df v) (toDatetime P E ⟨n, false⟩ c df v) := by
  intro r h
  unfold toDatetime at h ⊢
  splith h
  · exact h
  · split at h
    · exact h
    · exact h
    · obtain ⟨d1, hd1, h2⟩ := Outcome.bind_eq_ok.mp h
      clear h
      simp only [attemptFrom_ndl' E n v d1 hd1, Outcome.ok_bind]
      splith h2
      · exact h2
      · obtain ⟨d2, hd2, h3⟩ := Outcome.bind_eq_ok.mp h2
        clear h2
        simp only [fromByteLike_ndl P L n d1 d2 hd2, Outcome.ok_bind]
        split at h3
        · dsimp only at h3 ⊢
          cases n
          · simp only [Bool.false_eq_true, if_false, attemptFromNumber_str] at h3 ⊢
            exact h3
          · exact h3
        · exact h3

theorem toDate_ndl (P : Prims) (L : PrimLaws P) (E : Env) (n : Bool) (v : V) :
    Sub (toDate P E ⟨n, true⟩ v) (toDate P E ⟨n, false⟩ v) := by
  intro r h
  unfold toDate at h ⊢
  split at h
  · simp at h
  · exact h
  · obtain ⟨dt, hdt, h2⟩ := Outcome.bind_eq_ok.mp h
    clear h
    simp only [toDatetime_ndl P L E n 0 true v dt hdt, Outcome.ok_bind]
    split at h2
    · dsimp only at h2 ⊢
      split at h2
      · simp at h2
      · simpa using h2
    · exact h2

theorem toTimedelta_ndl (P : Prims) (L : PrimLaws P) (E : Env) (n : Bool) (c : Nat) (v : V) :
    Sub (toTimedelta P E ⟨n, true⟩ c v) (toTimedelta P E ⟨n, false⟩ c v) := by
  intro r h
  unfold toTimedelta at h ⊢
  splith h
  · exact h
  · obtain ⟨d1, hd1, h2⟩ := Outcome.bind_eq_ok.mp h
    clear h
    simp only [attemptFrom_ndl' E n v d1 hd1, Outcome.ok_bind]
    obtain ⟨d2, hd2, h3⟩ := Outcome.bind_eq_ok.mp h2
    clear h2
    simp only [fromByteLike_ndl P L n d1 d2 hd2, Outcome.ok_bind]
    cases hf : toFloat P E ⟨n, true⟩ 0 d2 with
    | ok x =>
      simp only [hf] at h3
      simp only [toFloat_ndl P L E n 0 d2 x hf]
      exact h3
    | perr e =>
      simp only [hf] at h3
      -- without the flag `to_float` may succeed where it failed: only for complex inputs, never for what is left here
      cases d2 <;> try (simp at h3)
      case str c' s =>
        have : toFloat P E ⟨n, false⟩ 0 (V.str c' s) = toFloat P E ⟨n, true⟩ 0 (V.str c' s) := by
          cases n <;> simp [toFloat, attemptFromNumber_str]
        simp only [this, hf]
        exact h3
    | escape e => simp [hf] at h3
    | diverge => simp [hf] at h3
    | unmodelled w => simp [hf] at h3

theorem toTime_ndl (P : Prims) (L : PrimLaws P) (E : Env) (n : Bool) (c : Nat) (v : V) :
    Sub (toTime P E ⟨n, true⟩ c v) (toTime P E ⟨n, false⟩ c v) := by
  intro r h
  unfold toTime at h ⊢
  splith h
  · exact h
  · obtain ⟨d1, hd1, h2⟩ := Outcome.bind_eq_ok.mp h
    clear h
    simp only [attemptFrom_ndl' E n v d1 hd1, Outcome.ok_bind]
    dsimp only at h2 ⊢
    simp only [if_true] at h2 ⊢
    obtain ⟨d2, hd2, h3⟩ := Outcome.bind_eq_ok.mp h2
    clear h2
    have hl := fromByteLike_ndl P L n d1 d2 hd2
    -- under no_data_loss the datetime / date shortcuts are skipped and the value then fails
    cases d1 <;> simp only [] at h3 ⊢
    case datetime c' d t => simp [fromByteLike] at hd2; subst hd2; simp at h3
    case date c' d => simp [fromByteLike] at hd2; subst hd2; simp at h3
    all_goals
      simp only [hl, Outcome.ok_bind]
      split at h3
      · splith h3
        · split at h3
          · exact h3
          · obtain ⟨dt, hdt, h4⟩ := Outcome.bind_eq_ok.mp h3
            simp only [toDatetime_ndl P L E n 0 false _ dt hdt, Outcome.ok_bind]
            exact h4
          · exact h3
          · exact h3
        · exact h3
      · exact h3

theorem toUuid_ndl (P : Prims) (n : Bool) (c : Nat) (v : V) :
    Sub (toUuid P ⟨n, true⟩ c v) (toUuid P ⟨n, false⟩ c v) := by
  intro r h
  unfold toUuid at h ⊢
  splith h
  · exact h
  · split at h
    · exact h
    · exact h
    · dsimp only at h ⊢
      splith h
      · exact h
      · simp only [Bool.not_true, Bool.false_eq_true, if_false, Outcome.pure_eq, Outcome.ok_bind] at h
        -- with no_data_loss floats and Decimals are not truncated: they are then rejected
        cases v <;> simp at h ⊢ <;> try exact h

theorem convBase_ndl (P : Prims) (L : PrimLaws P) (E : Env) (n : Bool) (b : Base) (v : V) :
    Sub (convBase P E ⟨n, true⟩ b v) (convBase P E ⟨n, false⟩ b v) := by
  intro r h
  unfold convBase at h ⊢
  splith h
  · exact h
  · split at h
    · exact toInteger_ndl P L E n 0 v r h
    · exact toFloat_ndl P L E n 0 v r h
    · exact toStr_ndl P L E n 0 v r h
    · exact h

theorem enumBody_ndl (P : Prims) (L : PrimLaws P) (E : Env) (n : Bool) (k : Nat) (d : EnumDecl) (v : V) :
    Sub (enumBody P E ⟨n, true⟩ k d v) (enumBody P E ⟨n, false⟩ k d v) := by
  unfold enumBody
  cases d.memberType with
  | none => exact Sub.refl _
  | some b => exact Sub.bind (convBase_ndl P L E n b v) (fun _ => Sub.refl _)

theorem enumNameFallback_ndl (E : Env) (n : Bool) (k : Nat) (v : V) (o : Outcome V) (r : V) (ho : ∀ r, o ≠ .ok r) :
    enumNameFallback E ⟨n, true⟩ k v o ≠ .ok r := by
  unfold enumNameFallback
  split
  · simpa using ho r
  · exact ho r

theorem toEnum_ndl (P : Prims) (L : PrimLaws P) (E : Env) (n : Bool) (k : Nat) (v : V) :
    Sub (toEnum P E ⟨n, true⟩ k v) (toEnum P E ⟨n, false⟩ k v) := by
  intro r h
  cases n
  · unfold toEnum at h ⊢
    split at h
    · exact h
    · dsimp only at h ⊢
      simp only [Bool.false_eq_true, if_false] at h ⊢
      split at h
      · exact h
      · rename_i d hd
        -- the value lookup (after the member-type conversion) only restricts; a failure stays a failure
        -- under no_data_loss, while the lenient run may still fall back to the member name
        cases hb : enumBody P E ⟨false, true⟩ k d v with
        | ok r' =>
          simp only [hb] at h
          simp only [enumBody_ndl P L E false k d v r' hb]
          exact h
        | perr e => simp only [hb] at h; exact absurd h (enumNameFallback_ndl E false k v _ r (by simp))
        | escape e => simp only [hb] at h; exact absurd h (enumNameFallback_ndl E false k v _ r (by simp))
        | diverge => simp [hb] at h
        | unmodelled w => simp [hb] at h
  · unfold toEnum at h ⊢
    split at h
    · exact h
    · exact h

theorem toIter_ndl (P : Prims) (L : PrimLaws P) (n : Bool) (a : Abc) (v : V) :
    Sub (toIter P ⟨n, true⟩ a v) (toIter P ⟨n, false⟩ a v) := by
  intro r h
  unfold toIter at h ⊢
  splith h
  · exact h
  · exact toArray_ndl P L n .list 0 v r h

theorem toMapping_ndl (P : Prims) (L : PrimLaws P) (E : Env) (n : Bool) (v : V)
    (hk : KnownDefect.jsonControlChar P E v = false) :
    Sub (toMapping P E ⟨n, true⟩ v) (toMapping P E ⟨n, false⟩ v) := by
  intro r h
  unfold toMapping at h ⊢
  splith h
  · exact h
  · exact toDict_ndl P L E n 0 v hk r h

/-! ### (B) `no_explicit_cast` only restricts (no_data_loss off) -/

theorem toNull_nec (v : V) : Sub (toNull ⟨true, false⟩ v) (toNull ⟨false, false⟩ v) := by
  intro r h
  cases v <;> simp [toNull] at h ⊢ <;> exact h

theorem toStr_nec (P : Prims) (E : Env) (c : Nat) (v : V) :
    Sub (toStr P E ⟨true, false⟩ c v) (toStr P E ⟨false, false⟩ c v) := by
  intro r h
  cases v <;> simp [toStr, attemptFrom, fromByteLike, isInst, V.cls?, Base.sub] at h ⊢ <;> try exact h
  case seq k c' xs => cases k <;> simp [SeqK.base] at h
  case bytes k c' bs =>
    obtain ⟨d, hd, hr⟩ := Outcome.bind_eq_ok.mp h
    obtain ⟨s, hs, hd'⟩ := Outcome.bind_eq_ok.mp hd
    simp at hd'
    subst hd'
    simp only [hs, Outcome.ok_bind] at hr ⊢
    simpa [isInst, V.cls?, Base.sub] using hr

theorem toBytes_nec (P : Prims) (E : Env) (b : BytesK) (c : Nat) (v : V) :
    Sub (toBytes P E ⟨true, false⟩ b c v) (toBytes P E ⟨false, false⟩ b c v) := by
  intro r h
  cases v <;> simp [toBytes, attemptFrom] at h ⊢ <;> try exact h

theorem toArray_nec (P : Prims) (b : SeqK) (c : Nat) (v : V) :
    Sub (toArray P ⟨true, false⟩ b c v) (toArray P ⟨false, false⟩ b c v) := by
  intro r h
  unfold toArray at h ⊢
  splith h
  · exact h
  · splith h
    · exact h
    · simp at h

theorem toDict_nec (P : Prims) (E : Env) (c : Nat) (v : V) :
    Sub (toDict P E ⟨true, false⟩ c v) (toDict P E ⟨false, false⟩ c v) := by
  intro r h
  unfold toDict at h ⊢
  splith h
  · exact h
  · split at h
    · exact h
    · simp at h

theorem attemptFromNumber_scalar (P : Prims) (E : Env) (v : V)
    (hs : isInst v .int = true ∨ isInst v .decimal = true ∨ isInst v .float = true ∨ isInst v .str = true) :
    attemptFromNumber P E ⟨false, false⟩ v = .ok (if truthy v then v else .int 0 0) := by
  cases v <;> simp [isInst, V.cls?, Base.sub] at hs <;>
    simp [attemptFromNumber, attemptFrom, fromByteLike] <;> try (split <;> simp_all)
  case bytes k c bs => cases k <;> simp [BytesK.base] at hs
  case seq k c xs => cases k <;> simp [SeqK.base] at hs

theorem toFloat_nec (P : Prims) (E : Env) (c : Nat) (v : V) :
    Sub (toFloat P E ⟨true, false⟩ c v) (toFloat P E ⟨false, false⟩ c v) := by
  intro r h
  cases v with
  | float c' x => simpa [toFloat] using h
  | bool b =>
    simp [toFloat, isInst, V.cls?, Base.sub] at h ⊢
    rw [attemptFromNumber_scalar P E _ (Or.inl (by simp [isInst, V.cls?, Base.sub]))]
    cases b <;> simpa [truthy, floatOf] using h
  | int c' i =>
    simp [toFloat, isInst, V.cls?, Base.sub] at h ⊢
    rw [attemptFromNumber_scalar P E _ (Or.inl (by simp [isInst, V.cls?, Base.sub]))]
    by_cases hi : i = 0
    · subst hi; simpa [truthy, floatOf] using h
    · simpa [truthy, hi] using h
  | dec c' d =>
    simp [toFloat, isInst, V.cls?, Base.sub] at h ⊢
    rw [attemptFromNumber_scalar P E _ (Or.inr (Or.inl (by simp [isInst, V.cls?, Base.sub])))]
    cases d with
    | fin s co e =>
      by_cases hc : co = 0
      · subst hc; simpa [truthy, floatOf, floatOfDec, floatOfInt] using h
      · simpa [truthy, hc] using h
    | inf s => simpa [truthy] using h
    | nan s => simpa [truthy] using h
  | bytes k c' bs => cases k <;> simp [toFloat, isInst, V.cls?, Base.sub, BytesK.base] at h
  | seq k c' xs => cases k <;> simp [toFloat, isInst, V.cls?, Base.sub, SeqK.base] at h
  | _ => simp [toFloat, isInst, V.cls?, Base.sub] at h

theorem intFinish_flags (P : Prims) (n n' : Bool) (c : Nat) (d : V) :
    intFinish P ⟨n, false⟩ c d = intFinish P ⟨n', false⟩ c d := by
  simp [intFinish]

theorem toInteger_nec (P : Prims) (E : Env) (c : Nat) (v : V) :
    Sub (toInteger P E ⟨true, false⟩ c v) (toInteger P E ⟨false, false⟩ c v) := by
  intro r h
  cases v with
  | bool b => simpa [toInteger] using h
  | int c' i => simpa [toInteger] using h
  | float c' x =>
    simp [toInteger, isInst, V.cls?, Base.sub] at h ⊢
    rw [attemptFromNumber_scalar P E _ (Or.inr (Or.inr (Or.inl (by simp [isInst, V.cls?, Base.sub]))))]
    by_cases hz : fZero x = true
    · obtain ⟨e, he⟩ := decOfFloatExact_zero x hz
      simp [truthy, hz, intAfter]
      simp [intFinish, decimalOf, he, intOfDec] at h
      cases c with
      | zero =>
        simp [isInstT, isInst, V.cls?, Base.sub]
        exact h
      | succ k =>
        simp [isInstT, V.cls?, intFinish, decimalOf, intOfDec]
        exact h
    · have hl : isInstT (V.float c' x) (Target.cls Base.int c) = false := by
        cases c <;> simp [isInstT, isInst, V.cls?, Base.sub]
      simp [truthy, hz, intAfter, hl]
      rw [intFinish_flags P false true]; exact h
  | dec c' d =>
    simp [toInteger, isInst, V.cls?, Base.sub] at h ⊢
    rw [attemptFromNumber_scalar P E _ (Or.inr (Or.inl (by simp [isInst, V.cls?, Base.sub])))]
    have hl : isInstT (V.dec c' d) (Target.cls Base.int c) = false := by
      cases c <;> simp [isInstT, isInst, V.cls?, Base.sub]
    by_cases ht : truthy (V.dec c' d) = true
    · simp [ht, intAfter, hl]
      rw [intFinish_flags P false true]; exact h
    · simp [ht, intAfter]
      cases d with
      | fin s co e =>
        simp [truthy] at ht
        subst ht
        simp [intFinish, decimalOf, intOfDec] at h
        cases c with
        | zero =>
          simp [isInstT, isInst, V.cls?, Base.sub]
          first | exact h | (cases s <;> simp at h <;> exact h)
        | succ k =>
          simp [isInstT, V.cls?, intFinish, decimalOf, intOfDec]
          first | exact h | (cases s <;> simp at h <;> exact h)
      | inf s => simp [truthy] at ht
      | nan s => simp [truthy] at ht
  | bytes k c' bs => cases k <;> simp [toInteger, isInst, V.cls?, Base.sub, BytesK.base] at h
  | seq k c' xs => cases k <;> simp [toInteger, isInst, V.cls?, Base.sub, SeqK.base] at h
  | _ => simp [toInteger, isInst, V.cls?, Base.sub] at h

theorem fromByteLike_flags (P : Prims) (n n' b : Bool) (v : V) :
    fromByteLike P ⟨n, b⟩ v = fromByteLike P ⟨n', b⟩ v := by
  cases v <;> rfl

theorem attemptFrom_len_scalar (E : Env) (v : V) (h : multi v = false) (he : ∀ k i, v ≠ .enum k i) :
    attemptFrom E ⟨false, false⟩ v = .ok v := by
  cases v <;> simp [attemptFrom] <;> simp_all

/-- `_attempt_from_number` on a value whose `_from_byte_like` image `d` is a plain scalar -/
theorem attemptFromNumber_bytes (P : Prims) (E : Env) (v d : V) (hm : multi v = false) (he : ∀ k i, v ≠ .enum k i)
    (hd : fromByteLike P ⟨false, false⟩ v = .ok d)
    (hs : isInst d .int = true ∨ isInst d .decimal = true ∨ isInst d .float = true ∨ isInst d .str = true) :
    attemptFromNumber P E ⟨false, false⟩ v = .ok (if truthy d then d else .int 0 0) := by
  unfold attemptFromNumber
  simp only [attemptFrom_len_scalar E v hm he, Outcome.ok_bind, hd]
  cases d <;> simp [isInst, V.cls?, Base.sub] at hs <;> simp <;> try (split <;> simp_all)
  all_goals (rename_i k _ _; cases k <;> simp [BytesK.base, SeqK.base] at hs)

theorem toDecimal_nec (P : Prims) (E : Env) (c : Nat) (v r : V)
    (h : toDecimal P E ⟨true, false⟩ c v = .ok r) :
    ∃ r', toDecimal P E ⟨false, false⟩ c v = .ok r' ∧ sameValue r' r := by
  unfold toDecimal at h ⊢
  split at h
  · exact ⟨_, h, sameValue.rfl' _⟩
  · rename_i hnd
    dsimp only at h ⊢
    simp only [if_true, Bool.false_eq_true, if_false] at h ⊢
    obtain ⟨d, hd, hr⟩ := Outcome.bind_eq_ok.mp h
    obtain ⟨d1, hd1, hd2⟩ := Outcome.bind_eq_ok.mp hd
    split at hd2
    · rename_i hi
      simp at hd2
      subst hd2
      have hm : multi v = false := by
        cases v <;> simp [fromByteLike] at hd1 <;> try rfl
        case seq k c' xs => subst hd1; cases k <;> simp [isInst, V.cls?, Base.sub, SeqK.base] at hi
      have he : ∀ k i, v ≠ .enum k i := by
        intro k i hv; subst hv
        simp [fromByteLike] at hd1; subst hd1
        simp [isInst, V.cls?] at hi
      have hs : isInst d1 .int = true ∨ isInst d1 .decimal = true ∨ isInst d1 .float = true ∨ isInst d1 .str = true := by
        simp at hi; rcases hi with ((hi | hi) | hi) | hi
        · exact Or.inl hi
        · exact Or.inr (Or.inr (Or.inl hi))
        · exact Or.inr (Or.inr (Or.inr hi))
        · exact Or.inr (Or.inl hi)
      rw [fromByteLike_flags P true false] at hd1
      simp only [attemptFromNumber_bytes P E v d1 hm he hd1 hs, Outcome.ok_bind]
      by_cases ht : truthy d1 = true
      · simp only [ht, if_true]; exact ⟨_, hr, sameValue.rfl' _⟩
      · simp only [ht]
        obtain ⟨x, hx, hr'⟩ := Outcome.bind_eq_ok.mp hr
        simp at hr'; subst hr'
        cases d1 <;> simp [isInst, V.cls?, Base.sub] at hs <;> simp [truthy] at ht
        case bool b => subst ht; simp [decViaStr] at hx
        case int c' i =>
          subst ht; simp [decViaStr] at hx; subst hx
          exact ⟨_, by simp [decViaStr] <;> rfl, sameValue.rfl' _⟩
        case float c' f =>
          simp [decViaStr, ht] at hx; subst hx
          refine ⟨_, by simp [decViaStr] <;> rfl, Or.inr ⟨by simp [V.typeOf, V.cls?], _, _, rfl, rfl, ?_⟩⟩
          simp [NumV.eq, Q.eq, Q.scaled]
        case dec c' dd =>
          exfalso
          cases v <;> simp [fromByteLike] at hd1
          · exact hnd _ _ rfl
          · obtain ⟨s, _, hs'⟩ := Outcome.bind_eq_ok.mp hd1
            simp at hs'
        case str c' s => subst ht; simp [decViaStr, pyStrip_empty, decOfStr] at hx
        case bytes k c' bs => cases k <;> simp [BytesK.base] at hs
        case seq k c' xs => cases k <;> simp [SeqK.base] at hs
    · simp at hd2

theorem toComplex_nec (P : Prims) (E : Env) (c : Nat) (v : V) :
    Sub (toComplex P E ⟨true, false⟩ c v) (toComplex P E ⟨false, false⟩ c v) := by
  intro r h
  unfold toComplex at h ⊢
  splith h
  · exact h
  · dsimp only at h ⊢
    simp only [if_true] at h ⊢
    obtain ⟨d1, hd1, hd2⟩ := Outcome.bind_eq_ok.mp h
    split at hd2
    · rename_i hi
      have hs : isInst d1 .int = true ∨ isInst d1 .decimal = true ∨ isInst d1 .float = true ∨ isInst d1 .str = true := by
        simp at hi; rcases hi with ((hi | hi) | hi) | hi
        · exact Or.inl hi
        · exact Or.inr (Or.inr (Or.inl hi))
        · exact Or.inr (Or.inl hi)
        · exact Or.inr (Or.inr (Or.inr hi))
      have hm : multi v = false := by
        cases v <;> simp [fromByteLike] at hd1 <;> try rfl
        case seq k c' xs => subst hd1; cases k <;> simp [isInst, V.cls?, Base.sub, SeqK.base] at hi
      have he : ∀ k i, v ≠ .enum k i := by
        intro k i hv; subst hv
        simp [fromByteLike] at hd1; subst hd1
        simp [isInst, V.cls?] at hi
      rw [fromByteLike_flags P true false] at hd1
      have hnt : ∀ c' a b, v ≠ V.seq SeqK.tuple c' [a, b] := by
        intro c' a b hv; subst hv; simp [multi] at hm
      split
      · rename_i c' a b; exact absurd rfl (hnt c' a b)
      · simp only [attemptFromNumber_bytes P E v d1 hm he hd1 hs, Outcome.ok_bind]
        by_cases ht : truthy d1 = true
        · simp only [ht, if_true]; exact hd2
        · simp only [ht]
          cases d1 <;> simp [isInst, V.cls?, Base.sub] at hs <;> simp [truthy] at ht
          case bool b => subst ht; simpa [complexOf] using hd2
          case int c' i => subst ht; simpa [complexOf] using hd2
          case float c' f => simpa [complexOf, fZero_normZ f ht] using hd2
          case dec c' dd =>
            cases dd <;> simp at ht
            subst ht; simpa [complexOf] using hd2
          case str c' s => subst ht; simp [complexOf] at hd2
          all_goals (rename_i k _ _; cases k <;> simp [BytesK.base, SeqK.base] at hs)
    · simp at hd2

theorem toBool_nec (P : Prims) (v : V) :
    Sub (Conv.toBool P ⟨true, false⟩ v) (Conv.toBool P ⟨false, false⟩ v) := by
  intro r h
  unfold Conv.toBool at h ⊢
  split at h
  · exact h
  · obtain ⟨b1, hb1, h2⟩ := Outcome.bind_eq_ok.mp h
    clear h
    simp only [hb1, Outcome.ok_bind]
    splith h2
    · exact h2
    · obtain ⟨b0, hb0, h3⟩ := Outcome.bind_eq_ok.mp h2
      clear h2
      simp only [hb0, Outcome.ok_bind]
      splith h3
      · exact h3
      · simp at h3

/-- the value `_attempt_from` leaves alone in lenient mode as well -/
def plainInput (v : V) : Prop := multi v = false ∧ ∀ k i, v ≠ .enum k i

theorem toDatetime_nec (P : Prims) (E : Env) (c : Nat) (df : Bool) (v : V) :
    Sub (toDatetime P E ⟨true, false⟩ c df v) (toDatetime P E ⟨false, false⟩ c df v) := by
  intro r h
  unfold toDatetime at h ⊢
  splith h
  · exact h
  · split at h
    · exact h
    · exact h
    · simp only [attemptFrom, if_true, Outcome.ok_bind] at h
      -- what converts under no_explicit_cast is a number, a str or bytes: `_attempt_from` leaves those alone
      by_cases hp : multi v = false ∧ ∀ k i, v ≠ .enum k i
      · simp only [attemptFrom_len_scalar E v hp.1 hp.2, Outcome.ok_bind]
        splith h
        · exact h
        · obtain ⟨d2, hd2, h3⟩ := Outcome.bind_eq_ok.mp h
          rw [fromByteLike_flags P true false] at hd2
          simp only [hd2, Outcome.ok_bind]
          split at h3
          · obtain ⟨o1, ho1, h4⟩ := Outcome.bind_eq_ok.mp h3
            simp only [ho1, Outcome.ok_bind]
            split at h4
            · exact h4
            · obtain ⟨o2, ho2, h5⟩ := Outcome.bind_eq_ok.mp h4
              simp only [ho2, Outcome.ok_bind]
              split at h5
              · exact h5
              · simp at h5
          · exact h3
      · exfalso
        have hv : (∃ k c' xs, v = V.seq k c' xs) ∨ (∃ k i, v = V.enum k i) := by
          cases v <;> simp [multi] at hp ⊢
        rcases hv with ⟨k, c', xs, rfl⟩ | ⟨k, i, rfl⟩
        · have hi : (isInst (V.seq k c' xs) Base.int || isInst (V.seq k c' xs) Base.float || isInst (V.seq k c' xs) Base.decimal) = false := by
            cases k <;> simp [isInst, V.cls?, Base.sub, SeqK.base]
          simp [hi, fromByteLike] at h
        · simp [isInst, V.cls?, fromByteLike] at h

theorem toDate_nec (P : Prims) (E : Env) (v : V) :
    Sub (toDate P E ⟨true, false⟩ v) (toDate P E ⟨false, false⟩ v) := by
  intro r h
  unfold toDate at h ⊢
  split at h
  · exact h
  · exact h
  · obtain ⟨dt, hdt, h2⟩ := Outcome.bind_eq_ok.mp h
    simp only [toDatetime_nec P E 0 true v dt hdt, Outcome.ok_bind]
    exact h2

/-- known defect `timedelta-numeric-string`: a text that `float()` also parses becomes a timedelta through
`float` without flags but through `DURATION_REGS` under no_explicit_cast (different rounding, and a plain
timedelta for subclass targets) -/
def KnownDefect.timedeltaNumericString (P : Prims) (E : Env) (v : V) : Bool :=
  match fromByteLike P ⟨false, false⟩ v with
  | .ok (.str c s) =>
    (match toFloat P E ⟨false, false⟩ 0 (.str c s) with
     | .perr _ => false
     | _ => true)
  | _ => false

theorem fromByteLike_str (P : Prims) (f : Flags) (v : V) (c : Nat) (s : String)
    (h : fromByteLike P f v = .ok (.str c s)) : multi v = false ∧ ∀ k i, v ≠ .enum k i := by
  cases v <;> simp [fromByteLike, multi] at h ⊢

theorem fromByteLike_id (P : Prims) (f : Flags) (v d : V) (h : fromByteLike P f v = .ok d)
    (hd : ∀ c s, d ≠ .str c s) : d = v := by
  cases v <;> simp [fromByteLike] at h <;> try exact h.symm
  obtain ⟨s, _, hs⟩ := Outcome.bind_eq_ok.mp h
  simp at hs
  exact absurd hs.symm (hd _ _)

theorem toTimedelta_nec (P : Prims) (E : Env) (c : Nat) (v : V)
    (hk : KnownDefect.timedeltaNumericString P E v = false) :
    Sub (toTimedelta P E ⟨true, false⟩ c v) (toTimedelta P E ⟨false, false⟩ c v) := by
  intro r h
  unfold toTimedelta at h ⊢
  splith h
  · exact h
  · simp only [attemptFrom, if_true, Outcome.ok_bind] at h
    obtain ⟨d2, hd2, h3⟩ := Outcome.bind_eq_ok.mp h
    clear h
    rw [fromByteLike_flags P true false] at hd2
    cases hf : toFloat P E ⟨true, false⟩ 0 d2 with
    | ok x =>
      simp only [hf] at h3
      have hns : ∀ c' s, d2 ≠ .str c' s := by
        intro c' s hd; subst hd
        simp [toFloat, isInst, V.cls?, Base.sub] at hf
      have hv : d2 = v := fromByteLike_id P _ v d2 hd2 hns
      subst hv
      have hp : multi d2 = false ∧ ∀ k i, d2 ≠ .enum k i := by
        cases d2 <;> simp [toFloat, isInst, V.cls?, Base.sub, multi] at hf ⊢
        rename_i k _ _; cases k <;> simp [SeqK.base] at hf
      simp only [attemptFrom_len_scalar E d2 hp.1 hp.2, Outcome.ok_bind, hd2, toFloat_nec P E 0 d2 x hf]
      split at h3
      · split at h3
        · simp at h3
        · simpa using h3
      all_goals simp_all
    | perr e =>
      simp only [hf] at h3
      split at h3
      · rename_i c' s
        have hp := fromByteLike_str P _ v c' s hd2
        simp only [attemptFrom_len_scalar E v hp.1 hp.2, Outcome.ok_bind, hd2]
        have hfl : ∃ e', toFloat P E ⟨false, false⟩ 0 (V.str c' s) = .perr e' := by
          simp only [KnownDefect.timedeltaNumericString, hd2] at hk
          split at hk
          · rename_i e' he'; exact ⟨e', he'⟩
          · simp at hk
        obtain ⟨e', he'⟩ := hfl
        simp only [he']
        obtain ⟨o, ho, h4⟩ := Outcome.bind_eq_ok.mp h3
        simp only [ho, Outcome.ok_bind]
        split at h4
        · exact h4
        · simp at h4
      · simp at h3
    | escape e => simp [hf] at h3
    | diverge => simp [hf] at h3
    | unmodelled w => simp [hf] at h3

theorem toTime_nec (P : Prims) (E : Env) (c : Nat) (v : V) :
    Sub (toTime P E ⟨true, false⟩ c v) (toTime P E ⟨false, false⟩ c v) := by
  intro r h
  unfold toTime at h ⊢
  splith h
  · exact h
  · simp only [attemptFrom, if_true, Outcome.ok_bind] at h
    simp only [Bool.false_eq_true, if_false] at h ⊢
    by_cases hp : multi v = false ∧ ∀ k i, v ≠ .enum k i
    · simp only [attemptFrom_len_scalar E v hp.1 hp.2, Outcome.ok_bind]
      split at h
      · exact h
      · obtain ⟨d2, hd2, h3⟩ := Outcome.bind_eq_ok.mp h
        rw [fromByteLike_flags P true false] at hd2
        simp only [hd2, Outcome.ok_bind]
        split at h3
        · splith h3
          · split at h3
            · exact h3
            · obtain ⟨dt, hdt, h4⟩ := Outcome.bind_eq_ok.mp h3
              simp only [toDatetime_nec P E 0 false _ dt hdt, Outcome.ok_bind]
              exact h4
            · exact h3
            · exact h3
          · exact h3
        · exact h3
    · exfalso
      have hv : (∃ k c' xs, v = V.seq k c' xs) ∨ (∃ k i, v = V.enum k i) := by
        cases v <;> simp [multi] at hp ⊢
      rcases hv with ⟨k, c', xs, rfl⟩ | ⟨k, i, rfl⟩
      · simp [fromByteLike] at h
      · simp [fromByteLike] at h

theorem toUuid_nec (P : Prims) (c : Nat) (v : V) :
    Sub (toUuid P ⟨true, false⟩ c v) (toUuid P ⟨false, false⟩ c v) := by
  intro r h
  unfold toUuid at h ⊢
  splith h
  · exact h
  · split at h
    · exact h
    · exact h
    · simp at h

/-- outside the proved fragment (covered by the correspondence run only): under no_explicit_cast the
input of a mixed-in enum (`class E(int, Enum)`) is looked up as it is, without flags it is first converted
to the member type; the lookup by `==` agrees but the proof needs the congruence of `==` under that
conversion -/
def enumCastNeeded (E : Env) (k : Nat) (v : V) : Bool :=
  match E.enum? k with
  | some d => (match d.memberType with
    | some b => !typeEq v (.cls b 0)
    | Option.none => false)
  | Option.none => false

theorem toEnum_nec (P : Prims) (E : Env) (k : Nat) (v : V)
    (hx : enumCastNeeded E k v = false)
    (hm : ∀ w, toEnum P E ⟨false, false⟩ k v ≠ .unmodelled w) :
    Sub (toEnum P E ⟨true, false⟩ k v) (toEnum P E ⟨false, false⟩ k v) := by
  intro r h
  unfold toEnum at h ⊢ hm
  split at h
  · splith h
    · exact h
    · exfalso; exact hm "member of another enum as input" (by simp [hc])
  · simp only [if_true, Bool.false_eq_true, if_false] at h ⊢ hm
    cases hd : E.enum? k with
    | none => simp [enumCall, hd] at h
    | some d =>
      simp only [hd] at hm ⊢
      have hb : enumBody P E ⟨false, false⟩ k d v = .ok r := by
        unfold enumBody
        cases hmt : d.memberType with
        | none => exact h
        | some b =>
          simp only [enumCastNeeded, hd, hmt] at hx
          simp only [convBase]
          simp at hx
          simp [hx]
          exact h
      simp [hb]

theorem toIter_nec (P : Prims) (a : Abc) (v : V) :
    Sub (toIter P ⟨true, false⟩ a v) (toIter P ⟨false, false⟩ a v) := by
  intro r h
  unfold toIter at h ⊢
  splith h
  · exact h
  · exact toArray_nec P .list 0 v r h

theorem toMapping_nec (P : Prims) (E : Env) (v : V) :
    Sub (toMapping P E ⟨true, false⟩ v) (toMapping P E ⟨false, false⟩ v) := by
  intro r h
  unfold toMapping at h ⊢
  splith h
  · exact h
  · exact toDict_nec P E 0 v r h

end Utv.C12
