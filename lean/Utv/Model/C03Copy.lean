/-!
C03 — values and operators for the T1 translation of `utype/utils/functional.py: multi, copy_value`
(`ParserField.get_default` hands every default through `copy_value`, field.py:798), and the data-class skeleton in
which a default is *copied, not parsed* (base.py:503-511, 584-595).

`CVal` keeps what `copy_value` looks at: the container class at every level.  Everything else is an `atom`
(ints, strings, None, user objects: returned as they are).  Core Lean only.
-/
namespace Utv.C03C

/-- the classes `multi` / `copy_value` test for -/
inductive CCls where
  | list | tuple | set | frozenset | dictValues | dictKeys | dict | other
  deriving DecidableEq, Repr

inductive CVal where
  | atom (n : Nat)
  | seq (k : CCls) (xs : List CVal)            -- k ∈ {list, tuple, set, frozenset, dictValues, dictKeys}
  | dict (ks : List CVal) (vs : List CVal)     -- keys and values in insertion order
  deriving Repr, BEq

inductive CExc where
  | typeError
  | unmodelled (why : String)
  deriving Repr, DecidableEq

abbrev M := Except CExc

/-- CPython facts that are not utype's business: `==`/hash between set elements -/
structure World where
  pyEq : CVal → CVal → Bool

namespace CV

def typeOf : CVal → CCls
  | .atom _ => .other
  | .seq k _ => k
  | .dict _ _ => .dict

/-- `isinstance(v, (c1, c2, ...))` for the builtin classes above (none is a subclass of another) -/
def isinstance (v : CVal) (cs : List CCls) : Bool := cs.contains (typeOf v)

/-- `for d in data` -/
def iter : CVal → M (List CVal)
  | .seq _ xs => pure xs
  | .dict ks _ => pure ks
  | .atom _ => throw .typeError

def dedup (W : World) : List CVal → List CVal
  | [] => []
  | x :: xs => x :: (dedup W xs).filter (fun y => !W.pyEq y x)

/-- `cls(items)`: calling a container class on an iterable of items -/
def construct (W : World) (c : CCls) (items : List CVal) : M CVal :=
  match c with
  | .list => pure (.seq .list items)
  | .tuple => pure (.seq .tuple items)
  | .set => pure (.seq .set (dedup W items))
  | .frozenset => pure (.seq .frozenset (dedup W items))
  | .dictValues => throw .typeError          -- "cannot create 'dict_values' instances"
  | .dictKeys => throw .typeError
  | .dict => throw (.unmodelled "dict(items)")
  | .other => throw (.unmodelled "constructor of another class")

/-- `{k: f(v) for k, v in data.items()}` -/
def dictMapValues (d : CVal) (f : CVal → M CVal) : M CVal :=
  match d with
  | .dict ks vs => do pure (.dict ks (← vs.mapM f))
  | _ => throw .typeError

end CV

/-! ### reference `copy_value` (structural recursion; what the driver runs).  `Props/C03.lean` proves that it satisfies
the equation regenerated from the source, so it is the translated function on every input. -/

def isMultiCls : CCls → Bool
  | .list | .tuple | .set | .frozenset | .dictValues | .dictKeys => true
  | _ => false

mutual
def copyRef (W : World) : CVal → M CVal
  | .atom n => pure (.atom n)
  | .seq k xs =>
    if isMultiCls k then do
      let ys ← copyRefs W xs
      CV.construct W k ys
    else if k == .dict then throw .typeError      -- (not a value Python has: a sequence tagged `dict`)
    else pure (.seq k xs)
  | .dict ks vs => do
    let ws ← copyRefs W vs
    pure (.dict ks ws)
def copyRefs (W : World) : List CVal → M (List CVal)
  | [] => pure []
  | x :: xs => do
    let y ← copyRef W x
    let ys ← copyRefs W xs
    pure (y :: ys)
end

/-! ### data-class skeleton: one field at a time (base.py parse_data, field-first search) -/

structure FieldD (V E : Type) where
  key : String
  parse : V → Except E V        -- the field type's parse (any function)
  required : Bool
  default : Option V
  noOutput : Bool

variable {V E : Type}

/-- what the parse puts into the result for one field: parsed input, or the *copied* default, or nothing -/
def fieldStep (copy : V → Except E V) (absent : E) (f : FieldD V E) (input : List (String × V)) :
    Except E (Option (String × V)) :=
  match input.lookup f.key with
  | some x => do
    let y ← f.parse x
    pure (if f.noOutput then none else some (f.key, y))
  | none =>
    if f.required then throw absent
    else match f.default with
      | some d => do
        let c ← copy d
        pure (if f.noOutput then none else some (f.key, c))
      | none => pure none

def parseDC (copy : V → Except E V) (absent : E) : List (FieldD V E) → List (String × V) → Except E (List (String × V))
  | [], _ => pure []
  | f :: fs, input => do
    let o ← fieldStep copy absent f input
    let rest ← parseDC copy absent fs input
    pure (match o with | some e => e :: rest | none => rest)

end Utv.C03C
