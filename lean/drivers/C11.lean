import Utv.Model.C11
import Utv.Util.J
/-!
Line-protocol driver for C11.  Values are opaque JSON (`α := Json`, `κ := String`): the model only moves
them around.  Converters arrive as tables `[[raw, converted | null], …]` measured on the real code
(element parsed in isolation); a raw value missing from its table is treated as offending.

Each answer carries `model` (the code model) and `spec` (the right-hand side of the corresponding
theorem in Props/C11, evaluated on the same case) — the harness checks `model = spec` on every case, a
running sanity check of the theorem instances next to the proofs.
-/
open Lean Utv.J Utv.C11

def tableOf (j : Json) : List (Json × Option Json) :=
  (arr! j).map fun p => match arr! p with
    | r :: c :: _ => (r, if isNull c then none else some c)
    | _ => (Json.null, none)

def parserOf (j : Json) : Parser Json := fun x => ((tableOf j).lookup x).getD none

def optParserOf (j : Json) : Option (Parser Json) := if isNull j then none else some (parserOf j)

def polOf (j : Json) : Policy :=
  match str! j with
  | "exclude" => .exclude
  | "preserve" => .preserve
  | _ => .throw

def optPolOf (j : Json) : Option Policy := if isNull j then none else some (polOf j)

def jarr (xs : List Json) : Json := Json.arr xs.toArray
def jpairs (kvs : List (Json × Json)) : Json := jarr (kvs.map fun (k, v) => jarr [k, v])
def jspairs (kvs : List (String × Json)) : Json := jarr (kvs.map fun (k, v) => jarr [Json.str k, v])
def err (kind : String) (extra : List (String × Json) := []) : Json := Json.mkObj (("err", Json.str kind) :: extra)
def ok (j : Json) : Json := Json.mkObj [("ok", j)]

def seqOut : Except SeqErr (List Json) → Json
  | .ok xs => ok (jarr xs)
  | .error (.item i) => err "item" [("i", Json.num i)]
  | .error .coerce => err "coerce"
  | .error .rawTypeError => err "raw"
  | .error .constraint => err "constraint"

def tupOut : Except TupErr (List Json) → Json
  | .ok xs => ok (jarr xs)
  | .error (.item i) => err "item" [("i", Json.num i)]
  | .error (.absence i) => err "absence" [("i", Json.num i)]
  | .error (.exceed i) => err "exceed" [("i", Json.num i)]
  | .error .coerce => err "coerce"

def mapOut : Except (MapErr Json) (List (Json × Json)) → Json
  | .ok kvs => ok (jpairs kvs)
  | .error (.key k) => err "key" [("k", k)]
  | .error (.value k) => err "value" [("k", k)]
  | .error .coerce => err "coerce"
  | .error .constraint => err "constraint"

def dataOut : Except (DataErr String) (List (String × Json)) → Json
  | .ok kvs => ok (jspairs kvs)
  | .error (.absence k) => err "absence" [("k", Json.str k)]
  | .error (.parse k) => err "parse" [("k", Json.str k)]
  | .error (.exceed k) => err "exceed" [("k", Json.str k)]
  | .error .collected => err "collected"
  | .error .dependencies => err "dependencies"

def kindOf (j : Json) : SeqKind :=
  match str! j with
  | "set" => .set | "frozenset" => .frozenset | "tuple" => .tupleVar | _ => .list

def putBackOut (p : Parser Json) (xs : List Json) : Except SeqErr (List Json) → Json
  | .ok rs => ok (jarr (putBack p xs rs))
  | e => seqOut e

def handleSeq (j : Json) : Json :=
  let pol := polOf (fld j "policy")
  let k := kindOf (fld j "kind")
  if isNull (fld j "items") then
    Json.mkObj [("model", err "coerce"), ("spec", err "coerce")]
  else
    let p := parserOf (fld j "items")
    let xs := (tableOf (fld j "items")).map (·.1)
    -- validators of a constrained container (`min_length` / `max_length`), run after the policy loop
    let cons : List Json → Bool := fun rs =>
      (match optNat (fld j "min_length") with | some n => decide (rs.length ≥ n) | none => true) &&
      (match optNat (fld j "max_length") with | some n => decide (rs.length ≤ n) | none => true)
    let W : World Json := { asSeq := fun _ _ => some xs, mkSeq := fun _ rs => jarr rs,
                            asMap := fun _ => none, mkMap := fun _ => Json.null }
    let viaRule : Except SeqErr Json → Except SeqErr (List Json)
      | .ok v => .ok (arr! v)
      | .error e => .error e
    -- a container that is a condition of a union (Optional[List[int]]): rows carry the element's conversion under
    -- the strict and the no-data-loss preferences as well: [raw, common, strict, noLoss]
    let col (i : Nat) : Parser Json := fun x =>
      match (arr! (fld j "items")).find? (fun r => (arr! r).head? == some x) with
      | some r => (match (arr! r)[i]? with | some c => if isNull c then none else some c | none => none)
      | none => none
    let pm : Mode → Parser Json := fun m => match m with | .common => col 1 | .strict => col 2 | .noLoss => col 3
    let o : Opts := ⟨pol, .throw, .throw⟩
    let viaUnion : Option Json → Except SeqErr (List Json)
      | some v => .ok (arr! v)
      | none => .error .coerce          -- every condition rejected: the union raises
    let model := if bool! (fld j "union") then
                   viaUnion (unionParse (!(bool! (fld j "legacy_union"))) o [seqBranch W k pm] Json.null)
                 else if bool! (fld j "legacy") then parseSeqLegacyFrom k.subscriptable pol p 0 xs
                 else viaRule (parseSeqRuleC W k pol p cons Json.null)
    let W' : World Json := { W with asSeq := fun _ _ => some (removeOffenders p xs) }
    let strictClean := viaRule (parseSeqRuleC W' k .throw p cons Json.null)
    let spec := match pol with
      | .exclude => seqOut strictClean                       -- C11_seq_rule_exclude_constrained
      | .preserve => (match strictClean with
          | .error .constraint => seqOut model               -- the literal sentence has no right-hand side here
          | _ => putBackOut p xs strictClean)                -- C11_seq_rule_preserve_constrained_partial (literal side)
      | .throw => seqOut (viaRule (parseSeqRuleC W k .throw p cons Json.null))
    let known := pol == .preserve && KnownDefect.consRejectsPutBack p cons xs
    Json.mkObj [("model", seqOut model), ("spec", spec), ("known_defect", Json.bool known)]

def extraOf (j : Json) : TupExtra Json :=
  match str! (fld j "extra") with
  | "forbid" => .forbid | "keep" => .keep | "typed" => .typed (parserOf (fld j "extra_table")) | _ => .drop

def handleTuple (j : Json) : Json :=
  let pol := polOf (fld j "policy")
  if isNull (fld j "xs") then Json.mkObj [("model", err "coerce"), ("spec", err "coerce")] else
  let xs := arr! (fld j "xs")
  let ps := (arr! (fld j "tables")).map parserOf
  let extra := extraOf j
  let model := parseTupleFixed pol ps extra xs
  let spec := match pol with
    | .preserve => parseTupleFixed .throw (ps.map orSelf)
        (match extra with | .typed p => .typed (orSelf p) | e => e) xs          -- C11_tuple_fixed_preserve
    | _ => parseTupleFixed .throw ps extra xs                                   -- C11_tuple_fixed_exclude_is_throw
  Json.mkObj [("model", tupOut model), ("spec", tupOut spec)]

def handleMap (j : Json) : Json :=
  let pk := polOf (fld j "pk")
  let pv := polOf (fld j "pv")
  if isNull (fld j "items") then Json.mkObj [("model", err "coerce"), ("spec", err "coerce")] else
  let rows := arr! (fld j "items")
  let kvs := rows.map fun r => match arr! r with | k :: v :: _ => (k, v) | _ => (Json.null, Json.null)
  let ktab := rows.map fun r => match arr! r with
    | k :: _ :: kc :: _ => (k, if isNull kc then none else some kc) | _ => (Json.null, none)
  let vtab := rows.map fun r => match arr! r with
    | _ :: v :: _ :: vc :: _ => (v, if isNull vc then none else some vc) | _ => (Json.null, none)
  let kp : Parser Json := fun x => (ktab.lookup x).getD none
  let vp : Option (Parser Json) := if bool! (fld j "has_vt") then some (fun x => (vtab.lookup x).getD none) else none
  let colK (i : Nat) : Parser Json := fun x =>
    match rows.find? (fun r => (arr! r).head? == some x) with
    | some r => (match (arr! r)[i]? with | some c => if isNull c then none else some c | none => none)
    | none => none
  let colV (i : Nat) : Parser Json := fun x =>
    match rows.find? (fun r => (arr! r)[1]? == some x) with
    | some r => (match (arr! r)[i]? with | some c => if isNull c then none else some c | none => none)
    | none => none
  let W : World Json := { asSeq := fun _ _ => none, mkSeq := fun _ _ => Json.null,
                          asMap := fun _ => some kvs, mkMap := fun l => jpairs l }
  let kpm : Mode → Parser Json := fun m => match m with | .common => colK 2 | .strict => colK 4 | .noLoss => colK 6
  let vpm : Option (Mode → Parser Json) := if bool! (fld j "has_vt") then
      some (fun m => match m with | .common => colV 3 | .strict => colV 5 | .noLoss => colV 7) else none
  let unpairs (v : Json) : List (Json × Json) := (arr! v).map fun p => match arr! p with | [a, b] => (a, b) | _ => (Json.null, Json.null)
  let model := if bool! (fld j "union") then
      (match unionParse (!(bool! (fld j "legacy_union"))) ⟨.throw, pk, pv⟩ [mapBranch W kpm vpm] Json.null with
        | some v => .ok (unpairs v)
        | none => .error .coerce)
    else parseMap pk pv kp vp kvs
  -- C11_map_general
  let spec := parseMap .throw .throw (strictifyParser pk kp) (vp.map (strictifyParser pv))
    (kvs.filter fun kv => !mapExcluded pk pv kp vp kv)
  Json.mkObj [("model", mapOut model), ("spec", mapOut spec)]

/-- `Field(required=…)`: false / true / a string of one-letter modes -/
def reqOf (j : Json) : Req String :=
  match j with
  | .bool true => .yes
  | .str ms => .modes (ms.toList.map fun c => String.singleton c)
  | _ => .no

def declOf (j : Json) : FieldDecl String String Json :=
  { name := str! (fld j "name")
    req := reqOf (fld j "req")
    default := if bool! (fld j "has_default") then some (fld j "default") else none
    onError := optPolOf (fld j "on_error")
    deps := (arr! (fld j "deps")).map str!
    parse := parserOf (fld j "table") }

def additionOf (j : Json) : Addition Json :=
  match str! (fld j "addition") with
  | "forbid" => .forbid | "keep" => .keep | "typed" => .typed (parserOf (fld j "add_table")) | _ => .ignore

def dataOf (j : Json) : List (String × Json) :=
  (arr! j).map fun p => match arr! p with | [k, v] => (str! k, v) | _ => ("", Json.null)

def propOf (j : Json) : OutProp String Json :=
  { name := str! (fld j "name")
    onError := optPolOf (fld j "on_error")
    parse := optParserOf (fld j "table")
    raw := fld j "raw" }

def andThen (a : Except (DataErr String) (List (String × Json))) (b : Except (DataErr String) (List (String × Json))) :
    Except (DataErr String) (List (String × Json)) :=
  match a with
  | .error e => .error e
  | .ok l => b.map (l ++ ·)

def handleSchema (j : Json) : Json :=
  let inv := polOf (fld j "inv")
  let mode : Option String := if isNull (fld j "mode") then none else some (str! (fld j "mode"))
  -- `is_required(options)` / `get_default(options)` are resolved in the model (FieldDecl.resolveR) from the
  -- declaration and the running options: mode, ignore_required, force_default
  let run : RunOpts String Json :=
    { mode := mode, ignoreRequired := bool! (fld j "ignore_required"),
      forceDefault := if bool! (fld j "has_force_default") then some (fld j "force_default") else none }
  let fields := (arr! (fld j "fields")).map fun f => (declOf f).resolveR run
  let a := additionOf j
  let data := dataOf (fld j "data")
  let fix := !(bool! (fld j "legacy_deps"))
  let model := if bool! (fld j "dfs") then parseDataDFG fix inv fields a data else parseDataFFG fix inv fields a data
  -- C11_fields_ff_general / C11_fields_df_general: strict parse of the filtered data
  let fdata := data.filter (fun kv => !(fieldExcluded inv fields kv || additionExcluded inv fields a kv))
  let sfields := fields.map (Field.strictified inv)
  let spec := if bool! (fld j "dfs") then parseDataDF .throw sfields (a.strictified inv) fdata
              else parseDataFF .throw sfields (a.strictified inv) fdata
  -- @property outputs are computed after the data is accepted (Schema.__post_init__); C11_props_general
  let props := (arr! (fld j "props")).map propOf
  let recs := (arr! (fld j "props")).filterMap fun q => if bool! (fld q "records") then some (str! (fld q "name")) else none
  let model := andThen model (if bool! (fld j "legacy") then parsePropsLegacy inv (fun q => recs.contains q.name) props
                              else parseProps inv props)
  let spec := andThen spec (parseProps .throw ((props.filter fun q => !propExcluded inv q).map (OutProp.strictified inv)))
  Json.mkObj [("model", dataOut model), ("spec", dataOut spec)]

def handleFunc (j : Json) : Json :=
  let pitems := polOf (fld j "pol_items")
  let inv := polOf (fld j "inv")
  let pt := optParserOf (fld j "pos_table")
  let args := arr! (fld j "args")
  let a := additionOf j
  let kwargs := dataOf (fld j "kwargs")
  let params := (arr! (fld j "params")).map fun f => (declOf f).resolve (none : Option String)
  let margs := parseCallArgs inv pitems params pt args
  let mkw := parseDataFF (κ := String) (α := Json) inv [] a kwargs
  let vargs := args.drop params.length
  let sargs := match pt with
    | some p => (match pitems with
        | .exclude => seqOut (parseSeq .throw p (removeOffenders p vargs))
        | .preserve => putBackOut p vargs (parseSeq .throw p (removeOffenders p vargs))
        | .throw => seqOut (parseSeq .throw p vargs))
    | none => ok (jarr vargs)
  let callOut : Except SeqErr (List Json × List Json) → Json
    | .ok (l, r) => Json.mkObj [("ok", jarr r), ("params", jarr l)]
    | .error (.item i) => err "item" [("i", Json.num i)]
    | .error _ => err "other"
  Json.mkObj [("model", Json.mkObj [("args", callOut margs), ("kwargs", dataOut mkw)]),
              ("spec", Json.mkObj [("args", sargs)])]

/-- a sequence of parses of one class: each step is a complete schema line (runSteps = map parseStep) -/
def handleSequence (j : Json) : Json :=
  let outs := (arr! (fld j "steps")).map handleSchema
  Json.mkObj [("model", jarr (outs.map fun o => fld o "model")), ("spec", jarr (outs.map fun o => fld o "spec"))]

def handle (j : Json) : Json :=
  match str! (fld j "op") with
  | "sequence" => handleSequence j
  | "seq" => handleSeq j
  | "tuple_fixed" => handleTuple j
  | "map" => handleMap j
  | "schema" => handleSchema j
  | "func" => handleFunc j
  | _ => Json.mkObj [("skip", Json.bool true)]

def main : IO Unit := serve handle
