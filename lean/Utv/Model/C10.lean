/-
C10 — model of error collection (`collect_errors`, `max_errors`) in utype's parsers.

Hand-written, branch for branch, of
  * `RuntimeContext.handle_error / raise_error / collect_tmp_error / clear_tmp_error / enter`
    (utype/parser/options.py:389-480),
  * the error sites of `Rule.parse` (rule.py:1681-1749) and of the argument parsers
    `_parse_seq_args / _parse_tuple_args / _parse_map_args` (rule.py:1891-2034),
  * `LogicalType.logical_parse` for `& | ^ ~` (rule.py:359-470, after the `fix:` commits 592a37c — the `&`
    branch falls through to `context.raise_error()` — and 4070fa5 — `^` tries every argument on the original input),
  * `ParserField.parse_value` (field.py:1059-1089), `BaseParser.parse_addition / data_first_parse /
    field_first_parse / __call__` (base.py:342-619).

What is *not* the property's business is abstract (`World`): the conversion of a value to a plain
class under the two transformer flags, `type(value) == cls`, the constraint validators.  Every theorem
is for every `World`.

A context is `mode` (collect_errors, max_errors) + the other options the error sites read + the two
error lists.  Every function returns the context it leaves behind *and* the outcome, because Python
code keeps using a context after an exception raised by `handle_error` was caught (`^`, `~`, `&`).

Recursion through the type tree takes a fuel argument; theorems are `∀ fuel`.

Line numbers in the comments: the `^` branch is cited at /repo b5a09b7 (rewritten by fix 4070fa5); the other
citations are those of the tree at 7d07f06 — at b5a09b7 the same code sits at rule.py logical_parse +5,
`Rule.parse` +6, argument parsers +11, options.py +2, field.py +2, base.py +1 (data-first) … +6 (field-first).

Fragment (stated, generated accordingly by harness/c10.py): one accepted key per field (no aliases, so
the alias-conflict branches base.py:455-459,546-556 are dead: dict keys are distinct), no
dependencies / no_input / discriminator / mode, plain defaults, `addition ∈ {None, False, True}`,
`ignore_required = ignore_constraints = False`, no `contains`, sequence origins list/tuple.
-/
namespace Utv.C10

/-! ### errors, exceptions, contexts -/

inductive Kind where
  | parse | absence | exceed | tupleExceed | constraint | oneOf | negate
  | paramsExceed | paramsLack | depsAbsence     -- errors of a whole mapping: they name no item
  | collected        -- a CollectedParseError handed to handle_error as one error object
  | other            -- any non-ParseError exception (TypeError/ValueError of a converter, IndexError)
  deriving DecidableEq, Repr

/-- an error object as stored in `context.errors`: its class and its `item` -/
structure Err where
  kind : Kind
  item : Option String := none
  deriving DecidableEq, Repr

/-- what is raised: the error object itself (fail-fast, `raise e`) or a `CollectedParseError(errors)` -/
inductive Exc where
  | raw (e : Err)
  | collected (es : List Err)
  deriving DecidableEq, Repr

/-- the exception object when it is itself appended to an error list (`except Exception as e: handle_error(e)`) -/
def Exc.toErr : Exc → Err
  | .raw e => e
  | .collected _ => { kind := .collected }

abbrev Res := Except Exc

/-! ### values, types -/

inductive Val where
  | atom (a : String)                   -- a scalar, opaque to the model (canonical text)
  | seq (tag : Nat) (xs : List Val)     -- 0 list, 1 tuple
  | map (kvs : List (Val × Val))
  deriving BEq, Repr, Inhabited

def Val.elems : Val → List Val
  | .seq _ xs => xs
  | _ => []

def Val.pairs : Val → List (Val × Val)
  | .map kvs => kvs
  | _ => []

/-- `result[key] = val` on an insertion-ordered dict -/
def assocSet [BEq κ] (k : κ) (v : β) : List (κ × β) → List (κ × β)
  | [] => [(k, v)]
  | (k', v') :: rest => if k' == k then (k', v) :: rest else (k', v') :: assocSet k v rest

inductive Comb where
  | all | any | one | neg          -- `&`  `|`  `^`  `~`
  deriving DecidableEq, Repr

inductive ArgKind where
  | none
  | seq (tag : Nat)       -- `_parse_seq_args`, result re-wrapped as `origin(result)` (rule.py:1719-1722)
  | tuple                 -- `_parse_tuple_args`
  | map                   -- `_parse_map_args`
  deriving DecidableEq, Repr

inductive Ty where
  | leaf (t : Nat)                                                       -- a plain class
  | rule (origin : Ty) (kind : ArgKind) (args : List Ty) (cons : List Nat) -- a `Rule` subclass
  | comb (op : Comb) (ts : List Ty)                                      -- a combinator type
  deriving Repr, Inhabited

structure Mode where
  collect : Bool
  maxErrors : Option Nat
  deriving DecidableEq, Repr

/-- fail-fast: `Options.__init__` drops `max_errors` without `collect_errors` (options.py:175-181) -/
def Mode.ff : Mode := { collect := false, maxErrors := none }

inductive Policy where
  | throw | exclude | preserve
  deriving DecidableEq, Repr

/-- the `addition` option: None / False / True / a type -/
inductive Addition where
  | none | no | yes
  | typed (T : Ty)
  deriving Repr

/-- `options.addition is False` -/
def Addition.isNo : Addition → Bool
  | .no => true
  | _ => false

/-- `not options.addition` is false: True or a type -/
def Addition.truthy : Addition → Bool
  | .yes => true
  | .typed _ => true
  | _ => false

structure Opts where
  ndl : Bool := false                 -- no_data_loss
  nec : Bool := false                 -- no_explicit_cast
  addition : Addition := .none        -- the context's option (runtime options included)
  /-- `parser.addition_type`: the type of additional keys *declared* with the class / `**kwargs: T`
  (base.py:108-112); `parse_addition` ignores a type given only at run time (base.py:421-424).  A constant of
  the declaration, carried with the options for convenience. -/
  addTy : Option Ty := none
  invalidItems : Policy := .throw
  invalidKeys : Policy := .throw
  invalidValues : Policy := .throw
  dfs : Bool := false                 -- data_first_search
  maxParams : Option Nat := none      -- max_params (0 = not set: `if options.max_params:`)
  minParams : Option Nat := none      -- min_params
  deriving Repr

structure Ctx where
  mode : Mode
  o : Opts
  errors : List Err := []
  tmp : List Err := []
  deriving Repr

/-- a context with empty error lists -/
def clean0 (m : Mode) (o : Opts) : Ctx := { mode := m, o := o }

/-- the `Options` a union stage puts on top of the inherited ones (rule.py:384,400) -/
inductive Override where
  | none | strict | noLoss
  deriving DecidableEq, Repr

def Opts.merge (o : Opts) : Override → Opts
  | .none => o
  -- `Options(no_data_loss=True, …)` carries `addition=False` (options.py:151-155 since fix 64ecb5e); merged over
  -- the inherited options (`__and__`) it replaces their `addition`
  -- since fix e7d1ed5 the two trial stages also run with invalid_items / invalid_keys / invalid_values = throw
  -- (rule.py:398-402, 418-420): only the stage whose result is returned applies the declared policies
  | .strict => { o with ndl := true, nec := true, addition := .no,
                        invalidItems := .throw, invalidKeys := .throw, invalidValues := .throw }
  | .noLoss => { o with ndl := true, addition := .no,
                        invalidItems := .throw, invalidKeys := .throw, invalidValues := .throw }

/-- `context.enter(route, options)` (options.py:389-405): same options (merged), fresh error lists -/
def Ctx.enter (c : Ctx) (ov : Override := .none) : Ctx := clean0 c.mode (c.o.merge ov)

/-- `handle_error(e, force_raise)` (options.py:457-474): always appends; returns what it raises, if anything -/
def Ctx.handleError (c : Ctx) (e : Err) (force : Bool := false) : Ctx × Option Exc :=
  let c' := { c with errors := c.errors ++ [e] }
  if force || !c.mode.collect then (c', some (.raw e))
  else match c.mode.maxErrors with
    | some m => if c'.errors.length ≥ m then (c', some (.collected (c'.errors ++ c'.tmp))) else (c', none)
    | none => (c', none)

/-- `raise_error()` (options.py:434-442) -/
def Ctx.raiseError (c : Ctx) : Option Exc :=
  if c.errors.isEmpty && c.tmp.isEmpty then none else some (.collected (c.errors ++ c.tmp))

/-- `collect_tmp_error(e)` (options.py:444-448) -/
def Ctx.collectTmp (c : Ctx) (e : Err) : Ctx := { c with tmp := c.tmp ++ [e] }

/-- `clear_tmp_error()` (options.py:450-451) -/
def Ctx.clearTmp (c : Ctx) : Ctx := { c with tmp := [] }

/-- `context.raise_error(); return value` -/
def finish (c : Ctx) (v : α) : Ctx × Res α :=
  match c.raiseError with
  | some x => (c, .error x)
  | none => (c, .ok v)

/-- sequencing inside one Python function: an exception ends the function, the context keeps what it collected -/
def andThen (r : Ctx × Res α) (k : Ctx → α → Ctx × Res β) : Ctx × Res β :=
  match r with
  | (c, .ok a) => k c a
  | (c, .error x) => (c, .error x)

/-! ### the shape shared by all parse loops

One iteration either has nothing to report, or calls `context.handle_error(e)` and — when that does
not raise — carries on with the next item (`report`), or calls `handle_error(e)` and then raises anyway
(`abort`). -/

inductive Step (α : Type) where
  | keep (a : α)
  | report (e : Err) (a : α)
  | abort (e : Err) (x : Exc)     -- no loop of the current tree ends this way any more (it was the missing-prefix
                                  -- branch of `_parse_tuple_args` before fix 40b0acf); the loop lemmas cover it

def runLoop (step : α → ι → Step α) : Ctx → List ι → α → Ctx × Res α
  | c, [], a => (c, .ok a)
  | c, i :: is, a =>
    match step a i with
    | .keep a' => runLoop step c is a'
    | .report e a' =>
      match c.handleError e with
      | (c', some x) => (c', .error x)
      | (c', none) => runLoop step c' is a'
    | .abort e x =>
      match c.handleError e with
      | (c', some x') => (c', .error x')
      | (c', none) => (c', .error x)

/-! ### world -/

structure World where
  /-- `transformer(value, cls)` for a plain class under (no_data_loss, no_explicit_cast); none = raises -/
  conv : Bool → Bool → Nat → Val → Option Val
  /-- `type(value) == cls` -/
  exact : Nat → Val → Bool
  /-- validator number k applied to a value; none = raises -/
  check : Nat → Val → Option Val
  /-- `value is None` -/
  isNone : Val → Bool

/-- a parser for sub-terms (the recursive call) -/
abbrev P := Ty → Ctx → Val → Ctx × Res Val

/-- a sub-parse in an entered (isolated) context: the surrounding `try/except Exception` only looks
at whether it raised -/
def verdict (rec : P) (T : Ty) (m : Mode) (o : Opts) (v : Val) : Option Val :=
  match (rec T (clean0 m o) v).2 with
  | .ok r => some r
  | .error _ => none

/-! ### argument parsers (rule.py:1891-2034) -/

/-- one iteration of `_parse_seq_args` (rule.py:1954-1974) -/
def seqStep (rec : P) (T : Ty) (m : Mode) (o : Opts) (acc : List Val) (it : Val × Nat) : Step (List Val) :=
  match verdict rec T m o it.1 with
  | some r => .keep (acc ++ [r])
  | none =>
    match o.invalidItems with
    | .exclude => .keep acc
    | .preserve => .keep (acc ++ [it.1])
    | .throw => .report { kind := .parse, item := some (toString it.2) } acc

/-- one iteration of the prefix loop of `_parse_tuple_args` (rule.py:1901-1922) -/
def tupleStep (rec : P) (m : Mode) (o : Opts) (xs : List Val) (acc : List Val) (it : Ty × Nat) : Step (List Val) :=
  match xs[it.2]? with
  | none =>
    -- rule.py:1935-1942 at /repo 7b3aeda (since C04's fix 40b0acf): AbsenceError is handled and the loop goes on
    -- with the next prefix (before the fix `value[i]` then died with IndexError)
    .report { kind := .absence, item := some (toString it.2) } acc
  | some x =>
    match verdict rec it.1 m o x with
    | some r => .keep (acc ++ [r])
    | none =>
      if o.invalidItems == .preserve then .keep (acc ++ [x])
      else .report { kind := .parse, item := some (toString it.2) } acc

/-- one iteration of the typed-addition loop of `_parse_tuple_args` (rule.py:1934-1951): the items beyond the
declared prefix are converted to `options.addition` when that is a type -/
def tupleAddStep (rec : P) (T : Ty) (m : Mode) (o : Opts) (acc : List Val) (it : Val × Nat) : Step (List Val) :=
  match verdict rec T m o it.1 with
  | some r => .keep (acc ++ [r])
  | none =>
    if o.invalidItems == .preserve then .keep (acc ++ [it.1])
    else .report { kind := .parse, item := some (toString it.2) } acc

def parseTuple (rec : P) (ts : List Ty) (c : Ctx) (v : Val) : Ctx × Res Val :=
  let xs := v.elems
  -- :1895-1899
  let excess := if xs.length > ts.length && (c.o.addition.isNo || c.o.ndl)
                then List.range' ts.length (xs.length - ts.length) else []
  andThen (runLoop (fun (_ : Unit) (i : Nat) => Step.report { kind := .tupleExceed, item := some (toString i) } ()) c excess ())
    fun c1 _ =>
  andThen (runLoop (tupleStep rec c.mode c.o xs) c1 ts.zipIdx []) fun c2 acc =>
    -- :1924-1944 `if options.addition:` — a type converts the rest, True keeps it as it is
    match c.o.addition with
    | .typed T =>
      andThen (runLoop (tupleAddStep rec T c.mode c.o) c2 ((xs.drop ts.length).zipIdx ts.length) acc) fun c3 acc3 =>
        (c3, .ok (.seq 1 acc3))
    | .yes => (c2, .ok (.seq 1 (acc ++ xs.drop ts.length)))
    | _ => (c2, .ok (.seq 1 acc))

/-- one iteration of `_parse_map_args` (rule.py:1992-2033) -/
def mapStep (rec : P) (K : Ty) (V : Option Ty) (m : Mode) (o : Opts)
    (acc : List (Val × Val)) (kv : Val × Val) : Step (List (Val × Val)) :=
  -- value part, given the key to store under
  let valuePart (key : Val) : Step (List (Val × Val)) :=
    match V with
    | none => .keep (assocSet key kv.2 acc)
    | some VT =>
      match verdict rec VT m o kv.2 with
      | some x => .keep (assocSet key x acc)
      | none =>
        match o.invalidValues with
        | .exclude => .keep acc
        | .preserve => .keep (assocSet key kv.2 acc)
        | .throw => .report { kind := .parse } acc
  match verdict rec K m o kv.1 with
  | some k => valuePart k
  | none =>
    match o.invalidKeys with
    | .exclude => .keep acc
    | .preserve => valuePart kv.1
    | .throw => .report { kind := .parse } acc

def parseArgs (rec : P) (kind : ArgKind) (args : List Ty) (c : Ctx) (v : Val) : Ctx × Res Val :=
  match kind, args with
  | .seq tag, T :: _ =>
    andThen (runLoop (seqStep rec T c.mode c.o) c v.elems.zipIdx []) fun c1 acc => (c1, .ok (.seq tag acc))
  | .tuple, ts => parseTuple rec ts c v
  | .map, K :: rest =>
    andThen (runLoop (mapStep rec K rest.head? c.mode c.o) c v.pairs []) fun c1 acc => (c1, .ok (.map acc))
  | _, _ => (c, .ok v)

/-- one validator (rule.py:1727-1741): a failing validator leaves the value as it was -/
def checkStep (W : World) (v : Val) (k : Nat) : Step Val :=
  match W.check k v with
  | some v' => .keep v'
  | none => .report { kind := .constraint } v

/-- `Rule.parse` (rule.py:1681-1749).  The origin is transformed in the *same* context
(`transform_rule` passes `transformer.context`, rule.py:2061-2063). -/
def parseRule (W : World) (rec : P) (origin : Ty) (kind : ArgKind) (args : List Ty) (cons : List Nat)
    (c : Ctx) (v : Val) : Ctx × Res Val :=
  match rec origin c v with
  | (c1, .error _) =>
    -- :1704-1708 handle_error(ParseError(origin_exc=e), force_raise=True)
    ((c1.handleError { kind := .parse } true).1, .error (.raw { kind := .parse }))
  | (c1, .ok v1) =>
    if W.isNone v1 then (c1, .ok v1)            -- :1710-1714
    else
      andThen (parseArgs rec kind args c1 v1) fun c2 v2 =>
      andThen (runLoop (checkStep W) c2 cons v2) fun c3 v3 =>
      finish c3 v3                                -- :1746

/-! ### logical_parse (rule.py:359-470) -/

/-- `type(value) == con` -/
def exactTy (W : World) (v : Val) : Ty → Bool
  | .leaf t => W.exact t v
  | _ => false

/-- `except Exception as e: if not isinstance(e, ParseError): e = ParseError(origin_exc=e)` (rule.py:380-382, C04's
fix): what a plain-class converter raised becomes a `ParseError`; everything else in the model is one already -/
def asParseError : Exc → Exc
  | .raw { kind := .other, item := _ } => .raw { kind := .parse }
  | x => x

/-- `&` loop (rule.py:374-384): arguments share the context, the value is threaded; a failure is
handled (which may raise — fail-fast it is the exception object itself, `raise e`) and ends the loop. -/
def allLoop (rec : P) : Ctx → Val → List Ty → Ctx × Res Val
  | c, v, [] => (c, .ok v)
  | c, v, t :: ts =>
    match rec t c v with
    | (c1, .ok v1) => allLoop rec c1 v1 ts
    | (c1, .error e) =>
      match c1.handleError (asParseError e).toErr with
      | (c2, some (.raw _)) => (c2, .error (asParseError e))
      | (c2, some x) => (c2, .error x)
      | (c2, none) => (c2, .ok v)           -- break

/-- one stage of the union (rule.py:386-395, 402-411, 414-423): `some r` = returned r -/
def anyLoop (rec : P) (ov : Override) (v : Val) : Ctx → List Ty → Ctx × Option Val
  | c, [] => (c, none)
  | c, t :: ts =>
    match (rec t (c.enter ov) v).2 with
    | .ok r => (c.clearTmp, some r)
    | .error e => anyLoop rec ov v (c.collectTmp e.toErr) ts

/-- a union stage that runs only under its guard -/
def stage (rec : P) (on : Bool) (ov : Override) (v : Val) (c : Ctx) (ts : List Ty) : Ctx × Option Val :=
  if on then anyLoop rec ov v c ts else (c, none)

/-- `return val` out of a stage, or go on -/
def orElse (s : Ctx × Option Val) (k : Ctx → Ctx × Res Val) : Ctx × Res Val :=
  match s with
  | (c, some r) => (c, .ok r)
  | (c, none) => k c

def parseAny (W : World) (rec : P) (ts : List Ty) (c : Ctx) (v : Val) : Ctx × Res Val :=
  if ts.any (exactTy W v) then (c, .ok v)                                    -- :377-379
  else
    orElse (stage rec (!c.o.ndl || !c.o.nec) .strict v c ts) fun c2 =>       -- :382-395
    orElse (stage rec (!c.o.ndl && !c.o.nec) .noLoss v c2 ts) fun c3 =>      -- :399-411
    orElse (stage rec true .none v c3 ts) fun c4 =>                          -- :414-423
    finish c4 v                                                              -- :469

/-- `^` loop (rule.py:434-453, after the `fix:` commit 4070fa5): every argument is tried in an isolated
context against the *original* input; state = the value of the one argument that accepted so far
(`xor is not None`).  A second acceptance sets `xor = None`, hands `OneOfViolatedError` to
`handle_error` — outside the `with`/`try`, so what it raises leaves `logical_parse` — and ends the loop. -/
def oneLoop (rec : P) (v : Val) : Ctx → Option Val → List Ty → Ctx × Res (Option Val)
  | c, r, [] => (c, .ok r)
  | c, r, t :: ts =>
    match (rec t c.enter v).2 with
    | .error e => oneLoop rec v (c.collectTmp e.toErr) r ts          -- :441-443
    | .ok v1 =>
      match r with
      | none => oneLoop rec v c (some v1) ts                          -- :444-446
      | some _ =>
        match c.handleError { kind := .oneOf } with                   -- :447-453
        | (c2, some ex) => (c2, .error ex)
        | (c2, none) => (c2, .ok none)       -- xor = None; break

/-- `^` (rule.py:430-458, :474): no exact-type shortcut any more; exactly one argument must accept -/
def parseOne (rec : P) (ts : List Ty) (c : Ctx) (v : Val) : Ctx × Res Val :=
  andThen (oneLoop rec v c none ts) fun c1 r =>
    match r with
    | some res => finish c1.clearTmp res      -- :455-458 clear_tmp_error(); value = result
    | none => finish c1 v

/-- `~` loop (rule.py:456-467): the `handle_error` is inside the `try`, so whatever it raises ends the
loop (`except Exception: break`). -/
def negLoop (rec : P) (v : Val) : Ctx → List Ty → Ctx
  | c, [] => c
  | c, t :: ts =>
    match (rec t c.enter v).2 with
    | .error _ => c                           -- break
    | .ok _ =>
      match c.handleError { kind := .negate } with
      | (c2, some _) => c2                    -- caught: break
      | (c2, none) => negLoop rec v c2 ts

def parseComb (W : World) (rec : P) (op : Comb) (ts : List Ty) (c : Ctx) (v : Val) : Ctx × Res Val :=
  match op with
  | .all => andThen (allLoop rec c v ts) finish      -- :469 (reached since the fix)
  | .any => parseAny W rec ts c v
  | .one => parseOne rec ts c v
  | .neg => finish (negLoop rec v c ts) v

/-- `&` before the fix (`return value` right after the loop): kept for the negation witness -/
def parseCombLegacy (W : World) (rec : P) (op : Comb) (ts : List Ty) (c : Ctx) (v : Val) : Ctx × Res Val :=
  match op with
  | .all => allLoop rec c v ts
  | _ => parseComb W rec op ts c v

/-- one level of the type tree, given the parser for the levels below -/
def parseStep (W : World) (rec : P) : P
  | .leaf t, c, v =>
    match W.conv c.o.ndl c.o.nec t v with
    | some r => (c, .ok r)
    | none => (c, .error (.raw { kind := .other }))
  | .rule origin kind args cons, c, v => parseRule W rec origin kind args cons c v
  | .comb op ts, c, v => parseComb W rec op ts c v

def parseStepLegacy (W : World) (rec : P) : P
  | .comb op ts, c, v => parseCombLegacy W rec op ts c v
  | T, c, v => parseStep W rec T c v

/-- out of fuel: reported as a failure of the innermost conversion -/
def noFuel : P := fun _ c _ => (c, .error (.raw { kind := .other }))

def parse (W : World) : Nat → P
  | 0 => noFuel
  | n + 1 => parseStep W (parse W n)

def parseLegacy (W : World) : Nat → P
  | 0 => noFuel
  | n + 1 => parseStepLegacy W (parseLegacy W n)

/-! ### data classes / function keyword parameters (base.py:342-619, field.py:1059-1089) -/

structure FieldDecl where
  name : String
  ty : Option Ty
  required : Bool
  default : Option Val
  onError : Option Policy          -- Field(on_error=…); none ⇒ options.invalid_values (field.py:800-803)
  deps : List String := []         -- Field(dependencies=[…]): fields that must be given when this one is
  posOnly : Bool := false          -- a positional-only parameter (`/`): never looked up by keyword
  deriving Repr, Inhabited

abbrev Data := List (String × Val)

/-- `ParserField.parse_value` (field.py:1059-1089): the value to store (none = unprovided) and the
error to hand to `context.handle_error`, if any -/
def fieldValue (rec : P) (m : Mode) (o : Opts) (f : FieldDecl) (v : Val) : Step (Option Val) :=
  match f.ty with
  | none => .keep (some v)                                   -- :1059-1061
  | some T =>
    match verdict rec T m o v with
    | some r => .keep (some r)
    | none =>
      match f.onError.getD o.invalidValues with
      | .exclude =>
        if f.required then .report { kind := .parse, item := some f.name } f.default   -- :1076-1078,1083
        else .keep f.default
      | .preserve => .keep (some v)
      | .throw => .report { kind := .parse, item := some f.name } none

/-- store the outcome of `parse_value` under the field's name -/
def store (name : String) (res : Data) : Step (Option Val) → Step Data
  | .keep none => .keep res
  | .keep (some r) => .keep (assocSet name r res)
  | .report e none => .report e res
  | .report e (some r) => .report e (assocSet name r res)
  | .abort e x => .abort e x

def hasKey (k : String) (d : Data) : Bool := d.any (fun p => p.1 == k)

/-- `parse_addition` (base.py:390-440): (result, addition) accumulators.  A typed additional key is converted
in its own sub-context (`context.enter(key)`); what that conversion raises becomes one `ParseError(item=key)`
or is dropped / kept raw by the `invalid_values` policy; after a handled error the raw value is still returned. -/
def additionStep (rec : P) (m : Mode) (o : Opts) (acc : Data × Data) (kv : String × Val) : Step (Data × Data) :=
  match o.addition with
  | .no => .report { kind := .exceed, item := some kv.1 } acc              -- :394-396
  | .none => .keep acc                                                      -- :397-399
  | _ =>
    match o.addTy with
    | none => .keep (acc.1, assocSet kv.1 kv.2 acc.2)                       -- :403-404 no declared type
    | some T =>
      match verdict rec T m o kv.2 with                                     -- :407-409
      | some r => .keep (acc.1, assocSet kv.1 r acc.2)
      | none =>
        match o.invalidValues with
        | .exclude => .keep acc                                             -- :414-416
        | .preserve => .keep (acc.1, assocSet kv.1 kv.2 acc.2)              -- :417-418
        | .throw => .report { kind := .parse, item := some kv.1 } (acc.1, assocSet kv.1 kv.2 acc.2)  -- :419-421

/-- `data_first_parse` after C06's repair (base.py:447-546 at /repo ad95ff6).  The scan (:462-481) records what
was given in input order; in the fragment (one key per field, distinct dict keys) it is the input itself and
there are no alias conflicts.  This is one iteration of the loop over `inputs` (:483-513): an additional key goes
to `parse_addition`, a field's value to `parse_value` — unless the field was already taken from a positional
argument (`excluded_keys`, :503-504).

`parse_value(excluded_as_absent=True)` (fix 107a5ff) returns `EXCLUDED` for a value dropped by the `exclude`
policy of a non-required field; both callers then apply the field's default (field-first at once, data-first in
the loop over the fields, where such a field is not required) — which is what `.keep f.default` of `fieldValue`
stored under the name amounts to. -/
def dfStep1 (rec : P) (m : Mode) (o : Opts) (decl : List FieldDecl) (excluded : List String)
    (acc : Data × Data) (kv : String × Val) : Step (Data × Data) :=
  match decl.find? (fun f => f.name == kv.1) with
  | none => additionStep rec m o acc kv
  | some f =>
    if f.posOnly then additionStep rec m o acc kv      -- base.py:479 `not field or field.positional_only`
    else if excluded.contains f.name then .keep acc
    else
      match store f.name acc.1 (fieldValue rec m o f kv.2) with
      | .keep r => .keep (r, acc.2)
      | .report e r => .report e (r, acc.2)
      | .abort e x => .abort e x

/-- loop over the declared fields (base.py:521-533): a field that was *given* (`name in inputs`) is skipped —
also when its value was rejected — as is one taken from a positional argument; an absent required one is
reported, an absent optional one gets its default -/
def dfStep2 (data : Data) (excluded : List String) (acc : Data) (f : FieldDecl) : Step Data :=
  if hasKey f.name data || excluded.contains f.name then .keep acc
  else if f.required then .report { kind := .absence, item := some f.name } acc
  else match f.default with
    | some d => .keep (assocSet f.name d acc)
    | none => .keep acc

/-! #### errors of the whole mapping: the count of keys, dependencies

These name no item.  `g` switches them on: the parsers run with `g = true`; the property's notion "item i on
its own" (below) is the same code with `g = false`. -/

/-- `parse_data` prelude (base.py:361-376): `ParamsExceedError` / `ParamsLackError` -/
def countStep (o : Opts) (n : Nat) (_ : Unit) (isMax : Bool) : Step Unit :=
  if isMax then
    match o.maxParams with
    | some k => if k != 0 && n > k then .report { kind := .paramsExceed } () else .keep ()
    | none => .keep ()
  else
    match o.minParams with
    | some k => if k != 0 && n < k then .report { kind := .paramsLack } () else .keep ()
    | none => .keep ()

/-- the value given for a non-required field was dropped by the `exclude` policy: it counts as not given
(`ParserField.EXCLUDED`, fix 107a5ff) -/
def excludedAsAbsent (rec : P) (m : Mode) (o : Opts) (f : FieldDecl) (v : Val) : Bool :=
  match f.ty with
  | none => false
  | some T => (verdict rec T m o v).isNone && (f.onError.getD o.invalidValues == .exclude) && !f.required

/-- `parse_value` produced a value that is stored under the field's name -/
def storesB (rec : P) (m : Mode) (o : Opts) (f : FieldDecl) (v : Val) : Bool :=
  match fieldValue rec m o f v with
  | .keep (some _) => true
  | .report _ (some _) => true
  | _ => false

/-- the field takes the given value: its dependencies are demanded (`dependencies.update(...)`, base.py:516-519, 657-660) -/
def takes (rec : P) (m : Mode) (o : Opts) (data : Data) (ex : List String) (f : FieldDecl) : Bool :=
  !ex.contains f.name &&
  match data.lookup f.name with
  | none => false
  | some v => !excludedAsAbsent rec m o f v && storesB rec m o f v

/-- the field is in `unprovided_fields` (base.py:528, 600, 648) -/
def unprovidedF (rec : P) (m : Mode) (o : Opts) (data : Data) (ex : List String) (f : FieldDecl) : Bool :=
  !ex.contains f.name &&
  match data.lookup f.name with
  | none => true
  | some v => excludedAsAbsent rec m o f v

/-- the field's name is a key of `result` when the dependencies are checked -/
def inResult (rec : P) (m : Mode) (o : Opts) (data : Data) (ex : List String) (f : FieldDecl) : Bool :=
  takes rec m o data ex f || (unprovidedF rec m o data ex f && !f.required && f.default.isSome)

/-- `lack` (base.py:536-548, 662-674): demanded dependencies that are unprovided fields or not in the result.
The three sets of the code are functions of the declaration, the input and the fields' verdicts (one key per
field), so they are computed here instead of being threaded through the loops. -/
def depsLack (rec : P) (m : Mode) (o : Opts) (decl : List FieldDecl) (ex : List String) (data : Data) : List String :=
  ((decl.filter (takes rec m o data ex)).flatMap (·.deps)).filter fun d =>
    decl.any (fun f => f.name == d && unprovidedF rec m o data ex f) ||
    !(decl.any (fun f => f.name == d && inResult rec m o data ex f) || ex.contains d)

def depsStep (rec : P) (m : Mode) (o : Opts) (decl : List FieldDecl) (ex : List String) (data : Data) (g : Bool)
    (_ : Unit) (_ : Unit) : Step Unit :=
  if g && !(depsLack rec m o decl ex data).isEmpty then .report { kind := .depsAbsence } () else .keep ()

def dataFirst (rec : P) (decl : List FieldDecl) (ex : List String) (g : Bool) (c : Ctx) (data : Data) :
    Ctx × Res Data :=
  andThen (runLoop (dfStep1 rec c.mode c.o decl ex) c data ([], [])) fun c1 acc =>
  andThen (runLoop (dfStep2 data ex) c1 decl acc.1) fun c2 res2 =>
  andThen (runLoop (depsStep rec c.mode c.o decl ex data g) c2 [()] ()) fun c3 _ =>   -- :536-548
  (c3, .ok (res2 ++ acc.2))                                     -- result.update(addition)

/-- field loop of `field_first_parse` (base.py:581-665) -/
def ffStep1 (rec : P) (m : Mode) (o : Opts) (data : Data) (excluded : List String) (acc : Data) (f : FieldDecl) :
    Step Data :=
  if excluded.contains f.name then .keep acc                    -- :586-587
  else
    match data.lookup f.name with
    | none =>
      if f.required then .report { kind := .absence, item := some f.name } acc
      else match f.default with
        | some d => .keep (assocSet f.name d acc)
        | none => .keep acc
    | some v => store f.name acc (fieldValue rec m o f v)

/-- addition loop of `field_first_parse` (base.py:682-694): a key is skipped when it named a field that took
it (`used_alias` is only filled by fields that were looked up, so not by excluded ones) -/
def ffStep2 (rec : P) (m : Mode) (o : Opts) (decl : List FieldDecl) (excluded : List String)
    (acc : Data × Data) (kv : String × Val) : Step (Data × Data) :=
  if decl.any (fun f => f.name == kv.1 && !excluded.contains f.name) then .keep acc
  else additionStep rec m o acc kv

def fieldFirst (rec : P) (decl : List FieldDecl) (ex : List String) (g : Bool) (c : Ctx) (data : Data) :
    Ctx × Res Data :=
  andThen (runLoop (ffStep1 rec c.mode c.o data ex) c decl []) fun c1 res =>
  andThen (runLoop (depsStep rec c.mode c.o decl ex data g) c1 [()] ()) fun c1' _ =>   -- :662-674, before the additions
  match c.o.addition with                                      -- `if options.addition is not None`
  | .none => (c1', .ok res)
  | _ => andThen (runLoop (ffStep2 rec c.mode c.o decl ex) c1' data (res, [])) fun c2 acc => (c2, .ok (acc.1 ++ acc.2))

/-- `parse_data` (base.py:353-388).  `g = false`: without the checks of the whole mapping. -/
def parseData (rec : P) (decl : List FieldDecl) (ex : List String) (g : Bool) (c : Ctx) (data : Data) :
    Ctx × Res Data :=
  andThen (runLoop (countStep c.o data.length) c (if g then [true, false] else []) ()) fun c0 _ =>
  if c.o.dfs then dataFirst rec decl ex g c0 data else fieldFirst rec decl ex g c0 data

/-! #### output properties of a Schema (schema.py:228-286, field.py:1026-1054)

After the input was accepted (`parser(kwargs, context)` ended with `raise_error()`), `__post_init__` computes every
`@property` field and converts the result to the return annotation — in a sub-context of its own, so only the
verdict matters; a failure becomes one `ParseError(item=name)` handled in the instance's context, or is dropped /
kept raw by the policy (`Field(on_error=…)` of the property, else `invalid_values`); then `raise_error()` again. -/

/-- what the getter returns: a constant, or the parsed value of a field (none: not computable, the property is skipped) -/
inductive PropSrc where
  | const (v : Val)
  | field (name : String)
  deriving Repr, Inhabited

structure PropDecl where
  name : String
  ty : Option Ty                 -- the return annotation
  onError : Option Policy
  src : PropSrc
  deriving Repr, Inhabited

def PropDecl.compute (p : PropDecl) (res : Data) : Option Val :=
  match p.src with
  | .const v => some v
  | .field n => res.lookup n

/-- `__coerce_property__` + `parse_output_value` for one property -/
def propStep (rec : P) (m : Mode) (o : Opts) (res : Data) (acc : Data) (p : PropDecl) : Step Data :=
  match p.compute res with
  | none => .keep acc                                          -- schema.py:245-255 the getter raised: skipped
  | some attr =>
    match p.ty with
    | none => .keep (assocSet p.name attr acc)                 -- field.py:1028-1029
    | some T =>
      match verdict rec T m o attr with                        -- :1033-1034
      | some r => .keep (assocSet p.name r acc)
      | none =>
        match p.onError.getD o.invalidValues with
        | .exclude => .keep acc                                -- :1047-1048, 1054
        | .preserve => .keep (assocSet p.name attr acc)        -- :1049-1051
        | .throw => .report { kind := .parse, item := some p.name } acc   -- :1053-1054

/-- `Schema.__init__`: `parser(kwargs, context)` (parse_data + raise_error), then `__post_init__` -/
def parseSchema (rec : P) (decl : List FieldDecl) (props : List PropDecl) (c : Ctx) (data : Data) : Ctx × Res Data :=
  andThen (parseData rec decl [] true c data) fun c1 res =>
  andThen (finish c1 res) fun c2 res =>                        -- base.py:349
  andThen (runLoop (propStep rec c.mode c.o res) c2 props res) fun c3 out =>
  finish c3 out                                                -- schema.py:286

def runSchema (W : World) (fuel : Nat) (decl : List FieldDecl) (props : List PropDecl) (m : Mode) (o : Opts)
    (data : Data) : Res Data :=
  (parseSchema (parse W fuel) decl props (clean0 m o) data).2

/-- a type called on a value with a fresh context of the given options (`type_transform(value, T, options=…)`) -/
def runType (W : World) (fuel : Nat) (T : Ty) (m : Mode) (o : Opts) (v : Val) : Res Val :=
  (parse W fuel T (clean0 m o) v).2

/-- `BaseParser.__call__` (base.py:342-350): a fresh context, `parse_data`, `context.raise_error()` -/
def run (W : World) (fuel : Nat) (decl : List FieldDecl) (m : Mode) (o : Opts) (data : Data) : Res Data :=
  (andThen (parseData (parse W fuel) decl [] true (clean0 m o) data) finish).2

def runLegacy (W : World) (fuel : Nat) (decl : List FieldDecl) (m : Mode) (o : Opts) (data : Data) : Res Data :=
  (andThen (parseData (parseLegacy W fuel) decl [] true (clean0 m o) data) finish).2

/-! ### function calls with positional arguments (func.py:580-680)

Fragment: positional-or-keyword parameters (no `/`, no excluded `_x` names), then optionally `*args: T`, then
keyword-only parameters and optionally `**kwargs`.  `npos` positional parameters are the first `npos` fields. -/

structure Sig where
  decl : List FieldDecl        -- all parameters that are fields, positional ones first (positional-only first of all)
  npos : Nat                   -- how many of them can be given by position
  nposOnly : Nat := 0          -- how many of those are positional-only
  hasVar : Bool                -- `*args` declared
  posTy : Option Ty            -- its annotation
  deriving Repr

/-- one iteration of the loop over the positional arguments (func.py:623-651); accumulators: the parsed
positional arguments and `parsed_keys` -/
def posStep (rec : P) (m : Mode) (o : Opts) (sg : Sig) (acc : List Val × List String) (it : Val × Nat) :
    Step (List Val × List String) :=
  if sg.hasVar && it.2 ≥ sg.npos then
    -- `parse_pos_type` (:580-602): its own sub-context; a handled error still returns the raw value
    match sg.posTy with
    | none => .keep (acc.1 ++ [it.1], acc.2)
    | some T =>
      match verdict rec T m o it.1 with
      | some r => .keep (acc.1 ++ [r], acc.2)
      | none =>
        match o.invalidItems with
        | .preserve => .keep (acc.1 ++ [it.1], acc.2)
        | .exclude => .keep acc
        | .throw => .report { kind := .parse, item := some ("*args:" ++ toString it.2) } (acc.1 ++ [it.1], acc.2)
  else
    match (sg.decl.take sg.npos)[it.2]? with
    | none => .keep acc                                        -- :647-649 an excess argument is ignored
    | some f =>
      -- :636-640 parsed_keys.append(attname); parse_value; an unprovided outcome is not appended
      match fieldValue rec m o f it.1 with
      | .keep none => .keep (acc.1, acc.2 ++ [f.name])
      | .keep (some r) => .keep (acc.1 ++ [r], acc.2 ++ [f.name])
      | .report e none => .report e (acc.1, acc.2 ++ [f.name])
      | .report e (some r) => .report e (acc.1 ++ [r], acc.2 ++ [f.name])
      | .abort e x => .abort e x

/-- one iteration of the loop over the positional-only parameters (func.py:657-677): one that was not given is
reported absent when required, otherwise its default is appended in its own slot; its name joins `parsed_keys` -/
def posOnlyStep (acc : List Val × List String) (it : FieldDecl × Nat) : Step (List Val × List String) :=
  if acc.2.contains it.1.name then .keep acc
  -- since fix 1d9950e the reported one joins `parsed_keys` too: the keywords are parsed without it (func.py:681-686)
  else if it.1.required then .report { kind := .absence, item := some it.1.name } (acc.1, acc.2 ++ [it.1.name])
  else
    match it.1.default with
    | some d => .keep (if acc.1.length == it.2 then acc.1 ++ [d] else acc.1, acc.2 ++ [it.1.name])
    | none => .keep (acc.1, acc.2 ++ [it.1.name])

/-- a parameter bound by position and given again by keyword: Python's own `TypeError`, raised before anything is
parsed, whatever the mode and the lookup strategy (func.py:627-642, fix 96c9822) -/
def dupKw (sg : Sig) (args : List Val) (kwargs : Data) : Bool :=
  !args.isEmpty && !kwargs.isEmpty &&
  kwargs.any fun kv => ((sg.decl.take sg.npos).take args.length).any fun f => !f.posOnly && f.name == kv.1

/-- `FunctionParser.parse_params` (func.py:611-683) on a fresh context: positional arguments, positional-only
parameters that were not given, the keyword mapping, `raise_error()` -/
def parseCall (rec : P) (sg : Sig) (c : Ctx) (args : List Val) (kwargs : Data) : Ctx × Res (List Val × Data) :=
  if dupKw sg args kwargs then (c, .error (.raw { kind := .other })) else
  andThen (runLoop (posStep rec c.mode c.o sg) c args.zipIdx ([], [])) fun c1 acc =>
  andThen (runLoop posOnlyStep c1 (sg.decl.take sg.nposOnly).zipIdx acc) fun c1' acc' =>
  andThen (parseData rec sg.decl acc'.2 true c1' kwargs) fun c2 kw =>
  finish c2 (acc'.1, kw)                                       -- :682

def runCall (W : World) (fuel : Nat) (sg : Sig) (m : Mode) (o : Opts) (args : List Val) (kwargs : Data) :
    Res (List Val × Data) :=
  (parseCall (parse W fuel) sg (clean0 m o) args kwargs).2

/-! ### Specification vocabulary (independent of the loops above)

"Item `i` fails on its own": the declaration restricted to `i`, given the input restricted to `i`,
is rejected in fail-fast mode. -/

def declOf (decl : List FieldDecl) (i : String) : List FieldDecl := decl.filter (fun f => f.name == i)
def dataOf (data : Data) (i : String) : Data := data.filter (fun p => p.1 == i)

def isError : Res α → Bool
  | .ok _ => false
  | .error _ => true

/-- the top-level items of a parse: declared fields and input keys -/
def isItem (decl : List FieldDecl) (data : Data) (i : String) : Bool :=
  decl.any (fun f => f.name == i) || hasKey i data

/-- item-level parse: `parse_data` without the checks of the whole mapping (key count, dependencies); `ex`: names
already taken from positional arguments -/
def runItems (W : World) (fuel : Nat) (decl : List FieldDecl) (ex : List String) (m : Mode) (o : Opts) (data : Data) :
    Res Data :=
  (andThen (parseData (parse W fuel) decl ex false (clean0 m o) data) finish).2

/-- "item `i` fails on its own": the declaration restricted to `i`, given the input restricted to `i`, is
rejected fail-fast by the item-level parse.  This is the property's own notion, expressed with the model's
parser — the harness measures the same thing on the real code (a one-field declaration, a one-key input). -/
def failsAloneX (W : World) (fuel : Nat) (decl : List FieldDecl) (ex : List String) (o : Opts) (data : Data)
    (i : String) : Bool :=
  isItem decl data i && isError (runItems W fuel (declOf decl i) ex .ff o (dataOf data i))

def failsAlone (W : World) (fuel : Nat) (decl : List FieldDecl) (o : Opts) (data : Data) (i : String) : Bool :=
  failsAloneX W fuel decl [] o data i

/-- the parameters a call gives by position -/
def givenPos (sg : Sig) (args : List Val) : List String :=
  ((sg.decl.take sg.npos).take args.length).map (·.name)

/-- one element of `*args` as a field of its own: its type, dropped / kept / reported by `invalid_items` -/
def varField (sg : Sig) (o : Opts) : FieldDecl :=
  { name := "*args", ty := sg.posTy, required := false, default := none, onError := some o.invalidItems }

/-- the item a positional argument stands for when it fails on its own: the parameter it is bound to, parsed
alone by keyword, or `*args:j`, parsed alone against the `*args` type -/
def posFailing (W : World) (fuel : Nat) (sg : Sig) (o : Opts) (it : Val × Nat) : Option String :=
  if sg.hasVar && it.2 ≥ sg.npos then
    if isError (runItems W fuel [varField sg o] [] .ff o [("*args", it.1)]) then some ("*args:" ++ toString it.2) else none
  else
    match (sg.decl.take sg.npos)[it.2]? with
    | none => none
    | some f =>
      -- given alone *by keyword*: as an ordinary (not positional-only) parameter
      if isError (runItems W fuel [{ f with posOnly := false }] [] .ff o [(f.name, it.1)]) then some f.name else none

/-- "item `i` of the call fails on its own" -/
def callFails (W : World) (fuel : Nat) (sg : Sig) (o : Opts) (args : List Val) (kwargs : Data) (i : String) : Bool :=
  args.zipIdx.any (fun it => posFailing W fuel sg o it == some i) ||
  failsAloneX W fuel sg.decl (givenPos sg args) o kwargs i

/-- an output property as a field of its own (like `varField`): its annotation, its policy -/
def propField (p : PropDecl) (o : Opts) : FieldDecl :=
  { name := p.name, ty := p.ty, required := false, default := none, onError := some (p.onError.getD o.invalidValues) }

/-- "output property `p` fails on its own": its source is fine (a constant, or a field that parses alone) and the
computed value is rejected by the return annotation under the `throw` policy -/
def propFails (W : World) (fuel : Nat) (decl : List FieldDecl) (o : Opts) (data : Data) (p : PropDecl) : Bool :=
  let attr : Option Val :=
    match p.src with
    | .const v => some v
    | .field n =>
      match runItems W fuel (declOf decl n) [] .ff o (dataOf data n) with
      | .ok res => res.lookup n
      | .error _ => none
  match attr with
  | none => false
  | some a => isError (runItems W fuel [propField p o] [] .ff o [(p.name, a)])

/-- the errors of the whole mapping an (uncapped) collecting parse reports: they name no item -/
def globalReports (rec : P) (m : Mode) (o : Opts) (decl : List FieldDecl) (ex : List String) (data : Data) : List Err :=
  (match o.maxParams with
    | some k => if k != 0 && data.length > k then [({ kind := .paramsExceed } : Err)] else []
    | none => []) ++
  (match o.minParams with
    | some k => if k != 0 && data.length < k then [({ kind := .paramsLack } : Err)] else []
    | none => []) ++
  (if (depsLack rec m o decl ex data).isEmpty then [] else [({ kind := .depsAbsence } : Err)])

/-- the items a raised exception names -/
def Exc.items : Exc → List (Option String)
  | .raw e => [e.item]
  | .collected es => es.map (·.item)

end Utv.C10
