"""C04 — invalid input raises ParseError and nothing else; parsing always terminates.

Two streams, both run on the real utype through its public API inside worker processes under the
per-case kill of harness/common.py (a hang is `{"hang": true}`):

* scripted scenarios (kinds rule / logical / schema / func): the declared types are *component* classes
  registered with `utype.register_transformer`, whose converter does what the case's script says for each
  token (return a token, return None, raise any exception class, loop forever); values carry scripted
  `__gt__/__len__/__ne__/__hash__`.  The same scenario runs on the Lean model (`drivers/C04.lean`) and
  outcome class, ParseError subclass, `origin_exc` class, item and the body / post-init flags are compared:
  which `except` site handled which exception is thereby compared site by site.
* kind ts: `datetime` of numeric inputs against the concrete loop model (number of divisions by 1000).
* kind hostile: composable type / data-class / function descriptors x hostile real values; no model
  prediction, only the property's predicate (spec sweep) — the failing-input search lives here.
"""
from __future__ import annotations

import json
import os
import random
import sys
from fractions import Fraction

from .common import Check

# ------------------------------------------------------------------------------------------------
# exception class table (ids shared with lean/Utv/Model/C04.lean `K`)
# ------------------------------------------------------------------------------------------------
PERR_NAMES = {
    1: "ParseError", 2: "ConstraintError", 3: "AbsenceError", 4: "TupleExceedError", 5: "ExceedError",
    6: "AliasConflictError", 7: "CollectedParseError", 8: "NegateViolatedError", 9: "OneOfViolatedError",
    10: "DiscriminatorMismatchError", 11: "DependenciesAbsenceError", 12: "ParamsExceedError",
    13: "ParamsLackError", 14: "DepthExceedError", 15: "TypeMismatchError", 16: "UserParseError",
}
OTHER_NAMES = {
    100: "TypeError", 101: "ValueError", 102: "KeyError", 103: "IndexError", 104: "AttributeError",
    105: "RecursionError", 106: "OverflowError", 107: "InvalidOperation", 108: "RuntimeError",
    109: "UnicodeDecodeError", 110: "MemoryError", 111: "ZeroDivisionError", 112: "StopIteration",
    113: "AssertionError", 114: "LookupError", 115: "OSError", 116: "NotImplementedError", 117: "EOFError",
    118: "BufferError", 119: "JSONDecodeError", 120: "UserWarning", 121: "DeprecationWarning",
}
NAME_ID = {v: k for k, v in {**PERR_NAMES, **OTHER_NAMES}.items()}
RAISABLE_PERR = [1, 2, 3, 16]
RAISABLE_OTHER = [100, 101, 102, 103, 104, 105, 106, 107, 108, 109, 110, 111, 112, 113, 115, 116]
ITEM_SITES = {3, 5, 6, 7, 11, 12, 16, 17, 18, 19, 20, 21, 22, 27, 29}
NCOMP = 8
VALIDATORS = {0: "gt", 1: "max_length"}


def cls_id(e) -> int:
    return NAME_ID.get(type(e).__name__, 199)


# ------------------------------------------------------------------------------------------------
# worker side: scripted components
# ------------------------------------------------------------------------------------------------
_ENV = {}


def _env():
    """component classes and token classes, created (and registered) once per worker process"""
    if _ENV:
        return _ENV
    import utype
    from utype.utils import exceptions as exc

    class UserParseError(exc.ParseError):
        pass

    state = {"script": {}, "base": (False, False), "flags": {}}

    def make_exc(cid):
        import decimal
        if cid == 16:
            return UserParseError("user")
        if cid in PERR_NAMES:
            k = getattr(exc, PERR_NAMES[cid])
            if cid == 7:
                return k(errors=[exc.ParseError("x")])
            return k("scripted")
        if cid == 107:
            return decimal.InvalidOperation("scripted")
        if cid == 109:
            return UnicodeDecodeError("utf-8", b"\xff", 0, 1, "scripted")
        if cid == 119:
            return json.JSONDecodeError("scripted", "x", 0)
        import builtins
        return getattr(builtins, OTHER_NAMES[cid])("scripted")

    def tok_of(v):
        if isinstance(v, Tok):
            return v.n
        if isinstance(v, bool):
            return 9999
        if isinstance(v, int):
            return v
        if v is None:
            return 9998
        return 9999

    def run_act(act, dflt, who=None):
        if act is None:
            return dflt
        if "raise" in act:
            if who:
                state["flags"][who] = True
            raise make_exc(act["raise"])
        if "div" in act:
            while True:
                pass
        if "truth" in act:
            return act["truth"]
        return mk_val(act.get("ok"))

    def mk_val(j):
        if j is None:
            return None
        if isinstance(j, int):
            return UTok(j) if 5000 <= j < 9000 else Tok(j)
        if "seq" in j:
            xs = [mk_val(x) for x in j["xs"]]
            return [list, tuple, set, frozenset][j["seq"]](xs)
        if "map" in j:
            return {mk_val(k): mk_val(v) for k, v in j["map"]}
        return None

    class Tok:
        def __init__(self, n):
            self.n = n

        def __gt__(self, other):
            r = run_act(state["script"].get((9, 0, self.n)), True)
            return True if isinstance(r, Tok) else r

        def __len__(self):
            run_act(state["script"].get((9, 1, self.n)), None)
            return 0

        def __ne__(self, other):
            return run_act(state["script"].get((8, 0, self.n)), tok_of(other) != self.n)

        def __eq__(self, other):
            return not self.__ne__(other)

        def __hash__(self):
            return hash(("tok", self.n))

        def __str__(self):
            run_act(state["script"].get((5, 3, self.n)), None)
            return f"Tok{self.n}"

        def __repr__(self):
            return f"Tok({self.n})"

    class UTok(Tok):
        __hash__ = None

    comps = []
    for i in range(NCOMP):
        c = type(f"C{i}", (), {"tid": i})
        comps.append(c)

        def conv(transformer, data, t, _i=i):
            ndl, nec = bool(transformer.no_data_loss), bool(transformer.no_explicit_cast)
            stage = 0
            if state.get("union") and (ndl, nec) != state["base"]:
                stage = 1 if (ndl and nec) else 2
            n = tok_of(data)
            act = state["script"].get((stage, _i, n))
            if act is None:
                return Tok(n) if n < 9000 and not isinstance(data, Tok) else data
            return run_act(act, data)

        utype.register_transformer(c)(conv)

    _ENV.update(utype=utype, exc=exc, state=state, comps=comps, Tok=Tok, UTok=UTok, tok_of=tok_of,
                run_act=run_act, mk_val=mk_val, make_exc=make_exc)
    return _ENV


def _set_script(case):
    E = _env()
    st = E["state"]
    st["script"] = {(s, t, k): a for s, t, k, a in case.get("script", [])}
    o = case.get("opts", {})
    st["base"] = (bool(o.get("no_data_loss")), bool(o.get("no_explicit_cast")))
    st["union"] = case.get("kind") == "logical" and case.get("comb") == "|"
    st["flags"] = {}
    _CUR_NAMES.clear()
    _CUR_NAMES.update(case.get("names", {}))
    return E


def _options(E, o, **extra):
    from utype import Options
    kw = {}
    for k in ("collect_errors", "max_errors", "invalid_items", "invalid_keys", "invalid_values", "no_data_loss",
              "no_explicit_cast", "ignore_constraints", "ignore_alias_conflicts", "ignore_required",
              "data_first_search", "cast_keyword_str", "max_params", "min_params", "override"):
        if o.get(k) is not None:
            kw[k] = o[k]
    a = o.get("addition")
    if isinstance(a, dict):
        kw["addition"] = E["comps"][a["t"]]
    elif a is not None:
        kw["addition"] = a
    kw.update(extra)
    return Options(**kw)


def _item_id(e):
    import re
    it = getattr(e, "item", None)
    if type(e).__name__ == "ConstraintError":
        c = getattr(e, "constraint", None)
        for k, name in VALIDATORS.items():
            if c == name:
                return k
        return None
    if isinstance(it, bool):
        return None
    if isinstance(it, int):
        return it
    if it in ("_obj_self", "_d"):
        return {"_obj_self": 60, "_d": 61}[it]
    if isinstance(it, str) and it in _CUR_NAMES.values():
        return _key_id(it)
    if isinstance(it, str) and ":" in it and it.split(":", 1)[1] in _CUR_NAMES.values():
        return _key_id(it.split(":", 1)[1])       # "**vk:<key>"
    if isinstance(it, str):
        m = re.search(r"(\d+)$", it)
        if m and "<" not in it:
            return int(m.group(1))
    return None


def _info(e):
    from utype.utils.exceptions import ParseError
    perr = isinstance(e, ParseError)
    d = {"perr": perr, "cls": cls_id(e), "origin": None, "item": None}
    if perr and not (isinstance(e, TypeError) and isinstance(e, ValueError)):
        d["not_both"] = True        # "ParseError (which is both a TypeError and a ValueError)"
    if perr:
        oe = getattr(e, "origin_exc", None)
        if isinstance(oe, BaseException):
            d["origin"] = cls_id(oe)
        d["item"] = _item_id(e)
        d["ret"] = getattr(e, "item", None) == "<return>"
    return d


def _exc_out(e):
    if type(e).__name__ == "CollectedParseError":
        return {"out": "collected", "errors": [_info(x) for x in e.errors]}
    return {"out": "raise", "info": _info(e)}


def _canon(E, v, depth=0):
    Tok = E["Tok"]
    if depth > 6:
        return {"deep": True}
    if isinstance(v, Tok):
        return v.n
    if v is None:
        return None
    if isinstance(v, bool):
        return {"other": "bool"}
    if isinstance(v, int):
        return v if abs(v) < 10 ** 6 else {"other": "bigint"}
    if isinstance(v, (list, tuple, set, frozenset)):
        kind = 0 if isinstance(v, list) else 1 if isinstance(v, tuple) else 2 if isinstance(v, set) else 3
        xs = [_canon(E, x, depth + 1) for x in v]
        if kind >= 2:
            xs = sorted(xs, key=lambda x: json.dumps(x, sort_keys=True))
        return {"seq": kind, "xs": xs}
    if isinstance(v, dict):
        return {"map": [[_canon(E, k, depth + 1), _canon(E, x, depth + 1)] for k, x in v.items()]}
    return {"other": type(v).__name__}


def _bad_container(base, how, exc_obj):
    """an instance-compatible subclass of list / tuple / set / frozenset / dict whose own protocol raises"""
    def boom(*a, **k):
        raise exc_obj
    name = {"iter": "__iter__", "len": "__len__", "items": "items"}[how]
    return type("Bad" + base.__name__, (base,), {name: boom})


def _mk_input(E, j):
    """scenario input: tokens are plain ints; containers of tokens"""
    if j is None or isinstance(j, int):
        return j
    if "tokobj" in j:
        return E["mk_val"](j["tokobj"])
    if "raw" in j:
        return j["raw"]
    if "seq" in j:
        xs = [_mk_input(E, x) for x in j["xs"]]
        return [list, tuple, set, frozenset][j["seq"]](xs)
    if "map" in j:
        return {_mk_input(E, k): _mk_input(E, v) for k, v in j["map"]}
    return None


ORIGINS = {"list": list, "tuple": tuple, "set": set, "frozenset": frozenset, "dict": dict}


def _impl_rule(case):
    E = _set_script(case)
    from utype import Rule
    comps = E["comps"]
    o = case["origin"]
    origin = ORIGINS[o] if isinstance(o, str) else comps[o["comp"]]
    a = case.get("args") or {}
    args = []
    if "seq" in a:
        args = [comps[a["seq"]]] + ([...] if o == "tuple" else [])
    elif "tuple" in a:
        args = [comps[t] for t in a["tuple"]]
    elif "map" in a:
        args = [comps[a["map"][0]]] + ([comps[a["map"][1]]] if a["map"][1] is not None else [])
    cons = {}
    for k in case.get("validators", []):
        cons[VALIDATORS[k]] = origin() if k == 0 else 3     # a range bound must be of the origin type
    if case.get("contains") is not None:
        cons["contains"] = comps[case["contains"]]
        for k in ("min_contains", "max_contains"):
            if case.get(k) is not None:
                cons[k] = case[k]
    T = Rule.annotate(origin, *args, constraints=cons)
    if case.get("hooks"):
        st = E["state"]

        def pre_validate(cls, value, context=None):
            return E["run_act"](st["script"].get((7, 0, E["tok_of"](value))), value, "hook")

        def post_validate(cls, value, context=None):
            return E["run_act"](st["script"].get((7, 1, E["tok_of"](value))), value, "hook")
        T.pre_validate = classmethod(pre_validate)
        T.post_validate = classmethod(post_validate)
    opts = _options(E, case.get("opts", {}))
    value = _mk_input(E, case["input"])
    bc = case.get("bad_container")
    if bc:
        value = _bad_container(type(value), bc["how"], E["make_exc"](bc["cls"]))(value)
    try:
        with _warn_filter(case):
            r = T(value, context=opts.make_context())
        out = {"out": "ok", "value": _canon(E, r)}
    except Exception as e:
        out = _exc_out(e)
    out["hook_raised"] = bool(E["state"]["flags"].get("hook"))
    return out


def _warn_filter(case):
    """`warn_error`: the application turned warnings into errors (python -W error)"""
    import warnings
    cm = warnings.catch_warnings()
    cm.__enter__()
    warnings.simplefilter("error" if case.get("warn_error") else "ignore")

    class _Ctx:
        def __enter__(self):
            return self

        def __exit__(self, *a):
            cm.__exit__(*a)
            return False
    return _Ctx()


def _impl_logical(case):
    E = _set_script(case)
    from utype.parser.rule import LogicalType
    comps = [E["comps"][t] for t in case["args"]]
    T = {"&": LogicalType.all_of, "|": LogicalType.any_of, "^": LogicalType.one_of, "~": LogicalType.not_of}[case["comb"]](*comps)
    opts = _options(E, case.get("opts", {}))
    try:
        r = T(_mk_input(E, case["input"]), context=opts.make_context())
        return {"out": "ok", "value": _canon(E, r)}
    except Exception as e:
        return _exc_out(e)


_CUR_NAMES = {}     # key id -> real key / field name of the current case (non-ASCII, letter-case variants)


def _key_name(k):
    if str(k) in _CUR_NAMES:
        return _CUR_NAMES[str(k)]
    # two key ids stand for the parameter names of the (pre-fix) generated __init__
    return {60: "_obj_self", 61: "_d"}.get(k, f"k{k}")


def _key_id(name):
    """the key id a real name stands for (results / error items)"""
    for k, v in _CUR_NAMES.items():
        if v == name:
            return int(k)
    if name in ("_obj_self", "_d"):
        return {"_obj_self": 60, "_d": 61}[name]
    if name[:1] == "k" and name[1:].isdigit():
        return int(name[1:])
    return int(name) if name.isdigit() else -1


def _field(E, f, param=False):
    from utype import Field, Param
    kw = {}
    al = [_key_name(a) for a in f.get("aliases", []) if a != f["id"]]
    if al:
        kw["alias_from"] = al
    if f.get("on_error"):
        kw["on_error"] = f["on_error"]
    if f.get("default") is not None:
        kw["default"] = E["mk_val"](f["default"])
    elif not f.get("required", True):
        kw["required"] = False
    if f.get("disc_real"):
        kw["discriminator"] = "kind"
    if f.get("ci"):
        kw["case_insensitive"] = True
    return (Param if param else Field)(**kw)


def _disc_types(E):
    from typing import Literal, Union
    from utype import Schema
    if "disc" not in E:
        DA = type("DA", (Schema,), {"__annotations__": {"kind": Literal["a"]}, "__module__": __name__})
        DB = type("DB", (Schema,), {"__annotations__": {"kind": Literal["b"]}, "__module__": __name__})
        E["disc"] = Union[DA, DB]
    return E["disc"]


def _mk_class(E, name, fields, opts_json, kind, hook_k, addition_t=None, field_types=None):
    """a data class of the given kind (Schema / DataClass / @utype.dataclass) whose post-init hook is scripted"""
    import utype
    from utype import DataClass, Schema
    comps = E["comps"]
    st = E["state"]
    flags = st["flags"]
    ann, attrs = {}, {}
    for f in fields:
        fname = _key_name(f["id"])
        if field_types and f["id"] in field_types:
            ann[fname] = field_types[f["id"]]
        elif f.get("disc_real"):
            ann[fname] = _disc_types(E)
        elif f.get("t") is not None:
            ann[fname] = comps[f["t"]]
        else:
            from typing import Any
            ann[fname] = Any
        attrs[fname] = _field(E, f)
    extra = {}
    if addition_t is not None:
        extra["addition"] = comps[addition_t]
    options = _options(E, opts_json, **extra)
    attrs["__annotations__"] = ann
    attrs["__module__"] = __name__

    def hook(self, *a):
        flags["hooks"] = flags.get("hooks", 0) + 1
        flags.setdefault("hooked", []).append(name)
        E["run_act"](st["script"].get((7, 2, hook_k)), None, "hook")
    if kind == "decorated":
        return utype.dataclass(type(name, (), attrs), options=options, post_init=hook)
    attrs["__options__"] = options
    attrs["__validate__"] = hook
    return type(name, ({"Schema": Schema, "DataClass": DataClass}[kind],), attrs)


def _inst_items(inst):
    if isinstance(inst, dict):
        return list(dict(inst).items())
    return [(k, v) for k, v in vars(inst).items() if not k.startswith("__")]


def _impl_schema(case):
    E = _set_script(case)
    flags = E["state"]["flags"]
    kind = case.get("cls_kind", "Schema")
    S = _mk_class(E, "S", case["fields"], case.get("opts", {}), kind, 1 if case.get("entry") == "nested" else 0,
                  addition_t=case.get("addition_t"))
    top = "S"
    _wf = _warn_filter(case)
    try:
        entry = case.get("entry")
        if entry == "from":
            data = _mk_schema_input(E, case["input_real"])
            via = case.get("via", "from")
            ro = _options(E, case["ropts"]) if case.get("ropts") is not None else None
            if via == "init_dataclass":
                from utype.parser.cls import init_dataclass
                inst = init_dataclass(S, data, options=ro)
            elif via == "type_transform":
                from utype import type_transform
                inst = type_transform(data, S, options=ro)
            else:
                inst = S.__from__(data, options=ro)
        elif entry == "nested":
            top = "Out"
            out_f = {"id": 90, "aliases": [90], "t": None, "required": True, "default": None, "on_error": None}
            Out = _mk_class(E, "Out", [out_f], case["outer"]["opts"], case["outer"]["cls_kind"], 0, field_types={90: S})
            inst = Out(**{_key_name(90): _mk_schema_input(E, case["input_real"])})
        elif entry == "init_dict":
            inst = S(_mk_schema_input(E, case["input_real"]))
        else:
            inst = S(**{_key_name(k): _mk_input(E, v) for k, v in case["kwargs"]})
        kv = []
        for k, v in _inst_items(inst):
            kid = _key_id(k)
            kv.append([kid, _canon(E, v)])
        out = {"out": "ok", "value": sorted(kv, key=lambda p: p[0])}
    except Exception as e:
        out = _exc_out(e)
    _wf.__exit__(None, None, None)
    out["hooks"] = flags.get("hooks", 0)
    out["hook"] = top in flags.get("hooked", [])
    out["hook_raised"] = bool(flags.get("hook"))
    return out


def _mk_schema_input(E, j):
    if isinstance(j, dict) and "skv" in j:      # string-keyed mapping
        return {_key_name(k): _mk_input(E, v) for k, v in j["skv"]}
    if isinstance(j, dict) and "ikv" in j:      # int-keyed mapping
        return {k: _mk_input(E, v) for k, v in j["ikv"]}
    if isinstance(j, dict) and "pairs" in j:    # list of (name, value) pairs -> to_dict
        return [(_key_name(k), _mk_input(E, v)) for k, v in j["pairs"]]
    if isinstance(j, dict) and "badmap" in j:
        return _hv({"v": "badmap"})
    if isinstance(j, dict) and "baddict" in j:
        class BadDict(dict):
            def keys(self):
                raise KeyError("keys")

            def items(self):
                raise KeyError("items")

            def __iter__(self):
                raise KeyError("iter")
        return BadDict(a=1)
    if isinstance(j, dict) and "raw" in j:      # any JSON scalar
        return j["raw"]
    return j


def _impl_func(case):
    E = _set_script(case)
    import utype
    comps = E["comps"]
    st = E["state"]
    flags = st["flags"]
    g = {"utype": utype, "Param": utype.Param, "comps": comps, "E": E}
    parts = []
    star = False
    has_vp = case.get("pos_t") is not None or case.get("var_pos")
    va = "*va" + (f": comps[{case['pos_t']}]" if case.get("pos_t") is not None else "")
    n_po = sum(1 for p in case["params"] if p["kind"] == "po")
    for i, p in enumerate(case["params"]):
        name = _key_name(p["id"])
        if p["kind"] == "ko" and not star:
            parts.append(va if has_vp else "*")
            star = True
        s = name
        if p.get("t") is not None:
            s += f": comps[{p['t']}]"
        g[f"fld{p['id']}"] = _field(E, p, param=True)
        s += f" = fld{p['id']}"
        parts.append(s)
        if p["kind"] == "po" and i + 1 == n_po:
            parts.append("/")
    if has_vp and not star:
        parts.append(va)
    if case.get("var_kw"):
        parts.append("**vk" + (f": comps[{case['addition_t']}]" if case.get("addition_t") is not None else ""))
    ret = f" -> comps[{case['return_t']}]" if case.get("return_t") is not None else ""
    src = f"def fn({', '.join(parts)}){ret}:\n    return BODY()\n"

    def BODY():
        flags["body"] = True
        return E["run_act"](st["script"].get((7, 3, 0)), E["Tok"](0), "body")
    g["BODY"] = BODY
    exec(src, g)
    o = dict(case.get("opts", {}))
    o.pop("addition", None) if case.get("var_kw") else None
    fn = utype.parse(g["fn"], options=_options(E, o))
    try:
        r = fn(*[_mk_input(E, a) for a in case["args"]], **{_key_name(k): _mk_input(E, v) for k, v in case["kwargs"]})
        out = {"out": "ok", "value": _canon(E, r)}
    except Exception as e:
        out = _exc_out(e)
    out["body"] = bool(flags.get("body"))
    out["body_raised"] = bool(flags.get("body") and st["script"].get((7, 3, 0), {}).get("raise") is not None)
    out["src"] = src.splitlines()[0]
    return out


def _impl_ts(case):
    _env()
    from datetime import datetime
    from decimal import Decimal
    from utype import Rule
    T = Rule.annotate(datetime, constraints={})
    x = case["x"]
    v = {"int": lambda s: int(s), "float": lambda s: float(s), "dec": lambda s: Decimal(s), "str": lambda s: s,
         "bytes": lambda s: s.encode(), "list": lambda s: [float(s)]}[x["ty"]](x["s"])
    if case.get("via") == "date":
        from datetime import date
        T = Rule.annotate(date, constraints={})
    try:
        r = T(v)
        if case.get("via") == "date":
            return {"out": "ok", "ts": None}
        return {"out": "ok", "ts": r.timestamp()}
    except Exception as e:
        return _exc_out(e)


ITER_SCALARS = ["int", "float", "str", "bytes", "Decimal", "complex", "bool", "datetime", "date", "time", "timedelta", "UUID"]
ITER_ARRAYS = ["list", "tuple", "set", "frozenset"]
ITER_KINDS = ["sized", "lazy", "iterable", "getitem"]


def _impl_iter(case):
    """convert a counting input of the given kind and report how many of its items were pulled"""
    import warnings
    warnings.simplefilter("ignore")
    from utype import Options, Rule, Schema
    n = case["n"]
    tgt = case["target"]
    pulled = {"n": 0}
    items = [("k%d" % i, i) for i in range(n)] if tgt in ("dict", "dataclass") else list(range(1, n + 1))

    def walk():
        for x in items:
            pulled["n"] += 1
            yield x
    k = case["in_kind"]
    if k == "sized":
        class CL(list):
            def __iter__(self):
                return walk()
        value = CL(items)
    elif k == "lazy":
        value = walk()
    elif k == "iterable":
        class It:
            def __iter__(self):
                return walk()
        value = It()
    else:
        class Gi:
            def __getitem__(self, i):
                if i >= n:
                    raise IndexError(i)
                pulled["n"] += 1
                return items[i]
        value = Gi()
    opts = Options(no_explicit_cast=bool(case.get("nec")), no_data_loss=bool(case.get("ndl")))
    if tgt == "dataclass":
        T = type("IS", (Schema,), {"__annotations__": {"k0": int}, "k0": 0, "__module__": __name__,
                                  "__options__": Options(addition=True, no_explicit_cast=bool(case.get("nec")), no_data_loss=bool(case.get("ndl")))})
        T = Rule.annotate(list, T)          # the data class as an item type: its registered converter gets the input
        value = [value]
    else:
        T = Rule.annotate(_htypes()[tgt], constraints={})
    try:
        T(value, context=opts.make_context())
        out = "ok"
    except Exception as e:
        out = type(e).__name__
    return {"out": out, "pulled": pulled["n"], "n": n}


def iter_cases():
    out = []
    for tgt in ITER_SCALARS + ITER_ARRAYS + ["dict", "dataclass"]:
        for k in ITER_KINDS:
            for nec in (False, True):
                for ndl in (False, True):
                    for n in ((1, 40) if k == "sized" else (40,)):
                        out.append({"kind": "iter", "target": tgt, "in_kind": k, "nec": nec, "ndl": ndl, "n": n})
    return out


def impl(case):
    kind = case["kind"]
    if kind == "rule":
        return _impl_rule(case)
    if kind == "logical":
        return _impl_logical(case)
    if kind == "schema":
        return _impl_schema(case)
    if kind == "func":
        return _impl_func(case)
    if kind == "ts":
        return _impl_ts(case)
    if kind == "hostile":
        return _impl_hostile(case)
    if kind == "iter":
        return _impl_iter(case)
    raise ValueError(kind)


# ------------------------------------------------------------------------------------------------
# worker side: hostile stream (real types, real hostile values; descriptors only)
# ------------------------------------------------------------------------------------------------
def _hv(j, depth=0):
    """value descriptor -> Python object"""
    from decimal import Decimal
    import datetime as _dt
    if j is None or isinstance(j, (bool, int, float, str)):
        return j
    k = j["v"]
    if k == "float":
        return float(j["s"])
    if k == "dec":
        return Decimal(j["s"])
    if k == "int":
        return eval(j["s"], {"__builtins__": {}})          # "10**400", "-2**63"
    if k == "str":
        return j["s"] * j.get("n", 1)
    if k == "bytes":
        return bytes.fromhex(j["hex"])
    if k == "bytearray":
        return bytearray(bytes.fromhex(j["hex"]))
    if k == "mv":
        return memoryview(bytes.fromhex(j["hex"]))
    if k == "complex":
        return complex(j["s"])
    if k in ("list", "tuple", "set", "frozenset"):
        xs = [_hv(x, depth + 1) for x in j["xs"]]
        return {"list": list, "tuple": tuple, "set": set, "frozenset": frozenset}[k](xs)
    if k == "dict":
        return {_hv(a, depth + 1): _hv(b, depth + 1) for a, b in j["kv"]}
    if k == "iter":
        return iter([_hv(x, depth + 1) for x in j["xs"]])
    if k == "gen":
        return (x for x in [_hv(x, depth + 1) for x in j["xs"]])
    if k == "obj":
        return object()
    if k == "cls":
        return {"object": object, "int": int, "dict": dict}[j.get("s", "object")]
    if k == "deep":
        d = [] if j["kind"] == "list" else {}
        for _ in range(j["n"]):
            d = [d] if j["kind"] == "list" else {j.get("key", "child"): d, **({"a": 1} if j.get("a") else {})}
        return d
    if k == "datetime":
        return _dt.datetime(2020, 1, 2, 3, 4, 5)
    if k == "date":
        return _dt.date(2020, 1, 2)
    if k == "timedelta":
        return _dt.timedelta(seconds=5)
    if k == "bad":
        what = j["what"]

        class Bad:
            pass
        exc_cls = KeyError

        def boom(*a, **kw):
            raise exc_cls(what)
        for w in what.split("+"):
            setattr(Bad, "__%s__" % w, boom)
        if "eq" in what.split("+") and "hash" not in what.split("+"):
            Bad.__hash__ = lambda self: 1
        return Bad()
    if k == "lazy":
        # lazy / endless / very long iterables; `how` selects the protocol they offer
        import itertools
        how = j["how"]

        def endless():
            i = 0
            while True:
                i += 1
                yield (("k%d" % i, i) if how == "genpairs" else i)
        if how in ("gen", "genpairs"):
            return endless()
        if how == "count":
            return itertools.count()
        if how == "cycle":
            return itertools.cycle(["a"])
        if how == "repeat":
            return itertools.repeat(1)
        if how == "map":
            return map(str, itertools.count())
        if how == "range":
            return range(10 ** 12)
        if how == "longgen":
            return (i for i in range(10 ** 10))

        class It:
            pass
        if how == "iterobj":
            It.__iter__ = lambda self: self
            It.__next__ = lambda self: 1
        elif how == "iterable":
            It.__iter__ = lambda self: endless()
        elif how == "getitem":
            It.__getitem__ = lambda self, i: i
        elif how == "slowseq":
            It.__len__ = lambda self: 10 ** 12
            It.__getitem__ = lambda self, i: i
        elif how == "next_raises":
            It.__iter__ = lambda self: self

            def nx(self):
                raise OSError("next")
            It.__next__ = nx
        elif how == "next_forever":
            It.__iter__ = lambda self: self

            def nf(self):
                while True:
                    pass
            It.__next__ = nf
        elif how == "len_forever":
            def lf(self):
                while True:
                    pass
            It.__len__ = lf
            It.__iter__ = lambda self: iter([1])
        elif how == "iter_raises":
            def it(self):
                raise OSError("iter")
            It.__iter__ = it
        elif how == "getitem_raises":
            def gi(self, i):
                raise OSError("getitem")
            It.__getitem__ = gi
            It.__len__ = lambda self: 3
        elif how == "len_raises":
            def ln(self):
                raise OSError("len")
            It.__len__ = ln
            It.__iter__ = lambda self: iter([1, 2])
        return It()
    if k == "sub":
        # an instance of a SUBCLASS of a builtin container (the converters hand it back unchanged) whose own protocol
        # raises or never ends
        import itertools
        base = {"list": list, "tuple": tuple, "set": set, "dict": dict}[j["base"]]
        how = j["how"]

        def boom(*a, **kw):
            raise OSError(how)
        ns = {}
        if how == "iter_raises":
            ns["__iter__"] = boom
        elif how == "len_raises":
            ns["__len__"] = boom
        elif how == "getitem_raises":
            ns["__getitem__"] = boom
        elif how == "items_raises":
            ns["items"] = boom
            ns["keys"] = boom
        elif how == "iter_endless":
            ns["__iter__"] = lambda self: itertools.count()
        elif how == "items_endless":
            ns["items"] = lambda self: ((("k%d" % i), i) for i in itertools.count())
        cls = type("Sub" + base.__name__, (base,), ns)
        return cls({"a": 1}) if base is dict else cls([1, 2])
    if k == "selfref":
        if j.get("kind") == "dict":
            d = {}
            d["a"] = d
            return d
        lst = []
        lst.append(lst)
        return lst
    if k == "badmap":
        import collections.abc

        class BadMapping(collections.abc.Mapping):
            def __getitem__(self, key):
                raise IndexError("gi")

            def __iter__(self):
                raise KeyError("it")

            def __len__(self):
                raise KeyError("len")
        return BadMapping()
    raise ValueError(j)


_HT = {}


def _htypes():
    if _HT:
        return _HT
    import datetime as _dt
    import decimal
    import enum
    import typing
    import uuid

    class E(enum.Enum):
        A = 1
        B = "b"

    class IE(enum.IntEnum):
        X = 1
        Y = 2
    _HT.update(int=int, float=float, str=str, bytes=bytes, bool=bool, Decimal=decimal.Decimal, datetime=_dt.datetime,
               date=_dt.date, time=_dt.time, timedelta=_dt.timedelta, UUID=uuid.UUID, list=list, dict=dict, set=set,
               frozenset=frozenset, tuple=tuple, Any=typing.Any, E=E, IE=IE, complex=complex, bytearray=bytearray,
               type=type, object=object)
    _HT["None"] = type(None)
    return _HT


def _ht(j, state):
    """type descriptor -> utype type"""
    from utype import Rule
    from utype.parser.rule import LogicalType
    H = _htypes()
    if "plain" in j:
        return H[j["plain"]]
    if "rule" in j:
        r = j["rule"]
        args = [_ht(a, state) for a in r.get("args", [])]
        if r.get("ellipsis"):
            args.append(...)
        cons = dict(r.get("cons", {}))
        if "contains" in cons:
            cons["contains"] = _ht(cons["contains"], state)
        origin = H[r["origin"]] if r.get("origin") else None
        for k in ("gt", "ge", "lt", "le"):
            if k in cons and origin is not None and origin not in (int, float):
                cons[k] = _hv(cons[k]) if isinstance(cons[k], dict) else origin(cons[k])
        T = Rule.annotate(origin, *args, constraints=cons) if origin else Rule.annotate(constraints=cons)
        if r.get("options"):
            T.__options__ = _hopts(r["options"], state)
        return T
    if "union" in j:
        return LogicalType.any_of(*[_ht(a, state) for a in j["union"]])
    if "all" in j:
        return LogicalType.all_of(*[_ht(a, state) for a in j["all"]])
    if "xor" in j:
        return LogicalType.one_of(*[_ht(a, state) for a in j["xor"]])
    if "not" in j:
        return LogicalType.not_of(_ht(j["not"], state))
    if "opt" in j:
        import typing
        return typing.Optional[_ht(j["opt"], state)]
    if "schema" in j:
        return _hschema(j["schema"], state)
    if "literal" in j:
        import typing
        return typing.Literal[tuple(j["literal"])]
    if "self" in j:
        return j["self"]            # forward reference by name
    raise ValueError(j)


def _hopts(o, state):
    from utype import Options
    kw = dict(o)
    if isinstance(kw.get("addition"), dict):
        kw["addition"] = _ht(kw["addition"], state)
    return Options(**kw)


def _hschema(sd, state):
    import utype
    from utype import Field, Schema, DataClass
    name = sd.get("name", "HS")
    if name in state["classes"]:
        return state["classes"][name]
    ann, attrs = {}, {}
    for f in sd["fields"]:
        ann[f["name"]] = _ht(f["type"], state) if f.get("type") is not None else None
        if ann[f["name"]] is None:
            import typing
            ann[f["name"]] = typing.Any
        fk = dict(f.get("field", {}))
        if "default" in fk:
            fk["default"] = _hv(fk["default"])
        if fk:
            attrs[f["name"]] = Field(**fk)
    attrs["__annotations__"] = ann
    if sd.get("options"):
        attrs["__options__"] = _hopts(sd["options"], state)
    flags = state["flags"]

    def __validate__(self):
        flags.setdefault("validated", []).append(name)
    attrs["__validate__"] = __validate__
    attrs["__module__"] = __name__
    attrs["__qualname__"] = name
    base = sd.get("base", "Schema")
    if base == "dataclass":
        cls = utype.dataclass(type(name, (), attrs))
    else:
        cls = type(name, ({"Schema": Schema, "DataClass": DataClass}[base],), attrs)
    state["classes"][name] = cls
    globals()[name] = cls           # forward references resolve through the module namespace
    return cls


def _hfunc(fd, state):
    import utype
    g = {"utype": utype, "T": {}, "D": {}, "FLAGS": state["flags"]}
    parts, star = [], False
    ps = fd["params"]
    n_po = sum(1 for p in ps if p["kind"] == "po")
    va = None
    if fd.get("var_pos"):
        g["T"]["*"] = _ht(fd["var_pos"], state) if isinstance(fd["var_pos"], dict) else None
        va = "*va" + (": T['*']" if g["T"]["*"] is not None else "")
    for i, p in enumerate(ps):
        if p["kind"] == "ko" and not star:
            parts.append(va or "*")
            star = True
        s = p["name"]
        if p.get("type") is not None:
            g["T"][p["name"]] = _ht(p["type"], state)
            s += f": T['{p['name']}']"
        if "default" in p:
            g["D"][p["name"]] = _hv(p["default"])
            s += f" = D['{p['name']}']"
        parts.append(s)
        if p["kind"] == "po" and i + 1 == n_po:
            parts.append("/")
    if va and not star:
        parts.append(va)
    if fd.get("var_kw"):
        g["T"]["**"] = _ht(fd["var_kw"], state) if isinstance(fd["var_kw"], dict) else None
        parts.append("**vk" + (": T['**']" if g["T"]["**"] is not None else ""))
    ret = ""
    if fd.get("ret") is not None:
        g["T"]["return"] = _ht(fd["ret"], state)
        ret = " -> T['return']"
    flavor = fd.get("flavor", "sync")
    rv = "D.get('__ret__')"
    g["D"]["__ret__"] = _hv(fd["returns"]) if "returns" in fd else None
    if flavor == "async":
        src = f"async def fn({', '.join(parts)}){ret}:\n    FLAGS['body'] = True\n    return {rv}\n"
    elif flavor == "gen":
        src = f"def fn({', '.join(parts)}){ret}:\n    FLAGS['body'] = True\n    yield {rv}\n"
    else:
        src = f"def fn({', '.join(parts)}){ret}:\n    FLAGS['body'] = True\n    return {rv}\n"
    exec(src, g)
    if fd.get("options"):
        return utype.parse(g["fn"], options=_hopts(fd["options"], state)), flavor
    return utype.parse(g["fn"]), flavor


def _impl_hostile(case):
    import warnings
    warnings.simplefilter("error" if case.get("warn_error") else "ignore")
    state = {"classes": {}, "flags": {}}
    tgt = case["target"]
    try:
        if "type" in tgt:
            T = _ht(tgt["type"], state)
            call = lambda: T(_hv(case["value"]))                       # noqa
        elif "schema" in tgt:
            S = _hschema(tgt["schema"], state)
            entry = tgt.get("entry", "pos")
            if entry == "kw":
                call = lambda: S(**{k: _hv(v) for k, v in case["kwargs"].items()})   # noqa
            elif entry in ("from_opts", "init_dataclass", "type_transform", "outer"):
                # run-time options: the same call is made first without collect_errors/max_errors (ground truth)
                from utype import Options, Schema, type_transform
                from utype.parser.cls import init_dataclass
                ro = dict(case.get("ropts") or {})
                strict = {k: v for k, v in ro.items() if k not in ("collect_errors", "max_errors")}

                def build(od):
                    opts = Options(**od)
                    if entry == "from_opts" and hasattr(S, "__from__"):
                        return lambda: S.__from__(_hv(case["value"]), options=opts)
                    if entry == "type_transform":
                        return lambda: type_transform(_hv(case["value"]), S, options=opts)
                    if entry == "outer":
                        n = state["flags"].get("outs", 0)
                        state["flags"]["outs"] = n + 1
                        fl = state["flags"]

                        def __validate__(self):
                            fl.setdefault("validated", []).append("HOut")
                        Out = type(f"HOut{n}", (Schema,), {"__annotations__": {"inner": S}, "__options__": opts,
                                                           "__module__": __name__, "__validate__": __validate__})
                        return lambda: Out(inner=_hv(case["value"]))
                    return lambda: init_dataclass(S, _hv(case["value"]), options=opts)
                from utype.utils.exceptions import ParseError
                try:
                    build(strict)()
                    strict_failed = False
                except ParseError:
                    strict_failed = True
                except Exception:
                    strict_failed = None        # reported by the main call below
                state["flags"].pop("validated", None)
                state["flags"]["strict_failed"] = strict_failed
                call = build(ro)
            elif entry == "from" and hasattr(S, "__from__"):
                call = lambda: S.__from__(_hv(case["value"]))           # noqa
            else:
                call = lambda: S(_hv(case["value"]))                    # noqa
        else:
            fn, flavor = _hfunc(tgt["func"], state)

            def mk_call(f):
                a = [_hv(x) for x in case.get("args", [])]
                k = {n: _hv(v) for n, v in case.get("kwargs", {}).items()}
                if flavor == "async":
                    import asyncio
                    return lambda: asyncio.run(f(*a, **k))
                if flavor == "gen":
                    return lambda: list(f(*a, **k))
                return lambda: f(*a, **k)
            fo = tgt["func"].get("options") or {}
            if fo.get("collect_errors"):
                # ground truth: the same function without collect_errors / max_errors
                from utype.utils.exceptions import ParseError
                strict_fd = dict(tgt["func"], options={x: y for x, y in fo.items() if x not in ("collect_errors", "max_errors")})
                sfn, _ = _hfunc(strict_fd, state)
                try:
                    mk_call(sfn)()
                    state["flags"]["strict_failed"] = False
                except ParseError:
                    state["flags"]["strict_failed"] = True
                except Exception:
                    state["flags"]["strict_failed"] = None
                state["flags"].pop("body", None)
            call = mk_call(fn)
    except Exception as e:
        return {"out": "decl-error", "error": f"{type(e).__name__}: {e}"[:200]}
    try:
        call()
        out = {"out": "ok"}
    except RecursionError as e:
        out = {"out": "raise", "info": {"perr": False, "cls": 105, "name": "RecursionError"}}
    except Exception as e:
        from utype.utils.exceptions import ParseError
        import traceback
        tb = traceback.extract_tb(e.__traceback__)
        where = f"{os.path.basename(tb[-1].filename)}:{tb[-1].lineno}" if tb else ""
        out = {"out": "raise", "info": {"perr": isinstance(e, ParseError), "cls": cls_id(e), "name": type(e).__name__,
                                         "not_both": isinstance(e, ParseError) and not (isinstance(e, TypeError) and isinstance(e, ValueError)),
                                         "where": where, "ret": isinstance(getattr(e, "item", None), str) and (e.item == "<return>" or e.item.startswith("<generator"))}}
    out["body"] = bool(state["flags"].get("body"))
    # only the instance the caller asked for counts (a nested instance may be complete before a sibling fails)
    top = tgt["schema"].get("name", "HS") if "schema" in tgt else None
    if "schema" in tgt and tgt.get("entry") == "outer":
        top = "HOut"
    if _has_self_ref(tgt):
        top = None      # a recursive class: a complete nested instance of the same class is legitimate
    out["validated"] = top is not None and top in state["flags"].get("validated", [])
    out["strict_failed"] = bool(state["flags"].get("strict_failed"))
    return out


# ------------------------------------------------------------------------------------------------
# main-process side: generators for the scripted scenarios
# ------------------------------------------------------------------------------------------------
U = list(range(1, 9))          # token universe of the scripts
POLICIES = ["throw", "exclude", "preserve"]


def _act(rng, allow_none=False, allow_unhashable=False, p_id=0.5):
    r = rng.random()
    if r < p_id:
        return None
    if r < p_id + 0.12:
        return {"ok": rng.choice(U)}
    if allow_unhashable and r < p_id + 0.20:
        return {"ok": 5000 + rng.choice(U)}
    if allow_none and r < p_id + 0.24:
        return {"ok": None}
    if rng.random() < 0.45:
        return {"raise": rng.choice(RAISABLE_PERR), "perr": True}
    return {"raise": rng.choice(RAISABLE_OTHER), "perr": False}


def _script_for(rng, stages, types, toks, **kw):
    out = []
    for s in stages:
        for t in types:
            for k in toks:
                a = _act(rng, **kw)
                if a is not None:
                    out.append([s, t, k, a])
    return out


def _base_opts(rng):
    o = {}
    if rng.random() < 0.5:
        o["collect_errors"] = True
        if rng.random() < 0.5:
            o["max_errors"] = rng.choice([1, 2, 3])
    return o


def gen_rule(rng):
    sub = rng.choice(["seq", "seq", "seq", "tuple", "tuple", "map", "map", "comp", "comp", "contains"])
    o = _base_opts(rng)
    case = {"kind": "rule", "sub": sub, "validators": [], "opts": o}
    if sub == "seq":
        origin = rng.choice(["list", "set", "frozenset", "tuple", "set"])
        o["invalid_items"] = rng.choice(POLICIES)
        t = rng.randrange(1, NCOMP)
        xs = [rng.choice(U) for _ in range(rng.randint(0, 5))]
        ik = rng.choice([0, 1, 2, 3])
        if ik >= 2:
            xs = list(dict.fromkeys(xs))
        case.update(origin=origin, args={"seq": t}, input={"seq": ik, "xs": xs},
                    script=_script_for(rng, [0], [t], set(xs), allow_unhashable=origin in ("set", "frozenset"), p_id=0.55))
        if rng.random() < 0.12 and ORIGINS[origin] is [list, tuple, set, frozenset][ik]:
            # an instance of a subclass of the origin comes back from the converter unchanged: its own protocol raises
            cid = rng.choice(RAISABLE_OTHER + RAISABLE_PERR)
            how = rng.choice(["iter", "len"] if ik < 2 else ["iter"])
            if how == "len":
                cid = rng.choice([c for c in RAISABLE_OTHER if c != 100])   # list()'s length hint swallows TypeError (and its subclasses)
            case["bad_container"] = {"how": how, "cls": cid}
            case["script"].append([5, 4, 9999, {"raise": cid, "perr": cid < 100}])
        if rng.random() < 0.1 and o["invalid_items"] != "throw":
            case["warn_error"] = True
    elif sub == "tuple":
        ts = [rng.randrange(1, NCOMP) for _ in range(rng.randint(1, 3))]
        xs = [rng.choice(U) for _ in range(rng.randint(0, 5))]
        o["invalid_items"] = rng.choice(POLICIES)
        add = rng.choice([None, None, False, True, "t"])
        o["addition"] = {"t": rng.randrange(1, NCOMP)} if add == "t" else add
        if rng.random() < 0.2:
            o["no_data_loss"] = True
        types = set(ts) | ({o["addition"]["t"]} if isinstance(o["addition"], dict) else set())
        ik = rng.choice([0, 1])
        case.update(origin="tuple", args={"tuple": ts}, input={"seq": ik, "xs": xs},
                    script=_script_for(rng, [0], types, set(xs), p_id=0.6))
        if rng.random() < 0.12 and ik == 1:
            cid = rng.choice(RAISABLE_OTHER + RAISABLE_PERR)
            how = rng.choice(["iter", "len"])
            if how == "len":
                cid = rng.choice([c for c in RAISABLE_OTHER if c != 100])
            case["bad_container"] = {"how": how, "cls": cid}
            case["script"].append([5, 4, 9999, {"raise": cid, "perr": cid < 100}])
    elif sub == "map":
        kt = rng.randrange(1, NCOMP)
        vt = rng.choice([None, rng.randrange(1, NCOMP)])
        keys = rng.sample(U, rng.randint(0, 4))
        kv = [[k, rng.choice(U)] for k in keys]
        o["invalid_keys"] = rng.choice(POLICIES)
        o["invalid_values"] = rng.choice(POLICIES)
        sc = _script_for(rng, [0], [kt], keys, allow_unhashable=True, p_id=0.55)
        if vt is not None:
            sc += [e for e in _script_for(rng, [0], [vt], {v for _, v in kv}, p_id=0.6) if not (e[1] == kt and e[2] in keys)]
        # one script entry per (stage, type, token)
        seen, sc2 = set(), []
        for e in sc:
            if (e[0], e[1], e[2]) not in seen:
                seen.add((e[0], e[1], e[2]))
                sc2.append(e)
        if rng.random() < 0.25:
            # raw keys whose own __str__ raises (the route / error item of a key is rendered with an f-string)
            kv = [[{"tokobj": k}, v] for k, v in kv]
            for k in keys:
                if rng.random() < 0.5:
                    sc2.append([5, 3, k, {"raise": rng.choice(RAISABLE_OTHER), "perr": False}])
        case.update(origin="dict", args={"map": [kt, vt]}, input={"map": kv}, script=sc2)
        if rng.random() < 0.12:
            cid = rng.choice(RAISABLE_OTHER + RAISABLE_PERR)
            case["bad_container"] = {"how": "items", "cls": cid}
            case["script"].append([5, 4, 9999, {"raise": cid, "perr": cid < 100}])
    elif sub == "comp":
        t0 = rng.randrange(1, NCOMP)
        tok = rng.choice(U)
        vals = rng.choice([[0], [1], [0, 1], [0, 1], []])
        sc = []
        a = _act(rng, allow_none=True, p_id=0.6)
        res = tok
        if a is not None:
            sc.append([0, t0, tok, a])
            res = a.get("ok", tok) if "ok" in a else tok
        if res is not None:
            for k in vals:
                r = rng.random()
                if r < 0.3:
                    sc.append([9, k, res, {"raise": 101, "perr": False}])       # an ordinary constraint violation
                elif r < 0.45:
                    sc.append([9, k, res, {"raise": rng.choice(RAISABLE_OTHER), "perr": False}])
                elif r < 0.55:
                    sc.append([9, k, res, {"raise": rng.choice([2, 1, 16]), "perr": True}])
        if rng.random() < 0.2:
            case["hooks"] = True
            if rng.random() < 0.5:
                sc.append([7, 0, tok, {"raise": rng.choice(RAISABLE_OTHER + RAISABLE_PERR)}])
            elif res is not None:
                sc.append([7, 1, res, {"raise": rng.choice(RAISABLE_OTHER + RAISABLE_PERR)}])
            for e in sc:
                if e[0] == 7:
                    e[3]["perr"] = e[3]["raise"] < 100
        if rng.random() < 0.15:
            o["ignore_constraints"] = True
        case.update(origin={"comp": t0}, args=None, validators=vals, input=tok, script=sc)
    else:
        t = rng.randrange(1, NCOMP)
        xs = [rng.choice(U) for _ in range(rng.randint(0, 5))]
        case.update(origin="list", args=None, input={"seq": 0, "xs": xs}, contains=t,
                    min_contains=rng.choice([None, 0, 1, 2]), max_contains=rng.choice([None, 0, 1, 2, 3]),
                    script=_script_for(rng, [0], [t], set(xs), p_id=0.45))
        if case["min_contains"] is not None and case["max_contains"] is not None and case["max_contains"] < case["min_contains"]:
            case["max_contains"] = None
    return case


def gen_logical(rng):
    comb = rng.choice(["&", "|", "|", "^", "^", "~"])
    n = 1 if comb == "~" else rng.randint(2, 3)
    args = rng.sample(range(1, NCOMP), n)
    o = _base_opts(rng)
    if comb == "|":
        o["no_data_loss"] = rng.random() < 0.25
        o["no_explicit_cast"] = rng.random() < 0.25
    toks = rng.sample(U, 3)
    stages = [0, 1, 2] if comb == "|" else [0]
    sc = []
    for s in stages:
        for t in args:
            for k in toks:
                r = rng.random()
                if r < 0.35:
                    continue
                if r < 0.5:
                    sc.append([s, t, k, {"ok": rng.choice(toks)}])
                elif r < 0.75:
                    sc.append([s, t, k, {"raise": rng.choice(RAISABLE_PERR), "perr": True}])
                else:
                    sc.append([s, t, k, {"raise": rng.choice(RAISABLE_OTHER), "perr": False}])
    return {"kind": "logical", "comb": comb, "args": args, "opts": o, "input": rng.choice(toks), "script": sc}


def _gen_field(rng, i, typed=True):
    f = {"id": i, "aliases": [i] + [a for a in (10 + i, 20 + i) if rng.random() < 0.3],
         "t": rng.randrange(1, NCOMP) if typed and rng.random() < 0.85 else None,
         "on_error": rng.choice([None, None, "exclude", "preserve", "throw"]), "required": True, "default": None}
    r = rng.random()
    if r < 0.3:
        f["required"], f["default"] = False, 700 + i
    elif r < 0.45:
        f["required"] = False
    if f["required"] and f["on_error"] == "exclude":
        f["on_error"] = "preserve"       # Field(): "required field does not support on_error='exclude'"
    return f


# names on which lower(), casefold() and upper().lower() disagree, combining characters, the Turkish i's
CI_NAMES = ["größe", "straße", "λόγος", "ıd", "i̇d", "é_x", "ǆ", "ﬁeld", "σας", "maß", "ÿ", "ſ_x", "abc", "k_ab",
            # ASCII declared names that non-ASCII KEYS fold onto (casefold / NFKC), but do not lower() onto
            "profile", "session", "strasse", "office", "flask", "kelvin", "angstrom"]
FOLDS = [("ffi", "ﬃ"), ("ffl", "ﬄ"), ("ff", "ﬀ"), ("fi", "ﬁ"), ("fl", "ﬂ"), ("ss", "ß"), ("ss", "ẞ"), ("st", "ﬆ"), ("s", "ſ"),
         ("k", "\u212a"), ("a", "\u212b"), ("a", "ａ"), ("i", "İ"), ("i", "ı")]


def _ci_variants(rng, name):
    vs = [name.upper(), name.title(), name.swapcase(), name.capitalize(), name.casefold(), name.upper().lower()]
    # keys that casefold() / NFKC-fold onto the name without lower()-ing onto it (ligatures, long s, sharp s, Kelvin sign ...)
    for a, b in FOLDS:
        if a in name:
            vs += [name.replace(a, b, 1), name.replace(a, b, 1).upper(), name.replace(a, b, 1).title()]
    vs = [v for v in dict.fromkeys(vs) if v != name and v.isidentifier()]
    rng.shuffle(vs)
    return vs


def add_ci_names(rng, case, fields, for_func=False):
    """give the fields case-insensitive non-ASCII names and put letter-case variants of them among the keys: a variant
    stands for the field's key id iff variant.lower() == name (utype normalises with lower()), else it is an unknown key"""
    names = {}
    import unicodedata
    pool = [n for n in CI_NAMES if not for_func or unicodedata.normalize("NFKC", n) == n]   # the compiler NFKC-normalises identifiers
    pool = rng.sample(pool, len(pool))
    for f in fields:
        for a in f["aliases"]:
            names[str(a)] = pool.pop()
        f["ci"] = True
    km = {}
    nxt = 200
    extra = []
    for f in fields:
        for a in f["aliases"]:
            for v in rng.sample(_ci_variants(rng, names[str(a)]), min(2, len(_ci_variants(rng, names[str(a)])))):
                if rng.random() < 0.6 and v not in names.values():
                    names[str(nxt)] = v
                    owner = [b for b, n in names.items() if int(b) < 200 and n == v.lower()]
                    po_ids = {str(g["id"]) for g in fields if g.get("kind") == "po"}
                    # data-first: the name of a positional-only parameter is an ordinary extra key (base.py:476-479);
                    # field-first has no such test: the lower-cased key is looked up like any alias
                    if owner and (owner[0] not in po_ids or not case.get("opts", {}).get("data_first_search")):
                        km[str(nxt)] = int(owner[0])
                    extra.append(nxt)
                    nxt += 1
    case["names"] = names
    case["key_model"] = km
    return extra


def gen_schema(rng):
    o = _base_opts(rng)
    r = rng.random()
    if r < 0.12:
        return gen_disc(rng, o)
    conflict = rng.random() < 0.25
    fields = [_gen_field(rng, i, typed=not conflict) for i in range(rng.randint(1, 4))]
    o["data_first_search"] = rng.random() < 0.5
    o["invalid_values"] = rng.choice(POLICIES)
    add = rng.choice([None, None, False, True, "t"])
    case = {"kind": "schema", "entry": "init", "fields": fields, "opts": o, "str_keys": True, "addition_t": None}
    if add == "t":
        case["addition_t"] = rng.randrange(1, NCOMP)
        o["addition"] = {"t": case["addition_t"]}
    else:
        o["addition"] = add
    if rng.random() < 0.15:
        o["ignore_alias_conflicts"] = True
    if rng.random() < 0.1:
        o["ignore_required"] = True
    if rng.random() < 0.15:
        o["max_params"] = rng.choice([1, 2])
    if rng.random() < 0.1:
        o["min_params"] = rng.choice([1, 2, 3])
    keys = [a for f in fields for a in f["aliases"]]
    chosen = [k for k in keys if rng.random() < 0.6] + [k for k in (50, 51) if rng.random() < 0.3]
    chosen += [k for k in (60, 61) if rng.random() < 0.12]      # "_obj_self" / "_d": data keys like any other
    if rng.random() < 0.22 and not conflict:
        chosen += add_ci_names(rng, case, fields)
        rng.shuffle(chosen)
    rng.shuffle(chosen)
    sc = []
    kwargs = []
    for k in chosen:
        tok = rng.choice(U)
        if conflict:
            kwargs.append([k, {"tokobj": tok}])
        else:
            kwargs.append([k, tok])
    toks = {(v["tokobj"] if isinstance(v, dict) else v) for _, v in kwargs}
    types = {f["t"] for f in fields if f["t"] is not None} | ({case["addition_t"]} if case["addition_t"] else set())
    sc += _script_for(rng, [0], types, toks, p_id=0.55)
    if conflict:
        for tk in toks:
            r2 = rng.random()
            if r2 < 0.3:
                sc.append([8, 0, tk, {"raise": rng.choice(RAISABLE_OTHER), "perr": False}])
            elif r2 < 0.5:
                sc.append([8, 0, tk, {"truth": rng.random() < 0.5}])
    if rng.random() < 0.15:
        sc.append([7, 2, 0, {"raise": rng.choice([101, 102, 1]), "perr": False}])
        sc[-1][3]["perr"] = sc[-1][3]["raise"] < 100
    case["script"] = sc
    case["kwargs"] = kwargs
    case["cls_kind"] = rng.choice(["Schema", "DataClass", "DataClass", "decorated"])
    if rng.random() < 0.06:
        case["warn_error"] = True
    r_entry = rng.random()
    if r_entry < 0.22 and not conflict:
        # the class as a field of an outer class: the outer options reach it when they say override
        case["entry"] = "nested"
        case["novalue"] = True
        oo = _base_opts(rng)
        oo["override"] = rng.random() < 0.6
        if rng.random() < 0.3:
            oo["invalid_values"] = rng.choice(POLICIES)
        if rng.random() < 0.2:
            oo["ignore_required"] = True
        if rng.random() < 0.6:
            o.pop("collect_errors", None)
            o.pop("max_errors", None)
        if rng.random() < 0.15:
            o["override"] = True
        case["outer"] = {"opts": oo, "cls_kind": rng.choice(["Schema", "DataClass"])}
        case["input_real"] = {"skv": kwargs}
        case["input"] = {"map": [[k, v] for k, v in kwargs]}
    elif r_entry < 0.30 and not conflict and case["cls_kind"] != "decorated":
        # `Cls(<dict>)`: the positional dict of the generated __init__
        case["entry"] = "init_dict"
        form = rng.choice(["skv", "skv", "ikv", "ikv", "baddict"])
        if form == "skv":
            case["input_real"] = {"skv": kwargs}
            case["input"] = {"map": [[k, v] for k, v in kwargs]}
        elif form == "ikv":
            kv = [[50 + i, rng.choice(U)] for i in range(rng.randint(1, 2))]
            o["cast_keyword_str"] = rng.random() < 0.5
            case["str_keys"] = False
            case["input_real"] = {"ikv": kv}
            case["input"] = {"map": kv}
            case["script"] += _script_for(rng, [0], types, {v for _, v in kv}, p_id=0.6)
        else:
            case["input_real"] = {"baddict": True}
            case["input"] = {"map": []}
            case["script"].append([5, 2, 9999, {"raise": 102, "perr": False}])
    elif r_entry < 0.55 and not conflict:
        case["entry"] = "from"
        case["via"] = rng.choice(["init_dataclass", "type_transform"] if case["cls_kind"] == "decorated"
                                 else ["from", "from", "init_dataclass", "type_transform"])
        if rng.random() < 0.65:
            # options for this call only: typically collect_errors that the class does not declare
            ro = {"collect_errors": rng.random() < 0.85}
            if ro["collect_errors"] and rng.random() < 0.35:
                ro["max_errors"] = rng.choice([1, 2, 3])
            if rng.random() < (0.7 if case["via"] == "type_transform" else 0.25):
                ro["override"] = True
            if rng.random() < 0.2:
                ro["invalid_values"] = rng.choice(POLICIES)
            case["ropts"] = ro
            if rng.random() < 0.7:
                o.pop("collect_errors", None)
                o.pop("max_errors", None)
        else:
            case["ropts"] = None
        # (transform_dataclass unwraps a list/tuple input to its first item: not modelled, so no pair lists there)
        form = rng.choice(["skv", "skv", "skv", "ikv", "ikv", "raw", "badmap"] + (["pairs"] if case["via"] != "type_transform" else []))
        if form == "skv":
            case["input_real"] = {"skv": kwargs}
            case["input"] = {"map": [[k, v] for k, v in kwargs]}
        elif form == "ikv":
            kv = [[50 + i, rng.choice(U)] for i in range(rng.randint(1, 2))]
            o["cast_keyword_str"] = rng.random() < 0.5
            case["input_real"] = {"ikv": kv}
            case["input"] = {"map": kv}
            case["script"] += _script_for(rng, [0], types, {v for _, v in kv}, p_id=0.6)
            case["int_keys"] = True
        elif form == "badmap":
            # a Mapping whose own protocol raises: read by dict(data) inside init_dataclass's try
            case["input_real"] = {"badmap": True}
            case["input"] = {"map": []}
            case["script"].append([5, 2, 9999, {"raise": 102, "perr": False}])
        elif form == "raw":
            case["input_real"] = {"raw": 5}
            case["input"] = 4242
            case["script"].append([5, 0, 4242, {"raise": 100, "perr": False}])
        else:
            case["input_real"] = {"pairs": kwargs}
            case["input"] = {"seq": 0, "xs": []}
            case["script"].append([5, 0, 9999, {"ok": {"map": [[k, v] for k, v in kwargs]}}])
        if rng.random() < 0.3:
            o["no_explicit_cast"] = True
        run = running_opts(case)          # cast_keyword_str / no_explicit_cast act through the RUNNING options
        if case.get("int_keys"):
            case["str_keys"] = False          # the keys of the input are not str; cast_keyword_str (running) may cast them
            if run.get("cast_keyword_str") and run.get("no_explicit_cast"):
                # to_str(<int key>) refuses under no_explicit_cast: the cast_keyword_str loop raises TypeError
                case["script"].append([5, 1, 9999, {"raise": 100, "perr": False}])
    return case


def running_opts(case):
    """Options.make_context (options.py:251-258) on descriptors: which option record the parse runs with"""
    d = case.get("opts", {})
    given, ctx = None, None
    if case.get("entry") == "from":
        if case.get("via") == "type_transform":
            ctx = case.get("ropts") or {}
        else:
            given = case.get("ropts")
    elif case.get("entry") == "nested":
        ctx = case["outer"]["opts"]
    run = given if given is not None else d
    if ctx is not None and not run.get("override") and ctx.get("override"):
        run = ctx
    return run


def double_bound(case):
    """the CALL is ill-formed: a positional-or-keyword parameter bound by position is given again by keyword"""
    if case.get("kind") != "func":
        return False
    pos = [p for p in case["params"] if p["kind"] != "ko"]
    bound = {p["id"] for p in pos[:len(case["args"])] if p["kind"] == "pk"}
    km = case.get("key_model", {})
    return any(km.get(str(k), k) in bound for k, _ in case["kwargs"])


def _must_fail_func(case):
    if double_bound(case):
        return None
    """decorated function: a typed parameter (positional, keyword, or an item of the typed *args tail) under the throw
    policy is given a token its type refuses => the call must end in a ParseError before the body"""
    o = case.get("opts", {})
    if o.get("ignore_required") or o.get("max_params") or o.get("min_params"):
        return None
    script = {(e[0], e[1], e[2]): e[3] for e in reversed(case.get("script", []))}

    def refuses(t, tok):
        a = script.get((0, t, tok))
        return isinstance(a, dict) and "raise" in a
    pos = [p for p in case["params"] if p["kind"] != "ko"]
    for i, tok in enumerate(case["args"]):
        if i < len(pos):
            p = pos[i]
            pol = p.get("on_error") or o.get("invalid_values") or "throw"
            if p.get("t") is not None and pol == "throw" and refuses(p["t"], tok):
                return f"positional parameter #{i} is given a value its type refuses"
        elif case.get("var_pos") and case.get("pos_t") is not None:
            if (o.get("invalid_items") or "throw") == "throw" and refuses(case["pos_t"], tok):
                return f"item #{i} of the typed *args tail is refused by its type"
    km = case.get("key_model", {})
    given = {}
    for k, v in case["kwargs"]:
        given.setdefault(km.get(str(k), k), []).append(v)
    npos_given = {p["id"] for p in pos[:len(case["args"])]}
    for p in case["params"]:
        if p["kind"] == "po" or p["id"] in npos_given:
            continue
        vals = given.get(p["id"], [])
        pol = p.get("on_error") or o.get("invalid_values") or "throw"
        if len(vals) == 1 and p.get("t") is not None and pol == "throw" and refuses(p["t"], vals[0]):
            return f"keyword parameter k{p['id']} is given a value its type refuses"
    return None


def must_fail(case):
    """a sufficient condition, read off the declaration and the script alone, for "this input does not parse":
    a typed field under the throw policy is given (under exactly one of its keys) a token its type refuses, or a
    required field is not given at all.  Used as ground truth for "no instance comes out of invalid data"."""
    if case["kind"] == "func":
        return _must_fail_func(case)
    if case["kind"] != "schema" or case.get("form") or any(f.get("disc") for f in case["fields"]):
        return None
    if case.get("entry") in ("from", "init_dict") and ("skv" not in case.get("input_real", {})):
        return None
    run = running_opts(case)
    if run.get("ignore_required") or run.get("max_params") or run.get("min_params"):
        return None
    if case.get("entry") == "nested" and (case["outer"]["opts"].get("invalid_values") or "throw") != "throw":
        return None     # the outer field's own policy may legitimately preserve / exclude the failing inner value
    given = {}
    km = case.get("key_model", {})
    dup = set()
    for k, v in case["kwargs"]:
        k = km.get(str(k), k)
        if k in given:
            dup.add(k)
        given[k] = v["tokobj"] if isinstance(v, dict) else v
    script = {(e[0], e[1], e[2]): e[3] for e in reversed(case.get("script", []))}
    for f in case["fields"]:
        keys = [a for a in f["aliases"] if a in given]
        if any(a in dup for a in keys):
            continue
        if not keys:
            if f["required"] and f.get("default") is None:
                return f"required field k{f['id']} is not given"
            continue
        if len(keys) != 1 or f.get("t") is None:
            continue
        pol = f.get("on_error") or run.get("invalid_values") or "throw"
        a = script.get((0, f["t"], given[keys[0]]))
        if pol == "throw" and isinstance(a, dict) and "raise" in a:
            return f"field k{f['id']} is given a value its type refuses"
    return None


def gen_disc(rng, o):
    """a real discriminated union field; the model sees the lookup / to_dict outcomes as scripted components"""
    form = rng.choice(["a", "zzz", "unhashable", "int", "str", "none", "missing"])
    o["invalid_values"] = rng.choice(POLICIES)      # an invalid value of a discriminated field follows the field's policy
    f = {"id": 0, "aliases": [0], "t": 1, "on_error": None, "required": True, "default": None, "disc": True, "disc_real": True}
    case = {"kind": "schema", "entry": "init", "fields": [f], "opts": o, "str_keys": True, "addition_t": None,
            "novalue": True, "form": form, "script": []}
    if form == "a":
        case["kwargs"] = [[0, {"raw": {"kind": "a"}}]]
        case["kwargs_model"] = [[0, {"map": []}]]
        case["script"] = [[6, 0, 9999, {"ok": 1}]]
    elif form == "zzz":
        case["kwargs"] = [[0, {"raw": {"kind": "zzz"}}]]
        case["kwargs_model"] = [[0, {"map": []}]]
    elif form == "missing":
        case["kwargs"] = [[0, {"raw": {"other": 1}}]]
        case["kwargs_model"] = [[0, {"map": []}]]
    elif form == "unhashable":
        case["kwargs"] = [[0, {"raw": {"kind": rng.choice([[], {}, [1]])}}]]
        case["kwargs_model"] = [[0, {"map": []}]]
        case["script"] = [[6, 0, 9999, {"raise": 100, "perr": False}]]
    elif form == "int":
        case["kwargs"] = [[0, {"raw": 5}]]
        case["kwargs_model"] = [[0, 4242]]
        case["script"] = [[5, 0, 4242, {"raise": 100, "perr": False}]]
    elif form == "str":
        case["kwargs"] = [[0, {"raw": "abc"}]]
        case["kwargs_model"] = [[0, 4242]]
        case["script"] = [[5, 0, 4242, {"raise": 119, "perr": False}]]
    else:
        case["kwargs"] = [[0, {"raw": None}]]
        case["kwargs_model"] = [[0, None]]
        case["script"] = [[0, 1, 9998, {"raise": 1, "perr": True}]]
    return case


def gen_func(rng):
    o = _base_opts(rng)
    o["invalid_items"] = rng.choice(POLICIES)
    o["invalid_values"] = rng.choice(POLICIES)
    o["data_first_search"] = rng.random() < 0.5
    ps = []
    i = 0
    for kind, n in (("po", rng.randint(0, 2)), ("pk", rng.randint(0, 2))):
        for _ in range(n):
            ps.append({"id": i, "kind": kind, "aliases": [i], "t": rng.randrange(1, NCOMP) if rng.random() < 0.85 else None,
                       "on_error": None, "required": True, "default": None})
            i += 1
    # positional parameters: required ones first
    ndef = rng.randint(0, len(ps))
    for p in ps[len(ps) - ndef:]:
        p["required"], p["default"] = False, 700 + p["id"]
    for _ in range(rng.randint(0, 2)):
        p = {"id": i, "kind": "ko", "aliases": [i], "t": rng.randrange(1, NCOMP) if rng.random() < 0.85 else None,
             "on_error": None, "required": True, "default": None}
        if rng.random() < 0.4:
            p["required"], p["default"] = False, 700 + i
        ps.append(p)
        i += 1
    for p in ps:
        if rng.random() < 0.2 and p["t"] is not None:
            p["on_error"] = rng.choice(["exclude", "preserve"]) if not p["required"] else "preserve"
    npos = sum(1 for p in ps if p["kind"] != "ko")
    var_pos = rng.choice([None, None, "untyped", "t"])
    var_kw = rng.choice([None, None, "untyped", "t"])
    case = {"kind": "func", "params": ps, "opts": o, "var_pos": var_pos is not None, "pos_t": None,
            "var_kw": var_kw is not None, "addition_t": None, "return_t": rng.choice([None, rng.randrange(1, NCOMP)])}
    if var_pos == "t":
        case["pos_t"] = rng.randrange(1, NCOMP)
    if var_kw == "t":
        case["addition_t"] = rng.randrange(1, NCOMP)
        o["addition"] = {"t": case["addition_t"]}
    elif var_kw == "untyped":
        o["addition"] = True
    else:
        o["addition"] = rng.choice([None, None, False])
    nargs = rng.randint(0, npos + (2 if rng.random() < 0.5 else 0))
    case["args"] = [rng.choice(U) for _ in range(nargs)]
    # a parameter is given once: positionally or by keyword (double binding is Python's own TypeError, C08's business)
    given = {p["id"] for p in [q for q in ps if q["kind"] != "ko"][:nargs]}
    names = [p["id"] for p in ps if p["kind"] != "po" and p["id"] not in given]
    kw = [k for k in names if rng.random() < 0.6] + [k for k in (50, 51) if rng.random() < 0.25]
    # the name of a positional-only parameter passed by keyword is an ordinary additional key
    kw += [p["id"] for p in ps if p["kind"] == "po" and rng.random() < 0.12]
    if rng.random() < 0.08 and nargs:
        # an ill-formed call: a parameter bound by position is given again by keyword (Python's own TypeError)
        kw += [p["id"] for p in [q for q in ps if q["kind"] == "pk"][:1] if p["id"] in given]
    if rng.random() < 0.2:
        extra = add_ci_names(rng, case, ps, for_func=True)
        # a letter-case variant only for a parameter that is not given positionally (double binding is Python's TypeError)
        kw += [k for k in extra if case["key_model"].get(str(k)) not in given]
    rng.shuffle(kw)
    case["kwargs"] = [[k, rng.choice(U)] for k in kw]
    toks = set(case["args"]) | {v for _, v in case["kwargs"]}
    types = {p["t"] for p in ps if p["t"] is not None} | {t for t in (case["pos_t"], case["addition_t"]) if t is not None}
    sc = _script_for(rng, [0], types, toks, p_id=0.6)
    body_tok = 0
    r = rng.random()
    if r < 0.15:
        sc.append([7, 3, 0, {"raise": rng.choice(RAISABLE_OTHER), "perr": False}])
    elif r < 0.5:
        body_tok = rng.choice(U)
        sc.append([7, 3, 0, {"ok": body_tok}])
    if case["return_t"] is not None and not any(e[0] == 0 and e[1] == case["return_t"] and e[2] == body_tok for e in sc):
        a = _act(rng, p_id=0.5)
        if a is not None:
            sc.append([0, case["return_t"], body_tok, a])
    case["script"] = sc
    # model-side declaration
    fd = lambda p: {"id": p["id"], "aliases": [p["id"]], "t": p["t"], "on_error": p["on_error"],     # noqa
                    "required": p["required"], "default": p["default"], "po": p["kind"] == "po", "ci": p.get("ci", False)}
    case["fields"] = [fd(p) for p in ps]
    case["positional"] = [fd(p) for p in ps if p["kind"] != "ko"]
    case["pos_only"] = [[i, fd(p)] for i, p in enumerate(ps) if p["kind"] == "po"]
    case["exclude_indexes"] = []
    case["pos_var_index"] = npos if case["var_pos"] else None
    return case


TS_SPECIAL = [
    {"ty": "float", "s": "inf"}, {"ty": "float", "s": "-inf"}, {"ty": "float", "s": "nan"},
    {"ty": "str", "s": "inf"}, {"ty": "str", "s": "-Infinity"}, {"ty": "str", "s": "nan"}, {"ty": "str", "s": "1e400"},
    {"ty": "str", "s": "-1e999"}, {"ty": "bytes", "s": "Infinity"}, {"ty": "dec", "s": "Infinity"}, {"ty": "dec", "s": "-Infinity"},
    {"ty": "dec", "s": "NaN"}, {"ty": "dec", "s": "sNaN"}, {"ty": "dec", "s": "1E+999999"}, {"ty": "dec", "s": "-1e400"}, {"ty": "dec", "s": "1e308"}, {"ty": "list", "s": "inf"}, {"ty": "str", "s": "  inf "},
    {"ty": "str", "s": "1" * 400}, {"ty": "int", "s": str(10 ** 400)}, {"ty": "int", "s": str(-10 ** 309)},
]
W_TS = 20000000000


def gen_ts(rng):
    r = rng.random()
    if r < 0.22:
        x = dict(rng.choice(TS_SPECIAL))
    elif r < 0.5:
        k = rng.randint(0, 6)
        m = rng.choice([1, 7, 19999999999, 20000000000, 20000000001, 123456789012, 3 * 10 ** 10])
        n = m * 1000 ** k
        if m in (20000000000, 20000000001, 19999999999) and k > 1:
            n = m * 1000 ** rng.randint(0, 1)
        x = {"ty": "int", "s": str(rng.choice([1, -1]) * n)}
    elif r < 0.7:
        x = {"ty": "int", "s": str(rng.choice([1, -1]) * rng.randrange(10 ** rng.randint(1, 60)))}
    elif r < 0.85:
        x = {"ty": rng.choice(["float", "str", "list", "bytes"]), "s": repr(rng.uniform(1, 10) * 10.0 ** rng.randint(-3, 300))}
    else:
        x = {"ty": "dec", "s": f"{rng.randrange(1, 10 ** 6)}e{rng.randint(-5, 40)}"}
    return {"kind": "ts", "x": x, "via": "date" if rng.random() < 0.15 else "datetime"}


def ts_exact(x):
    """the number the loop sees, as 'nan' | 'inf' | '-inf' | Fraction"""
    from decimal import Decimal
    ty, s = x["ty"], x["s"]
    if ty == "int":
        return Fraction(int(s))
    if ty == "dec":
        d = Decimal(s)
        if d.is_nan():
            return "nan"
        if d.is_infinite():
            return "-inf" if d < 0 else "inf"
        return Fraction(d)
    f = float(s)
    if f != f:
        return "nan"
    if f in (float("inf"), float("-inf")):
        return "inf" if f > 0 else "-inf"
    return Fraction(f)


def ts_near_boundary(q):
    if not isinstance(q, Fraction) or q == 0:
        return False
    a = abs(q)
    for k in range(0, 120):
        b = W_TS * 1000 ** k
        if a == b or (k <= 1 and q.denominator == 1 and abs(a - b) == 1):
            return False
        if abs(a - b) * 10 ** 9 < b:
            return True
        if b > a * 10:
            break
    return False


# ------------------------------------------------------------------------------------------------
# main-process side: the hostile stream
# ------------------------------------------------------------------------------------------------
def _r(origin, cons=None, args=None, **kw):
    d = {"origin": origin}
    if cons:
        d["cons"] = cons
    if args:
        d["args"] = args
    d.update(kw)
    return {"rule": d}


P = lambda n: {"plain": n}      # noqa
PINT = _r("int", {"gt": 0})
H_TYPES = {
    "int>0": PINT, "int_mo": _r("int", {"multiple_of": 3}), "float>=0": _r("float", {"ge": 0}),
    "float_mo": _r("float", {"multiple_of": 0.5}), "float_dp": _r("float", {"decimal_places": 2}),
    "str<=3": _r("str", {"max_length": 3}), "str_re": _r("str", {"regex": "a+"}), "bytes<=3": _r("bytes", {"max_length": 3}),
    "Decimal_md": _r("Decimal", {"max_digits": 3}), "Decimal_dp": _r("Decimal", {"decimal_places": 2}),
    "Decimal_mo": _r("Decimal", {"multiple_of": 3}), "bool_const": _r("bool", {"const": True}),
    "datetime": _r("datetime", {}), "date": _r("date", {}), "time": _r("time", {}), "timedelta": _r("timedelta", {}),
    "uuid": _r("UUID", {}), "enum": _r("E", {}), "intenum": _r("IE", {}), "complex": _r("complex", {}),
    "List[int]": _r("list", args=[P("int")]), "List[pint]": _r("list", args=[PINT]),
    "Set[int]": _r("set", args=[P("int")]), "FrozenSet[str]": _r("frozenset", args=[P("str")]),
    "Set[list]": _r("set", args=[P("list")]), "Set[datetime]": _r("set", args=[P("datetime")]),
    "Tuple[int,str]": _r("tuple", args=[P("int"), P("str")]),
    "Tuple[int,str]c": _r("tuple", args=[P("int"), P("str")], options={"collect_errors": True}),
    "Tuple[int,...]": _r("tuple", args=[P("int")], ellipsis=True),
    "Dict[str,int]": _r("dict", args=[P("str"), P("int")]), "Dict[int,int]": _r("dict", args=[P("int"), P("int")]),
    "Dict[list,int]": _r("dict", args=[P("list"), P("int")]), "Dict[datetime,date]": _r("dict", args=[P("datetime"), P("date")]),
    "list_uniq": _r("list", {"unique_items": True}), "list_contains_dt": _r("list", {"contains": P("datetime")}),
    "list_contains_int": _r("list", {"contains": P("int"), "max_contains": 2}), "list_len": _r("list", {"min_length": 1}),
    "List[int]x": _r("list", args=[P("int")], options={"invalid_items": "exclude"}),
    "Set[int]p": _r("set", args=[P("int")], options={"invalid_items": "preserve", "collect_errors": True}),
    "Dict[int,int]x": _r("dict", args=[P("int"), P("int")], options={"invalid_keys": "exclude", "invalid_values": "preserve"}),
    "Dict[str,int]c": _r("dict", args=[P("str"), P("int")], options={"collect_errors": True}),
    "Set[int]c": _r("set", args=[P("int")], options={"collect_errors": True, "max_errors": 3}),
    "Tuple[int,...]c": _r("tuple", args=[P("int")], ellipsis=True, options={"collect_errors": True}),
    "pint_c": _r("int", {"gt": 0, "multiple_of": 2}, options={"collect_errors": True}),
    "dt_c": _r("datetime", {}, options={"collect_errors": True}),
    "int|None": {"union": [PINT, P("None")]}, "int|str": {"union": [P("int"), P("str")]},
    "pint^str3": {"xor": [PINT, _r("str", {"max_length": 3})]},
    "int&~neg": {"all": [P("int"), {"not": _r("int", {"lt": 0})}]}, "float&": {"all": [P("float"), _r("float", {"ge": 0})]},
    "dt&": {"all": [P("datetime"), {"not": P("None")}]}, "~int": {"not": P("int")}, "dt|date": {"union": [P("datetime"), P("date")]},
    "list|dict": {"union": [_r("list", args=[P("int")]), _r("dict", args=[P("str"), P("int")])]},
    "const": _r(None, {"const": 3}), "enumc": _r(None, {"enum": [1, 2, "a"]}),
    "List[List[int]]": _r("list", args=[_r("list", args=[P("int")])]), "List[dt|None]": _r("list", args=[{"union": [P("datetime"), P("None")]}]),
}


def _V(v, **kw):
    return dict(v=v, **kw)


H_VALUES = {
    "inf": _V("float", s="inf"), "-inf": _V("float", s="-inf"), "nan": _V("float", s="nan"), "'inf'": "inf", "'-Infinity'": "-Infinity",
    "'nan'": "nan", "'Infinity'": "Infinity", "b'inf'": _V("bytes", hex=b"inf".hex()), "Dinf": _V("dec", s="Infinity"), "D-inf": _V("dec", s="-Infinity"),
    "DsNaN": _V("dec", s="sNaN"), "DNaN": _V("dec", s="NaN"), "10**400": _V("int", s="10**400"), "-10**400": _V("int", s="-10**400"),
    "2**63": _V("int", s="2**63"), "'1e99999'": "1e99999", "'1e400'": "1e400", "'-1e400'": "-1e400", "1e308": 1e308, "'1'*400": _V("str", s="1", n=400),
    "'1'*5000": _V("str", s="1", n=5000), "D1e400": _V("dec", s="1e400"), "b'\\xff'": _V("bytes", hex="fffe"), "bytearray": _V("bytearray", hex="ff"),
    "mv": _V("mv", hex="6162"), "[]": _V("list", xs=[]), "{}": _V("dict", kv=[]), "set()": _V("set", xs=[]), "{'a'}": _V("set", xs=["a"]),
    "fs": _V("frozenset", xs=["a"]), "()": _V("tuple", xs=[]), "(1,)": _V("tuple", xs=[1]), "(1,2,3)": _V("tuple", xs=[1, 2, 3]), "('a',)": _V("tuple", xs=["a"]),
    "iter": _V("iter", xs=[1, 2]), "gen": _V("gen", xs=[1, "x"]), "obj": _V("obj"), "cls": _V("cls"), "cls_int": _V("cls", s="int"),
    "bad_repr": _V("bad", what="repr+str"), "bad_len": _V("bad", what="len+iter"), "bad_eq": _V("bad", what="eq+ne"), "bad_hash": _V("bad", what="hash"),
    "bad_bool": _V("bad", what="bool"), "bad_int": _V("bad", what="int+float+index"), "bad_getattr": _V("bad", what="getattr"),
    "badmap": _V("badmap"), "None": None, "''": "", "' '": " ", "deep_list": _V("deep", kind="list", n=3000), "deep_dict": _V("deep", kind="dict", n=3000),
    "{1:2}": _V("dict", kv=[[1, 2]]), "{(1,2):3}": _V("dict", kv=[[_V("tuple", xs=[1, 2]), 3]]), "{None:1}": _V("dict", kv=[[None, 1]]),
    "{b'a':1}": _V("dict", kv=[[_V("bytes", hex="61"), 1]]), "{'a':1,2:3}": _V("dict", kv=[["a", 1], [2, 3]]), "{1.5:'a'}": _V("dict", kv=[[1.5, "a"]]),
    "{bad_str_key:1}": _V("dict", kv=[[_V("bad", what="repr+str"), 1]]), "{True:1,'a':2}": _V("dict", kv=[[True, 1], ["a", 2]]), "[[1]]": _V("list", xs=[_V("list", xs=[1])]), "'[1,'": "[1,", "'{'": "{", "'['*5000": _V("str", s="[", n=5000),
    "'{\"a\":'*2000": _V("str", s='{"a":', n=2000), "1j": _V("complex", s="1j"), "True": True, "'abc'": "abc", "-1": -1, "0": 0, "3": 3, "'3'": "3", "3.5": 3.5,
    "[{'a':1}]": _V("list", xs=[_V("dict", kv=[["a", 1]])]), "{'a':1}": _V("dict", kv=[["a", 1]]), "[None]": _V("list", xs=[None]), "['a',1]": _V("list", xs=["a", 1]),
    "[inf]": _V("list", xs=[_V("float", s="inf")]), "{'a':inf}": _V("dict", kv=[["a", _V("float", s="inf")]]), "[bad]": _V("list", xs=[_V("bad", what="repr+str")]),
    "{bad_hash}": _V("list", xs=[_V("bad", what="hash")]), "{'a':bad_eq}": _V("dict", kv=[["a", _V("bad", what="eq+ne")]]), "dt": _V("datetime"), "date": _V("date"),
    "td": _V("timedelta"), "'2020-01-01'": "2020-01-01", "'P'+'1'*3000": "P" + "1" * 3000, "'1:'*2000": "1:" * 2000, "'a=1&b=2'": "a=1&b=2", "'a,b'": "a,b",
    "{'kind':[]}": _V("dict", kv=[["kind", _V("list", xs=[])]]),
    "{'proﬁle':1}": _V("dict", kv=[["proﬁle", 1]]), "{'ſession':'x'}": _V("dict", kv=[["ſession", "x"], ["profile", 2]]),
    "{'straße':1,'STRAẞE':2}": _V("dict", kv=[["straße", 1], ["STRAẞE", 2]]), "{'oﬃce':1}": _V("dict", kv=[["oﬃce", 1], ["Oﬃce", 2], ["OFFICE", 3]]),
    "{'\u212aelvin':1}": _V("dict", kv=[["\u212aelvin", 1], ["ﬂask", 2]]), "{'Proﬁle':1,'PROFILE':2}": _V("dict", kv=[["Proﬁle", 1], ["PROFILE", 2]]),
    "{'Größe':1}": _V("dict", kv=[["Größe", 1]]), "{'GRÖSSE':1}": _V("dict", kv=[["GRÖSSE", 1]]), "{'ΛΌΓΟΣ':'x'}": _V("dict", kv=[["ΛΌΓΟΣ", "x"], ["größe", 2]]),
    "{'größe':1,'Größe':2}": _V("dict", kv=[["größe", 1], ["Größe", 2]]), "{'STRASSE':1}": _V("dict", kv=[["STRASSE", 1], ["Straße", 3]]),
    "{'ID':1,'İD':2}": _V("dict", kv=[["ID", 1], ["İD", 2], ["Id", 3]]), "{'ΣΑΣ':1}": _V("dict", kv=[["ΣΑΣ", 1], ["Größe", 5]]), "{'Maß':'x'}": _V("dict", kv=[["Maß", "x"], ["MASS", 1]]), "'\\x00'": "\x00", "'١٢٣'": "١٢٣", "'1_000'": "1_000", "'0x10'": "0x10", "' 12 '": " 12 ",
}
for _how in ("gen", "genpairs", "count", "cycle", "repeat", "map", "range", "longgen", "iterobj", "iterable", "getitem", "slowseq",
             "next_raises", "iter_raises", "getitem_raises", "len_raises", "next_forever", "len_forever"):
    H_VALUES["lazy_" + _how] = _V("lazy", how=_how)
H_VALUES.update({
    "[lazy_gen]": _V("list", xs=[_V("lazy", how="gen")]), "{'a':lazy_gen}": _V("dict", kv=[["a", _V("lazy", how="gen")]]),
    "(lazy_count,1)": _V("tuple", xs=[_V("lazy", how="count"), 1]), "{'a':[lazy_iterobj]}": _V("dict", kv=[["a", _V("list", xs=[_V("lazy", how="iterobj")])]]),
    "sub_list_iter_raises": _V("sub", base="list", how="iter_raises"), "sub_list_len_raises": _V("sub", base="list", how="len_raises"),
    "sub_tuple_getitem_raises": _V("sub", base="tuple", how="getitem_raises"), "sub_tuple_len_raises": _V("sub", base="tuple", how="len_raises"),
    "sub_tuple_iter_raises": _V("sub", base="tuple", how="iter_raises"), "sub_set_iter_raises": _V("sub", base="set", how="iter_raises"),
    "sub_dict_items_raises": _V("sub", base="dict", how="items_raises"), "sub_list_iter_endless": _V("sub", base="list", how="iter_endless"),
    "sub_dict_items_endless": _V("sub", base="dict", how="items_endless"), "[sub_list_iter_raises]": _V("list", xs=[_V("sub", base="list", how="iter_raises")]),
    "{'_obj_self':1}": _V("dict", kv=[["_obj_self", 1]]), "{'_d':5,'a':1}": _V("dict", kv=[["_d", 5], ["a", 1]]),
    "{'_d':{'a':'abc'}}": _V("dict", kv=[["_d", _V("dict", kv=[["a", "abc"]])]]), "{'self':1,'cls':2}": _V("dict", kv=[["self", 1], ["cls", 2]]),
    "selfref_list": _V("selfref", kind="list"), "selfref_dict": _V("selfref", kind="dict"), "[selfref]": _V("list", xs=[_V("selfref", kind="list")]),
    "bad_index": _V("bad", what="index"), "bad_float": _V("bad", what="float"), "bad_iter": _V("bad", what="iter"), "bad_next": _V("bad", what="iter+next"),
    "bad_getitem": _V("bad", what="getitem+len"), "bad_contains": _V("bad", what="contains"), "bad_format": _V("bad", what="format"),
})
HUGE_EXP = {"'1e999999'": "1e999999", "D1e9999999": _V("dec", s="1e9999999"), "b'1e9999999'": _V("bytes", hex=b"-1e9999999".hex())}


def _fld(name, t, **field):
    d = {"name": name, "type": t}
    if field:
        d["field"] = field
    return d


H_SCHEMAS = {
    "S1": {"name": "S1", "fields": [_fld("a", PINT)]},
    "S2": {"name": "S2", "fields": [_fld("a", PINT), _fld("b", _r("str", {"max_length": 2}), default="x")], "options": {"collect_errors": True}},
    "S3": {"name": "S3", "fields": [_fld("a", P("int"), alias_from=["A", "a1"])], "options": {"addition": False}},
    "S4": {"name": "S4", "fields": [_fld("a", P("int"), alias_from=["a1"])], "options": {"addition": P("int"), "case_insensitive": True}},
    "S5": {"name": "S5", "fields": [_fld("a", P("datetime"))]},
    "S6": {"name": "S6", "fields": [_fld("a", P("int")), _fld("child", {"opt": {"self": "S6"}}, default=None)]},
    "S7": {"name": "S7", "fields": [_fld("a", None, alias_from=["a1", "A"])], "options": {"data_first_search": True}},
    "S7f": {"name": "S7f", "fields": [_fld("a", None, alias_from=["a1", "A"])], "options": {"data_first_search": False}},
    "S8": {"name": "S8", "fields": [_fld("a", H_TYPES["Set[int]"])]},
    "S9": {"name": "S9", "fields": [_fld("a", H_TYPES["Tuple[int,str]"], on_error="exclude", default=None)]},
    "S10": {"name": "S10", "fields": [_fld("a", H_TYPES["Tuple[int,str]"])], "options": {"collect_errors": True, "max_errors": 1}},
    "S11": {"name": "S11", "fields": [_fld("a", P("int"), on_error="preserve"), _fld("b", H_TYPES["List[int]"], default=_V("list", xs=[]))]},
    "S12": {"name": "S12", "fields": [_fld("a", P("int"), default=0)], "options": {"cast_keyword_str": True}},
    "D1": {"name": "D1", "base": "dataclass", "fields": [_fld("a", PINT), _fld("b", H_TYPES["List[int]"], default=_V("list", xs=[]))]},
    "D2": {"name": "D2", "base": "DataClass", "fields": [_fld("a", H_TYPES["Dict[str,int]"])]},
    "S15": {"name": "S15", "fields": [_fld("a", {"all": [P("int"), PINT]})]},
    "S16": {"name": "S16", "fields": [_fld("a", H_TYPES["list_contains_dt"]), _fld("b", H_TYPES["Dict[list,int]"], required=False)]},
    "S17": {"name": "S17", "fields": [_fld("x", {"union": [{"schema": {"name": "KA", "fields": [_fld("kind", _r(None, {"const": "a"}))]}},
                                                          {"schema": {"name": "KB", "fields": [_fld("kind", _r(None, {"const": "b"}))]}}]})]},
    "S19": {"name": "S19", "fields": [_fld("x", {"union": [{"schema": {"name": "LA", "fields": [_fld("kind", {"literal": ["a"]})]}},
                                                          {"schema": {"name": "LB", "fields": [_fld("kind", {"literal": ["b"]})]}}]},
                                          discriminator="kind")]},
    "S20": {"name": "S20", "fields": [_fld("größe", P("int"), case_insensitive=True), _fld("λόγος", P("str"), case_insensitive=True, required=False)],
            "options": {"data_first_search": True}},
    "S20f": {"name": "S20f", "fields": [_fld("straße", P("int"), case_insensitive=True, alias_from=["maß"]), _fld("ıd", P("int"), case_insensitive=True, default=0)],
             "options": {"data_first_search": False, "addition": True}},
    "S20c": {"name": "S20c", "fields": [_fld("größe", PINT), _fld("σας", P("int"), default=1)], "options": {"case_insensitive": True, "data_first_search": True, "collect_errors": True}},
    "S21": {"name": "S21", "fields": [_fld("profile", P("int"), case_insensitive=True, default=0), _fld("session", P("str"), case_insensitive=True, default=""),
                                       _fld("strasse", P("int"), case_insensitive=True, default=0), _fld("office", P("int"), case_insensitive=True, default=0)],
            "options": {"data_first_search": True, "addition": True}},
    "S21f": {"name": "S21f", "fields": [_fld("profile", P("int"), default=0), _fld("kelvin", PINT, default=1), _fld("flask", P("int"), alias_from=["office"], default=0)],
             "options": {"data_first_search": False, "case_insensitive": True}},
    "S18": {"name": "S18", "fields": [_fld("a", H_TYPES["Set[list]"], required=False), _fld("n", {"schema": {"name": "S18n", "fields": [_fld("a", PINT)]}}, required=False)],
            "options": {"max_params": 2, "addition": True}},
}


def _p(name, kind, t=None, **kw):
    d = {"name": name, "kind": kind}
    if t is not None:
        d["type"] = t
    d.update(kw)
    return d


H_FUNCS = {
    "f1": {"params": [_p("a", "pk", PINT), _p("b", "pk", P("str"), default="x")], "ret": P("int"), "returns": 1},
    "f2": {"params": [_p("a", "pk", PINT), _p("k", "ko", H_TYPES["Set[int]"], default=None)], "var_pos": P("int"), "var_kw": PINT,
           "options": {"collect_errors": True}},
    "f3": {"params": [_p("a", "po", P("int"), default=0), _p("b", "pk", H_TYPES["Tuple[int,str]"], default=_V("tuple", xs=[1, "a"]))],
           "options": {"addition": False}},
    "f4": {"params": [_p("a", "pk", P("datetime"))], "ret": PINT, "returns": -1},
    "f5": {"params": [_p("a", "pk"), _p("c", "ko", {"all": [P("int"), PINT]}, default=1)], "ret": H_TYPES["List[pint]"], "returns": _V("list", xs=[1])},
    "f6": {"params": [], "var_pos": PINT, "ret": H_TYPES["Tuple[int,...]"], "returns": _V("tuple", xs=[1]), "options": {"invalid_items": "exclude"}},
    "f7": {"params": [_p("a", "pk", PINT)], "ret": PINT, "returns": 2, "flavor": "async"},
    "f8": {"params": [_p("a", "pk", H_TYPES["Dict[list,int]"]), _p("b", "ko", H_TYPES["list_contains_dt"], default=None)], "flavor": "gen"},
    "f10": {"params": [_p("a", "pk", P("int"))], "var_pos": PINT, "options": {"collect_errors": True}},
    "f11": {"params": [_p("größe", "pk", P("int"), default=0), _p("λόγος", "ko", P("str"), default="")], "var_kw": P("int"),
            "options": {"case_insensitive": True, "data_first_search": True}},
    "f12": {"params": [_p("a", "pk", PINT)], "var_pos": P("datetime"), "var_kw": PINT, "options": {"collect_errors": True, "max_errors": 3}},
    "f13": {"params": [_p("profile", "pk", P("int"), default=0), _p("session", "ko", P("str"), default="")], "var_kw": P("int"),
            "options": {"case_insensitive": True, "data_first_search": True}},
    "f9": {"params": [_p("a", "pk", {"schema": H_SCHEMAS["S3"]}), _p("b", "pk", {"schema": H_SCHEMAS["S5"]}, default=None)]},
}


def hostile_cases(rng, n, full=False):
    out = _hostile_cases(rng, n, full)
    for c in out:
        if not full and rng.random() < 0.03:
            c["warn_error"] = True      # python -W error
    return out


def _hostile_cases(rng, n, full=False):
    out = []
    tnames, vnames = list(H_TYPES), list(H_VALUES)
    if full:
        for ti, tn in enumerate(tnames):
            for vn in vnames:
                if vn in ("lazy_genpairs", "lazy_next_forever", "lazy_len_forever") and ti % 5:
                    continue        # inputs that are expected to be killed by the watchdog (5 s each): every fifth type only
                out.append({"kind": "hostile", "t": tn, "vn": vn, "target": {"type": H_TYPES[tn]}, "value": H_VALUES[vn]})
    slow = ("lazy_genpairs", "lazy_next_forever", "lazy_len_forever", "sub_list_iter_endless", "sub_dict_items_endless")
    for _ in range(n):
        r = rng.random()
        vn = rng.choice(vnames)
        if vn in slow and (n < 5000 or rng.random() < 0.7):
            vn = rng.choice(vnames)     # values that are expected to be killed by the watchdog (5 s each) are kept rare
        v = H_VALUES[vn]
        if r < 0.45:
            tn = rng.choice(tnames)
            out.append({"kind": "hostile", "t": tn, "vn": vn, "target": {"type": H_TYPES[tn]}, "value": v})
        elif r < 0.75:
            sn = rng.choice(list(H_SCHEMAS))
            sd = H_SCHEMAS[sn]
            names = [f["name"] for f in sd["fields"]]
            form = rng.choice(["pos", "from", "kw1", "kw2", "kwalias", "nested", "ropts", "ropts"])
            if form == "ropts":
                # collect_errors (max_errors, override) supplied at run time, on every kind of class and entry point
                entry = rng.choice(["from_opts", "init_dataclass", "type_transform", "outer"])
                ro = {"collect_errors": True}
                if rng.random() < 0.3:
                    ro["max_errors"] = rng.choice([1, 2])
                if entry in ("type_transform", "outer") or rng.random() < 0.2:
                    ro["override"] = True
                val = v if rng.random() < 0.4 else _V("dict", kv=[[rng.choice(names), v]] + ([["zz", v]] if rng.random() < 0.3 else []))
                if rng.random() < 0.3:
                    ro = {} if rng.random() < 0.5 else {"override": True}      # run-time options without collect_errors
                out.append({"kind": "hostile", "t": sn + "/" + entry, "vn": vn, "target": {"schema": sd, "entry": entry},
                            "value": val, "ropts": ro})
            elif form in ("pos", "from"):
                val = v if rng.random() < 0.5 else _V("dict", kv=[[rng.choice(names), v]] + ([["zz", v]] if rng.random() < 0.3 else []))
                out.append({"kind": "hostile", "t": sn + "/" + form, "vn": vn, "target": {"schema": sd, "entry": form}, "value": val})
            elif form == "nested":
                out.append({"kind": "hostile", "t": sn + "/list", "vn": vn, "target": {"type": _r("list", args=[{"schema": sd}])},
                            "value": _V("list", xs=[v, _V("dict", kv=[[names[0], v]])])})
            else:
                kw = {rng.choice(names): v}
                if form == "kw2":
                    kw["zz"] = H_VALUES[rng.choice(vnames)]
                if form == "kwalias":
                    kw = {names[0]: 1, rng.choice(["A", "a1", names[0]]): v}
                out.append({"kind": "hostile", "t": sn + "/kw", "vn": vn, "target": {"schema": sd, "entry": "kw"}, "kwargs": kw})
        else:
            fn = rng.choice(list(H_FUNCS))
            fd = H_FUNCS[fn]
            names = [p["name"] for p in fd["params"] if p["kind"] != "po"]
            form = rng.choice(["a1", "a2", "kw", "kwx", "none"])
            c = {"kind": "hostile", "t": fn + "/" + form, "vn": vn, "target": {"func": fd}, "args": [], "kwargs": {}}
            if form == "a1":
                c["args"] = [v]
            elif form == "a2":
                c["args"] = [1, v, H_VALUES[rng.choice(vnames)]]
            elif form == "kw" and names:
                c["kwargs"] = {rng.choice(names): v}
            elif form == "kwx":
                c["args"] = [1]
                c["kwargs"] = {"zz": v}
            out.append(c)
    return out


def _mapping_reachable(j):
    """the target contains a dict origin or a data class somewhere: `to_dict` may be asked to read pairs"""
    if isinstance(j, dict):
        if j.get("origin") == "dict" or "schema" in j or j.get("plain") == "dict":
            return True
        return any(_mapping_reachable(x) for x in j.values())
    if isinstance(j, list):
        return any(_mapping_reachable(x) for x in j)
    return False


def _container_reachable(j):
    if isinstance(j, dict):
        if j.get("origin") in ("list", "tuple", "set", "frozenset", "dict") or j.get("plain") in ("list", "tuple", "set", "frozenset", "dict") or "schema" in j:
            return True
        return any(_container_reachable(x) for x in j.values())
    if isinstance(j, list):
        return any(_container_reachable(x) for x in j)
    return False


def _sub_how(v, hows):
    if isinstance(v, dict):
        if v.get("v") == "sub" and v.get("how") in hows:
            return True
        return any(_sub_how(x, hows) for x in v.get("xs", [])) or any(_sub_how(a, hows) or _sub_how(b, hows) for a, b in v.get("kv", []))
    return False


def _lazy_how(v, hows):
    if isinstance(v, dict):
        if v.get("v") == "lazy" and v.get("how") in hows:
            return True
        return any(_lazy_how(x, hows) for x in v.get("xs", [])) or any(_lazy_how(a, hows) or _lazy_how(b, hows) for a, b in v.get("kv", []))
    return False


def _has_self_ref(j):
    if isinstance(j, dict):
        return "self" in j or any(_has_self_ref(x) for x in j.values())
    if isinstance(j, list):
        return any(_has_self_ref(x) for x in j)
    return False


def _deep_dict(v):
    if isinstance(v, dict):
        if v.get("v") == "deep" and v.get("kind") == "dict" and v.get("n", 0) >= 8:
            return True
        return any(_deep_dict(x) for x in v.get("xs", [])) or any(_deep_dict(b) for _, b in v.get("kv", []))
    return False


def _huge_exp_value(v):
    import re
    s = None
    if isinstance(v, str):
        s = v
    elif isinstance(v, dict) and v.get("v") == "dec":
        s = v["s"]
    elif isinstance(v, dict) and v.get("v") == "bytes":
        try:
            s = bytes.fromhex(v["hex"]).decode()
        except Exception:
            return False
    elif isinstance(v, dict):
        return any(_huge_exp_value(x) for x in v.get("xs", [])) or any(_huge_exp_value(b) or _huge_exp_value(a) for a, b in v.get("kv", []))
    if s is None:
        return False
    m = re.fullmatch(r"\s*[-+]?\d+(\.\d+)?[eE]\+?(\d+)\s*", s)
    return bool(m) and 6 <= len(m.group(2)) <= 17 and int(m.group(2)) >= 300000


# ------------------------------------------------------------------------------------------------
# the check
# ------------------------------------------------------------------------------------------------
def _tok_json(j):
    """scenario input -> model value (token objects are their token)"""
    if isinstance(j, dict):
        if "tokobj" in j:
            return j["tokobj"]
        if "seq" in j:
            return {"seq": j["seq"], "xs": [_tok_json(x) for x in j["xs"]]}
        if "map" in j:
            return {"map": [[_tok_json(k), _tok_json(v)] for k, v in j["map"]]}
    return j


def _map_keys(j, km):
    """letter-case variants of a key stand for the key id of the alias they lower() to"""
    if km and isinstance(j, dict) and "map" in j:
        return {"map": [[km.get(str(k), k) if isinstance(k, int) else k, v] for k, v in j["map"]]}
    return j


def _norm_val(v):
    """sets: sorted, equal tokens once; dicts: Python's insertion semantics (first position, last value)"""
    if isinstance(v, dict) and "seq" in v:
        xs = [_norm_val(x) for x in v["xs"]]
        if v["seq"] >= 2:
            uniq = {json.dumps(x, sort_keys=True): x for x in xs}
            xs = [uniq[k] for k in sorted(uniq)]
        return {"seq": v["seq"], "xs": xs}
    if isinstance(v, dict) and "map" in v:
        d = {}
        for a, b in v["map"]:
            d[json.dumps(_norm_val(a), sort_keys=True)] = [_norm_val(a), _norm_val(b)]
        return {"map": list(d.values())}
    if isinstance(v, list):
        return [_norm_val(x) for x in v]
    return v


def _same_info(mi, ii, km=None):
    if bool(mi["perr"]) != bool(ii["perr"]) or mi["cls"] != ii["cls"]:
        return False
    if mi["perr"] and mi.get("origin") != ii.get("origin"):
        return False
    it = ii.get("item")
    if km and it is not None:
        it = km.get(str(it), it)        # an additional key keeps the spelling it was given in
    if mi.get("site") in ITEM_SITES and mi.get("item") != it:
        return False
    return True


class C04(Check):
    prop = "C04"
    props_modules = ["Utv.Props.C04"]
    driver = "C04"
    impl = "harness.c04:impl"
    uses_extract = True
    case_timeout = 5.0
    budget = {"quick": 6000, "thorough": 120000}
    search_budget = {"quick": 3000, "thorough": 20000}
    rule = ("scripted scenarios: random declarations (constrained types over list/set/frozenset/tuple/dict/component origins, "
            "& | ^ ~ types, 1-4 field data classes incl. aliases/defaults/on_error/addition/discriminator, functions with "
            "positional-only/keyword/var parameters and return types) x option records x per-token component scripts "
            "(return token / unhashable / None / raise one of 20 exception classes / loop) — compared with the Lean model; "
            "ts: datetime/date of numeric inputs around the 2e10*1000^k boundaries and non-finite spellings, compared with the loop model; "
            "hostile: 58 real type shapes, 19 data classes, 9 functions x 100 hostile values (spec sweep only; thorough = full type x value product). "
            "non-trivial = some component raised/diverged/returned None-or-unhashable, or an error policy/collect path ran, or (hostile/ts) the outcome is not a plain success; "
            "distinct by (kind, declaration shape, options, script, input) for scripted cases and (target, value) for hostile ones")
    assumptions = [
        "components raise subclasses of Exception (KeyboardInterrupt/SystemExit are outside the model); the warnings filter is not 'error'",
        "developer code is not the library: default factories, callable no_input, pre/post_validate, __validate__/__post_init__ and the function body may raise anything and are exempt (the theorems name them as the only sources)",
        "real-code termination is observed under a 5 s per-case kill, not proved; strings are kept <= 5000 characters (regex/strptime cost is polynomial, not modelled)",
        "float arithmetic of the timestamp loop is modelled on exact rationals; inputs within 1e-9 (relative) of a 2e10*1000^k boundary are not generated",
    ]

    # ---- cases ---------------------------------------------------------------------------------
    def cases(self, tier, rng, n):
        out = []
        if tier == "search":
            gens = [(gen_rule, 0.3), (gen_logical, 0.15), (gen_schema, 0.2), (gen_func, 0.15)]
            for _ in range(int(n * 0.7)):
                out.append(self._pick(rng, gens))
            out += hostile_cases(rng, n - len(out))
            return out
        n_h = int(n * 0.32)
        n_ts = int(n * 0.06)
        n_s = n - n_h - n_ts
        gens = [(gen_rule, 0.36), (gen_logical, 0.16), (gen_schema, 0.26), (gen_func, 0.22)]
        for _ in range(n_s):
            out.append(self._pick(rng, gens))
        out += [gen_ts(rng) for _ in range(n_ts)]
        out += iter_cases()
        out = [c for c in out if not (c["kind"] == "ts" and ts_near_boundary(ts_exact(c["x"])))]
        out += hostile_cases(rng, n_h, full=(tier == "thorough"))
        if tier == "thorough":
            for tn in ("int>0", "List[int]", "intenum", "int|str", "uuid"):
                for vn, v in HUGE_EXP.items():
                    out.append({"kind": "hostile", "t": tn, "vn": vn, "target": {"type": H_TYPES[tn]}, "value": v})
        return out

    @staticmethod
    def _pick(rng, gens):
        r = rng.random()
        acc = 0.0
        case = None
        for g, w in gens:
            acc += w
            if r < acc:
                case = g(rng)
                break
        if case is None:
            case = gens[-1][0](rng)
        # one script entry per (stage, type, token): the first one counts on both sides
        seen, sc = set(), []
        for e in case.get("script", []):
            if (e[0], e[1], e[2]) not in seen:
                seen.add((e[0], e[1], e[2]))
                sc.append(e)
        case["script"] = sc
        return case

    def model_line(self, case):
        k = case["kind"]
        if k == "hostile":
            return {"kind": "skip"}
        km = case.get("key_model", {})
        opts = dict(case.get("opts", {}))
        if opts.get("no_data_loss") and opts.get("addition") is None:
            opts["addition"] = False        # Options.__init__: no_data_loss => addition=False unless given (options.py:151-155)
        line = {"kind": k, "opts": opts, "script": case.get("script", []), "legacy": case.get("legacy", {}),
                "warn_error": bool(case.get("warn_error"))}
        if k == "rule":
            inp = _tok_json(case["input"])
            line.update(origin=case["origin"], args=case.get("args"), validators=case.get("validators", []),
                        contains=case.get("contains"), min_contains=case.get("min_contains"), max_contains=case.get("max_contains"),
                        input=inp)
            if isinstance(case["origin"], str) and case["origin"] != "dict":
                kinds = [list, tuple, set, frozenset]
                src = kinds[inp["seq"]](inp["xs"])
                dst = ORIGINS[case["origin"]]
                conv = src if isinstance(src, dst) else dst(src)
                line["items"] = list(conv)
            elif case["origin"] == "dict":
                line["pairs"] = inp["map"]
        elif k == "logical":
            line.update(comb=case["comb"], args=case["args"], input=case["input"])
        elif k == "schema":
            given, ctx = None, None
            if case["entry"] == "from":
                if case.get("via") == "type_transform":
                    ctx = case.get("ropts") or {}
                else:
                    given = case.get("ropts")
            line.update(entry=case["entry"], fields=case["fields"], addition_t=case.get("addition_t"),
                        str_keys=case.get("str_keys", True), cls_kind=case.get("cls_kind", "Schema"),
                        given=given, ctx=ctx, outer=case.get("outer"),
                        kwargs=[[km.get(str(a), a), _tok_json(b)] for a, b in case.get("kwargs_model", case.get("kwargs", []))],
                        input=_map_keys(_tok_json(case.get("input")), km))
            line["script"] = [[e[0], e[1], e[2], ({"ok": _map_keys(e[3]["ok"], km)} if e[0] == 5 and isinstance(e[3], dict) and isinstance(e[3].get("ok"), dict) else e[3])]
                              for e in line["script"]]
        elif k == "func":
            line.update(fields=case["fields"], positional=case["positional"], pos_only=case["pos_only"],
                        exclude_indexes=case["exclude_indexes"], pos_var_index=case["pos_var_index"], pos_t=case.get("pos_t"),
                        addition_t=case.get("addition_t"), return_t=case.get("return_t"), args=case["args"],
                        kwargs=[[km.get(str(a), a), b] for a, b in case["kwargs"]])
        elif k == "iter":
            line.update(target=case["target"], in_kind=case["in_kind"], n=case["n"], nec=case["nec"], ndl=case["ndl"],
                        legacy_dt=bool(case.get("legacy", {}).get("dtContains")))
        elif k == "ts":
            q = ts_exact(case["x"])
            if isinstance(q, Fraction) and abs(q) >= 2 ** 1024 and case["x"]["ty"] in ("int", "dec"):
                # beyond the float range only the class of the value matters to the model (the digits may be millions)
                line["huge"] = case["x"]["ty"]
                line["ts"] = [q < 0, "1", "1"]
            else:
                line["ts"] = q if isinstance(q, str) else [q < 0, str(abs(q.numerator)), str(q.denominator)]
            line["legacy_ts"] = bool(case.get("legacy", {}).get("tsLoop"))
        return line

    def evaluate(self, cases):
        """a watchdog kill must reproduce: cases reported as hanging are run once more, a few at a time (a busy machine
        can make a 0.5 s conversion miss the 5 s deadline; a real hang hangs again)"""
        impl_outs, model_outs = super().evaluate(cases)
        again = [i for i, o in enumerate(impl_outs) if isinstance(o, dict) and o.get("hang")
                 and self.spec(cases[i], o, None) and not self.classify(cases[i], o, "")]     # only unexplained ones
        if again:
            from .common import run_impl
            second = run_impl(self.impl, [cases[i] for i in again], self.case_timeout, jobs=max(1, min(4, len(again))),
                              extra_env=self.impl_env)
            for i, o in zip(again, second):
                impl_outs[i] = o
        return impl_outs, model_outs

    # ---- correspondence ------------------------------------------------------------------------
    def compare(self, case, io, mo):
        if case["kind"] == "hostile":
            return None
        if case["kind"] == "iter" and isinstance(mo, dict) and "consumes" in mo and isinstance(io, dict) and "pulled" in io:
            drained = io["pulled"] >= io["n"]
            if drained != mo["consumes"]:
                return f"input walked through: impl pulled {io['pulled']}/{io['n']} ({io['out']}), model consumes={mo['consumes']}"
            return None
        if not isinstance(mo, dict) or "out" not in mo:
            return f"driver: {mo}"
        if not isinstance(io, dict):
            return f"impl: {io}"
        if io.get("crash"):
            return "interpreter crashed"
        if case["kind"] == "ts":
            return self._compare_ts(case, io, mo)
        if case["kind"] == "iter":
            if io.get("hang"):
                return "the conversion of a finite counting input did not return"
            drained = io["pulled"] >= io["n"]
            if drained != mo.get("consumes"):
                return f"input walked through: impl pulled {io['pulled']}/{io['n']} ({io['out']}), model consumes={mo.get('consumes')}"
            return None
        if io.get("hang"):
            return None if mo["out"] == "diverge" else f"real code hangs, model says {mo['out']}"
        if mo["out"] == "diverge":
            return f"model diverges, real code: {io.get('out')}"
        if io["out"] != mo["out"]:
            return f"outcome differs: impl {io['out']} {io.get('info') or io.get('errors') or ''} / model {mo['out']} {mo.get('info') or mo.get('errors') or ''}"
        if io["out"] == "ok" and not case.get("novalue"):
            if case["kind"] == "schema":
                kmm = case.get("key_model") or {}
                mo = dict(mo, value=sorted(mo["value"], key=lambda p: json.dumps(p, sort_keys=True)))
                io = dict(io, value=sorted([[kmm.get(str(k), k), v] for k, v in io["value"]], key=lambda p: json.dumps(p, sort_keys=True)))
            if _norm_val(io["value"]) != _norm_val(mo["value"]):
                return f"value differs: impl {io['value']} model {mo['value']}"
        km = case.get("key_model")
        if io["out"] == "raise" and not _same_info(mo["info"], io["info"], km):
            return f"exception differs: impl {io['info']} model {mo['info']}"
        if io["out"] == "collected":
            if len(io["errors"]) != len(mo["errors"]) or not all(_same_info(m, i, km) for m, i in zip(mo["errors"], io["errors"])):
                return f"collected errors differ: impl {io['errors']} model {mo['errors']}"
        if case["kind"] == "func" and io.get("body") != ("enterBody" in mo.get("trace", [])):
            return f"body entered: impl {io.get('body')} model trace {mo.get('trace')}"
        if case["kind"] == "schema" and io.get("hooks") != mo.get("trace", []).count("attrsSet"):
            return f"instances populated (post-init hooks run): impl {io.get('hooks')} model trace {mo.get('trace')}"
        return None

    def _compare_ts(self, case, io, mo):
        q = ts_exact(case["x"])
        if io.get("hang"):
            return None if mo["out"] == "diverge" else "real code hangs on a value the loop model leaves"
        if mo["out"] == "diverge":
            return f"model diverges, real code: {io.get('out')}"
        if mo["out"] == "raise":
            ok = io.get("out") == "raise" and io["info"]["perr"] and io["info"].get("origin") in (mo["info"]["cls"], 106)
            return None if ok else f"model raises {mo['info']['cls']} before the loop, impl: {io}"
        # model ok with k divisions
        if case["x"]["ty"] == "dec":
            # utcfromtimestamp(Decimal) is a TypeError in CPython: the loop ends, the conversion fails afterwards
            ok = io.get("out") == "raise" and io["info"]["perr"] and io["info"].get("origin") == 100
            return None if ok else f"Decimal timestamp: impl {io}"
        try:
            float(q)
        except OverflowError:
            ok = io.get("out") == "raise" and io["info"]["perr"] and io["info"].get("origin") == 106
            return None if ok else f"int beyond float range: impl {io}"
        if io.get("out") != "ok":
            return f"model: loop ends after {mo['k']} divisions, impl: {io}"
        if io.get("ts") is None:
            return None
        want = float(q / 1000 ** mo["k"])
        if abs(io["ts"] - want) > 1e-3 + 1e-6 * abs(want):
            return f"timestamp {io['ts']} is not x/1000^{mo['k']} = {want}"
        return None

    # ---- the property's own predicate, on what the implementation did -----------------------------
    def spec(self, case, io, mo):
        if not isinstance(io, dict):
            return f"no outcome: {io}"
        scripted_div = any(isinstance(e[3], dict) and "div" in e[3] for e in case.get("script", []))
        if io.get("hang"):
            if case["kind"] == "hostile":
                vals = [case.get("value")] + list(case.get("args", [])) + list(case.get("kwargs", {}).values())
                if _mapping_reachable(case.get("target")) and any(_lazy_how(v, ("next_forever",)) for v in vals):
                    return None     # the input's own __next__ never returns and a mapping-like target may ask for pairs
                if any(_lazy_how(v, ("len_forever",)) for v in vals):
                    return None     # the input's own __len__ never returns: a truthiness / len() test (`not data`) hangs inside the input
            return None if scripted_div else "the call did not return within the watchdog (5 s)"
        if io.get("crash"):
            return "the interpreter died"
        if io.get("out") == "decl-error":
            return None
        if case["kind"] == "iter":
            # the proved statement, on the real converter: a scalar target never walks through a lazy / iterable /
            # __getitem__ input, an array target only through a sized (multi) one
            lazy = case["in_kind"] != "sized"
            drained = io["pulled"] >= io["n"]
            if drained and lazy and case["target"] not in ("dict", "dataclass"):
                return f"a {case['target']} target consumed a {case['in_kind']} input to the end ({io['pulled']} items): an endless one would never return"
            return None
        out = io.get("out")
        if out == "ok" and case["kind"] == "schema":
            why = must_fail(case)
            if why:
                return f"an instance was created from input that does not parse ({why})"
        if case["kind"] == "func" and (out == "ok" or io.get("body")):
            why = must_fail(case)
            if why:
                return f"the function body was entered although the arguments do not parse ({why})"
        if case["kind"] == "hostile" and io.get("strict_failed") and (out == "ok" or io.get("body")) and "func" in case["target"]:
            return "the function body was entered under collect_errors with arguments that raise ParseError without it"
        if out == "ok" and case["kind"] == "hostile" and io.get("strict_failed"):
            return "an instance was created under run-time collect_errors from input that raises ParseError without it"
        if out == "raise" and not io["info"]["perr"]:
            name = io["info"].get("name") or OTHER_NAMES.get(io["info"]["cls"], io["info"]["cls"])
            if io.get("hook_raised") or io.get("body_raised"):
                return None            # developer code raised it
            if double_bound(case) and io["info"]["cls"] == 100 and not io.get("body"):
                return None            # the call itself is ill-formed: Python's "got multiple values for argument"
            if case["kind"] == "hostile" and self._proviso(case):
                return None
            return f"an exception that is not a ParseError escaped: {name} {io['info'].get('where', '')}"
        if out == "raise" and io["info"].get("not_both"):
            return "a ParseError that is not both a TypeError and a ValueError was raised"
        if out in ("raise", "collected"):
            ret = out == "raise" and io["info"].get("ret")
            if io.get("body") and not ret and not io.get("body_raised"):
                return "parsing failed but the function body had been entered"
            if case["kind"] == "hostile" and io.get("validated"):
                return "parsing failed but an instance had been populated (__validate__ ran)"
            if case["kind"] == "schema" and io.get("hook") and not io.get("hook_raised"):
                return "parsing failed but an instance had been populated (__validate__ ran)"
        return None

    @staticmethod
    def _proviso(case):
        """only `Cls(<dict>)` (the positional form of the generated __init__) keeps a proviso: a key object whose own
        __str__ raises.  `__from__` / init_dataclass / type_transform / nested fields have none (fixes/C04-nonstring-keys)"""
        return False      # no proviso left: fixes/C04-nonstring-keys covers `Cls(<dict>)` as well

    @staticmethod
    def _proviso_old(case):
        """(superseded)"""
        tgt = case["target"]
        if "schema" not in tgt or tgt.get("entry") in ("kw", "outer"):
            return False
        if tgt["schema"].get("options", {}).get("cast_keyword_str"):
            v = case.get("value")
            return isinstance(v, dict) and v.get("v") == "badmap"
        v = case.get("value")
        if isinstance(v, dict) and v.get("v") == "badmap":
            return True
        if isinstance(v, dict) and v.get("v") == "dict":
            return any(not isinstance(k, str) for k, _ in v["kv"])
        if isinstance(v, dict) and v.get("v") == "deep" and v.get("kind") == "dict":
            return False
        return False

    def classify(self, case, io, why):
        if case.get("warn_error") and isinstance(io, dict) and io.get("out") == "raise" and io["info"].get("cls") in (120, 121):
            return "warnings-as-errors"
        if case["kind"] == "hostile" and io.get("hang"):
            vals = [case.get("value")] + list(case.get("args", [])) + list(case.get("kwargs", {}).values())
            if any(_huge_exp_value(v) for v in vals):
                return "huge-exponent-int"
            if _mapping_reachable(case.get("target")) and any(_lazy_how(v, ("genpairs",)) or _sub_how(v, ("items_endless",)) for v in vals):
                return "endless-pairs-into-mapping"
            if _container_reachable(case.get("target")) and any(_sub_how(v, ("iter_endless",)) for v in vals):
                return "endless-pairs-into-mapping"
            if (_has_self_ref(case.get("target")) and any(_deep_dict(v) for v in vals)
                    and (case.get("ropts") or {}).get("collect_errors") and (case.get("ropts") or {}).get("override")):
                return "union-retries-exponential"
        return None

    # ---- search / evidence -----------------------------------------------------------------------
    def neighbours(self, case, rng):
        out = []
        if case["kind"] == "hostile":
            if "type" in case["target"] and "rule" in case["target"]["type"]:
                c = json.loads(json.dumps(case))
                o = c["target"]["type"]["rule"].setdefault("options", {})
                o["collect_errors"] = not o.get("collect_errors", False)
                out.append(c)
            for vn in rng.sample(list(H_VALUES), 12):
                c = dict(case, vn=vn)
                if "value" in c:
                    c["value"] = H_VALUES[vn]
                out.append(c)
            return out
        o = case.get("opts", {})
        for ce in (True, False):
            for pol in POLICIES:
                c = json.loads(json.dumps(case))
                c["opts"].update(collect_errors=ce, invalid_items=pol, invalid_values=pol, invalid_keys=pol)
                out.append(c)
        sc = case.get("script", [])
        for i in range(len(sc)):
            c = json.loads(json.dumps(case))
            c["script"] = sc[:i] + sc[i + 1:]
            out.append(c)
            if isinstance(sc[i][3], dict) and "raise" in sc[i][3]:
                c2 = json.loads(json.dumps(case))
                c2["script"][i][3] = {"raise": rng.choice(RAISABLE_OTHER), "perr": False}
                out.append(c2)
        return out

    def key(self, case, io):
        if not isinstance(io, dict):
            return None
        if case["kind"] == "iter":
            return json.dumps(case, sort_keys=True) if io.get("pulled") else None
        if case["kind"] in ("hostile", "ts"):
            if io.get("out") == "ok":
                return None
            return json.dumps([case.get("t"), case.get("vn"), case.get("x"), case.get("via"), case.get("args"), case.get("kwargs"), case.get("value")], sort_keys=True, default=str)
        nontrivial = io.get("out") != "ok" or any(
            isinstance(e[3], dict) and ("raise" in e[3] or "div" in e[3] or e[3].get("ok") is None or (isinstance(e[3].get("ok"), int) and e[3]["ok"] >= 5000))
            for e in case.get("script", []))
        return json.dumps(case, sort_keys=True) if nontrivial else None

    def distribution(self, case, io):
        out = io.get("out") if isinstance(io, dict) else "?"
        if isinstance(io, dict) and io.get("hang"):
            out = "hang"
        if isinstance(io, dict) and out == "raise":
            out = "perr" if io["info"]["perr"] else "escape"
        k = case["kind"]
        sub = case.get("sub") or case.get("comb") or case.get("entry") or ""
        if k == "hostile":
            sub = "type" if "type" in case["target"] else "schema" if "schema" in case["target"] else "func"
        return f"{k}/{sub}/{out}"

    def extra_static(self, tier):
        """the sites the model mirrors must still be where the model says (cheap text anchors on $UTYPE_REPO)"""
        from .common import REPO
        broken = []
        rule = (REPO / "utype/parser/rule.py").read_text()
        tr = (REPO / "utype/utils/transform.py").read_text()
        if rule.count("except Exception") < 12:
            broken.append("rule.py: fewer `except Exception` handlers than the model mirrors")
        if tr.count("while abs(") != 2:
            broken.append("transform.py: the model mirrors exactly two timestamp loops")
        # Model/C04Iter.lean `isMulti`: the isinstance tuple of utils.functional.multi, read from the source text
        import ast
        want = ["list", "set", "frozenset", "tuple", "type({}.values())", "type({}.keys())"]
        got = None
        for node in ast.walk(ast.parse((REPO / "utype/utils/functional.py").read_text())):
            if isinstance(node, ast.FunctionDef) and node.name == "multi":
                for call in ast.walk(node):
                    if isinstance(call, ast.Call) and getattr(call.func, "id", None) == "isinstance" and isinstance(call.args[1], ast.Tuple):
                        got = [ast.unparse(e) for e in call.args[1].elts]
        if got != want:
            broken.append(f"functional.multi accepts {got}; Model/C04Iter.isMulti mirrors {want} (sized builtin containers only)")
        if tr.count("multi(") != 5:
            broken.append(f"transform.py has {tr.count('multi(')} multi() sites, Model/C04Iter.consumes mirrors 5")
        return broken

    def finish_evidence(self, ev, tier):
        ev["coverage"]["exhaustive"] = False
        if tier == "thorough":
            ev["coverage"]["exhaustive_part"] = "hostile stream: every (type shape, hostile value) pair of the two pools"

    def reproduce(self, case):
        from .common import PY, REPO, VERIF
        return (f"cd {VERIF} && UTYPE_REPO={REPO} {PY} -c 'import json,sys; sys.path.insert(0, \"{REPO}\"); "
                f"from harness.c04 import impl; print(impl(json.loads(sys.stdin.read())))' <<'JSON'\n{json.dumps(case, sort_keys=True)}\nJSON")


CHECK = C04()
