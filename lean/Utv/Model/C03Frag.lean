import Utv.Model.C02Decl
/-!
C03 — whole-type parsing on the fragment where idempotence holds, and the combinators on which it does not.

* `Ty` / `parse`: plain origins and strict rules over them, and list / tuple containers of such types (nested to any depth)
  with their own constraint lists.  The converters of the plain classes (C12's model) are a parameter `Conv` with the one law
  idempotence needs: a converter's output has exactly the class asked for (so the exact-type shortcut of
  `TypeTransformer.__call__`, transform.py:711-719, takes it as it is the second time).
* `allParse`, `xorParse`, `negParse` over arbitrary member parsers (`logical_parse`, rule.py:372-470); the staged union is
  `Utv.C02D.unionParse`.
-/
namespace Utv.C03F
open Utv.Py Utv.Gen Utv.Rule

structure Conv where
  to : Cls → PyVal → M PyVal
  typed : ∀ c v r, to c v = .ok r → typeOf r = c

inductive Ty where
  | plain (c : Cls) (cs : List (String × PyVal))
  | seq (k : Cls) (item : Ty) (cs : List (String × PyVal))

/-- `transformer(value, cls)`: a value of exactly that class is final, anything else goes through the converter -/
def toCls (C : Conv) (c : Cls) (v : PyVal) : M PyVal := if typeOf v == c then pure v else C.to c v

def parse (P : Prims) (C : Conv) : Ty → PyVal → M PyVal
  | .plain c cs, v => do
    let w ← toCls C c v
    validate P cs w
  | .seq k item cs, v => do
    let w ← toCls C k v
    match w with
    | .seq _ xs => do
      let ys ← xs.mapM (parse P C item)
      validate P cs (.seq k ys)
    | _ => throw .typeError

/-- `A & B & …`: each member parses the output of the one before (rule.py:372-381) -/
def allParse (ms : List (PyVal → M PyVal)) (v : PyVal) : M PyVal := ms.foldlM (fun acc m => m acc) v

/-- `A ^ B ^ …`: every member is tried on the input; exactly one must accept, its output is the result (rule.py:432-458) -/
def xorParse (ms : List (PyVal → M PyVal)) (v : PyVal) : M PyVal :=
  match ms.filterMap (fun m => match m v with | .ok r => some r | .error _ => none) with
  | [r] => pure r
  | _ => throw .valueError

/-- `~A`: the input itself when `A` rejects it (rule.py:460-470) -/
def negParse (m : PyVal → M PyVal) (v : PyVal) : M PyVal :=
  match m v with
  | .ok _ => throw .valueError
  | .error _ => pure v

end Utv.C03F
