import Utv.Props.C03
import Utv.Lemmas.C03Copy
/-!
C03 — the pieces put together (third Props module): a data class whose field types lie in the fragment of
`C03_parse_idempotent` re-parses to itself; `C03_container_reparse` instantiated with every hypothesis discharged.
-/
namespace Utv.C03
open Utv.Py Utv.Gen Utv.Rule Utv.C02 Utv.C03C Utv.C03F Utv.C02D

/-- **data classes over the fragment**: distinct field names, every field type a well-formed fragment type (plain origins /
strict rules over the input-preserving constraints / nested lists and tuples of those), defaults that are values of their
field types and are handed back by `copy`, no required field excluded from the output ⇒ the result re-parses to itself.
`FieldOk.idem` is no longer assumed: it is `C03_parse_idempotent`. -/
theorem C03_dataclass_of_fragment_fields (P : Prims) (C : Conv) (copy : PyVal → Py.M PyVal) (absent : Exc)
    (fs : List (String × Ty × Bool × Option PyVal × Bool)) (input r : List (String × PyVal))
    (hnd : (fs.map (·.1)).Nodup) (hwf : ∀ f ∈ fs, WFTy f.2.1)
    (hconf : ∀ f ∈ fs, ∀ d, f.2.2.2.1 = some d → parse P C f.2.1 d = .ok d ∧ copy d = .ok d)
    (hdrop : ∀ f ∈ fs, ¬ (f.2.2.1 = true ∧ f.2.2.2.2 = true)) :
    let fields : List (FieldD PyVal Exc) := fs.map fun f =>
      { key := f.1, parse := parse P C f.2.1, required := f.2.2.1, default := f.2.2.2.1, noOutput := f.2.2.2.2 }
    parseDC copy absent fields input = .ok r → parseDC copy absent fields r = .ok r := by
  intro fields h
  apply C03_dataclass_idempotent copy absent fields input r
  · have : fields.map (·.key) = fs.map (·.1) := by
      simp only [fields, List.map_map]
      apply List.map_congr_left
      intro f _; rfl
    rw [this]; exact hnd
  · intro g hg
    simp only [fields, List.mem_map] at hg
    obtain ⟨f, hf, rfl⟩ := hg
    exact ⟨fun x y hxy => C03_parse_idempotent P C f.2.1 (hwf f hf) x y hxy,
      fun d hd => (hconf f hf d hd).1, fun d hd => (hconf f hf d hd).2, hdrop f hf⟩
  · exact h

/-- `C03_container_reparse` with `hp`, `hpost`, `hfix` all discharged, on the `Set[int]`, `min_length = 2` declaration:
`[1, '2']` parses to `{1, 2}` and `{1, 2}` re-parses to itself — obtained from the theorem, not by evaluation -/
example (P : Prims) :
    let conv : PyVal → Py.M PyVal := fun v => match v with
      | .seq k xs => pure (.seq k (xs.map fun x => match x with | .str "1" => .int 1 | .str "2" => .int 2 | y => y))
      | y => pure y
    let d : Decl := { validators := [("min_length", .int 2)], args := some conv, cont := ⟨false, none, none⟩,
                      acc := fun _ => false, post := pure, pack := Py.construct .set }
    parseTyped P d (.seq .set [.int 1, .int 2]) = .ok (.seq .set [.int 1, .int 2]) := by
  intro conv d
  apply C03_container_reparse P d (.seq .list [.int 1, .str "2"]) (.seq .set [.int 1, .int 2])
  · intro x; rfl
  · rfl
  · intro c hc
    simp only [d, List.mem_singleton] at hc
    subst hc
    exact ⟨_, rfl, preserving_min_length⟩
  · intro x y h
    simp only [d, pure, Except.pure, Except.ok.injEq] at h
    exact h.symm
  · rfl
  · rfl

end Utv.C03
