import Utv.Model.C18
import Utv.Lemmas.C18
/-!
Lemmas for the verdict-level biconditional of C18 on declarations whose unions have at most one
container alternative: the union stages as one list of attempts, and "the limited run fails only
where the unlimited one fails" transported through the loops.
-/
namespace Utv.C18

/-! ### a union is one list of attempts -/

theorem tryAll_append {α β} (p : α → Out β × Nat) (l1 l2 : List α) (f : Flags) :
    tryAll p (l1 ++ l2) f = orElse (tryAll p l1 f) (fun g => tryAll p l2 g) := by
  induction l1 generalizing f with
  | nil => simp [tryAll, orElse]
  | cons a as ih =>
    simp only [List.cons_append, tryAll]
    rcases p a with ⟨o, c⟩
    cases o with
    | ok b => simp [orElse]
    | err g =>
      simp only [ih]
      rcases tryAll p as (f.or g) with ⟨o', c'⟩
      cases o' with
      | ok b => simp [orElse]
      | err g' =>
        simp only [orElse]
        rcases tryAll p l2 g' with ⟨o'', c''⟩
        simp [Nat.add_assoc]

theorem tryAll_map {α β γ} (p : α → Out β × Nat) (g : γ → α) (l : List γ) (f : Flags) :
    tryAll p (l.map g) f = tryAll (fun x => p (g x)) l f := by
  induction l generalizing f with
  | nil => rfl
  | cons a as ih => simp only [List.map_cons, tryAll, ih]

/-- the attempt made for alternative `mt.2` under the preferences `mt.1` -/
def attempt (Q : Quirks) (rec : Parser) (c : Ctx) (v : Val) (mt : Mode × Ty) : Out Res × Nat :=
  inCtx (enter Q c false mt.1) fun c' => rec c' mt.2 v

theorem unionStage_eq (Q : Quirks) (rec : Parser) (c : Ctx) (ts : List Ty) (v : Val) (m : Mode) (f : Flags) :
    unionStage Q rec c ts v m f = tryAll (attempt Q rec c v) (ts.map fun t => (m, t)) f := by
  rw [tryAll_map]; rfl

theorem parseUnion_flat (Q : Quirks) (rec : Parser) (c : Ctx) (ts : List Ty) (v : Val)
    (h : (isNoneVal v && hasNone ts) = false) :
    parseUnion Q rec c ts v = tryAll (attempt Q rec c v) (attempts c.mode ts) {} := by
  simp only [parseUnion, h, Bool.false_eq_true, if_false, attempts, tryAll_append, unionStage_eq, stage2, stage3]
  by_cases h2 : (!c.mode.noLoss || !c.mode.noCast) = true <;>
    by_cases h3 : (!c.mode.noLoss && !c.mode.noCast) = true <;>
    simp [h2, h3, tryAll]

/-! ### transporting "same result" and "fails only where the other fails" -/

theorem seqM_agree {α β} (p q : α → Out β × Nat) (l : List α)
    (h : ∀ a ∈ l, ∀ b, (p a).1 = .ok b → (q a).1 = .ok b) (bs : List β) (hp : (seqM p l).1 = .ok bs) :
    (seqM q l).1 = .ok bs := by
  induction l generalizing bs with
  | nil => simpa [seqM] using hp
  | cons a as ih =>
    obtain ⟨b, bs', h1, h2, rfl⟩ := (seqM_ok_cons p a as bs).1 hp
    exact (seqM_ok_cons q a as _).2 ⟨b, bs', h a (by simp) b h1,
      ih (fun a' ha' => h a' (by simp [ha'])) bs' h2, rfl⟩

theorem seqM_err_of_mem {α β} (p : α → Out β × Nat) (l : List α) (a : α) (ha : a ∈ l)
    (h : (p a).1.isOk = false) : (seqM p l).1.isOk = false := by
  induction l with
  | nil => cases ha
  | cons x xs ih =>
    simp only [seqM]
    rcases hp : p x with ⟨o, c⟩
    cases o with
    | err f => rfl
    | ok b =>
      rcases List.mem_cons.1 ha with rfl | hm
      · rw [hp] at h; cases h
      · have := ih hm
        rcases hs : seqM p xs with ⟨o', c'⟩
        rw [hs] at this
        cases o' with
        | err f => rfl
        | ok bs => cases this

theorem seqM_err_mem {α β} (p : α → Out β × Nat) (l : List α) (h : (seqM p l).1.isOk = false) :
    ∃ a ∈ l, (p a).1.isOk = false := by
  induction l with
  | nil => simp [seqM, Out.isOk] at h
  | cons x xs ih =>
    cases hp : (p x).1 with
    | err f => exact ⟨x, by simp, by rw [hp]; rfl⟩
    | ok b =>
      cases hs : (seqM p xs).1 with
      | err f =>
        obtain ⟨a, ha, hh⟩ := ih (by rw [hs]; rfl)
        exact ⟨a, by simp [ha], hh⟩
      | ok bs =>
        have := (seqM_ok_cons p x xs (b :: bs)).2 ⟨b, bs, hp, hs, rfl⟩
        rw [this] at h; cases h

theorem tryAll_agree {α β} (p q : α → Out β × Nat) (l : List α) (f f' : Flags)
    (hag : ∀ a ∈ l, ∀ b, (p a).1 = .ok b → (q a).1 = .ok b)
    (hnf : ∀ a ∈ l, (p a).1.isOk = false → (q a).1.isOk = false)
    (b : β) (hp : (tryAll p l f).1 = .ok b) : (tryAll q l f').1 = .ok b := by
  induction l generalizing f f' with
  | nil => simp [tryAll] at hp
  | cons a as ih =>
    rcases (tryAll_ok_cons p a as f b).1 hp with h1 | ⟨g, h1, h2⟩
    · exact (tryAll_ok_cons q a as f' b).2 (Or.inl (hag a (by simp) b h1))
    · have hq := hnf a (by simp) (by rw [h1]; rfl)
      cases hqa : (q a).1 with
      | ok b' => rw [hqa] at hq; cases hq
      | err g' =>
        exact (tryAll_ok_cons q a as f' b).2 (Or.inr ⟨g', hqa,
          ih _ _ (fun a' ha' => hag a' (by simp [ha'])) (fun a' ha' => hnf a' (by simp [ha'])) h2⟩)

theorem tryAll_all_err {α β} (p : α → Out β × Nat) (l : List α) (f : Flags)
    (h : ∀ a ∈ l, (p a).1.isOk = false) : (tryAll p l f).1.isOk = false := by
  induction l generalizing f with
  | nil => rfl
  | cons a as ih =>
    simp only [tryAll]
    have ha := h a (by simp)
    rcases hp : p a with ⟨o, c⟩
    rw [hp] at ha
    cases o with
    | ok b => cases ha
    | err g =>
      have := ih (f.or g) (fun a' ha' => h a' (by simp [ha']))
      rcases tryAll p as (f.or g) with ⟨o', c'⟩
      exact this

theorem tryAll_err_all {α β} (p : α → Out β × Nat) (l : List α) (f : Flags)
    (h : (tryAll p l f).1.isOk = false) : ∀ a ∈ l, (p a).1.isOk = false := by
  induction l generalizing f with
  | nil => intro a ha; cases ha
  | cons x xs ih =>
    intro a ha
    cases hp : (p x).1 with
    | ok b =>
      have := (tryAll_ok_cons p x xs f b).2 (Or.inl hp)
      rw [this] at h; cases h
    | err g =>
      rcases List.mem_cons.1 ha with rfl | hm
      · rw [hp]; rfl
      · apply ih (f.or g) _ a hm
        cases ht : (tryAll p xs (f.or g)).1 with
        | err g' => rfl
        | ok b =>
          have := (tryAll_ok_cons p x xs f b).2 (Or.inr ⟨g, hp, ht⟩)
          rw [this] at h; cases h

theorem attempts_mem (m : Mode) (ts : List Ty) (mt : Mode × Ty) (h : mt ∈ attempts m ts) : mt.2 ∈ ts := by
  simp only [attempts, List.mem_append] at h
  rcases h with h | h | h
  · split at h
    · obtain ⟨t, ht, rfl⟩ := List.mem_map.1 h; exact ht
    · cases h
  · split at h
    · obtain ⟨t, ht, rfl⟩ := List.mem_map.1 h; exact ht
    · cases h
  · obtain ⟨t, ht, rfl⟩ := List.mem_map.1 h; exact ht

theorem unambL_mem (ts : List Ty) (h : unambL ts = true) : ∀ t ∈ ts, unamb t = true := by
  induction ts with
  | nil => intro t ht; cases ht
  | cons t ts ih =>
    simp only [unambL, Bool.and_eq_true] at h
    intro t' ht'
    rcases List.mem_cons.1 ht' with rfl | hm
    · exact h.1
    · exact ih h.2 t' hm

/-- with at most one container alternative, two non-scalar alternatives of a union are the same one -/
theorem container_unique (ts : List Ty) (h : (ts.filter fun t => !isScalarTy t).length ≤ 1) (t1 t2 : Ty)
    (h1 : t1 ∈ ts) (h2 : t2 ∈ ts) (s1 : isScalarTy t1 = false) (s2 : isScalarTy t2 = false) : t1 = t2 := by
  have m1 : t1 ∈ ts.filter fun t => !isScalarTy t := List.mem_filter.2 ⟨h1, by simp [s1]⟩
  have m2 : t2 ∈ ts.filter fun t => !isScalarTy t := List.mem_filter.2 ⟨h2, by simp [s2]⟩
  generalize ts.filter (fun t => !isScalarTy t) = l at h m1 m2
  match l, h, m1, m2 with
  | [x], _, m1, m2 =>
    simp only [List.mem_singleton] at m1 m2
    rw [m1, m2]
  | [], _, m1, _ => cases m1
  | _ :: _ :: _, h, _, _ => simp at h

end Utv.C18

namespace Utv.C18

theorem wrapSeq_indep (m m2 : Mode) (v : Val) (vs vs2 : List Val) (h : wrapSeq m v = some vs)
    (h2 : wrapSeq m2 v = some vs2) : vs2 = vs := by
  cases v with
  | list l => simp [wrapSeq] at h h2; rw [← h, ← h2]
  | tok n =>
    simp only [wrapSeq] at h h2
    split at h <;> split at h2 <;> simp_all
  | none =>
    simp only [wrapSeq] at h h2
    split at h <;> split at h2 <;> simp_all
  | dict kvs =>
    cases kvs with
    | nil =>
      simp only [wrapSeq] at h h2
      split at h <;> split at h2 <;> simp_all
    | cons kv rest =>
      simp only [wrapSeq] at h h2
      split at h <;> split at h2 <;> simp_all

mutual
theorem within_of_rdepth_zero (E : Env) : ∀ (n : Nat) (r : Res), rdepth r = 0 → within E n r = true
  | _, .leaf _, _ => rfl
  | _, .none, _ => rfl
  | _, .data _ _, h => by simp [rdepth] at h
  | n, .list rs, h => by simp only [within]; exact withinL_of_rdepth_zero E n rs (by simpa [rdepth] using h)
  | n, .tuple rs, h => by simp only [within]; exact withinL_of_rdepth_zero E n rs (by simpa [rdepth] using h)
  | n, .dict kvs, h => by simp only [within]; exact withinK_of_rdepth_zero E n kvs (by simpa [rdepth] using h)
theorem withinL_of_rdepth_zero (E : Env) : ∀ (n : Nat) (rs : List Res), rdepthL rs = 0 → withinL E n rs = true
  | _, [], _ => rfl
  | n, r :: rs, h => by
    simp only [rdepthL] at h
    simp only [withinL, Bool.and_eq_true]
    exact ⟨within_of_rdepth_zero E n r (by omega), withinL_of_rdepth_zero E n rs (by omega)⟩
theorem withinK_of_rdepth_zero (E : Env) : ∀ (n : Nat) (rs : List (Key × Res)), rdepthK rs = 0 → withinK E n rs = true
  | _, [], _ => rfl
  | n, (_, r) :: rs, h => by
    simp only [rdepthK] at h
    simp only [withinK, Bool.and_eq_true]
    exact ⟨within_of_rdepth_zero E n r (by omega), withinK_of_rdepth_zero E n rs (by omega)⟩
end

theorem rdepthL_zero (rs : List Res) (h : ∀ r ∈ rs, rdepth r = 0) : rdepthL rs = 0 := by
  induction rs with
  | nil => rfl
  | cons r rs ih =>
    simp only [rdepthL]
    have h1 := h r (by simp)
    have h2 := ih (fun r' hr' => h r' (by simp [hr']))
    omega

theorem seqM_res_mem {α β} (p : α → Out β × Nat) (l : List α) (bs : List β) (h : (seqM p l).1 = .ok bs) :
    ∀ b ∈ bs, ∃ a ∈ l, (p a).1 = .ok b := by
  induction l generalizing bs with
  | nil => simp [seqM] at h; subst h; intro b hb; cases hb
  | cons x xs ih =>
    obtain ⟨b0, bs', h1, h2, rfl⟩ := (seqM_ok_cons p x xs bs).1 h
    intro b hb
    rcases List.mem_cons.1 hb with rfl | hm
    · exact ⟨x, by simp, h1⟩
    · obtain ⟨a, ha, h3⟩ := ih bs' h2 b hm
      exact ⟨a, by simp [ha], h3⟩

theorem indexed_mem {α} (l : List α) (i j : Nat) (x : α) (h : (j, x) ∈ indexed i l) : x ∈ l := by
  induction l generalizing i with
  | nil => simp [indexed] at h
  | cons y ys ih =>
    simp only [indexed, List.mem_cons, Prod.mk.injEq] at h
    rcases h with ⟨_, rfl⟩ | h
    · simp
    · exact List.mem_cons_of_mem _ (ih _ h)

theorem wrapSeq_scalar (m : Mode) (v : Val) (vs : List Val) (hv : isScalarVal v = true)
    (h : wrapSeq m v = some vs) : ∀ x ∈ vs, isScalarVal x = true := by
  cases v with
  | list l => simp [isScalarVal] at hv
  | dict kvs => simp [isScalarVal] at hv
  | tok n =>
    simp only [wrapSeq] at h
    split at h
    · cases h
    · cases h; intro x hx; simp at hx; subst hx; rfl
  | none =>
    simp only [wrapSeq] at h
    split at h
    · cases h
    · cases h; intro x hx; simp at hx; subst hx; rfl

end Utv.C18
