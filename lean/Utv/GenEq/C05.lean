import Utv.GenEq.Support
import Utv.Gen.Field
import Utv.Gen.Options
import Utv.Gen.Parse
import Utv.Gen.FunctionalObj
import Utv.Model.C05
/-!
C05 — T1 obligations: the field predicates of the hand model (`Model/C05.lean`: `isNoInput isNoOutput alwaysNoInput
isRequired getDefault getOnError`, and the case-sensitivity decision of `mkField`) are *equal* to the code
regenerated from `utype/parser/field.py` on every run (`Utv.Gen.Field.*`) — for every field, options, value, and
every world in which the user predicates answer as the model's `World.pred` says.

Encoding (trivial, total): a `PField V` is the `ParserField` instance with the attributes the model's fields stand
for.  The model names modes by natural numbers; a mode is the character with that code point and a set of modes is a
Python mode string (`LettersOk`: code points below the surrogate range, so that different numbers are different
characters; the model's `modeExcludes` reads `mode=''` as Python does: no restriction).  The model has no `final` fields and no
`default_factory` (a factory's value is the model's `default`).  `Legacy.none` is the code as it is now.
-/
namespace Utv.GenEq.C05
open Utv.Obj Utv.C05 Utv.Gen

variable {V : Type}

def ltr (n : Nat) : Char := Char.ofNat n

def encLetters (ms : List Nat) : OVal V := .str (String.ofList (ms.map ltr))

def encFlag : Flag → OVal V
  | .no => .bool false
  | .yes => .bool true
  | .modes ms => encLetters ms
  | .pred k => .fn k

def encReq : Req → OVal V
  | .no => .bool false
  | .yes => .bool true
  | .modes ms => encLetters ms

def encOnErr : OnErr → OVal V
  | .throw => .str "throw"
  | .exclude => .str "exclude"
  | .preserve => .str "preserve"

def encOptVal : Option V → OVal V
  | none => .unprovided
  | some d => .val d

def encOptNat : Option Nat → OVal V
  | none => .none
  | some n => .int n

/-- the `ParserField` a `PField` stands for -/
def encField (f : PField V) : OVal V :=
  .obj "ParserField" [
    ("required", encReq f.required),
    ("default", encOptVal f.default),
    ("default_factory", .none),
    ("defer_default", .bool f.deferDefault),
    ("no_input", encFlag f.noInput),
    ("no_output", encFlag f.noOutput),
    ("mode", match f.mode with | none => .none | some ms => encLetters ms),
    ("final", .bool false),
    ("on_error", match f.onError with | none => .none | some e => encOnErr e),
    ("setup_case_insensitive", .bool f.ci),
    -- what `parse_value` reads besides: not deprecated, no discriminator; the declared type (by its id) or None
    ("field", .obj "Field" [("deprecated", .bool false)]), ("deprecated_to", .none),
    ("type", match f.ty with | none => .none | some t => .cls t), ("discriminator_types", .seq .tuple []), ("discriminator_map", .none), ("discriminator_keys", .seq .list []),
    ("name", .int f.name), ("EXCLUDED", .obj "Excluded" [])]

/-- the `Options` an `Opts` stands for (attributes the predicates read) -/
def encOpts (o : Opts V) : OVal V :=
  .obj "Options" [
    ("mode", match o.mode with | none => .none | some m => .str (String.singleton (ltr m))),
    ("ignore_required", .bool o.ignoreRequired),
    ("no_default", .bool o.noDefault),
    ("defer_default", .bool o.deferDefault),
    ("force_default", encOptVal o.forceDefault),
    ("invalid_values", encOnErr o.invalidValues),
    ("case_insensitive", .bool o.caseInsensitive),
    ("EXCLUDE", .str "exclude"), ("PRESERVE", .str "preserve"),
    ("addition", match o.addition with | .ignore => .none | .allow => .bool true | .forbid => .bool false),
    ("collect_errors", .bool o.collectErrors), ("max_errors", encOptNat o.maxErrors)]

def flagLetters : Flag → List Nat
  | .modes ms => ms
  | _ => []

def reqLetters : Req → List Nat
  | .modes ms => ms
  | _ => []

/-- all numbers of the list are code points below the surrogate range -/
def okL (ms : List Nat) : Bool := ms.all fun n => decide (n < 0xD800)

/-- mode numbers are code points of characters -/
def LettersOk (o : Opts V) (f : PField V) : Prop :=
  okL o.mode.toList = true ∧ okL (f.mode.getD []) = true ∧ okL (flagLetters f.noInput) = true ∧
  okL (flagLetters f.noOutput) = true ∧ okL (reqLetters f.required) = true

/-- `copy_value` is the model world's `copy` -/
def CopyOk (W : Obj.World V) (W5 : C05.World V) : Prop :=
  ∀ d, W.ext "copy_value" [.val d] = .ok (.val (W5.copy d))

/-- user predicates answer as the model's world says -/
def WorldOk (W : Obj.World V) (W5 : C05.World V) : Prop :=
  ∀ k v, W.call (.fn k) [.val v] = .ok (.bool (W5.pred k v))

/-- a world built from the model's own: the hypothesis `WorldOk` is satisfiable for every model world -/
def encWorld (W5 : C05.World V) : Obj.World V where
  call f args := match f, args with
    | .fn k, [.val v] => .ok (.bool (W5.pred k v))
    | _, _ => .error (.unmodelled "call outside the encoding")
  ext name args := match name, args with
    | "copy_value", [.val d] => .ok (.val (W5.copy d))
    | _, _ => .error (.unmodelled "external function outside the encoding")
  clsAttr _ _ := none

example (W5 : C05.World V) : WorldOk (encWorld W5) W5 := fun _ _ => rfl
example (W5 : C05.World V) : CopyOk (encWorld W5) W5 := fun _ => rfl

/-- `LettersOk` is satisfiable: mode 'r' (114) against a field with `mode='rw'`, `no_input='w'` -/
example : LettersOk ({ mode := some 114 } : Opts Unit)
    { attname := 0, ty := none, name := 0, allAliases := [], aliases := [], ci := false, required := .yes, default := none,
      deferDefault := false, noInput := .modes [119], noOutput := .no, mode := some [114, 119], deps := [],
      onError := none } := by
  simp [LettersOk, okL, flagLetters, reqLetters]

theorem ltr_toNat {a : Nat} (ha : a < 0xD800) : (ltr a).toNat = a := by
  have hv : a.isValidChar := Or.inl ha
  simp only [ltr, Char.ofNat, hv, dite_true]
  simp [Char.ofNatAux, Char.toNat]

theorem ltr_inj {a b : Nat} (ha : a < 0xD800) (hb : b < 0xD800) (h : ltr a = ltr b) : a = b := by
  have := congrArg Char.toNat h
  rwa [ltr_toNat ha, ltr_toNat hb] at this

theorem contains_ltr (m : Nat) (ms : List Nat) (hm : okL [m] = true) (h : okL ms = true) :
    isInfixB [ltr m] (ms.map ltr) = ms.contains m := by
  rw [isInfixB_singleton]
  have hm' : m < 0xD800 := by simpa [okL] using hm
  induction ms with
  | nil => rfl
  | cons x xs ih =>
    have hx : x < 0xD800 := by
      have := h; simp only [okL, List.all_cons, Bool.and_eq_true, decide_eq_true_eq] at this; exact this.1
    have ih' := ih (by
      have := h; simp only [okL, List.all_cons, Bool.and_eq_true] at this; exact this.2)
    have hb : (ltr m == ltr x) = (m == x) := by
      by_cases hmx : m = x
      · subst hmx; simp
      · have : ltr m ≠ ltr x := fun hh => hmx (ltr_inj hm' hx hh)
        rw [beq_eq_false_iff_ne.mpr this, beq_eq_false_iff_ne.mpr hmx]
    simp only [List.map_cons, List.contains_cons, ih', hb]

macro "field_simp" "[" ls:Lean.Parser.Tactic.simpLemma,* "]" : tactic =>
  `(tactic| obj_simp [Field.always_no_input, Field.always_no_output, Field.is_required, Field.is_no_input,
      Field.is_no_output, Field.no_default, Field.get_default, Field.get_on_error, Field.is_case_insensitive,
      encField, encOpts, encFlag, encReq, encLetters, encOnErr, encOptVal,
      getattr, lookupAttr, truthy, isinstance, contains, callable, SeqK.name,
      OVal.isUnprovided, OVal.isTrue, OVal.isNone, contains_ltr,
      flagHolds, flagAt, modeExcludes, isNoInput, isNoOutput, alwaysNoInput, isRequired, getDefault, getOnError, Legacy.none, $ls,*])

theorem C05_gen_always_no_input (W : Obj.World V) (o : Opts V) (f : PField V) (hl : LettersOk o f) :
    Field.always_no_input W (encField f) (encOpts o) = .ok (.bool (alwaysNoInput Legacy.none o f)) := by
  gen_obligation "C05_gen_always_no_input: the regenerated code (Utv.Gen) is no longer equal to the hand model here" by
    obtain ⟨_, _, _, _, _, ci, required, default, deferDefault, noInput, noOutput, mode, _, onError⟩ := f
    obtain ⟨omode, _, ir, nd, dd, fd, _, _, _, _, _, iv, _, oci⟩ := o
    simp only [LettersOk] at hl
    cases noInput <;> cases omode <;> cases mode <;>
      simp only [flagLetters, reqLetters, Option.toList, Option.getD] at hl <;> field_simp [hl] <;> grind

theorem C05_gen_is_required (W : Obj.World V) (o : Opts V) (f : PField V) (hl : LettersOk o f) :
    Field.is_required W (encField f) (encOpts o) = .ok (.bool (isRequired Legacy.none o f)) := by
  gen_obligation "C05_gen_is_required: the regenerated code (Utv.Gen) is no longer equal to the hand model here" by
    rw [Field.is_required, C05_gen_always_no_input W o f hl]
    unfold isRequired
    generalize alwaysNoInput Legacy.none o f = ani
    obtain ⟨_, _, _, _, _, ci, required, default, deferDefault, noInput, noOutput, mode, _, onError⟩ := f
    obtain ⟨omode, _, ir, nd, dd, fd, _, _, _, _, _, iv, _, oci⟩ := o
    simp only [LettersOk] at hl
    cases ir <;> cases required <;> cases omode <;> cases ani <;>
      simp only [flagLetters, reqLetters, Option.toList, Option.getD] at hl <;> field_simp [hl] <;> grind

/-- run-time `is_no_input(value, options)`, a callable `no_input` included -/
theorem C05_gen_is_no_input (W : Obj.World V) (W5 : C05.World V) (hw : WorldOk W W5) (o : Opts V) (f : PField V)
    (v : V) (hl : LettersOk o f) :
    Field.is_no_input W (encField f) (.val v) (encOpts o) = .ok (.bool (isNoInput Legacy.none W5 o f v)) := by
  gen_obligation "C05_gen_is_no_input: the regenerated code (Utv.Gen) is no longer equal to the hand model here" by
    obtain ⟨_, _, _, _, _, ci, required, default, deferDefault, noInput, noOutput, mode, _, onError⟩ := f
    obtain ⟨omode, _, ir, nd, dd, fd, _, _, _, _, _, iv, _, oci⟩ := o
    simp only [LettersOk] at hl
    cases noInput <;> cases omode <;> cases mode <;>
      simp only [flagLetters, reqLetters, Option.toList, Option.getD] at hl <;> field_simp [hl, hw _ _] <;> grind

theorem C05_gen_is_no_output (W : Obj.World V) (W5 : C05.World V) (hw : WorldOk W W5) (o : Opts V) (f : PField V)
    (v : V) (hl : LettersOk o f) :
    Field.is_no_output W (encField f) (.val v) (encOpts o) = .ok (.bool (isNoOutput Legacy.none W5 o f v)) := by
  gen_obligation "C05_gen_is_no_output: the regenerated code (Utv.Gen) is no longer equal to the hand model here" by
    obtain ⟨_, _, _, _, _, ci, required, default, deferDefault, noInput, noOutput, mode, _, onError⟩ := f
    obtain ⟨omode, _, ir, nd, dd, fd, _, _, _, _, _, iv, _, oci⟩ := o
    simp only [LettersOk] at hl
    cases noOutput <;> cases omode <;> cases mode <;>
      simp only [flagLetters, reqLetters, Option.toList, Option.getD] at hl <;> field_simp [hl, hw _ _] <;> grind

/-- `get_default(options, defer)`: the (copied) value, or `unprovided` -/
theorem C05_gen_get_default (W : Obj.World V) (W5 : C05.World V) (hcopy : CopyOk W W5) (o : Opts V) (f : PField V)
    (defer : Bool) :
    Field.get_default W (encField f) (encOpts o) (.bool defer) = .ok (encOptVal (getDefault W5 o f defer)) := by
  gen_obligation "C05_gen_get_default: the regenerated code (Utv.Gen) is no longer equal to the hand model here" by
    obtain ⟨_, _, _, _, _, ci, required, default, deferDefault, noInput, noOutput, mode, _, onError⟩ := f
    obtain ⟨omode, _, ir, nd, dd, fd, _, _, _, _, _, iv, _, oci⟩ := o
    cases defer <;> cases nd <;> cases dd <;> cases deferDefault <;> cases fd <;> cases default <;>
      field_simp [hcopy _]

theorem C05_gen_get_on_error (W : Obj.World V) (o : Opts V) (f : PField V) :
    Field.get_on_error W (encField f) (encOpts o) = .ok (encOnErr (getOnError o f)) := by
  gen_obligation "C05_gen_get_on_error: the regenerated code (Utv.Gen) is no longer equal to the hand model here" by
    obtain ⟨_, _, _, _, _, ci, required, default, deferDefault, noInput, noOutput, mode, _, onError⟩ := f
    obtain ⟨omode, _, ir, nd, dd, fd, _, _, _, _, _, iv, _, oci⟩ := o
    cases onError with
    | none => field_simp []
    | some e => cases e <;> field_simp []

/-- a field that has been set up answers with the decision its declaring class took, whatever the options of the
parse say (`PField.ci`) -/
theorem C05_gen_is_case_insensitive (W : Obj.World V) (o : Opts V) (f : PField V) :
    Field.is_case_insensitive W (encField f) (encOpts o) = .ok (.bool f.ci) := by
  gen_obligation "C05_gen_is_case_insensitive: the regenerated code (Utv.Gen) is no longer equal to the hand model here" by
    field_simp []

/-- … and that decision is `mkField`'s: the field's own `case_insensitive=` if given, else the declaring class's
options (`setup`, field.py, stores what `is_case_insensitive` answers before the set-up) -/
theorem C05_gen_is_case_insensitive_setup (W : Obj.World V) (W5 : C05.World V) (o : Opts V) (ann : List (Key × Nat)) (d : FieldDecl V) :
    Field.is_case_insensitive W
      (.obj "ParserField" [("setup_case_insensitive", .none),
        ("case_insensitive", match d.ci with | none => .none | some b => .bool b)]) (encOpts o)
      = .ok (.bool (mkField W5 o ann d).ci) := by
  gen_obligation "C05_gen_is_case_insensitive_setup: the regenerated code (Utv.Gen) is no longer equal to the hand model here" by
    cases h : d.ci <;> field_simp [mkField, h]

/-! ### `Options.__init__` normalisation (`Opts.normalise`) -/

/-- the keyword arguments `Options(...)` is called with for an `Opts` of the model -/
def encKw (o : Opts V) : List (String × OVal V) := [
  ("mode", match o.mode with | none => .none | some m => .str (String.singleton (ltr m))),
  ("ignore_required", .bool o.ignoreRequired),
  ("no_default", .bool o.noDefault),
  ("defer_default", .bool o.deferDefault),
  ("force_default", encOptVal o.forceDefault),
  ("collect_errors", .bool o.collectErrors),
  ("max_errors", encOptNat o.maxErrors),
  ("invalid_values", encOnErr o.invalidValues),
  ("case_insensitive", .bool o.caseInsensitive)]

/-- attribute `name` of the record a translated function returned -/
def field (r : M V (OVal V)) (name : String) : M V (OVal V) := r >>= fun x => getattr x name

/-- `force_default` together with `no_default` is refused -/
theorem C05_gen_options_init_conflict (W : Obj.World V) (self : OVal V) (o : Opts V)
    (h : o.forceDefault.isSome = true ∧ o.noDefault = true) :
    Options.Options_init W self (encKw o) = .error (.raised (.obj "ConfigError" [])) := by
  gen_obligation "C05_gen_options_init_conflict: the regenerated code (Utv.Gen) is no longer equal to the hand model here" by
    obtain ⟨omode, _, ir, nd, dd, fd, _, ce, me, _, _, iv, _, oci⟩ := o
    simp only at h
    obtain ⟨h1, h2⟩ := h
    subst h2
    cases fd with
    | none => simp at h1
    | some d =>
      obj_simp [Options.Options_init, Options.multi, encKw, lookupAttr, truthy, isinstance, callable,
        OVal.isUnprovided, OVal.isNone, encOptVal]

/-- otherwise the stored options are those of `Opts.normalise`: force_default implies ignore_required; max_errors is
dropped without collect_errors (**except `max_errors=0`, which Python keeps — `if max_errors:` — and which has no
effect without `collect_errors`**); everything else is stored as given -/
theorem C05_gen_options_init (W : Obj.World V) (self : OVal V) (o : Opts V)
    (h : ¬ (o.forceDefault.isSome = true ∧ o.noDefault = true)) :
    let r := Options.Options_init W self (encKw o)
    field r "ignore_required" = .ok (.bool o.normalise.ignoreRequired) ∧
    field r "max_errors" = .ok (encOptNat (if o.maxErrors = some 0 then some 0 else o.normalise.maxErrors)) ∧
    field r "force_default" = .ok (encOptVal o.normalise.forceDefault) ∧
    field r "no_default" = .ok (.bool o.normalise.noDefault) ∧
    field r "defer_default" = .ok (.bool o.normalise.deferDefault) ∧
    field r "collect_errors" = .ok (.bool o.normalise.collectErrors) ∧
    field r "invalid_values" = .ok (encOnErr o.normalise.invalidValues) ∧
    field r "case_insensitive" = .ok (.bool o.normalise.caseInsensitive) ∧
    field r "mode" = .ok (match o.normalise.mode with | none => .none | some m => .str (String.singleton (ltr m))) := by
  gen_obligation "C05_gen_options_init: the regenerated code (Utv.Gen) is no longer equal to the hand model here" by
    obtain ⟨omode, ad, ir, nd, dd, fd, iac, ce, me, mxp, mnp, iv, dfs, oci⟩ := o
    simp only [not_and, Bool.not_eq_true] at h
    have key : Options.Options_init W self (encKw ⟨omode, ad, ir, nd, dd, fd, iac, ce, me, mxp, mnp, iv, dfs, oci⟩) =
        .ok (.obj "locals" [("mode", match omode with | none => .none | some m => .str (String.singleton (ltr m))),
          ("override", .unprovided), ("immutable", .unprovided), ("collect_errors", .bool ce),
          ("max_errors", encOptNat (if me = some 0 then some 0 else if ce then me else none)),
          ("max_depth", .unprovided), ("max_params", .unprovided), ("min_params", .unprovided),
          ("transformer_cls", .unprovided), ("no_explicit_cast", .unprovided), ("no_data_loss", .unprovided),
          ("addition", .unprovided), ("invalid_items", .unprovided), ("invalid_keys", .unprovided),
          ("invalid_values", encOnErr iv), ("unresolved_types", .unprovided), ("secret_names", .unprovided),
          ("force_default", encOptVal fd), ("no_default", .bool nd), ("defer_default", .bool dd),
          ("ignore_required", .bool (ir || fd.isSome)), ("ignore_delete_nonexistent", .unprovided),
          ("ignore_constraints", .unprovided), ("alias_from_generator", .unprovided), ("alias_generator", .unprovided),
          ("ignore_alias_conflicts", .unprovided), ("allow_subclasses", .unprovided), ("cast_keyword_str", .unprovided),
          ("case_insensitive", .bool oci), ("data_first_search", .unprovided)]) := by
      cases fd with
      | none =>
        cases ce <;> cases me <;>
          obj_simp [Options.Options_init, Options.multi, encKw, lookupAttr, truthy, isinstance, callable,
            OVal.isUnprovided, OVal.isNone, encOptVal, encOptNat]
        all_goals (try grind)
      | some d =>
        have hnd : nd = false := by simpa using h
        subst hnd
        cases ce <;> cases me <;>
          obj_simp [Options.Options_init, Options.multi, encKw, lookupAttr, truthy, isinstance, callable,
            OVal.isUnprovided, OVal.isNone, encOptVal, encOptNat]
        all_goals (try grind)
    simp only [key, field, Opts.normalise]
    obj_simp [getattr, lookupAttr]

/-! ### `distinct_add` (utils/functional.py): `mkField`'s alias lists -/

def encKey (k : Key) : OVal V := .int (k : Int)

def encKeys (ks : List Key) : OVal V := .seq .list (ks.map encKey)

theorem memS_keys (x : Key) (acc : List Key) :
    memS (V := V) (encKey x) (acc.map encKey) = .ok (acc.contains x) := by
  induction acc with
  | nil => rfl
  | cons a as ih =>
    have he : Obj.eq (V := V) (encKey x) (encKey a) = .ok (decide (x = a)) := by
      simp only [Obj.eq, eqS, encKey, intOf?, pure, Except.pure]
      congr 1
      by_cases h : x = a
      · subst h; simp
      · have h' : ¬ ((x : Int) = (a : Int)) := fun hh => h (Int.ofNat_inj.mp hh)
        simp [h, h']
    simp only [List.map_cons, memS, he, ih, bind, Except.bind, pure, Except.pure, List.contains_cons]
    by_cases h : x = a
    · subst h; simp
    · simp [h]

/-- the loop of `distinct_add`: an item not yet in the target is appended -/
theorem forIn_distinct (g : Key → OVal V → M V (ForInStep (OVal V)))
    (hg : ∀ (x : Key) (acc : List Key), g x (encKeys acc) =
      .ok (.yield (encKeys (if acc.contains x then acc else acc ++ [x])))) :
    ∀ (xs acc : List Key), forIn xs (encKeys acc) g = .ok (encKeys (distinctAdd acc xs)) := by
  intro xs
  induction xs with
  | nil => intro acc; rfl
  | cons x xs ih =>
    intro acc
    rw [List.forIn_cons, hg]
    by_cases h : acc.contains x = true
    · simp only [h, if_true, bind, Except.bind, ih, distinctAdd]
    · simp only [h, Bool.false_eq_true, if_false, bind, Except.bind, ih, distinctAdd]

/-- `distinct_add(target, items)` hands back `distinctAdd target items` (keys are the model's numbers) -/
theorem C05_gen_distinct_add (W : Obj.World V) (acc xs : List Key) :
    FunctionalObj.distinct_add W (encKeys acc) (encKeys xs) = .ok (encKeys (distinctAdd acc xs)) := by
  gen_obligation "C05_gen_distinct_add: the regenerated code (Utv.Gen) is no longer equal to the hand model here" by
    have hcont : ∀ (a : List Key) (y : Key), contains (V := V) (encKeys a) (encKey y) = .ok (a.contains y) := by
      intro a y; simp only [contains, encKeys, memS_keys]
    have happ : ∀ (a : List Key) (y : Key), append (V := V) (encKeys a) (encKey y) = .ok (encKeys (a ++ [y])) := by
      intro a y; simp [append, encKeys, pure, Except.pure]
    by_cases hx : xs = []
    · subst hx; obj_simp [FunctionalObj.distinct_add, encKeys, distinctAdd]
    · have hx' : (List.map (encKey (V := V)) xs).isEmpty = false := by simpa using hx
      unfold FunctionalObj.distinct_add
      obj_simp [encKeys, isinstance, SeqK.name, FunctionalObj.multi, iter, hx']
      rw [show (OVal.seq SeqK.list (List.map encKey acc) : OVal V) = encKeys acc from rfl, forIn_distinct]
      · rfl
      · intro y a
        rw [hcont]
        by_cases h : y ∈ a
        · simp [h]
        · simp [h, happ]

/-! ### `parse_value` / `parse_addition` under a *collecting* context: what is stored and which errors are handled -/

/-- a context with the errors handled so far, under the options `o` -/
def encCtx (o : Opts V) (errors : List (OVal V)) : OVal V :=
  .obj "RuntimeContext" [("errors", .seq .list errors), ("tmp_errors", .seq .list []), ("options", encOpts o)]

/-- a *collecting* run: `collect_errors=True`, no `max_errors` — `handle_error` records and goes on -/
def Collecting (o : Opts V) : Prop := o.collectErrors = true ∧ o.maxErrors = none

/-- which model error an error object in the context's list stands for (for the key / field name `k`) -/
def errOf (k : Key) : OVal V → Option Err
  | .obj "ExceedError" _ => some (.exceed k)
  | .obj "ParseError" _ => some (.parse k)
  | _ => none

def errsOf (k : Key) (ctx : OVal V) : List Err :=
  match getattr ctx "errors" with
  | .ok (.seq _ es) => es.filterMap (errOf k)
  | _ => []

def optOf : OVal V → Option V
  | .val v => some v
  | _ => none

/-- `parse_addition`: the value kept (if any) and the errors handled, as the model's pair -/
def decodeAdd (k : Key) : OVal V × Obj.Outcome V → Option V × List Err
  | (ctx, .ret v) => (optOf v, errsOf k ctx)
  | (ctx, .raise _) => (none, errsOf k ctx)

structure AddWorldOk (W : Obj.World V) (W5 : C05.World V) (k : Key) (ctx : OVal V) : Prop where
  enter : W.ext "enter" [ctx, encKey k, .none] = .ok (.obj "RuntimeContext" [("transformer", .fn 0)])
  conv : ∀ x, W.call (.fn 0) [.val x, .cls 0] =
    match W5.addConv x with
    | some y => .ok (.val y)
    | none => .error .typeError

theorem C05_gen_parse_addition (W : Obj.World V) (W5 : C05.World V) (P : Parser V) (o : Opts V) (k : Key) (v : V)
    (hcol : Collecting o) (hw : AddWorldOk W W5 k (encCtx o [])) :
    (Parse.parse_addition W
        (.obj "ClassParser" [("exclude_vars", encKeys P.excludeVars), ("addition_type", if P.additionTyped then .cls 0 else .none)])
        (encKey k) (.val v) (encCtx o [])).map (decodeAdd k)
      = .ok (parseAddition W5 P o k v) := by
  gen_obligation "C05_gen_parse_addition: the regenerated code (Utv.Gen) is no longer equal to the hand model here" by
    have he := hw.enter
    have hc := hw.conv v
    have hk : contains (V := V) (encKeys P.excludeVars) (encKey k) = .ok (P.excludeVars.contains k) := by
      simp only [contains, encKeys, memS_keys]
    obtain ⟨omode, ad, ir, nd, dd, fd, iac, ce, me, mxp, mnp, iv, dfs, oci⟩ := o
    obtain ⟨h1, h2⟩ := hcol
    simp only at h1 h2
    subst h1 h2
    cases hex : P.excludeVars.contains k <;> rw [hex] at hk <;>
    cases ad <;> cases hat : P.additionTyped <;> cases hconv : W5.addConv v <;> rw [hconv] at hc <;> cases iv <;>
      simp only [encCtx, encOpts, encOnErr, encOptNat] at he <;>
      obj_simp [Parse.parse_addition, Options.handle_error, encCtx, encOpts, encOptNat, encOnErr, getattr, setattr, lookupAttr, setAttrL, append,
        hk, hex, OVal.isFalse, he, hc, eq, eqS, decodeAdd, errsOf, errOf, optOf, Except.map, parseAddition, hat, hconv,
        tryCatch, tryCatchThe, MonadExceptOf.tryCatch, Except.tryCatch, Exc.isA, len, ge, le, OVal.isNone] <;>
      first | rfl | (simp_all; done) | (simp_all <;> rfl)

/-- `parse_value(value, context, excluded_as_absent=True)`: value to store (if any), errors handled, and whether the
value was dropped by the 'exclude' policy (`EXCLUDED`) -/
def decodePV (k : Key) : OVal V × Obj.Outcome V → Option V × List Err × Bool
  | (ctx, .ret (.obj "Excluded" _)) => (none, errsOf k ctx, true)
  | (ctx, .ret v) => (optOf v, errsOf k ctx, false)
  | (ctx, .raise _) => (none, errsOf k ctx, false)

structure PVWorldOk (W : Obj.World V) (W5 : C05.World V) (f : PField V) (ctx : OVal V) : Prop where
  enter : W.ext "enter" [ctx, .int f.name, .none] = .ok (.obj "RuntimeContext" [("transformer", .fn 0)])
  conv : ∀ t x, W.call (.fn 0) [.val x, .cls t] =
    match W5.fp t x with
    | some y => .ok (.val y)
    | none => .error .typeError
  copy : CopyOk W W5

theorem getattr_ctx_options (o : Opts V) (es : List (OVal V)) : getattr (encCtx o es) "options" = .ok (encOpts o) := by
  simp [encCtx, getattr, lookupAttr, pure, Except.pure]

section attrs
variable (f : PField V)
theorem ga_field : getattr (encField f) "field" = .ok (.obj "Field" [("deprecated", .bool false)]) := by
  simp [encField, getattr, lookupAttr, pure, Except.pure]
theorem ga_deprecated : getattr (OVal.obj "Field" [("deprecated", (.bool false : OVal V))]) "deprecated" = .ok (.bool false) := rfl
theorem ga_type : getattr (encField f) "type" = .ok (match f.ty with | none => .none | some t => .cls t) := by
  simp [encField, getattr, lookupAttr, pure, Except.pure]
theorem ga_dmap : getattr (encField f) "discriminator_map" = .ok .none := by
  simp [encField, getattr, lookupAttr, pure, Except.pure]
theorem ga_dtypes : getattr (encField f) "discriminator_types" = .ok (.seq .tuple []) := by
  simp [encField, getattr, lookupAttr, pure, Except.pure]
theorem truthy_etuple : truthy (OVal.seq .tuple [] : OVal V) = .ok false := rfl
theorem ga_name : getattr (encField f) "name" = .ok (.int f.name) := by
  simp [encField, getattr, lookupAttr, pure, Except.pure]
theorem ga_excluded : getattr (encField f) "EXCLUDED" = .ok (.obj "Excluded" []) := by
  simp [encField, getattr, lookupAttr, pure, Except.pure]
theorem ga_transformer : getattr (OVal.obj "RuntimeContext" [("transformer", (.fn 0 : OVal V))]) "transformer" = .ok (.fn 0) := rfl
theorem ga_exclude (o : Opts V) : getattr (encOpts o) "EXCLUDE" = .ok (.str "exclude") := by
  simp [encOpts, getattr, lookupAttr, pure, Except.pure]
theorem ga_preserve (o : Opts V) : getattr (encOpts o) "PRESERVE" = .ok (.str "preserve") := by
  simp [encOpts, getattr, lookupAttr, pure, Except.pure]
end attrs

/-- `handle_error` of a collecting context records the error and returns -/
theorem handle_error_collecting (W : Obj.World V) (o : Opts V) (hcol : Collecting o) (es : List (OVal V)) (e : OVal V) :
    Options.handle_error W (encCtx o es) e (.bool false) = .ok (encCtx o (es ++ [e]), .ret .none) := by
  gen_obligation "C05_gen_parse_value (its lemma handle_error_collecting): the regenerated code (Utv.Gen) is no longer equal to the hand model here" by
    obtain ⟨omode, ad, ir, nd, dd, fd, iac, ce, me, mxp, mnp, iv, dfs, oci⟩ := o
    obtain ⟨h1, h2⟩ := hcol
    simp only at h1 h2
    subst h1 h2
    obj_simp [Options.handle_error, encCtx, encOpts, encOptNat, getattr, setattr, lookupAttr, setAttrL, append, OVal.isNone]

/-- `_invalid_value(error, raw, context, excluded_as_absent=True)` under a collecting context: the on_error policy -/
theorem invalid_value_eq (W : Obj.World V) (W5 : C05.World V) (hcopy : CopyOk W W5) (o : Opts V) (f : PField V)
    (hl : LettersOk o f) (hcol : Collecting o) (e : OVal V) (v : V) :
    Parse.invalid_value W (encField f) e (.val v) (encCtx o []) (.bool true) = .ok (match getOnError o f with
      | .exclude => if isRequired Legacy.none o f then (encCtx o [e], .ret (encOptVal (getDefault W5 o f false)))
                    else (encCtx o [], .ret (.obj "Excluded" []))
      | .preserve => (encCtx o [], .ret (.val v))
      | .throw => (encCtx o [e], .ret .unprovided)) := by
  gen_obligation "C05_gen_parse_value (its lemma invalid_value_eq): the regenerated code (Utv.Gen) is no longer equal to the hand model here" by
    have h1 := C05_gen_get_on_error W o f
    have h2 := C05_gen_is_required W o f hl
    have h3 := C05_gen_get_default W W5 hcopy o f false
    have hh := handle_error_collecting W o hcol []
    unfold Parse.invalid_value
    cases hoe : getOnError o f <;> cases hreq : isRequired Legacy.none o f <;>
      simp only [hoe, hreq] at h1 h2 <;>
      simp only [getattr_ctx_options, bind, Except.bind, pure, Except.pure, ga_excluded, ga_exclude, ga_preserve, truthy_bool,
        h1, h2, h3, hh, encOnErr, eq, eqS, Bool.false_eq_true, if_false, if_true, List.nil_append] <;>
      rfl

theorem C05_gen_parse_value (W : Obj.World V) (W5 : C05.World V) (o : Opts V) (f : PField V) (v : V)
    (hl : LettersOk o f) (hcol : Collecting o) (hw : PVWorldOk W W5 f (encCtx o [])) :
    (Parse.parse_value W (encField f) (.val v) (encCtx o []) (.bool true)).map (decodePV f.name)
      = .ok (parseValue Legacy.none W5 o f v) := by
  gen_obligation "C05_gen_parse_value: the regenerated code (Utv.Gen) is no longer equal to the hand model here" by
    have he := hw.enter
    have h1 := C05_gen_get_on_error W o f
    have h2 := C05_gen_is_required W o f hl
    have h3 := C05_gen_get_default W W5 hw.copy o f false
    unfold Parse.parse_value parseValue convert
    cases hty : f.ty with
    | none =>
      simp only [getattr_ctx_options, bind, Except.bind, pure, Except.pure, ga_field, ga_deprecated, ga_type, ga_dmap, ga_dtypes, truthy_etuple,
        ga_name, ga_excluded, truthy_bool, truthy_none, hty, Bool.false_eq_true, if_false, Bool.not_false, if_true]
      simp [Except.map, decodePV, optOf, errsOf, encCtx, getattr, lookupAttr, pure, Except.pure]
    | some t =>
      have hc := hw.conv t v
      cases hfp : W5.fp t v with
      | some y =>
        rw [hfp] at hc
        simp only [getattr_ctx_options, bind, Except.bind, pure, Except.pure, ga_field, ga_deprecated, ga_type, ga_dmap, ga_dtypes, truthy_etuple,
          ga_name, ga_excluded, ga_transformer, truthy_bool, truthy_none, truthy_cls, hty, he, hc, Bool.false_eq_true, if_false,
          Bool.not_false, Bool.not_true, if_true, tryCatch, tryCatchThe, MonadExceptOf.tryCatch, Except.tryCatch]
        simp only [hfp]
        rfl
      | none =>
        rw [hfp] at hc
        have hh := handle_error_collecting W o hcol []
        cases hoe : getOnError o f <;> cases hreq : isRequired Legacy.none o f <;> cases hdf : getDefault W5 o f false <;>
          simp only [hoe, hreq, hdf] at h1 h2 h3 <;>
          simp only [getattr_ctx_options, bind, Except.bind, pure, Except.pure, ga_field, ga_deprecated, ga_type, ga_dmap, ga_dtypes, truthy_etuple,
            ga_name, ga_excluded, ga_transformer, ga_exclude, ga_preserve, truthy_bool, truthy_none, truthy_cls, hty, he, hc,
            h1, h2, h3, hh, encOptVal, invalid_value_eq W W5 hw.copy o f hl hcol, Bool.false_eq_true, if_false, Bool.not_false, Bool.not_true, if_true, tryCatch, tryCatchThe,
            MonadExceptOf.tryCatch, Except.tryCatch, Exc.isA, List.contains_cons, List.contains_nil, encOnErr, eq, eqS,
            List.nil_append] <;>
          simp only [hfp, hoe, hreq, hdf] <;> rfl

end Utv.GenEq.C05
