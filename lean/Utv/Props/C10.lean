import Utv.Lemmas.C10Call
/-!
C10 — collecting errors changes reporting only, never the verdict or the value.

All theorems are about the executable model `Utv.C10.run` (lean/Utv/Model/C10.lean): for every world
(plain-class conversions, exact-type test, validators), every fuel, every declaration, every option
set of the fragment, both lookup strategies, every input and every collecting mode.
-/
namespace Utv.C10

/-- Turning on error collection (with any `max_errors`) does not change the value of an accepted input:
the fail-fast run returns `r` iff the collecting run returns `r`. -/
theorem C10_same_value (W : World) (fuel : Nat) (decl : List FieldDecl) (mC : Mode) (o : Opts) (data : Data)
    (r : Data) :
    run W fuel decl .ff o data = .ok r ↔ run W fuel decl mC o data = .ok r := by
  rcases run_strong W fuel decl mC o data with ⟨r', hF, hC⟩ | ⟨⟨x, hF⟩, x', hC⟩
  · rw [hF, hC]
  · rw [hF, hC]; simp

/-- … nor which inputs are accepted. -/
theorem C10_same_verdict (W : World) (fuel : Nat) (decl : List FieldDecl) (mC : Mode) (o : Opts) (data : Data) :
    isError (run W fuel decl .ff o data) = isError (run W fuel decl mC o data) := by
  rcases run_strong W fuel decl mC o data with ⟨r', hF, hC⟩ | ⟨⟨x, hF⟩, x', hC⟩
  · rw [hF, hC]
  · rw [hF, hC]; rfl

/-- The same holds below the top level: any type, parsed on a fresh context, is accepted fail-fast with
value `r` iff it is accepted collecting with value `r` (this is what the `&` defect broke). -/
theorem C10_type_same_value (W : World) (fuel : Nat) (T : Ty) (mC : Mode) (o : Opts) (v r : Val) :
    (parse W fuel T (clean0 .ff o) v).2 = .ok r ↔ (parse W fuel T (clean0 mC o) v).2 = .ok r := by
  rcases (parse_good W mC fuel).strong T o v with ⟨a, hF, hC⟩ | ⟨⟨c, x, hF⟩, c', x', hC⟩
  · rw [hF, hC]
  · rw [hF, hC]; simp

/-- A collecting run rejects with exactly one `CollectedParseError`; it carries the reports of the
uncapped run, cut at `max_errors`. -/
theorem C10_one_exception (W : World) (fuel : Nat) (decl : List FieldDecl) (mx : Option Nat) (hk : capOk mx 0)
    (o : Opts) (data : Data) (x : Exc) (h : run W fuel decl ⟨true, mx⟩ o data = .error x) :
    x = .collected (cap mx (reports (parse W fuel) .ff o decl data)) ∧
    reports (parse W fuel) .ff o decl data ≠ [] := by
  rw [run_collect W fuel decl mx hk, ← reports_eq (parse_good W _ fuel)] at h
  split at h
  · simp at h
  · rename_i hne
    simp only [Except.error.injEq] at h
    exact ⟨h.symm, hne⟩

/-- The number of reported errors is capped by `max_errors`. -/
theorem C10_count_le_max (W : World) (fuel : Nat) (decl : List FieldDecl) (k : Nat) (hk : 0 < k)
    (o : Opts) (data : Data) (x : Exc) (h : run W fuel decl ⟨true, some k⟩ o data = .error x) :
    ∃ es, x = .collected es ∧ es.length ≤ k := by
  obtain ⟨hx, _⟩ := C10_one_exception W fuel decl (some k) hk o data x h
  exact ⟨_, hx, by simp [cap, List.length_take, Nat.min_le_left]⟩

/-- Acceptance, in the collecting vocabulary: an input is accepted (in every mode) iff the uncapped
collecting run has nothing to report, and then the value is the one that run builds. -/
theorem C10_accept_iff_no_report (W : World) (fuel : Nat) (decl : List FieldDecl) (o : Opts) (data : Data) :
    isError (run W fuel decl .ff o data) = !(reports (parse W fuel) .ff o decl data).isEmpty := by
  rw [C10_same_verdict W fuel decl ⟨true, none⟩ o data, run_collect W fuel decl none trivial,
    ← reports_eq (parse_good W _ fuel)]
  cases reports (parse W fuel) .ff o decl data with
  | nil => rfl
  | cons e es => rfl

/-- "item `i` fails on its own" (the declaration and the input restricted to `i` are rejected fail-fast),
in terms of the reports of that restricted parse -/
theorem failsAlone_iff (W : World) (fuel : Nat) (decl : List FieldDecl) (o : Opts) (data : Data) (i : String) :
    failsAlone W fuel decl o data i =
      (isItem decl data i && !(reports (parse W fuel) .ff o (declOf decl i) (dataOf data i)).isEmpty) := by
  unfold failsAlone
  rw [C10_accept_iff_no_report]

/-- For a rejected input the (uncapped) collected error names exactly the failing top-level items:
every reported error names an item that fails on its own (no valid item is reported), and every item
that fails on its own is named by some reported error.  -/
theorem C10_reported_eq_failing (W : World) (fuel : Nat) (decl : List FieldDecl) (o : Opts) (data : Data) (x : Exc)
    (h : run W fuel decl ⟨true, none⟩ o data = .error x) :
    ∃ es, x = .collected es ∧
      (∀ e ∈ es, ∃ i, e.item = some i ∧ failsAlone W fuel decl o data i = true) ∧
      (∀ i, failsAlone W fuel decl o data i = true → ∃ e ∈ es, e.item = some i) := by
  obtain ⟨hx, _⟩ := C10_one_exception W fuel decl none trivial o data x h
  refine ⟨_, hx, ?_, ?_⟩
  · intro e he
    obtain ⟨i, h1, h2, h3⟩ := reports_sound (parse W fuel) .ff o decl data e he
    refine ⟨i, h1, ?_⟩
    rw [failsAlone_iff, h2]
    cases hr : reports (parse W fuel) .ff o (declOf decl i) (dataOf data i) with
    | nil => exact absurd hr h3
    | cons a as => rfl
  · intro i hi
    rw [failsAlone_iff] at hi
    simp only [Bool.and_eq_true, Bool.not_eq_true', List.isEmpty_eq_false_iff] at hi
    exact reports_complete (parse W fuel) .ff o decl data i hi.2

/-- With `max_errors = k` the collected error carries at most `k` errors, each naming an item that
fails on its own. -/
theorem C10_capped_reports_failing (W : World) (fuel : Nat) (decl : List FieldDecl) (k : Nat) (hk : 0 < k) (o : Opts) (data : Data) (x : Exc)
    (h : run W fuel decl ⟨true, some k⟩ o data = .error x) :
    ∃ es, x = .collected es ∧ es.length ≤ k ∧
      ∀ e ∈ es, ∃ i, e.item = some i ∧ failsAlone W fuel decl o data i = true := by
  obtain ⟨hx, _⟩ := C10_one_exception W fuel decl (some k) hk o data x h
  refine ⟨_, hx, by simp [cap, List.length_take, Nat.min_le_left], ?_⟩
  intro e he
  have he' : e ∈ reports (parse W fuel) .ff o decl data := List.mem_of_mem_take he
  obtain ⟨i, h1, h2, h3⟩ := reports_sound (parse W fuel) .ff o decl data e he'
  refine ⟨i, h1, ?_⟩
  rw [failsAlone_iff, h2]
  cases hr : reports (parse W fuel) .ff o (declOf decl i) (dataOf data i) with
  | nil => exact absurd hr h3
  | cons a as => rfl

/-- An input is accepted (in either mode) iff no top-level item fails on its own. -/
theorem C10_accept_iff_none_fails (W : World) (fuel : Nat) (decl : List FieldDecl) (o : Opts) (data : Data) :
    isError (run W fuel decl .ff o data) = false ↔ ∀ i, failsAlone W fuel decl o data i = false := by
  rw [C10_accept_iff_no_report]
  constructor
  · intro h i
    cases hf : failsAlone W fuel decl o data i with
    | false => rfl
    | true =>
      exfalso
      rw [failsAlone_iff] at hf
      simp only [Bool.and_eq_true, Bool.not_eq_true', List.isEmpty_eq_false_iff] at hf
      obtain ⟨e, he, _⟩ := reports_complete (parse W fuel) .ff o decl data i hf.2
      simp only [Bool.not_eq_false', List.isEmpty_iff] at h
      rw [h] at he
      cases he
  · intro h
    cases hr : reports (parse W fuel) .ff o decl data with
    | nil => rfl
    | cons e es =>
      exfalso
      obtain ⟨i, h1, h2, h3⟩ := reports_sound (parse W fuel) .ff o decl data e (by rw [hr]; exact List.mem_cons_self)
      have := h i
      rw [failsAlone_iff, h2] at this
      cases hri : reports (parse W fuel) .ff o (declOf decl i) (dataOf data i) with
      | nil => exact h3 hri
      | cons a as => rw [hri] at this; simp at this

/-! ### calls with positional arguments (`FunctionParser.parse_params`) -/

/-- A call with positional arguments, `*args` and keywords returns the same bound values fail-fast and collecting. -/
theorem C10_call_same_value (W : World) (fuel : Nat) (sg : Sig) (mC : Mode) (o : Opts) (args : List Val)
    (kwargs : Data) (r : List Val × Data) :
    runCall W fuel sg .ff o args kwargs = .ok r ↔ runCall W fuel sg mC o args kwargs = .ok r := by
  rcases runCall_strong W fuel sg mC o args kwargs with ⟨r', hF, hC⟩ | ⟨⟨x, hF⟩, x', hC⟩
  · rw [hF, hC]
  · rw [hF, hC]; simp

/-- … and the same calls are rejected (what seed C10-C broke: an early return before `raise_error()`). -/
theorem C10_call_same_verdict (W : World) (fuel : Nat) (sg : Sig) (mC : Mode) (o : Opts) (args : List Val)
    (kwargs : Data) :
    isError (runCall W fuel sg .ff o args kwargs) = isError (runCall W fuel sg mC o args kwargs) := by
  rcases runCall_strong W fuel sg mC o args kwargs with ⟨r', hF, hC⟩ | ⟨⟨x, hF⟩, x', hC⟩
  · rw [hF, hC]
  · rw [hF, hC]; rfl

/-- A rejected collecting call raises one `CollectedParseError`: the reports of the positional loop followed by
those of the keyword part, cut at `max_errors`. -/
theorem C10_call_one_exception (W : World) (fuel : Nat) (sg : Sig) (mx : Option Nat) (hk : capOk mx 0)
    (o : Opts) (args : List Val) (kwargs : Data) (x : Exc)
    (h : runCall W fuel sg ⟨true, mx⟩ o args kwargs = .error x) :
    x = .collected (cap mx (callReports (parse W fuel) .ff o sg args kwargs)) ∧
    callReports (parse W fuel) .ff o sg args kwargs ≠ [] := by
  rw [runCall_collect W fuel sg mx hk, ← callReports_eq (parse_good W _ fuel)] at h
  split at h
  · simp at h
  · rename_i hne
    simp only [Except.error.injEq] at h
    exact ⟨h.symm, hne⟩

theorem C10_call_count_le_max (W : World) (fuel : Nat) (sg : Sig) (k : Nat) (hk : 0 < k)
    (o : Opts) (args : List Val) (kwargs : Data) (x : Exc)
    (h : runCall W fuel sg ⟨true, some k⟩ o args kwargs = .error x) :
    ∃ es, x = .collected es ∧ es.length ≤ k := by
  obtain ⟨hx, _⟩ := C10_call_one_exception W fuel sg (some k) hk o args kwargs x h
  exact ⟨_, hx, by simp [cap, List.length_take, Nat.min_le_left]⟩

/-- every error of the uncapped collecting call names an item that fails on its own … -/
theorem callReports_sound (W : World) (fuel : Nat) (sg : Sig) (o : Opts) (args : List Val) (kwargs : Data) (e : Err)
    (he : e ∈ callReports (parse W fuel) .ff o sg args kwargs) :
    ∃ i, e.item = some i ∧ callFails W fuel sg o args kwargs i = true := by
  unfold callReports at he
  rw [posFin_keys] at he
  rcases List.mem_append.mp he with he | he
  · rw [posReports_eq] at he
    obtain ⟨it, hit, hre⟩ := List.mem_filterMap.mp he
    obtain ⟨i, h1, h2⟩ := (posRep_posFailing W fuel sg o it).1 e hre
    refine ⟨i, h1, ?_⟩
    unfold callFails
    simp only [Bool.or_eq_true, List.any_eq_true, beq_iff_eq]
    left; exact ⟨it, hit, h2⟩
  · obtain ⟨i, h1, h2, h3⟩ := reportsX_sound (parse W fuel) .ff o sg.decl (givenPos sg args) kwargs e he
    refine ⟨i, h1, ?_⟩
    unfold callFails
    rw [failsAloneX_iff, h2]
    cases hr : reportsX (parse W fuel) .ff o (declOf sg.decl i) (givenPos sg args) (dataOf kwargs i) with
    | nil => exact absurd hr h3
    | cons a as => simp

/-- … and every item that fails on its own is named by one of them -/
theorem callReports_complete (W : World) (fuel : Nat) (sg : Sig) (o : Opts) (args : List Val) (kwargs : Data)
    (i : String) (hi : callFails W fuel sg o args kwargs i = true) :
    ∃ e ∈ callReports (parse W fuel) .ff o sg args kwargs, e.item = some i := by
  unfold callFails at hi
  unfold callReports
  rw [posFin_keys]
  simp only [Bool.or_eq_true, List.any_eq_true, beq_iff_eq] at hi
  rcases hi with ⟨it, hit, hf⟩ | hi
  · obtain ⟨e, he, hei⟩ := (posRep_posFailing W fuel sg o it).2 i hf
    refine ⟨e, List.mem_append.mpr (Or.inl ?_), hei⟩
    rw [posReports_eq]
    exact List.mem_filterMap.mpr ⟨it, hit, he⟩
  · rw [failsAloneX_iff] at hi
    simp only [Bool.and_eq_true, Bool.not_eq_true', List.isEmpty_eq_false_iff] at hi
    obtain ⟨e, he, hei⟩ := reportsX_complete (parse W fuel) .ff o sg.decl (givenPos sg args) kwargs i hi.2
    exact ⟨e, List.mem_append.mpr (Or.inr he), hei⟩

/-- For a rejected call the (uncapped) collected error names exactly the failing items: a parameter bound to a
positional argument that is rejected when given alone, an element `*args:j` rejected by the `*args` type, a
keyword / missing parameter / additional key that fails on its own. -/
theorem C10_call_reported_eq_failing (W : World) (fuel : Nat) (sg : Sig) (o : Opts) (args : List Val)
    (kwargs : Data) (x : Exc) (h : runCall W fuel sg ⟨true, none⟩ o args kwargs = .error x) :
    ∃ es, x = .collected es ∧
      (∀ e ∈ es, ∃ i, e.item = some i ∧ callFails W fuel sg o args kwargs i = true) ∧
      (∀ i, callFails W fuel sg o args kwargs i = true → ∃ e ∈ es, e.item = some i) := by
  obtain ⟨hx, _⟩ := C10_call_one_exception W fuel sg none trivial o args kwargs x h
  exact ⟨_, hx, fun e he => callReports_sound W fuel sg o args kwargs e he,
    fun i hi => callReports_complete W fuel sg o args kwargs i hi⟩

/-- With `max_errors = k`: at most `k` errors, each naming an item of the call that fails on its own. -/
theorem C10_call_capped_reports_failing (W : World) (fuel : Nat) (sg : Sig) (k : Nat) (hk : 0 < k) (o : Opts)
    (args : List Val) (kwargs : Data) (x : Exc) (h : runCall W fuel sg ⟨true, some k⟩ o args kwargs = .error x) :
    ∃ es, x = .collected es ∧ es.length ≤ k ∧
      ∀ e ∈ es, ∃ i, e.item = some i ∧ callFails W fuel sg o args kwargs i = true := by
  obtain ⟨hx, _⟩ := C10_call_one_exception W fuel sg (some k) hk o args kwargs x h
  refine ⟨_, hx, by simp [cap, List.length_take, Nat.min_le_left], ?_⟩
  intro e he
  exact callReports_sound W fuel sg o args kwargs e (List.mem_of_mem_take he)

/-- A call is accepted (in either mode) iff none of its items fails on its own. -/
theorem C10_call_accept_iff_none_fails (W : World) (fuel : Nat) (sg : Sig) (o : Opts) (args : List Val)
    (kwargs : Data) :
    isError (runCall W fuel sg .ff o args kwargs) = false ↔ ∀ i, callFails W fuel sg o args kwargs i = false := by
  rw [C10_call_same_verdict W fuel sg ⟨true, none⟩ o args kwargs, runCall_collect W fuel sg none trivial,
    ← callReports_eq (parse_good W _ fuel)]
  constructor
  · intro h i
    cases hf : callFails W fuel sg o args kwargs i with
    | false => rfl
    | true =>
      exfalso
      obtain ⟨e, he, _⟩ := callReports_complete W fuel sg o args kwargs i hf
      cases hr : callReports (parse W fuel) .ff o sg args kwargs with
      | nil => rw [hr] at he; cases he
      | cons a as => rw [hr] at h; simp [isError] at h
  · intro h
    cases hr : callReports (parse W fuel) .ff o sg args kwargs with
    | nil => rfl
    | cons e es =>
      exfalso
      obtain ⟨i, _, h2⟩ := callReports_sound W fuel sg o args kwargs e (by rw [hr]; exact List.mem_cons_self)
      rw [h i] at h2
      cases h2

/-! ### the code before the `fix:` commit (AllOf returned without `raise_error()`)

`C10_same_verdict` is false of `runLegacy`: a conjunction whose second argument rejects the value is
rejected fail-fast and accepted when collecting. -/

def legacyWorld : World :=
  { conv := fun _ _ t v => if t == 0 then some v else none
    exact := fun _ _ => false
    check := fun _ v => some v
    isNone := fun _ => false }

def legacyDecl : List FieldDecl :=
  [{ name := "a", ty := some (.comb .all [.leaf 0, .leaf 1]), required := true, default := none, onError := none }]

theorem C10_legacy_verdict_differs :
    isError (runLegacy legacyWorld 3 legacyDecl .ff {} [("a", .atom "inf")]) = true ∧
    isError (runLegacy legacyWorld 3 legacyDecl ⟨true, none⟩ {} [("a", .atom "inf")]) = false := by
  decide

/-- the repaired model rejects it in both modes -/
example :
    isError (run legacyWorld 3 legacyDecl .ff {} [("a", .atom "inf")]) = true ∧
    isError (run legacyWorld 3 legacyDecl ⟨true, none⟩ {} [("a", .atom "inf")]) = true := by
  decide

/-! ### non-vacuity: the premises of the theorems about rejected inputs are satisfiable -/

def demoDecl : List FieldDecl :=
  [{ name := "a", ty := some (.leaf 1), required := true, default := none, onError := none },
   { name := "b", ty := some (.leaf 0), required := true, default := none, onError := none },
   { name := "c", ty := some (.leaf 0), required := true, default := none, onError := none }]

def errOf : Res α → Option Exc
  | .ok _ => none
  | .error x => some x

example :
    errOf (run legacyWorld 3 demoDecl ⟨true, some 2⟩ { addition := .no } [("a", .atom "1"), ("zz", .atom "2")])
      = some (.collected [{ kind := .parse, item := some "a" }, { kind := .absence, item := some "b" }]) := by
  decide

example :
    errOf (run legacyWorld 3 demoDecl ⟨true, none⟩ { addition := .no, dfs := true }
        [("a", .atom "1"), ("zz", .atom "2")])
      = some (.collected [{ kind := .parse, item := some "a" }, { kind := .exceed, item := some "zz" },
          { kind := .absence, item := some "b" }, { kind := .absence, item := some "c" }]) := by
  decide

/-- typed additional keys (constrained addition type: key `x` violates it, `y` does not) -/
example :
    errOf (run legacyWorld 3 demoDecl ⟨true, some 3⟩ { addition := .typed (.leaf 1), addTy := some (.leaf 1) }
        [("a", .atom "1"), ("x", .atom "0"), ("b", .atom "2"), ("c", .atom "3")])
      = some (.collected [{ kind := .parse, item := some "a" }, { kind := .parse, item := some "x" }]) := by
  decide

/-- a call giving every parameter by position, one of them invalid, plus a bad `*args` element -/
example :
    errOf (runCall legacyWorld 3 { decl := demoDecl, npos := 3, hasVar := true, posTy := some (.leaf 1) }
        ⟨true, none⟩ {} [.atom "1", .atom "2", .atom "3", .atom "4"] [])
      = some (.collected [{ kind := .parse, item := some "a" }, { kind := .parse, item := some "*args:3" }]) := by
  decide

end Utv.C10
