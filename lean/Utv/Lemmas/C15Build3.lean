import Utv.Lemmas.C15Build2
/-! Building succeeds: arrays, objects, combinators, one schema object. -/
set_option linter.unusedSimpArgs false
set_option linter.unusedVariables false
namespace Utv.C15
open Utv.JsonSchema
open KnownDefect

/-- the names of the kept constraints of an array schema -/
theorem array_cons_names (kvs : Obj) (hf : fragKws kvs kvs = true) (c : String × Json)
    (hc : c ∈ getConstraints kvs (some "array")) :
    (c.1 = "max_length" ∧ hasKey "maxItems" kvs = true) ∨ (c.1 = "min_length" ∧ hasKey "minItems" kvs = true) ∨
      c.1 = "unique_items" ∨ c.1 = "enum" ∨ c.1 = "const" := by
  obtain ⟨k, hkv, hck, hkept⟩ := getConstraints_mem kvs _ c hc
  have hfe := fragKws_mem kvs kvs hf k c.2 hkv
  simp only [fragEntry, Bool.and_eq_true] at hfe
  have hs := frag_cmap_simple k c.1 hfe.1 hck
  simp [kept, groupKeywords_array] at hkept
  have hk := hasKey_of_mem kvs k c.2 hkv
  rcases hkept with rfl | rfl | rfl | rfl | rfl | rfl | rfl | rfl <;> simp [simpleKws] at hs <;> simp [hs, hk]

/-- an annotated array class builds when the array constraints do -/
theorem annotate_array_isSome (kvs : Obj) (hd : strDistinct (keys kvs) = true) (hf : fragKws kvs kvs = true)
    (hb : boundsBad kvs = false) (hs : sizesBad kvs = false) (t : Ty) (hasArgs : Bool)
    (ht : (originOf t = some .list ∧ bareOrigin t = .prim .list) ∨
          (originOf t = some .tuple ∧ ∀ v, lookup "const" kvs = some v → False))
    (hcm : ∀ v, lookup "const" kvs = some v → ∃ xs, v = .arr xs) :
    (annotate t hasArgs (getConstraints kvs (some "array"))).isSome = true := by
  apply annotate_isSome
  · apply mkRule_plain_isSome _ _ (rest_no_const _) (rest_no_enum _)
    · apply checkBounds_ok kvs hd hf _ _ _ hb
      intro hdec
      rcases ht with ⟨h1, _⟩ | ⟨h1, _⟩ <;> simp [h1] at hdec
    · exact checkLength_ok kvs hd hf _ (by intro t ht; cases ht; simp [primitiveNames]) (by intro h; cases h) _ hs
  · intro c hc h1
    have hlc := const_source kvs hd hf _ c hc h1
    rcases ht with ⟨_, h2⟩ | ⟨_, h2⟩
    · obtain ⟨xs, hxs⟩ := hcm c.2 hlc
      exact ⟨.list, by rw [h2]; rfl, by rw [hxs]; rfl⟩
    · exact absurd hlc (fun h => h2 c.2 h)

theorem lookup_append_none (l : Cons) (k : String) (x : String × Json) (h : l.lookup k = none) :
    (l ++ [x]).lookup k = if k == x.1 then some x.2 else none := by
  induction l with
  | nil =>
    obtain ⟨x1, x2⟩ := x
    simp only [List.nil_append, List.lookup]
    cases hk : (k == x1) <;> rfl
  | cons c rest ih =>
    obtain ⟨c1, c2⟩ := c
    simp only [List.cons_append, List.lookup] at h ⊢
    cases hk : (k == c1) with
    | true => rw [hk] at h; simp at h
    | false => rw [hk] at h; exact ih h

/-- the closed tuple (`items: false`) builds: its only size constraint is the cap the parser adds -/
theorem closed_tuple_isSome (kvs : Obj) (hd : strDistinct (keys kvs) = true) (hf : fragKws kvs kvs = true)
    (args : List Ty) (hargs : args ≠ []) (hmin : hasKey "minItems" kvs = false) (hmax : hasKey "maxItems" kvs = false)
    (hnc : ∀ v, lookup "const" kvs = some v → False) :
    (annotate (.tup args .reject .any) true (capLength (getConstraints kvs (some "array")) args.length)).isSome = true := by
  -- no size constraint among the kept ones
  have hnames : ∀ c ∈ getConstraints kvs (some "array"), c.1 = "unique_items" ∨ c.1 = "enum" ∨ c.1 = "const" := by
    intro c hc
    rcases array_cons_names kvs hf c hc with ⟨_, h⟩ | ⟨_, h⟩ | h
    · rw [hmax] at h; simp at h
    · rw [hmin] at h; simp at h
    · exact h
  have hnomax : (getConstraints kvs (some "array")).lookup "max_length" = none := by
    apply lookup_none_of_names
    intro c hc
    rcases hnames c hc with h | h | h <;> rw [h] <;> rfl
  have hcap : capLength (getConstraints kvs (some "array")) args.length =
      getConstraints kvs (some "array") ++ [("max_length", .num (Num.ofNat args.length))] := by
    simp [capLength, hnomax]
  rw [hcap]
  apply annotate_isSome
  · rw [List.filter_append]
    have hlast : ([("max_length", Json.num (Num.ofNat args.length))] : Cons).filter
        (fun c => !(c.1 == "const" || c.1 == "enum")) = [("max_length", .num (Num.ofNat args.length))] := by
      simp [List.filter]
    rw [hlast]
    have hrestnames : ∀ c ∈ (getConstraints kvs (some "array")).filter (fun c => !(c.1 == "const" || c.1 == "enum")),
        c.1 = "unique_items" := by
      intro c hc
      have hm := List.mem_filter.mp hc
      rcases hnames c hm.1 with h | h | h
      · exact h
      · have := hm.2; simp [h] at this
      · have := hm.2; simp [h] at this
    have look : ∀ k, k ≠ "unique_items" →
        (((getConstraints kvs (some "array")).filter (fun c => !(c.1 == "const" || c.1 == "enum"))) ++
          [("max_length", Json.num (Num.ofNat args.length))]).lookup k = if k == "max_length" then
            some (.num (Num.ofNat args.length)) else none := by
      intro k hk
      apply lookup_append_none
      apply lookup_none_of_names
      intro c hc
      rw [hrestnames c hc]
      cases hk2 : ("unique_items" == k) with
      | false => rfl
      | true =>
        have e : "unique_items" = k := by simpa using hk2
        exact absurd e.symm hk
    apply mkRule_plain_isSome
    · rw [look "const" (by decide)]; rfl
    · rw [look "enum" (by decide)]; rfl
    · simp only [checkBounds, look "gt" (by decide), look "ge" (by decide), look "lt" (by decide), look "le" (by decide)]
      rfl
    · simp only [checkLength, look "min_length" (by decide), look "max_length" (by decide)]
      simp [checkLengthCore, numOf, isPyInt, Num.ofNat]
      cases args with
      | nil => exact absurd rfl hargs
      | cons a rest => simp <;> omega
  · intro c hc h1
    exfalso
    rcases List.mem_append.mp hc with h | h
    · exact hnc c.2 (const_source kvs hd hf _ c h h1)
    · simp at h; subst h; simp at h1

/-- `const` of an array schema: what ¬constMisfit says -/
theorem const_array (kvs : Obj) (v : Json) (h : constMisfit kvs v "array" = false) :
    (∃ xs, v = .arr xs) ∧ (match lookup "prefixItems" kvs with
      | some p => truthy p
      | none => false) = false := by
  unfold constMisfit at h
  simp only [Bool.or_eq_false_iff, Bool.and_eq_false_imp] at h
  have h' := h (by decide)
  obtain ⟨⟨h1, _⟩, h3⟩ := h'
  refine ⟨?_, h3 (by decide)⟩
  cases v <;> simp [typeIs] at h1
  exact ⟨_, rfl⟩

/-- `parse_array` builds -/
theorem array_builds (N : Names) (kvs : Obj) (hd : strDistinct (keys kvs) = true) (hf : fragKws kvs kvs = true)
    (hb : boundsBad kvs = false) (hs : sizesBad kvs = false) (hct : closedTupleBad kvs = false)
    (hcm : ∀ v, lookup "const" kvs = some v → constMisfit kvs v "array" = false)
    (ihOne : ∀ k v, (k, v) ∈ kvs → oneKeywords.contains k = true → inFragment v = true → (parse N v).isSome = true)
    (ihMany : ∀ k ss, (k, Json.arr ss) ∈ kvs → manyKeywords.contains k = true → ∀ s ∈ ss, (parse N s).isSome = true) :
    (parseArray kvs (parseKws N kvs) (getConstraints kvs (some "array"))).isSome = true := by
  unfold parseArray
  by_cases hsingle : (keys kvs == ["type"] && (getConstraints kvs (some "array")).isEmpty) = true
  · rw [if_pos hsingle]; rfl
  · rw [if_neg hsingle]
    have hconst_arr : ∀ v, lookup "const" kvs = some v → ∃ xs, v = .arr xs := fun v hv => (const_array kvs v (hcm v hv)).1
    cases hp : lookup "prefixItems" kvs with
    | none =>
      simp only [Bool.false_eq_true, if_false]
      cases hi : lookup "items" kvs with
      | none =>
        simp only
        exact annotate_array_isSome kvs hd hf hb hs _ _ (Or.inl ⟨rfl, rfl⟩) hconst_arr
      | some iv =>
        simp only
        by_cases htr : truthy iv = true
        · rw [if_pos htr, subOne_items N kvs iv hi]
          have hm := mem_of_lookup kvs _ _ hi
          have hfe := fragKws_mem kvs kvs hf _ _ hm
          simp only [fragEntry, Bool.and_eq_true] at hfe
          have h2 := hfe.2
          simp [fragSimple, hp] at h2
          obtain ⟨t, ht⟩ := Option.isSome_iff_exists.mp (ihOne _ _ hm (by simp [oneKeywords]) h2)
          rw [ht]
          exact annotate_array_isSome kvs hd hf hb hs _ _ (Or.inl ⟨rfl, rfl⟩) hconst_arr
        · rw [if_neg htr]
          exact annotate_array_isSome kvs hd hf hb hs _ _ (Or.inl ⟨rfl, rfl⟩) hconst_arr
    | some pv =>
      have hpm := mem_of_lookup kvs _ _ hp
      have hfe := fragKws_mem kvs kvs hf _ _ hpm
      simp only [fragEntry, Bool.and_eq_true] at hfe
      have h2 := hfe.2
      simp [manyKeywords] at h2
      cases pv with
      | arr ss =>
        cases ss with
        | nil => simp at h2
        | cons s0 rest =>
          have htr : truthy (.arr (s0 :: rest)) = true := by simp [truthy]
          simp only [htr, if_true]
          rw [subMany_of N kvs "prefixItems" (by simp [manyKeywords]) (s0 :: rest) hp]
          have hall : (allSome ((s0 :: rest).map (parse N))).isSome = true := by
            apply allSome_isSome
            intro x hx
            obtain ⟨s, hs', rfl⟩ := List.mem_map.mp hx
            exact ihMany _ _ hpm (by simp [manyKeywords]) s hs'
          obtain ⟨args, hargs⟩ := Option.isSome_iff_exists.mp hall
          rw [hargs]
          simp only
          have hargs_ne : args ≠ [] := by
            have := allSome_eq_some _ _ hargs
            intro h0; subst h0; simp at this
          -- a const cannot sit next to a tuple
          have hnc : ∀ v, lookup "const" kvs = some v → False := by
            intro v hv
            have := (const_array kvs v (hcm v hv)).2
            simp [hp, truthy] at this
          cases hi : lookup "items" kvs with
          | none =>
            simp only
            exact annotate_array_isSome kvs hd hf hb hs _ _ (Or.inr ⟨rfl, hnc⟩) hconst_arr
          | some iv =>
            cases iv with
            | bool b =>
              cases b with
              | false =>
                simp only
                have : closedTupleBad kvs = false := hct
                simp [closedTupleBad, hi, hp] at this
                exact closed_tuple_isSome kvs hd hf args hargs_ne this.1 this.2 hnc
              | true =>
                -- `items: true` is not in the fragment
                have hm := mem_of_lookup kvs _ _ hi
                have hfe2 := fragKws_mem kvs kvs hf _ _ hm
                simp only [fragEntry, Bool.and_eq_true] at hfe2
                have h3 := hfe2.2
                simp [fragSimple, isFalse, inFragment] at h3
            | obj o =>
              simp only
              by_cases htr2 : truthy (.obj o) = true
              · rw [if_pos htr2, subOne_items N kvs _ hi]
                have hm := mem_of_lookup kvs _ _ hi
                have hfe2 := fragKws_mem kvs kvs hf _ _ hm
                simp only [fragEntry, Bool.and_eq_true] at hfe2
                have h3 := hfe2.2
                simp [fragSimple, isFalse] at h3
                obtain ⟨t, ht⟩ := Option.isSome_iff_exists.mp (ihOne _ _ hm (by simp [oneKeywords]) h3)
                rw [ht]
                exact annotate_array_isSome kvs hd hf hb hs _ _ (Or.inr ⟨rfl, hnc⟩) hconst_arr
              · rw [if_neg htr2]
                exact annotate_array_isSome kvs hd hf hb hs _ _ (Or.inr ⟨rfl, hnc⟩) hconst_arr
            | null | num _ | str _ | arr _ =>
              exfalso
              have hm := mem_of_lookup kvs _ _ hi
              have hfe2 := fragKws_mem kvs kvs hf _ _ hm
              simp only [fragEntry, Bool.and_eq_true] at hfe2
              have h3 := hfe2.2
              simp [fragSimple, isFalse, inFragment] at h3
      | _ => simp at h2

end Utv.C15
