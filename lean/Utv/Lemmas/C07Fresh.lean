import Utv.Model.C07Spec
import Utv.Lemmas.C07Core
/-! C07 — stored properties stay equal to their getter, outside the known defect. -/
namespace Utv.C07
open Map
variable {V : Type} {C : Cls} {W : World V}

/-- the dependencies of `p` are stored alike in `s` and `t` -/
def SameDeps (C : Cls) (s t : State V) (p : Field) : Prop :=
  ∀ d ∈ p.deps, ∀ df, getField C d = some df → stored t df = stored s df

def Ready (C : Cls) (s : State V) (p : Field) : Prop :=
  ∀ d ∈ p.deps, ∀ df, getField C d = some df → avail s df = true

theorem fieldGet_congr {s t : State V} {f : Field} (h : stored t f = stored s f) :
    fieldGet W t f = fieldGet W s f := by
  unfold stored at h
  have h1 : t.data.get f.name = s.data.get f.name := congrArg Prod.fst h
  have h2 : t.attrs.get f.attname = s.attrs.get f.attname := congrArg Prod.snd h
  unfold fieldGet
  rw [h1, h2]

theorem avail_congr {s t : State V} {f : Field} (h : stored t f = stored s f) : avail t f = avail s f := by
  unfold stored at h
  have h1 : t.data.get f.name = s.data.get f.name := congrArg Prod.fst h
  have h2 : t.attrs.get f.attname = s.attrs.get f.attname := congrArg Prod.snd h
  unfold avail has
  rw [h1, h2]

theorem mapM_congr_opt {α β : Type} (g g' : α → Option β) :
    ∀ l : List α, (∀ a ∈ l, g a = g' a) → l.mapM g = l.mapM g' := by
  intro l
  induction l with
  | nil => intro _; rfl
  | cons a l ih =>
    intro h
    simp only [List.mapM_cons]
    rw [h a (by simp), ih (fun b hb => h b (by simp [hb]))]

theorem compute3_congr {s t : State V} {p : Field} (h : SameDeps C s t p) : compute3 C W t p = compute3 C W s p := by
  unfold compute3
  have : p.deps.mapM (fun d => (getField C d).bind (fieldGet W t)) =
      p.deps.mapM (fun d => (getField C d).bind (fieldGet W s)) := by
    apply mapM_congr_opt
    intro d hd
    cases hg : getField C d with
    | none => rfl
    | some df => exact fieldGet_congr (h d hd df hg)
  rw [this]

theorem compute_congr {s t : State V} {p : Field} (h : SameDeps C s t p) : compute C W t p = compute C W s p := by
  unfold compute
  rw [compute3_congr h]

theorem ready_congr {s t : State V} {p : Field} (h : SameDeps C s t p) (hr : Ready C s p) : Ready C t p := by
  intro d hd df hg
  rw [avail_congr (h d hd df hg)]
  exact hr d hd df hg

theorem dep_field (hwf : WF C) {p : Field} (hp : p ∈ C.fields) (hpp : p.isProp = true) {d : String}
    (hd : d ∈ p.deps) {df : Field} (hg : getField C d = some df) :
    df ∈ C.fields ∧ df.name = d ∧ df.isProp = false := by
  obtain ⟨f, hf, hfn, hfp⟩ := hwf.depsPlain p hp hpp d hd
  rw [← hfn, getField_name hwf hf] at hg
  cases hg
  exact ⟨hf, hfn, hfp⟩

theorem dep_resolves (hwf : WF C) {p : Field} (hp : p ∈ C.fields) (hpp : p.isProp = true) {d : String}
    (hd : d ∈ p.deps) : ∃ df, getField C d = some df := by
  obtain ⟨f, hf, hfn, _⟩ := hwf.depsPlain p hp hpp d hd
  exact ⟨f, by rw [← hfn]; exact getField_name hwf hf⟩

/-- a change of the keys at a property's own name only does not disturb any property's dependencies -/
theorem sameDeps_of_prop_key (hwf : WF C) {s t : State V} {q : Field} (hq : q ∈ C.fields) (hqp : q.isProp = true)
    (hattrs : t.attrs = s.attrs) (hdata : ∀ k, k ≠ q.name → t.data.get k = s.data.get k)
    {r : Field} (hr : r ∈ C.fields) (hrp : r.isProp = true) : SameDeps C s t r := by
  intro d hd df hg
  obtain ⟨hdf, _, hdp⟩ := dep_field hwf hr hrp hd hg
  have hne : df.name ≠ q.name := by
    intro e
    have := name_inj hwf hdf hq e
    subst this
    rw [hqp] at hdp
    cases hdp
  simp [stored, hattrs, hdata _ hne]

theorem blocked_false_of_ready (hwf : WF C) {s : State V} {p : Field} (hp : p ∈ C.fields) (hpp : p.isProp = true)
    (hr : Ready C s p) : blocked C s p = false := by
  unfold blocked
  rw [Bool.and_eq_false_iff]
  right
  rw [List.any_eq_false]
  intro d hd
  obtain ⟨df, hg⟩ := dep_resolves hwf hp hpp hd
  obtain ⟨_, hn, _⟩ := dep_field hwf hp hpp hd hg
  have := hr d hd df hg
  unfold avail at this
  rw [hn] at this
  rw [hg]
  cases h1 : s.data.has d <;> cases h2 : s.attrs.has df.attname <;> simp_all

theorem ready_of_not_blocked (hwf : WF C) {s : State V} {p : Field} (hp : p ∈ C.fields) (hpp : p.isProp = true)
    (h : blocked C s p = false) : Ready C s p := by
  unfold blocked at h
  intro d hd df hdf
  obtain ⟨_, hn, _⟩ := dep_field hwf hp hpp hd hdf
  unfold avail
  rw [hn]
  cases hall : p.deps.all s.data.has with
  | true =>
    have := List.all_eq_true.mp hall d hd
    simp [this]
  | false =>
    simp only [hall, Bool.not_false, Bool.true_and] at h
    have := List.any_eq_false.mp h d hd
    rw [hdf] at this
    cases h1 : s.data.has d <;> cases h2 : s.attrs.has df.attname <;> simp_all

/-- what one recomputation does, as far as the stored properties are concerned -/
theorem coerce_outcome (hwf : WF C) {s : State V} {p : Field} (hp : p ∈ C.fields) (hpp : p.isProp = true)
    (hok : (coerce false C W s p).2 = false) :
    (co C W s p = s ∧ blocked C s p = true) ∨
    (Ready C s p ∧ co C W s p = { s with data := s.data.del p.name }) ∨
    (Ready C s p ∧ ∃ w, compute C W s p = some w ∧ co C W s p = { s with data := s.data.set p.name w }) := by
  have hno := (hwf.propPlain p hp hpp).2.2.1
  cases hb : blocked C s p with
  | true =>
    left
    exact ⟨by simp [co, coerce, hno, hb], rfl⟩
  | false =>
    have hr := ready_of_not_blocked hwf hp hpp hb
    cases hc : compute3 C W s p with
    | raised => right; left; exact ⟨hr, by simp [co, coerce, hno, hb, hc]⟩
    | unconvertible => simp [coerce, hno, hb, hc] at hok
    | value w => right; right; exact ⟨hr, w, by simp [compute, hc], by simp [co, coerce, hno, hb, hc]⟩

/-- `Fresh` with some properties waiting for their recomputation (names in `S`) -/
def FreshPending (C : Cls) (W : World V) (S : List String) (s : State V) : Prop :=
  ∀ p ∈ C.fields, p.isProp = true → ∀ v, s.data.get p.name = some v →
    Ready C s p ∧ (p.name ∉ S → compute C W s p = some v)

theorem fresh_iff_pending_nil (s : State V) : Fresh C W s ↔ FreshPending C W [] s := by
  constructor
  · intro h p hp hpp v hv
    obtain ⟨h1, h2⟩ := h p hp hpp v hv
    exact ⟨h2, fun _ => h1⟩
  · intro h p hp hpp v hv
    obtain ⟨h1, h2⟩ := h p hp hpp v hv
    exact ⟨h2 (by simp), h1⟩

/-- one recomputation that did not raise: the property itself becomes fresh (or is dropped), the others are
not disturbed -/
theorem pending_coerce (hwf : WF C) {S : List String} {s : State V}
    {p : Field} (hp : p ∈ C.fields) (hpp : p.isProp = true) (h : FreshPending C W (p.name :: S) s)
    (hok : (coerce false C W s p).2 = false) : FreshPending C W S (co C W s p) := by
  rcases coerce_outcome (W := W) hwf hp hpp hok with ⟨e, hb⟩ | ⟨hr, e⟩ | ⟨hr, w, hw, e⟩
  · -- early return: nothing of p can be stored (a stored one has readable dependencies)
    have hnone : s.data.get p.name = none := by
      cases hget : s.data.get p.name with
      | none => rfl
      | some v =>
        have := blocked_false_of_ready hwf hp hpp (h p hp hpp v hget).1
        rw [hb] at this
        cases this
    rw [e]
    intro r hr hrp v hv
    obtain ⟨h1, h2⟩ := h r hr hrp v hv
    refine ⟨h1, fun hn => h2 ?_⟩
    intro hmem
    rcases List.mem_cons.mp hmem with e' | e'
    · rw [e', hnone] at hv; cases hv
    · exact hn e'
  · -- the getter raised: the value is dropped
    rw [e]
    intro r hr' hrp v hv
    have hsame : SameDeps C s { s with data := s.data.del p.name } r :=
      sameDeps_of_prop_key (s := s) (t := { s with data := s.data.del p.name }) hwf hp hpp rfl
        (fun k hk => by simp [get_del, hk]) hr' hrp
    by_cases er : r.name = p.name
    · simp [get_del, er] at hv
    · simp only [get_del, er, if_false] at hv
      obtain ⟨h1, h2⟩ := h r hr' hrp v hv
      refine ⟨ready_congr hsame h1, fun hn => ?_⟩
      rw [compute_congr hsame]
      apply h2
      intro hmem
      rcases List.mem_cons.mp hmem with e' | e'
      · exact er e'
      · exact hn e'
  · rw [e]
    intro r hr' hrp v hv
    have hsame : SameDeps C s { s with data := s.data.set p.name w } r :=
      sameDeps_of_prop_key (s := s) (t := { s with data := s.data.set p.name w }) hwf hp hpp rfl
        (fun k hk => by simp [get_set, hk]) hr' hrp
    by_cases er : r.name = p.name
    · have := name_inj hwf hr' hp er
      subst this
      simp only [get_set, if_true] at hv
      cases hv
      exact ⟨ready_congr hsame hr, fun _ => by rw [compute_congr hsame]; exact hw⟩
    · simp only [get_set, er, if_false] at hv
      obtain ⟨h1, h2⟩ := h r hr' hrp v hv
      refine ⟨ready_congr hsame h1, fun hn => ?_⟩
      rw [compute_congr hsame]
      apply h2
      intro hmem
      rcases List.mem_cons.mp hmem with e' | e'
      · exact er e'
      · exact hn e'

theorem fresh_coerce (hwf : WF C) {s : State V} {p : Field}
    (hp : p ∈ C.fields) (hpp : p.isProp = true) (h : Fresh C W s) (hok : (coerce false C W s p).2 = false) :
    Fresh C W (co C W s p) := by
  rw [fresh_iff_pending_nil] at h ⊢
  apply pending_coerce hwf hp hpp _ hok
  intro r hr hrp v hv
  obtain ⟨h1, h2⟩ := h r hr hrp v hv
  exact ⟨h1, fun _ => h2 (by simp)⟩

/-- the dependants loop (schema.py:357-362), when nothing escaped, discharges the pending set -/
theorem pending_loop (hwf : WF C) {f : Field} (hf : f ∈ C.fields) :
    ∀ (l : List String), (∀ q ∈ l, q ∈ f.dependants) → ∀ s : State V, FreshPending C W l s →
      (coerceList false C W s l).2 = false → Fresh C W (coerceList false C W s l).1 := by
  intro l
  induction l with
  | nil => intro _ s h _; exact (fresh_iff_pending_nil s).mpr h
  | cons q l ih =>
    intro hl s h hok
    have hq : q ∈ f.dependants := hl q (by simp)
    have ih' := ih (fun x hx => hl x (by simp [hx]))
    -- a pending name that resolves to no property has nothing waiting
    have skip : (∀ p, getField C q = some p → p.isProp = false) → FreshPending C W l s := by
      intro hno r hr hrp v hv
      obtain ⟨h1, h2⟩ := h r hr hrp v hv
      refine ⟨h1, fun hn => h2 ?_⟩
      intro hmem
      rcases List.mem_cons.mp hmem with e' | e'
      · have := hno r (by rw [← e']; exact getField_name hwf hr)
        rw [hrp] at this
        cases this
      · exact hn e'
    simp only [coerceList] at hok ⊢
    cases hg : getField C q with
    | none =>
      simp only [hg] at hok ⊢
      exact ih' s (skip (fun p' hg' => by rw [hg] at hg'; cases hg')) hok
    | some p =>
      simp only [hg] at hok ⊢
      cases hpp : p.isProp with
      | false =>
        simp only [hpp] at hok ⊢
        exact ih' s (skip (fun p' hg' => by rw [hg] at hg'; cases hg'; exact hpp)) hok
      | true =>
        simp only [hpp, if_true] at hok ⊢
        have hpn : p.name = q := hwf.depNames f hf q hq p hg
        cases hc : coerce false C W s p with
        | mk s' b =>
          simp only [hc] at hok ⊢
          cases b with
          | true => simp at hok
          | false =>
            simp only at hok ⊢
            have hco : co C W s p = s' := by simp [co, hc]
            rw [← hpn] at h
            have := pending_coerce hwf (getField_some hg).1 hpp h (by rw [hc])
            rw [hco] at this
            exact ih' s' this hok

/-- a change that leaves every stored property and its dependencies alone keeps `Fresh` -/
theorem fresh_of_frame {s t : State V} (h : Fresh C W s)
    (hd : ∀ r ∈ C.fields, r.isProp = true → ∀ v, t.data.get r.name = some v →
      s.data.get r.name = some v ∧ SameDeps C s t r) : Fresh C W t := by
  intro r hr hrp v hv
  obtain ⟨h1, hsame⟩ := hd r hr hrp v hv
  obtain ⟨h2, h3⟩ := h r hr hrp v h1
  exact ⟨by rw [compute_congr hsame]; exact h2, ready_congr hsame h3⟩

theorem fresh_prim (hwf : WF C) {xs : List V} (s : State V) (p : Prim V)
    (h : Fresh C W s) (hok : Prim.ok true xs C W s p) : Fresh C W (p.apply C W s) := by
  cases p with
  | store f pv =>
    obtain ⟨hf, hfp, _, _, _, hnoerr⟩ := hok
    simp only [Prim.apply, coerceDependants] at hnoerr ⊢
    refine pending_loop hwf hf f.dependants (fun _ hq => hq) _ ?_ hnoerr
    -- after the store: every stored property still has readable dependencies; those not depending on f are fresh
    have hdata : ∀ r ∈ C.fields, r.isProp = true → (storeField s f pv).data.get r.name = s.data.get r.name := by
      intro r hr hrp
      have hne : r.name ≠ f.name := by
        intro e
        have := name_inj hwf hr hf e
        subst this
        rw [hrp] at hfp
        cases hfp
      unfold storeField
      split <;> simp [get_set, get_del, hne]
    have hother : ∀ g ∈ C.fields, g ≠ f → stored (storeField s f pv) g = stored s g := by
      intro g hg hgf
      have hne : g.name ≠ f.name := fun e => hgf (name_inj hwf hg hf e)
      have hna : g.attname ≠ f.attname := fun e => hgf (att_inj hwf hg hf e)
      unfold storeField
      split <;> simp [stored, get_set, get_del, hne, hna]
    have hself : avail (storeField s f pv) f = true := by
      unfold storeField avail
      split <;> simp [has_set]
    intro r hr hrp v hv
    rw [hdata r hr hrp] at hv
    obtain ⟨h1, h2⟩ := h r hr hrp v hv
    refine ⟨?_, ?_⟩
    · intro d hd df hg
      obtain ⟨hdf, _, _⟩ := dep_field hwf hr hrp hd hg
      by_cases e : df = f
      · rw [e]; exact hself
      · rw [avail_congr (hother df hdf e)]
        exact h2 d hd df hg
    · intro hn
      have hsame : SameDeps C s (storeField s f pv) r := by
        intro d hd df hg
        obtain ⟨hdf, hdn, _⟩ := dep_field hwf hr hrp hd hg
        apply hother df hdf
        intro e
        subst e
        exact hn (hwf.depsListed r hr hrp df hdf (by rw [hdn]; exact hd))
      rw [compute_congr hsame]
      exact h1
  | recompute q => exact fresh_coerce hwf hok.1 hok.2.1 h hok.2.2
  | setAdd k v =>
    have hk : getField C k = none := hok.1
    have hne : ∀ g ∈ C.fields, g.name ≠ k := fun g hg => getField_none_ne hwf hk hg
    apply fresh_of_frame h
    intro r hr hrp v' hv
    simp only [Prim.apply, get_set, hne r hr, if_false] at hv
    refine ⟨hv, ?_⟩
    intro d hd df hg
    obtain ⟨hdf, _, _⟩ := dep_field hwf hr hrp hd hg
    simp [Prim.apply, stored, get_set, hne df hdf]
  | remove f =>
    obtain ⟨hf, _, _, _, _, hstrict⟩ := hok
    have hnodep := hstrict rfl
    apply fresh_of_frame h
    intro r hr hrp v hv
    simp only [Prim.apply, get_del] at hv
    split at hv
    · cases hv
    · refine ⟨hv, ?_⟩
      intro d hd df hg
      obtain ⟨hdf, hdn, _⟩ := dep_field hwf hr hrp hd hg
      have hdf_ne : df ≠ f := by
        intro e
        subst e
        have := hnodep r.name (hwf.depsListed r hr hrp df hdf (by rw [hdn]; exact hd))
        rw [(has_iff _ _).mpr ⟨v, hv⟩] at this
        cases this
      have hne : df.name ≠ f.name := fun e => hdf_ne (name_inj hwf hdf hf e)
      have hna : df.attname ≠ f.attname := fun e => hdf_ne (att_inj hwf hdf hf e)
      simp [Prim.apply, stored, get_del, hne, hna]
  | delKey k =>
    have hk : getField C k = none := hok
    have hne : ∀ g ∈ C.fields, g.name ≠ k := fun g hg => getField_none_ne hwf hk hg
    apply fresh_of_frame h
    intro r hr hrp v' hv
    simp only [Prim.apply, get_del, hne r hr, if_false] at hv
    refine ⟨hv, ?_⟩
    intro d hd df hg
    obtain ⟨hdf, _, _⟩ := dep_field hwf hr hrp hd hg
    simp [Prim.apply, stored, get_del, hne df hdf]
  | clear =>
    intro r hr hrp v hv
    simp [Prim.apply] at hv
  | setAttrOther a v =>
    have ha : fieldByAtt C a = none := hok.1
    apply fresh_of_frame h
    intro r hr hrp v' hv
    refine ⟨hv, ?_⟩
    intro d hd df hg
    obtain ⟨hdf, _, _⟩ := dep_field hwf hr hrp hd hg
    simp [Prim.apply, stored, get_set, fieldByAtt_none ha hdf]
  | delAttrOther a =>
    have ha : fieldByAtt C a = none := hok
    apply fresh_of_frame h
    intro r hr hrp v' hv
    refine ⟨hv, ?_⟩
    intro d hd df hg
    obtain ⟨hdf, _, _⟩ := dep_field hwf hr hrp hd hg
    simp [Prim.apply, stored, get_del, fieldByAtt_none ha hdf]

end Utv.C07
