import Utv.GenEq.Support
import Utv.Gen.Tables
import Utv.Gen.Options
import Utv.Model.C01
/-!
C01 — T1 obligation: `Opts.norm` (no_data_loss turns an unset `addition` into `False`) is what the regenerated
`Options.__init__` does to the `addition` keyword.
-/
namespace Utv.GenEq.C01
open Utv.Obj Utv.C01 Utv.Gen

abbrev U := OVal Unit

/-- how `addition=` is passed: not at all (`unset`: the class default `None` shows), `False`, `True` -/
def kwAddition : Addition → List (String × U)
  | .unset => []
  | .forbid => [("addition", .bool false)]
  | .allow => [("addition", .bool true)]

/-- the attribute `options.addition` an `Addition` stands for -/
def encAddition : Addition → U
  | .unset => .none
  | .forbid => .bool false
  | .allow => .bool true

/-- what the instance shows: the stored argument, or the class-level default for one left `unprovided` -/
def effective (v : U) : U :=
  if v.isUnprovided then
    (if Tables.optionsDefaults.lookup "addition" = some "None" then .none else .unprovided)
  else v

theorem C01_gen_options_init (W : World Unit) (self : U) (o : Opts) :
    (Options.Options_init W self (("no_data_loss", .bool o.ndl) :: kwAddition o.addition)
        >>= fun r => getattr r "addition").map effective
      = .ok (encAddition o.norm.addition) := by
  gen_obligation "C01_gen_options_init: the regenerated code (Utv.Gen) is no longer equal to the hand model here" by
    have hd : Tables.optionsDefaults.lookup "addition" = some "None" := by decide
    obtain ⟨nec, ndl, addition, _, _, _, _, _⟩ := o
    cases ndl <;> cases addition <;>
      obj_simp [Options.Options_init, Options.multi, kwAddition, lookupAttr, isinstance, callable, OVal.isUnprovided,
        OVal.isNone, getattr, effective, hd, Except.map, Opts.norm, encAddition]

end Utv.GenEq.C01
