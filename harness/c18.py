"""C18 — the depth limit is exact and parse cost stays bounded.

Correspondence: the same declaration (JSON descriptor → real `Schema` classes built from generated source),
the same input (JSON descriptor → real Python objects, cyclic ones included) run on the real library and on
the Lean model `Utv.C18.parseTop`; verdict, result tree, "a DepthExceedError is among the causes" and the exact
number of invocations of a counting leaf converter (registered by this harness, no clock) are compared —
once with the declared `max_depth`s and once with every limit removed.

Oracle (spec): evaluated on what the *implementation* returned, see `C18.spec`.
"""
from __future__ import annotations

import ast
import json
import os
import random
import sys
import types

from .common import Check, REPO

sys.setrecursionlimit(max(sys.getrecursionlimit(), 20000))

# ------------------------------------------------------------------------------------------------
# adapter (runs inside worker processes; utype is imported from $UTYPE_REPO)
# ------------------------------------------------------------------------------------------------

_STATE = {"count": 0, "installed": False, "modn": 0}
_CLS_CACHE: dict = {}


class Leaf:
    """the counting leaf type: every conversion attempt is one unit of work"""
    __slots__ = ("n",)

    def __init__(self, n):
        self.n = n


def leaf_ok(no_loss: bool, no_cast: bool, n: int) -> bool:
    k = n % 4
    return k == 0 or (k == 2 and not no_loss) or (k == 3 and not no_cast)


def _install():
    import utype

    @utype.register_transformer(Leaf)
    def to_leaf(transformer, value, t):
        _STATE["count"] += 1
        if type(value) is not int:
            raise TypeError("leaf: not a token")
        if leaf_ok(bool(transformer.no_data_loss), bool(transformer.no_explicit_cast), value):
            return t(value)
        raise ValueError("leaf: rejected token")

    _STATE["installed"] = True


PRIMS = ("int", "float", "Decimal", "bool", "str", "datetime", "date", "time", "timedelta", "UUID")


def hostile_values():
    """constant-size scalars of rarely used classes; built inside the worker"""
    from decimal import Decimal
    return {
        "dec-inf": Decimal("Infinity"), "dec-neg-inf": Decimal("-Infinity"), "dec-nan": Decimal("NaN"),
        "dec-snan": Decimal("sNaN"), "dec-big": Decimal("1e60"), "dec-huge-exp": Decimal("1e999999"),
        "dec-tiny-exp": Decimal("1e-999999"), "dec-fin": Decimal("1700000000.5"),
        "float-inf": float("inf"), "float-neg-inf": float("-inf"), "float-nan": float("nan"), "float-big": 1e308,
        "int-huge": 10 ** 400, "int-neg-huge": -(10 ** 400), "int-big": 2 ** 70,
        "str-huge-exp": "1e999999", "str-inf": "-Infinity", "str-nan": "nan", "str-long-digits": "9" * 5000,
        "str-empty": "", "bytes": b"\xff\xfe", "true": True, "none": None, "int-0": 0,
    }


HOSTILE_NAMES = ("dec-inf", "dec-neg-inf", "dec-nan", "dec-snan", "dec-big", "dec-huge-exp", "dec-tiny-exp", "dec-fin",
                 "float-inf", "float-neg-inf", "float-nan", "float-big", "int-huge", "int-neg-huge", "int-big",
                 "str-huge-exp", "str-inf", "str-nan", "str-long-digits", "str-empty", "bytes", "true", "none", "int-0")


def ty_src(t, pfx):
    if isinstance(t, str) and t.startswith("prim:"):
        return t[5:]
    if t == "leaf":
        return "Leaf"
    if t == "none":
        return "None"
    if "data" in t:
        return "'%s%d'" % (pfx, t["data"])
    if "list" in t:
        return "List[%s]" % ty_src(t["list"], pfx)
    if "tuple" in t:
        return "Tuple[%s, ...]" % ty_src(t["tuple"], pfx)
    if "dict" in t:
        return "Dict[%s, %s]" % ({"any": "Any"}.get(t.get("key", "str"), t.get("key", "str")), ty_src(t["dict"], pfx))
    if "union" in t:
        return "Union[%s]" % ", ".join(ty_src(a, pfx) for a in t["union"])
    raise ValueError(t)


def class_source(classes, pfx):
    src = ["from typing import Optional, List, Dict, Tuple, Union, Any", "from utype import Schema, Options, DataClass",
           "from datetime import datetime, date, time, timedelta", "from decimal import Decimal", "from uuid import UUID",
           # a leaf class of this declaration's own: typing caches `List[Union[A, B]]` by *set* of members, so a
           # shared leaf class would let another declaration's member order leak into this one
           "class Leaf(BaseLeaf):", "    __slots__ = ()"]
    for k, c in enumerate(classes):
        o = c.get("opts", {})
        args = []
        if o.get("max_depth") is not None:
            args.append("max_depth=%d" % o["max_depth"])
        if o.get("no_data_loss"):
            args.append("no_data_loss=True")
        if o.get("no_explicit_cast"):
            args.append("no_explicit_cast=True")
        if o.get("override"):
            args.append("override=True")
        if o.get("dfs"):
            args.append("data_first_search=True")
        own = bool(o.get("own_init"))
        src.append("class %s%d(%s):" % (pfx, k, "DataClass" if own else "Schema"))
        if args:
            src.append("    __options__ = Options(%s)" % ", ".join(args))
        for fname, t in c["fields"]:
            src.append("    %s: %s = None" % (fname, ty_src(t, pfx)))
        if own:
            # a data class with a user-written __init__: its parameters are parsed by the wrapped function
            src.append("    def __init__(self, %s):" % ", ".join("%s: %s = None" % (f, ty_src(t, pfx)) for f, t in c["fields"]))
            for fname, _ in c["fields"]:
                src.append("        self.%s = %s" % (fname, fname))
        if not c["fields"] and not args:
            src.append("    pass")
    return "\n".join(src) + "\n"


def build_classes(classes):
    """instantiate the declaration through the public API: generated source, a module of its own,
    class names unique per declaration (forward references are looked up by name)"""
    if not _STATE["installed"]:
        _install()
    key = json.dumps(classes, sort_keys=True)
    if key in _CLS_CACHE:
        return _CLS_CACHE[key]
    _STATE["modn"] += 1
    name = "c18_decl_%d" % _STATE["modn"]
    pfx = "K%dx" % _STATE["modn"]
    mod = types.ModuleType(name)
    sys.modules[name] = mod
    mod.__dict__["BaseLeaf"] = Leaf
    exec(compile(class_source(classes, pfx), name, "exec"), mod.__dict__)
    out = [mod.__dict__["%s%d" % (pfx, k)] for k in range(len(classes))]
    if len(_CLS_CACHE) > 400:
        _CLS_CACHE.clear()
    _CLS_CACHE[key] = out
    return out


def build_value(v, stack=None):
    """JSON descriptor → Python object; {"ref": j} is the j-th enclosing container itself (a cycle)"""
    stack = stack if stack is not None else []
    if v is None:
        return None
    if "t" in v:
        return v["t"]
    if "h" in v:
        return hostile_values()[v["h"]]
    if "ref" in v:
        return stack[-1 - v["ref"]]
    if "l" in v:
        out = []
        stack.append(out)
        for x in v["l"]:
            out.append(build_value(x, stack))
        stack.pop()
        return out
    if "tu" in v:
        # a tuple is immutable: a cycle can only pass through it to an enclosing list / dict
        stack.append(None)
        out = [build_value(x, stack) for x in v["tu"]]
        stack.pop()
        return tuple(out)
    if "d" in v:
        out = {}
        stack.append(out)
        for k, x in v["d"]:
            out[k] = build_value(x, stack)
        stack.pop()
        return out
    raise ValueError(v)


def norm(v):
    """tuples convert like lists everywhere in this fragment (same `multi` group): the model sees a list"""
    if v is None or "t" in v or "ref" in v or "h" in v:
        return v
    if "tu" in v:
        return {"l": [norm(x) for x in v["tu"]]}
    if "l" in v:
        return {"l": [norm(x) for x in v["l"]]}
    return {"d": [[k, norm(x)] for k, x in v["d"]]}


def canon(r, classes_py):
    from utype import Schema
    if r is None:
        return None
    if isinstance(r, Leaf):
        return {"x": r.n}
    if isinstance(r, Schema):
        k = classes_py.index(type(r))
        return {"k": k, "f": [[name, canon(r.get(name), classes_py)] for name in type(r).__parser__.fields]}
    if type(r) in classes_py:
        return {"k": classes_py.index(type(r)),
                "f": [[name, canon(getattr(r, name, None), classes_py)] for name in type(r).__parser__.fields]}
    if isinstance(r, list):
        return {"l": [canon(x, classes_py) for x in r]}
    if isinstance(r, tuple):
        return {"tu": [canon(x, classes_py) for x in r]}
    if isinstance(r, dict):
        return {"m": [[k if isinstance(k, (str, int, bool, type(None))) else repr(k), canon(x, classes_py)] for k, x in r.items()]}
    return {"other": type(r).__name__}


def has_depth(e, seen=None):
    """is a DepthExceedError among the causes (class test along origin_exc / errors / __cause__; no messages)"""
    from utype import exc
    seen = seen if seen is not None else set()
    if e is None or id(e) in seen:
        return False
    seen.add(id(e))
    if isinstance(e, exc.DepthExceedError):
        return True
    for a in ("origin_exc", "__cause__", "__context__"):
        if has_depth(getattr(e, a, None), seen):
            return True
    for x in getattr(e, "errors", None) or []:
        if isinstance(x, BaseException) and has_depth(x, seen):
            return True
    return False


def run_one(cls_list, root, entry, value):
    from utype import exc, type_transform
    _STATE["count"] = 0
    K = cls_list[root]
    try:
        if entry == "init":
            r = K(**value)
        elif entry == "from":
            r = K.__from__(value)
        elif entry == "transform":
            r = type_transform(value, K)
        else:
            raise ValueError(entry)
        return {"ok": canon(r, cls_list), "cost": _STATE["count"]}
    except exc.ParseError as e:
        return {"err": "depth" if has_depth(e) else "parse", "cost": _STATE["count"]}
    except RecursionError:
        return {"escape": "RecursionError", "cost": _STATE["count"]}
    except Exception as e:
        return {"escape": type(e).__name__, "cost": _STATE["count"]}


def strip_limits(classes):
    return [dict(c, opts={k: v for k, v in c.get("opts", {}).items() if k != "max_depth"}) for c in classes]


def has_limits(classes):
    return any(c.get("opts", {}).get("max_depth") is not None for c in classes)


def walk_instances(r, cls_list, out):
    """data-class instances of a parsed tree in pre-order (declaration order of fields, container order)"""
    from utype import Schema
    if isinstance(r, Schema):
        out.append((r, cls_list.index(type(r))))
        for name in type(r).__parser__.fields:
            walk_instances(r.get(name), cls_list, out)
    elif isinstance(r, (list, tuple)):
        for x in r:
            walk_instances(x, cls_list, out)
    elif isinstance(r, dict):
        for x in r.values():
            walk_instances(x, cls_list, out)
    return out


def step_field(classes, step):
    f = step["field"]
    if isinstance(f, str):
        return f
    fields = classes[step["cls"]]["fields"]
    return fields[f % len(fields)][0] if fields else "zz"


def run_step(cls_list, classes, root, entry, value_desc, step, fresh=False):
    """second step after a parse: an assignment (attribute / item / update / |=) on the nth instance of class `cls`
    of the tree just parsed — or on a directly constructed instance (`fresh`) —, or a re-parse of that instance"""
    from utype import exc, type_transform
    K = cls_list[root]
    value = build_value(value_desc)
    try:
        tree = K(**value) if entry == "init" else (K.__from__(value) if entry == "from" else type_transform(value, K))
    except Exception:
        return None
    kx = step["cls"]
    cands = [o for o, k in walk_instances(tree, cls_list, []) if k == kx]
    nested = bool(cands) and not fresh
    inst = cands[step["nth"] % len(cands)] if nested else cls_list[kx]()
    fname = step_field(classes, step)
    w = build_value(step["value"])
    op = step["op"]
    _STATE["count"] = 0
    try:
        if op == "setattr":
            if fname == "zz":
                inst[fname] = w
            else:
                setattr(inst, fname, w)
        elif op == "setitem":
            inst[fname] = w
        elif op == "update":
            inst.update({fname: w})
        elif op == "ior":
            inst |= {fname: w}
        elif op == "reparse":
            # a sub-value taken out of the accepted tree is parsed again on its own
            data = {k: v for k, v in inst.items() if v is not None}
            again = cls_list[kx].__from__(data) if step["nth"] % 2 else type_transform(inst, cls_list[kx])
            return {"ok": canon(again, cls_list) == canon(inst, cls_list), "cost": _STATE["count"], "nested": nested}
        else:
            raise ValueError(op)
        return {"ok": canon(inst.get(fname), cls_list), "cost": _STATE["count"], "nested": nested}
    except exc.ParseError as e:
        return {"err": "depth" if has_depth(e) else "parse", "cost": _STATE["count"], "nested": nested}
    except RecursionError:
        return {"escape": "RecursionError", "cost": _STATE["count"], "nested": nested}
    except Exception as e:
        return {"escape": type(e).__name__, "cost": _STATE["count"], "nested": nested}


def impl(case):
    value = build_value(case["value"])
    entry = case.get("entry", "init")
    lim_cls = build_classes(case["classes"])
    out = {"lim": run_one(lim_cls, case["root"], entry, value)}
    if case.get("cyc"):
        return out          # the unlimited twin of a cyclic input does not terminate by design
    if has_limits(case["classes"]):
        unl_cls = build_classes(strip_limits(case["classes"]))
        out["unl"] = run_one(unl_cls, case["root"], entry, value)
    else:
        unl_cls = lim_cls
        out["unl"] = out["lim"]
    if case.get("steps"):
        out["steps"] = []
        for st in case["steps"]:
            out["steps"].append({
                "lim": run_step(lim_cls, case["classes"], case["root"], entry, case["value"], st) if "ok" in out["lim"] else None,
                "unl": run_step(unl_cls, case["classes"], case["root"], entry, case["value"], st) if "ok" in out["unl"] else None,
                "fresh": run_step(lim_cls, case["classes"], case["root"], entry, case["value"], st, fresh=True) if "ok" in out["lim"] else None,
            })
    return out


# ------------------------------------------------------------------------------------------------
# the property's own vocabulary, in Python (independent of the model; evaluated on implementation output)
# ------------------------------------------------------------------------------------------------

def limit_of(classes, k):
    md = classes[k].get("opts", {}).get("max_depth")
    return md if md else None        # Options(max_depth=0) means "no limit" (options.py:372)


def res_within(classes, r, n=0):
    """every data-class instance of the result sits at a nesting level (root = 1) its class allows"""
    if r is None or "x" in r:
        return True
    if "k" in r:
        lim = limit_of(classes, r["k"])
        if lim is not None and n + 1 > lim:
            return False
        return all(res_within(classes, x, n + 1) for _, x in r["f"])
    if "l" in r:
        return all(res_within(classes, x, n) for x in r["l"])
    if "tu" in r:
        return all(res_within(classes, x, n) for x in r["tu"])
    if "m" in r:
        return all(res_within(classes, x, n) for _, x in r["m"])
    return True


def res_within_inherited(classes, r, n=0, anc=()):
    """the stricter reading: an instance also sits within the limit of every *enclosing* instance's class
    (`max_depth = d` on a class bounds the nesting of whatever is parsed below it)"""
    if r is None or "x" in r:
        return True
    if "k" in r:
        lim = limit_of(classes, r["k"])
        anc2 = anc + ((lim,) if lim is not None else ())
        if any(n + 1 > m for m in anc2):
            return False
        return all(res_within_inherited(classes, x, n + 1, anc2) for _, x in r["f"])
    for key in ("l", "tu"):
        if key in r:
            return all(res_within_inherited(classes, x, n, anc) for x in r[key])
    if "m" in r:
        return all(res_within_inherited(classes, x, n, anc) for _, x in r["m"])
    return True


def spec_classes(classes, root):
    """the limits the specification reads: under a root with `override=True` the root's options replace those of every
    class parsed below it (options.py:254-258), so its max_depth is *the* limit"""
    if classes[root].get("opts", {}).get("override"):
        md = classes[root]["opts"].get("max_depth")
        return [dict(c, opts=dict({k: v for k, v in c.get("opts", {}).items() if k != "max_depth"},
                                  **({"max_depth": md} if md is not None else {}))) for c in classes]
    return classes


def mixed_limits(classes):
    return len({limit_of(classes, k) for k in range(len(classes))}) > 1


def has_override(classes):
    return any(c.get("opts", {}).get("override") for c in classes)


def res_depth(r):
    if r is None or "x" in r:
        return 0
    if "k" in r:
        return 1 + max([res_depth(x) for _, x in r["f"]] or [0])
    for key in ("l", "tu"):
        if key in r:
            return max([res_depth(x) for x in r[key]] or [0])
    if "m" in r:
        return max([res_depth(x) for _, x in r["m"]] or [0])
    return 0


def unfold(v, budget, stack=()):
    """finite unfolding of a cyclic descriptor: every path follows at most `budget` back references"""
    if v is None or "t" in v:
        return v
    if "ref" in v:
        if budget <= 0:
            return None
        j = v["ref"]
        target = stack[len(stack) - 1 - j]
        return unfold(target, budget - 1, stack[:len(stack) - 1 - j])
    out = []
    if "l" in v:
        for x in v["l"]:
            out.append(unfold(x, budget, stack + (v,)))
        return {"l": out}
    for k, x in v["d"]:
        out.append([k, unfold(x, budget, stack + (v,))])
    return {"d": out}


def vsize(v):
    if v is None or "t" in v or "ref" in v or "h" in v:
        return 1
    n = 1
    for x in (v["l"] if "l" in v else [y for _, y in v["d"]]):
        n += vsize(x)
    return n


def vdepth(v):
    """container nesting depth of the input (an upper bound of its data-class nesting depth)"""
    if v is None or "t" in v or "ref" in v or "h" in v:
        return 0
    d = 0
    for x in (v["l"] if "l" in v else [y for _, y in v["d"]]):
        d = max(d, vdepth(x))
    return d + 1


def dict_nesting(v):
    """mapping nesting depth of the input"""
    if v is None or "t" in v or "ref" in v or "h" in v:
        return 0
    if "l" in v:
        return max([dict_nesting(x) for x in v["l"]] or [0])
    return 1 + max([dict_nesting(x) for _, x in v["d"]] or [0])


def ty_weight(no_loss, no_cast, t, data_weight=1):
    """Python rendering of `Utv.C18.tyWt`: leaf-converter calls one value node can cost under type t
    when nothing below restarts the union stages"""
    if t == "leaf":
        return 1
    if t == "none":
        return 0
    if isinstance(t, str):
        return 1
    if "data" in t:
        return data_weight
    for key in ("list", "tuple", "dict"):
        if key in t:
            return ty_weight(no_loss, no_cast, t[key], data_weight)
    w = sum(ty_weight(no_loss, no_cast, a, data_weight) for a in t["union"])
    if not no_loss or not no_cast:
        w += sum(ty_weight(True, True, a, data_weight) for a in t["union"])
    if not no_loss and not no_cast:
        w += sum(ty_weight(True, no_cast, a, data_weight) for a in t["union"])
    return w


def decl_weight(classes):
    w = 1
    for c in classes:
        o = c.get("opts", {})
        for _, t in c["fields"]:
            w = max(w, ty_weight(bool(o.get("no_data_loss")), bool(o.get("no_explicit_cast")), t))
    return w


def ty_height(t):
    if isinstance(t, str) or "data" in t:
        return 0
    for key in ("list", "tuple", "dict"):
        if key in t:
            return 1 + ty_height(t[key])
    return 1 + max(ty_height(a) for a in t["union"])


def decl_height(classes):
    return max([ty_height(t) for c in classes for _, t in c["fields"]] or [0])


def cost_bound(classes, value):
    """the polynomial the oracle holds the implementation to where a data class sits under a union (region of the
    known finding): weight · size · (depth+1)² / 2 — cubic in the nesting depth, what a parser that passed the stage's
    preferences down into nested classes would need (≈ depth³/6 per leaf) with a wide margin"""
    return decl_weight(classes) * vsize(value) * (vdepth(value) + 1) ** 2 // 2


def data_under_union(t, under=False):
    if isinstance(t, str):
        return False
    if "data" in t:
        return under
    for key in ("list", "tuple", "dict"):
        if key in t:
            return data_under_union(t[key], under)
    return any(data_under_union(a, True) for a in t["union"])


def decl_data_under_union(classes):
    return any(data_under_union(t) for c in classes for _, t in c["fields"])


def union_ambiguous(t):
    """a union with two alternatives that can both read a container (the limit may then legitimately
    change *which* alternative reads the value)"""
    if isinstance(t, str) or "data" in t:
        return False
    for key in ("list", "tuple", "dict"):
        if key in t:
            return union_ambiguous(t[key])
    args = t["union"]
    if sum(1 for a in args if not isinstance(a, str)) > 1:
        return True
    return any(union_ambiguous(a) for a in args)


def decl_ambiguous(classes):
    return any(union_ambiguous(t) for c in classes for _, t in c["fields"])


def modelled(classes, t, v, memo=None):
    """is the (type, value) pairing inside the modelled fragment (see design.d/C18.md)"""
    memo = {} if memo is None else memo
    key = (id(t), id(v))
    if key in memo:
        return memo[key]
    memo[key] = r = _modelled(classes, t, v, memo)
    return r


def _is_seq(x):
    return x is not None and "l" in x


def _pairlike(x):
    return x is not None and (("l" in x and len(x["l"]) == 2) or ("d" in x and len(x["d"]) == 2))


def pair_risk(x, depth=3):
    """could `dict(x)` / the key-value loop of to_dict read the sequence x (or the first items it falls back to) as
    key/value pairs?  Those conversions are outside the modelled fragment."""
    if not _is_seq(x) or depth <= 0:
        return False
    items = x["l"]
    if items and all(_pairlike(w) for w in items):
        return True
    return bool(items) and _is_seq(items[0]) and pair_risk(items[0], depth - 1)


def dict_candidates(v, depth=3):
    """the mappings a sequence may stand for where a mapping is expected (first item of first item …)"""
    if v is None or depth <= 0:
        return []
    if "d" in v:
        return [v]
    if "l" in v and v["l"]:
        return dict_candidates(v["l"][0], depth - 1)
    return []


def _modelled(classes, t, v, memo):
    if v is not None and "ref" in v:
        return True
    if isinstance(t, str):
        return True
    if "data" in t:
        if v is None or "t" in v:
            return True
        if pair_risk(v):
            return False
        fields = dict((n, ft) for n, ft in classes[t["data"]]["fields"])
        for d in dict_candidates(v):
            keys = [k for k, _ in d["d"]]
            if any(not isinstance(k, str) for k in keys) or len(set(keys)) != len(keys):
                return False
            for k, x in d["d"]:
                if k in fields and not modelled(classes, fields[k], x, memo):
                    return False
        return True
    for key in ("list", "tuple"):
        if key in t:
            if v is not None and "l" in v:
                for x in v["l"]:
                    if not modelled(classes, t[key], x, memo):
                        return False
                return True
            if v is not None and "d" in v and not v["d"]:
                return True
            return modelled(classes, t[key], v, memo)
    if "dict" in t:
        if v is None or "t" in v:
            return True
        if pair_risk(v):
            return False
        want = int if t.get("key") == "int" else str
        for d in dict_candidates(v):
            keys = [k for k, _ in d["d"]]
            if t.get("key") != "any" and any(type(k) is not want for k in keys):
                return False
            for _, x in d["d"]:
                if not modelled(classes, t["dict"], x, memo):
                    return False
        return True
    for a in t["union"]:
        if not modelled(classes, a, v, memo):
            return False
    return True


# ------------------------------------------------------------------------------------------------
# generators
# ------------------------------------------------------------------------------------------------

GOOD, BAD, LOSSY, CAST = 0, 1, 2, 3


def tok(kind, rng):
    return {"t": 4 * rng.randrange(5) + kind}


def opts_for(rng, md, uniform_mode=None):
    o = {}
    if md is not None:
        o["max_depth"] = md
    m = uniform_mode if uniform_mode is not None else rng.choice([0, 0, 0, 0, 1, 2, 3])
    if m & 1:
        o["no_data_loss"] = True
    if m & 2:
        o["no_explicit_cast"] = True
    if rng.random() < 0.25:
        o["dfs"] = True
    return o


# position of the nested value: (name, type of the recursive field, wrapper of the nested value)
def positions(k=0):
    D = {"data": k}
    sib = {"d": [["v", {"t": 0}]]}
    return {
        "direct": (D, lambda v: v),
        "optional": ({"union": [D, "none"]}, lambda v: v),
        "optional-rev": ({"union": ["none", D]}, lambda v: v),
        "union-first": ({"union": [D, "leaf", "none"]}, lambda v: v),
        "union-mid": ({"union": ["leaf", D, "none"]}, lambda v: v),
        "union-last": ({"union": ["none", "leaf", D]}, lambda v: v),
        "list-0": ({"list": D}, lambda v: {"l": [v]}),
        "list-1": ({"list": D}, lambda v: {"l": [sib, v]}),
        "list-last": ({"list": D}, lambda v: {"l": [sib, sib, v]}),
        "tuple-0": ({"tuple": D}, lambda v: {"l": [v]}),
        "tuple-1": ({"tuple": D}, lambda v: {"l": [sib, v]}),
        "dict-empty-key": ({"dict": D}, lambda v: {"d": [["", v]]}),
        "dict-key": ({"dict": D}, lambda v: {"d": [["a", v]]}),
        "dict-mixed": ({"dict": D}, lambda v: {"d": [["a", sib], ["", v]]}),
        "dict-int-0": ({"dict": D, "key": "int"}, lambda v: {"d": [[0, v]]}),
        "dict-int-1": ({"dict": D, "key": "int"}, lambda v: {"d": [[1, v]]}),
        "opt-list-0": ({"union": [{"list": D}, "none"]}, lambda v: {"l": [v]}),
        "list-opt-0": ({"list": {"union": [D, "none"]}}, lambda v: {"l": [v]}),
        "list-opt-1": ({"list": {"union": [D, "none"]}}, lambda v: {"l": [None, v]}),
        "dict-list": ({"dict": {"list": D}}, lambda v: {"d": [["", {"l": [v]}]]}),
        "list-list": ({"list": {"list": D}}, lambda v: {"l": [{"l": [v]}]}),
        "wrapped-scalar": ({"list": D}, lambda v: v),          # to_array_types wraps a mapping into [mapping]
    }


POS_NAMES = sorted(positions())


def chain_case(pos, k, md, leaf_kind=GOOD, entry="init", mode=0, dfs=False, cyc=False):
    """one recursive class, the nested value always at the same position, k data-class levels"""
    ty, wrap = positions()[pos]
    o = {}
    if md is not None:
        o["max_depth"] = md
    if mode & 1:
        o["no_data_loss"] = True
    if mode & 2:
        o["no_explicit_cast"] = True
    if dfs:
        o["dfs"] = True
    classes = [{"opts": o, "fields": [["v", "leaf"], ["nx", ty]]}]
    if cyc:
        # the innermost nested value is the root itself
        n_containers = len(_containers_between(wrap))
        v = {"d": [["v", {"t": 0}], ["nx", wrap({"ref": n_containers})]]}
        return {"classes": classes, "root": 0, "entry": entry, "value": v, "cyc": True, "cyc_forced": True, "fam": "cyc/" + pos}
    v = {"d": [["v", {"t": leaf_kind}]]}
    for _ in range(k - 1):
        v = {"d": [["v", {"t": 0}], ["nx", wrap(v)]]}
    return {"classes": classes, "root": 0, "entry": entry, "value": v, "fam": "chain/" + pos}


def _containers_between(wrap):
    """containers the wrapper puts between the parent mapping and the nested value"""
    marker = {"t": 12345}
    w = wrap(marker)
    path = []

    def find(x):
        if x is marker:
            return True
        if x is None or "t" in x:
            return False
        items = x["l"] if "l" in x else [y for _, y in x["d"]]
        for y in items:
            path.append(x)
            if find(y):
                return True
            path.pop()
        return False

    find(w)
    return path


def gen_type(rng, ncls, k, height, allow_later, used_later, in_union=False):
    r = rng.random()
    if height <= 0 or r < 0.22:
        return "leaf"
    if r < 0.50:
        # a data class: self / earlier freely; a later one at most once per (class, target) — several
        # forward references to a class defined later do not resolve (C17's finding, not ours)
        cands = list(range(0, k + 1))
        if allow_later:
            cands += [j for j in range(k + 1, ncls) if j not in used_later]
        j = rng.choice(cands)
        if j > k:
            used_later.add(j)
        return {"data": j}
    if r < 0.62:
        return {"list": gen_type(rng, ncls, k, height - 1, allow_later, used_later)}
    if r < 0.68:
        return {"tuple": gen_type(rng, ncls, k, height - 1, allow_later, used_later)}
    if r < 0.80:
        t = {"dict": gen_type(rng, ncls, k, height - 1, allow_later, used_later)}
        if rng.random() < 0.3:
            t["key"] = "int"
        return t
    if in_union:
        return "leaf"
    n = rng.choice([2, 2, 3])
    args, seen = [], set()
    if rng.random() < 0.75:
        args.append("none")
        seen.add('"none"')
    tries = 0
    while len(args) < n and tries < 10:
        tries += 1
        a = gen_type(rng, ncls, k, height - 1, allow_later, used_later, in_union=True)
        s = json.dumps(a, sort_keys=True)
        if s in seen:
            continue
        seen.add(s)
        args.append(a)
    if len(args) < 2:
        return args[0] if args and args[0] != "none" else "leaf"
    rng.shuffle(args)
    return {"union": args}


def canon_unions(classes):
    """typing caches generic aliases by the *set* of union members: within one declaration the same member set
    must always be spelt in the same order (the first one generated), or the cache decides the order"""
    first = {}

    def go(t):
        if isinstance(t, str) or "data" in t:
            return t
        for key in ("list", "tuple", "dict"):
            if key in t:
                return dict(t, **{key: go(t[key])})
        args, seen_args = [], set()
        for a in (go(a) for a in t["union"]):
            # typing drops equal members (equal once nested unions are spelt canonically)
            js = json.dumps(a, sort_keys=True)
            if js not in seen_args:
                seen_args.add(js)
                args.append(a)
        if len(args) == 1:
            return args[0]
        sig = json.dumps(sorted(json.dumps(a, sort_keys=True) for a in args))
        if sig in first:
            return {"union": first[sig]}
        first[sig] = args
        return {"union": args}

    return [dict(c, fields=[[n, go(t)] for n, t in c["fields"]]) for c in classes]


def gen_decl(rng, limited=None):
    ncls = rng.choice([1, 1, 2, 2, 3])
    uniform = rng.random() < 0.7
    md0 = rng.choice([None, 1, 2, 2, 3, 3, 4, 5]) if limited is None else rng.choice([1, 2, 3, 4])
    umode = rng.choice([0, 0, 0, 1, 2, 3]) if rng.random() < 0.6 else None
    classes = []
    for k in range(ncls):
        md = md0 if uniform else (rng.choice([None, 1, 2, 3, 4, 5]) if limited is None else rng.choice([1, 2, 3, 4, 5]))
        nf = rng.choice([1, 2, 2, 3, 4])
        used_later: set = set()
        fields = [["v", "leaf"]] if rng.random() < 0.8 else []
        for i in range(nf):
            fields.append(["f%d" % i, gen_type(rng, ncls, k, 3, True, used_later)])
        classes.append({"opts": opts_for(rng, md, umode), "fields": fields})
    return canon_unions(classes)


def gen_val(rng, classes, t, budget, p_bad, ctx):
    """type-directed value; `budget` = data-class levels still available; ctx: {'stack': [...], 'cyc': bool, 'refs': int}"""
    r = rng.random()
    if t == "leaf":
        if r < p_bad:
            return tok(rng.choice([BAD, BAD, LOSSY, CAST]), rng)
        if r < p_bad + 0.03:
            return rng.choice([None, {"l": []}, {"d": []}])
        return tok(GOOD, rng)
    if t == "none":
        return None if r < 0.9 else tok(GOOD, rng)
    if "data" in t:
        if ctx["cyc"] and ctx["refs"] < 1 and r < 0.35:
            ds = [i for i, s in enumerate(reversed(ctx["stack"])) if s == ("data", t["data"])]
            if ds:
                ctx["refs"] += 1
                if ctx.get("unread"):
                    ctx["ref_unread"] = True      # the cycle hangs off a position the conversion never reads
                return {"ref": rng.choice(ds)}
        if budget <= 0:
            return rng.choice([None, tok(GOOD, rng), {"d": []}, {"l": []}])
        if r > 0.97:
            return rng.choice([None, tok(GOOD, rng), {"l": []}, {"l": [{"l": []}]}, {"l": [tok(GOOD, rng)]}])
        if ctx["cyc"] and ctx["refs"] < 1 and r > 0.93:
            ctx["refs"] += 1
            if ctx.get("unread"):
                ctx["ref_unread"] = True
            return rng.choice(list(self_sequences().values()))
        if r > 0.90 and not ctx.get("wrapping"):
            # a single-item (or longer) sequence standing for the mapping: transform_dataclass / to_dict unwrap it
            ctx["wrapping"] = True
            kind = rng.choice(["l", "l", "tu"])
            shape = rng.random()
            levels = 2 if 0.5 <= shape < 0.75 else 1
            ctx["stack"].extend(["wrap"] * levels)
            inner = gen_val(rng, classes, t, budget, p_bad, ctx)
            # of a sequence standing for a mapping only item 0 is ever read (transform_dataclass / to_dict)
            ctx["unread"] = ctx.get("unread", 0) + 1
            more = gen_val(rng, classes, t, 0, p_bad, ctx) if shape >= 0.75 else None
            ctx["unread"] -= 1
            del ctx["stack"][-levels:]
            ctx["wrapping"] = False
            if shape < 0.5:
                return {kind: [inner]}
            if shape < 0.75:
                return {kind: [{rng.choice(["l", "tu"]): [inner]}]}
            return {kind: [inner, more]}
        fields = classes[t["data"]]["fields"]
        items = []
        ctx["stack"].append(("data", t["data"]))
        for name, ft in fields:
            if rng.random() < 0.75:
                items.append([name, gen_val(rng, classes, ft, budget - 1, p_bad, ctx)])
        if rng.random() < 0.08:
            items.append(["zz", tok(GOOD, rng)])          # unknown key: dropped (addition=None)
        ctx["stack"].pop()
        rng.shuffle(items)
        return {"d": items}
    for key in ("list", "tuple"):
        if key in t:
            if r > 0.95:
                # not a sequence: wrapped by to_array_types unless no_explicit_cast
                return gen_val(rng, classes, t[key], budget, p_bad, ctx) if rng.random() < 0.6 else {"d": []}
            n = rng.choice([0, 1, 1, 2, 2, 3])
            ctx["stack"].append("list")
            out = {("tu" if rng.random() < 0.25 else "l"): [gen_val(rng, classes, t[key], budget, p_bad, ctx) for _ in range(n)]}
            ctx["stack"].pop()
            return out
    if "dict" in t:
        if r > 0.97:
            return rng.choice([None, tok(GOOD, rng)])
        keys = [0, 1, 2, 7] if t.get("key") == "int" else ["", "a", "b", "0"]
        n = rng.choice([0, 1, 1, 2, 3])
        ks = rng.sample(keys, n)
        ctx["stack"].append("dict")
        out = {"d": [[k, gen_val(rng, classes, t["dict"], budget, p_bad, ctx)] for k in ks]}
        ctx["stack"].pop()
        return out
    args = t["union"]
    pref = [a for a in args if a not in ("leaf", "none")]
    if pref and budget > 0 and r < 0.7:
        return gen_val(rng, classes, rng.choice(pref), budget, p_bad, ctx)
    return gen_val(rng, classes, rng.choice(args), budget, p_bad, ctx)


def gen_random_case(rng, cyc=False):
    classes = gen_decl(rng, limited=True if cyc else None)
    root = rng.randrange(len(classes))
    budget = rng.choice([1, 2, 3, 3, 4, 5, 6])
    p_bad = rng.choice([0.0, 0.0, 0.05, 0.15])
    for _ in range(20):
        ctx = {"stack": [], "cyc": cyc, "refs": 0}
        v = gen_val(rng, classes, {"data": root}, budget, p_bad, ctx)
        if v is not None and "d" in v and (not cyc or ctx["refs"] == 1):
            break
    else:
        if cyc:
            return None
    if not cyc and rng.random() < 0.06:
        classes = [dict(c, opts=dict(c["opts"], override=True)) if k == root else c for k, c in enumerate(classes)]
    entry = rng.choice(["init", "init", "init", "from", "transform"])
    if v is None or "d" not in v or any(not isinstance(k, str) for k, _ in v["d"]):
        entry = rng.choice(["from", "transform"])
    case = {"classes": classes, "root": root, "entry": entry, "value": v, "fam": "cyc/random" if cyc else "random"}
    if not cyc and rng.random() < 0.3:
        case["steps"] = random_steps(rng, classes)
        case["fam"] = "random+assign"
    if cyc:
        case["cyc"] = True
        # the cycle re-enters the same class through the same fields: with unambiguous unions the reading is forced
        # … and the cycle must sit where the conversion reads (not behind item 0 of a sequence standing for a mapping)
        case["cyc_forced"] = not decl_ambiguous(classes) and not ctx.get("ref_unread")
    return case


def nested_union_type(n, shape="list", with_none=False):
    """V(0) = Leaf, V(n) = Union[Leaf, List[V(n-1)]] — a JSON-like type: unions nested through containers, no data class"""
    t = "leaf"
    for i in range(n):
        kind = shape if shape != "mixed" else ("list", "dict", "tuple")[i % 3]
        inner = {kind: t}
        args = ["leaf", inner] if i % 2 == 0 else [inner, "leaf"]
        if with_none:
            args = ["none"] + args
        t = {"union": args}
    return t


def nested_union_value(n, shape, leaf):
    v = leaf
    for i in range(n):
        kind = shape if shape != "mixed" else ("list", "dict", "tuple")[i % 3]
        v = {"d": [["", v]]} if kind == "dict" else ({"tu": [v]} if kind == "tuple" and i % 2 else {"l": [v]})
    return v


def nested_union_case(n, kind, mode=0, shape="list", with_none=False, extra=0, md=None, cyc=False):
    o = {}
    if md is not None:
        o["max_depth"] = md
    if mode & 1:
        o["no_data_loss"] = True
    if mode & 2:
        o["no_explicit_cast"] = True
    classes = [{"opts": o, "fields": [["v", nested_union_type(n, shape, with_none)]]}]
    if cyc:
        # the innermost container contains itself
        inner = {"l": [{"ref": 0}]}
        v = nested_union_value(max(n - 1, 0), shape, inner)
        return {"classes": classes, "root": 0, "entry": "init", "value": {"d": [["v", v]]}, "cyc": True, "cyc_forced": True,
                "fam": "nested-union/cyc"}
    v = nested_union_value(n + extra, shape, {"t": kind})
    return {"classes": classes, "root": 0, "entry": "init", "value": {"d": [["v", v]]}, "fam": "nested-union/" + shape}


def self_sequences():
    """sequences that contain (only) themselves: x = [x], x = [(x,)], x = [[x]]"""
    return {
        "x=[x]": {"l": [{"ref": 0}]},
        "x=[(x,)]": {"l": [{"tu": [{"ref": 1}]}]},
        "x=[[x]]": {"l": [{"l": [{"ref": 1}]}]},
    }


def seqcycle_case(pos, seq, md, mode=0, entry="init"):
    """a cyclic input built from lists / tuples alone, given at position `pos` of a recursive class"""
    ty, wrap = positions()[pos]
    o = {}
    if md is not None:
        o["max_depth"] = md
    if mode & 1:
        o["no_data_loss"] = True
    if mode & 2:
        o["no_explicit_cast"] = True
    classes = [{"opts": o, "fields": [["v", "leaf"], ["nx", ty], ["w", {"list": "leaf"}]]}]
    v = {"d": [["v", {"t": 0}], ["nx", wrap(self_sequences()[seq])]]}
    return {"classes": classes, "root": 0, "entry": entry, "value": v, "cyc": True, "cyc_forced": True,
            "fam": "seqcycle/" + pos}


def wrapped_cycle_case(pos, md, tuple_wrap=False, mode=0):
    """the cycle passes a data class *and* a single-item list / tuple standing for it: d['nx'] = wrap([d])"""
    ty, wrap = positions()[pos]
    o = {"max_depth": md}
    if mode & 1:
        o["no_data_loss"] = True
    classes = [{"opts": o, "fields": [["v", "leaf"], ["nx", ty]]}]
    n = len(_containers_between(wrap))
    inner = {"tu": [{"ref": n + 1}]} if tuple_wrap else {"l": [{"ref": n + 1}]}
    v = {"d": [["v", {"t": 0}], ["nx", wrap(inner)]]}
    return {"classes": classes, "root": 0, "entry": "init", "value": v, "cyc": True, "cyc_forced": not (mode & 1) or True,
            "fam": "wrappedcycle/" + pos}


OPS = ("setattr", "setitem", "update", "ior")


def assign_case(pos, k, md, level, m, op, leaf_kind=GOOD, entry="init", mode=0):
    """parse a chain of k levels, take the instance at `level` (1 = root) and assign to it: m = 0 a scalar to `v`,
    m >= 1 a chain of m levels (wrapped for the position) to `nx`; plus a re-parse of that instance"""
    case = chain_case(pos, k, md, GOOD, entry, mode=mode)
    ty, wrap = positions()[pos]
    if m == 0:
        step = {"op": op, "cls": 0, "nth": level - 1, "field": "v", "value": {"t": leaf_kind}}
    else:
        w = {"d": [["v", {"t": leaf_kind}]]}
        for _ in range(m - 1):
            w = {"d": [["v", {"t": 0}], ["nx", wrap(w)]]}
        step = {"op": op, "cls": 0, "nth": level - 1, "field": "nx", "value": wrap(w)}
    case["steps"] = [step, {"op": "reparse", "cls": 0, "nth": level - 1, "field": 0, "value": None}]
    case["fam"] = "assign/" + pos
    return case


def random_steps(rng, classes):
    steps = []
    for _ in range(rng.choice([1, 1, 2])):
        kx = rng.randrange(len(classes))
        fields = classes[kx]["fields"]
        if rng.random() < 0.12:
            steps.append({"op": "reparse", "cls": kx, "nth": rng.randrange(6), "field": 0, "value": None})
            continue
        if fields and rng.random() < 0.95:
            i = rng.randrange(len(fields))
            ctx = {"stack": [], "cyc": False, "refs": 0}
            w = gen_val(rng, classes, fields[i][1], rng.choice([0, 1, 1, 2, 3, 4]), rng.choice([0.0, 0.0, 0.1]), ctx)
            field = i
        else:
            w, field = tok(GOOD, rng), "zz"
        steps.append({"op": rng.choice(OPS), "cls": kx, "nth": rng.randrange(6), "field": field, "value": w})
    return steps


def mixed_limit_case(pos, root_md, inner_md, k, override=False, cyc=False):
    """a limited root class over a nested recursive class with its own (or no) limit: k levels of the nested class"""
    ty, wrap = positions(1)[pos]
    ro = {"max_depth": root_md}
    if override:
        ro["override"] = True
    io_ = {} if inner_md is None else {"max_depth": inner_md}
    classes = [{"opts": ro, "fields": [["v", "leaf"], ["b", {"data": 1}]]},
               {"opts": io_, "fields": [["v", "leaf"], ["nx", ty]]}]
    if cyc:
        n = len(_containers_between(wrap))
        v = {"d": [["b", {"d": [["v", {"t": 0}], ["nx", wrap({"ref": n})]]}]]}
        return {"classes": classes, "root": 0, "entry": "init", "value": v, "cyc": True, "cyc_forced": True,
                "fam": "cyc/unlimited-below-limited-root"}
    w = {"d": [["v", {"t": 0}]]}
    for _ in range(k - 1):
        w = {"d": [["v", {"t": 0}], ["nx", wrap(w)]]}
    return {"classes": classes, "root": 0, "entry": "init", "value": {"d": [["v", {"t": 0}], ["b", w]]},
            "fam": "mixed-limits/" + ("override/" if override else "") + pos}


def hostile_case(prim, where, h):
    """a constant-size scalar of a rarely used class given where a built-in type is declared"""
    t = "prim:" + prim
    ty = {"field": t, "list-item": {"list": t}, "dict-value": {"dict": t}, "optional": {"union": [t, "none"]}}[where]
    val = {"h": h}
    v = {"field": val, "list-item": {"l": [{"h": "int-0"}, val]}, "dict-value": {"d": [["a", val]]}, "optional": val}[where]
    return {"classes": [{"opts": {}, "fields": [["x", ty]]}], "root": 0, "entry": "init", "value": {"d": [["x", v]]},
            "hostile": True, "fam": "hostile/" + prim}


def own_init_case(pos, k, md, cyc=False):
    """a recursive data class with a user-written __init__ (its parameters are parsed by the wrapped function)"""
    case = chain_case(pos, k, md, cyc=cyc)
    case["classes"] = [dict(c, opts=dict(c["opts"], own_init=True)) for c in case["classes"]]
    case["fam"] = ("cyc/" if cyc else "") + "own-init/" + pos
    return case


def falsy_key_case(key, k, md, keyty="any"):
    """the nested value under a mapping key that looks absent / false: None, False, 0, ''"""
    D = {"data": 0}
    classes = [{"opts": {} if md is None else {"max_depth": md}, "fields": [["v", "leaf"], ["nx", {"dict": D, "key": keyty}]]}]
    v = {"d": [["v", {"t": 0}]]}
    for _ in range(k - 1):
        v = {"d": [["v", {"t": 0}], ["nx", {"d": [[key, v]]}]]}
    return {"classes": classes, "root": 0, "entry": "init", "value": v, "fam": "falsy-key/" + repr(key)}


def exp_case(k, pos="optional", md=None):
    """single invalid leaf at the bottom of k levels"""
    return dict(chain_case(pos, k, md, leaf_kind=BAD), fam="badleaf/" + pos)


def matrix_cases(depths, mds, kinds=(GOOD,), entries=("init",)):
    out = []
    for pos in POS_NAMES:
        for k in depths:
            for md in mds:
                for kind in kinds:
                    for e in entries:
                        out.append(chain_case(pos, k, md, kind, e))
    return out


# ------------------------------------------------------------------------------------------------
# static tie: the anchored statements, read from $UTYPE_REPO with `ast` (nothing imported)
# ------------------------------------------------------------------------------------------------

def _find(tree, *path):
    node = tree
    for name in path:
        for n in ast.walk(node):
            if isinstance(n, (ast.ClassDef, ast.FunctionDef)) and n.name == name:
                node = n
                break
        else:
            return None
    return node


def _norm(n):
    return ast.dump(n, annotate_fields=False, include_attributes=False)


def _src(s):
    return _norm(ast.parse(s).body[0])


def static_obligations(repo) -> list[str]:
    """each anchored statement has the shape the model mirrors; a difference = broken obligation"""
    broken = []
    try:
        opt = ast.parse((repo / "utype/parser/options.py").read_text())
        rule = ast.parse((repo / "utype/parser/rule.py").read_text())
        clsm = ast.parse((repo / "utype/parser/cls.py").read_text())
    except Exception as e:      # pragma: no cover
        return [f"static: cannot read anchored sources: {e}"]

    init = _find(opt, "RuntimeContext", "__init__")
    enter = _find(opt, "RuntimeContext", "enter")
    mk = _find(opt, "Options", "make_context")
    if not init or not enter or not mk:
        return ["static: RuntimeContext.__init__/enter or Options.make_context not found"]
    stmts = [_norm(s) for s in init.body]
    want = {
        "depth inherits from the parent context": "self.depth = context.depth if context else 0",
        "max_depth check": "if self.options.max_depth and self.depth > self.options.max_depth:\n"
                           "    raise exc.DepthExceedError(max_depth=self.options.max_depth, depth=self.depth, type=cls)",
    }
    for what, s in want.items():
        if _src(s) not in stmts:
            broken.append(f"static: options.py RuntimeContext.__init__: `{what}` is no longer the modelled statement")
    # the level accounting: exactly one statement increments self.depth, under the modelled condition
    accounting = [s for s in init.body if "depth" in _norm(s) and isinstance(s, ast.If) and "routes" in _norm(s)]
    accepted = [
        # after fixes/C18-*.patch
        "if not unprovided(route):\n    self.routes.append(route)\nelif cls is not None:\n    self.depth += 1",
    ]
    if len(accounting) != 1 or _norm(accounting[0]) not in [_src(a) for a in accepted]:
        broken.append("static: options.py RuntimeContext.__init__: the route/level accounting differs from the modelled "
                      "`route given → append; else data-class context → depth += 1`")
    ret = [s for s in enter.body if isinstance(s, ast.Return)]
    if len(ret) != 1 or _norm(ret[0].value) != _norm(ast.parse(
            "self.__class__(context=self, cls=self.cls, route=route, force_error=self.force_error, "
            "options=self.options & options, error_hooks=self.error_hooks)").body[0].value):
        broken.append("static: options.py RuntimeContext.enter no longer builds the child context as modelled")
    mret = [s for s in mk.body if isinstance(s, ast.Return)]
    if len(mret) != 1 or _norm(mret[0].value) != _norm(ast.parse(
            "RuntimeContext(context=context, cls=cls, options=options, force_error=force_error)").body[0].value):
        broken.append("static: options.py Options.make_context no longer builds a route-less context as modelled")

    lp = _find(rule, "LogicalType", "logical_parse")
    if not lp:
        broken.append("static: rule.py LogicalType.logical_parse not found")
    else:
        d = _norm(lp)
        for what, s in {
            "stage-2 guard": "not context.options.no_data_loss or not context.options.no_explicit_cast",
            "stage-3 guard": "not context.options.no_data_loss and not context.options.no_explicit_cast",
            # since e7d1ed5 the two trial stages also pin the invalid_* policies to THROW (the model keeps them at THROW throughout)
            "trial-stage policies": "dict(invalid_items=utype.Options.THROW, invalid_keys=utype.Options.THROW, "
                                    "invalid_values=utype.Options.THROW)",
            "stage-2 options": "utype.Options(no_data_loss=True, no_explicit_cast=True, **trial)",
            "stage-3 options": "utype.Options(no_data_loss=True, invalid_items=utype.Options.THROW, "
                               "invalid_keys=utype.Options.THROW, invalid_values=utype.Options.THROW)",
            "stage-2 context": "context.enter(cls.combinator, options=strict_options)",
            "stage-3 context": "context.enter(cls.combinator, options=no_loss_options)",
            "stage-4 context": "context.enter(cls.combinator)",
        }.items():
            if _norm(ast.parse(s).body[0].value) not in d:
                broken.append(f"static: rule.py logical_parse: {what} `{s}` not found")
    try:
        schm = ast.parse((repo / "utype/schema.py").read_text())
    except Exception as e:      # pragma: no cover
        schm = None
        broken.append(f"static: cannot read utype/schema.py: {e}")
    if schm is not None:
        want_ctx = _src("context = self.__parser__.make_context(force_error=True)")
        for fn in ("__field_setter__", "__setitem__"):
            node = _find(schm, "Schema", fn)
            made = [_norm(n) for n in ast.walk(node) if isinstance(n, ast.Assign) and "make_context" in _norm(n)] if node else []
            if not made or any(m != want_ctx for m in made):
                broken.append(f"static: schema.py Schema.{fn} no longer starts from a fresh context "
                              "`self.__parser__.make_context(force_error=True)`")
    tdc = _find(clsm, "transform_dataclass")
    if not tdc:
        broken.append("static: cls.py transform_dataclass not found")
    else:
        first = tdc.body[0] if tdc.body else None
        # (since ea05768 inside a guard: a sequence subclass whose own __len__ / __getitem__ raises is a ParseError —
        #  unchanged for well-behaved lists and tuples)
        want = ("if isinstance(data, (list, tuple)) and not transformer.options.no_explicit_cast:\n"
                "    try:\n"
                "        if data:\n"
                "            if transformer.options.no_data_loss and len(data) > 1:\n"
                "                raise TypeError\n"
                "            data = data[0]\n"
                "            if type(data) == cls:\n"
                "                return data\n"
                "    except Exception as e:\n"
                "        raise exc.ParseError(type=cls, value=data, origin_exc=e) from e")
        if first is None or _norm(first) != _src(want):
            broken.append("static: cls.py transform_dataclass: the single-item sequence unwrapping differs from the modelled "
                          "`if sequence and not no_explicit_cast: if data: (no_data_loss and len > 1 → TypeError); data = data[0]`")
    idc = _find(clsm, "init_dataclass")
    if not idc:
        broken.append("static: cls.py init_dataclass not found")
    else:
        d = _norm(idc)
        for s in ("options.make_context(cls, context=context)", "parser.make_context(context=context)"):
            if _norm(ast.parse(s).body[0].value) not in d:
                broken.append(f"static: cls.py init_dataclass: `{s}` not found")
    return broken


# ------------------------------------------------------------------------------------------------
# the check
# ------------------------------------------------------------------------------------------------

class C18(Check):
    prop = "C18"
    props_modules = ["Utv.Props.C18"]
    driver = "C18"
    impl = "harness.c18:impl"
    case_timeout = 25.0
    rule = ("declarations: 1-3 (mutually) recursive Schema classes built from generated source, fields over "
            "leaf | None | data class | List | Tuple[..., ...] | Dict[str|int, ·] | Union, per-class max_depth in {None,1..5}, "
            "no_data_loss / no_explicit_cast / data_first_search; inputs: (a) the position x depth x max_depth matrix "
            "(22 positions incl. list index 0/1/last, dict key ''/'a'/0/1, every union branch, Optional, nested containers), "
            "(b) type-directed random values with invalid / preference-dependent leaves, shape mismatches, unknown keys, "
            "(c) cyclic inputs — through data-class fields, through single-item lists / tuples standing for a mapping, and built "
            "from lists / tuples alone (x=[x], x=[(x,)], x=[[x]]) at every position —, (d) a single invalid leaf below k levels, "
            "(e) JSON-like unions nested through containers without a data class, depth 1..12, valid / lossy / invalid leaf; "
            "(g) mapping keys None / False / 0 / '' under Dict[Any, .], data classes with a user-written __init__, and constant-size "
            "hostile scalars (non-finite / huge-exponent Decimals and floats, huge ints, exponent strings) against every built-in leaf "
            "type (a killed case = unbounded cost); "
            "entry points K(**d), K.__from__, type_transform; (f) second steps after the parse: setattr / setitem / update / |= on the "
            "n-th instance of the parsed tree at every level (also on the unlimited twin and on a directly constructed instance) "
            "and re-parse of sub-values taken out of the tree. "
            "Every case runs with the declared limits and with all limits removed.  non-trivial = the input reaches a nested "
            "data class (result or input nesting >= 2) or is cyclic; distinct by (declaration, input, entry)")
    assumptions = [
        "the leaf converter is the harness' counting converter (token classes mod 4); the theorems are for every leaf behaviour",
        "a cyclic Python object is represented in the model by a finite unfolding deeper than any level the limited parser can reach",
        "outside the modelled fragment (sequences of key/value pairs given to a data class / Dict type, non-string keys given to "
        "a data class, K.__from__(sequence)) cases are spec-swept but not compared with the model",
    ]
    budget = {"quick": 1400, "thorough": 30000}
    stats: dict = {}
    search_budget = {"quick": 2500, "thorough": 20000}

    # ---- generators ----
    def cases(self, tier, rng, n):
        out = []
        if tier == "quick":
            out += matrix_cases(depths=(1, 2, 3, 4), mds=(None, 1, 2, 3))
            out += [chain_case(p, k, md, GOOD, e) for p in ("direct", "list-0", "dict-empty-key", "optional")
                    for k in (1, 2, 3) for md in (1, 2) for e in ("from", "transform")]
            out += [chain_case(p, 1, md, cyc=True) for p in POS_NAMES if p != "wrapped-scalar" for md in (1, 3)]
            out += [exp_case(k) for k in range(1, 8)]
            out += [exp_case(k, "list-opt-0") for k in (2, 4, 6)]
            # mapping keys that look absent / false; classes with a user-written __init__; hostile scalars for built-in leaf types
            out += [falsy_key_case(key, k, md) for key in (None, False, 0, "", "a", 7) for md in (2, 3) for k in (md - 1, md, md + 1)]
            out += [own_init_case(p, k, md) for p in ("direct", "optional", "list-0", "dict-key", "union-mid") for md in (1, 2, 3)
                    for k in (md, md + 1, md + 3)]
            out += [own_init_case(p, 1, 2, cyc=True) for p in ("direct", "list-0")]
            # quick samples the hostile matrix (thorough runs all of it): every scalar against datetime / date / int, the
            # non-finite and huge-exponent ones against the other built-in types
            out += [hostile_case(prim, where, h) for prim in ("datetime", "date") for h in HOSTILE_NAMES
                    for where in ("field", "list-item")]
            out += [hostile_case("int", "field", h) for h in HOSTILE_NAMES]
            out += [hostile_case(prim, "field", h) for prim in ("timedelta", "time", "float", "Decimal", "bool", "str", "UUID")
                    for h in ("dec-inf", "dec-neg-inf", "dec-nan", "dec-snan", "dec-huge-exp", "dec-tiny-exp", "float-inf",
                              "float-nan", "int-huge", "str-huge-exp", "str-long-digits")]
            # a limited root over a nested class with its own / no limit (known finding limit-not-inherited), and with override
            out += [mixed_limit_case(p, rmd, imd, k, ov) for p in ("direct", "optional", "list-0", "dict-key")
                    for rmd, imd in ((1, None), (2, None), (2, 4), (3, 1)) for k in (1, 2, 4) for ov in (False, True)]
            # second steps: assignment (attribute / item / update / |=) on the instance at every level of a parsed tree
            out += [assign_case(p, k, md, lv, m, OPS[(k + lv + m + i) % 4]) for i, p in enumerate(POS_NAMES)
                    for md, k in ((3, 3), (3, 2), (2, 2), (None, 3)) for lv in range(1, k + 1) for m in (0, 1, 2)]
            out += [assign_case("optional", 3, 3, lv, m, op, kind, e) for lv in (1, 2, 3) for m in (0, 1) for op in OPS
                    for kind in (GOOD, BAD) for e in ("from", "transform")]
            # unions nested through containers, no data class in between: depth 2..12
            out += [nested_union_case(n, kind, mode) for n in (2, 4, 6, 8, 10, 12) for kind in (BAD, LOSSY, CAST, GOOD)
                    for mode in (0, 1, 2, 3)]
            out += [nested_union_case(n, BAD, mode, shape) for n in (3, 6, 9, 12) for mode in (0, 1)
                    for shape in ("dict", "tuple", "mixed")]
            out += [nested_union_case(n, kind, mode, "list", with_none=True, extra=e) for n in (5, 9) for kind in (BAD, LOSSY)
                    for mode in (0, 1) for e in (-1, 0, 1)]
            out += [nested_union_case(n, GOOD, mode, cyc=True) for n in (1, 2, 5, 8, 12) for mode in (0, 1, 2)]
            # cyclic inputs built from lists / tuples alone, and cycles through single-item sequences
            out += [seqcycle_case(p, q, None) for p in ("direct", "optional", "list-0", "dict-empty-key")
                    for q in self_sequences()]
            out += [seqcycle_case(p, "x=[(x,)]", 2) for p in ("union-mid", "tuple-1", "opt-list-0")]
            out += [seqcycle_case(p, "x=[x]", 2, mode=m, entry=e) for p in ("direct", "list-1")
                    for m, e in ((1, "init"), (2, "transform"), (3, "init"))]
            out += [wrapped_cycle_case(p, md, tw) for p in POS_NAMES for md in (1, 3) for tw in (False, True)]
        elif tier == "thorough":
            out += [falsy_key_case(key, k, md, kt) for key in (None, False, 0, "", "a", 7) for md in (1, 2, 3, 4)
                    for k in range(1, md + 3) for kt in ("any",)]
            out += [own_init_case(p, k, md) for p in POS_NAMES for md in (1, 2, 3, 4) for k in range(1, md + 4)]
            out += [own_init_case(p, 1, md, cyc=True) for p in POS_NAMES if p != "wrapped-scalar" for md in (1, 3)]
            out += [hostile_case(prim, where, h) for prim in PRIMS for h in HOSTILE_NAMES
                    for where in ("field", "list-item", "dict-value", "optional")]
            out += [mixed_limit_case(p, rmd, imd, k, ov) for p in POS_NAMES for rmd in (1, 2, 3) for imd in (None, 1, 2, 4)
                    for k in (1, 2, 3, 5) for ov in (False, True)]
            out += [mixed_limit_case(p, 3, None, 1, cyc=True) for p in ("optional", "list-opt-0")]
            out += [assign_case(p, k, md, lv, m, op, kind, "init", mode) for p in POS_NAMES for md in (1, 2, 3, 4, None)
                    for k in (1, 2, 3, 4) if md is None or k <= md for lv in range(1, k + 1) for m in (0, 1, 2, 3)
                    for op, kind, mode in (("setattr", GOOD, 0), ("setitem", GOOD, 1), ("update", BAD, 0), ("ior", LOSSY, 2))]
            out += [nested_union_case(n, kind, mode, shape) for n in range(1, 13) for kind in (BAD, LOSSY, CAST, GOOD)
                    for mode in (0, 1, 2, 3) for shape in ("list", "dict", "tuple", "mixed")]
            out += [nested_union_case(n, kind, mode, "list", with_none=True, extra=e) for n in range(1, 13)
                    for kind in (BAD, LOSSY) for mode in (0, 1, 2, 3) for e in (-1, 0, 1)]
            out += [nested_union_case(n, GOOD, mode, cyc=True, md=md) for n in range(1, 13) for mode in (0, 1, 2, 3)
                    for md in (None, 2)]
            out += [seqcycle_case(p, q, md, mode=m, entry=e) for p in POS_NAMES for q in self_sequences()
                    for md in (None, 1, 3) for m in (0, 1, 2, 3) for e in ("init", "transform")]
            out += [wrapped_cycle_case(p, md, tw, mode=m) for p in POS_NAMES for md in (1, 2, 3, 5) for tw in (False, True)
                    for m in (0, 1)]
            out += matrix_cases(depths=range(1, 9), mds=(None, 1, 2, 3, 4, 5), kinds=(GOOD, BAD))
            out += matrix_cases(depths=(1, 2, 3, 4), mds=(1, 2, 3), entries=("from", "transform"))
            out += [chain_case(p, k, md, GOOD, "init", mode=m, dfs=d) for p in POS_NAMES for k in (2, 3, 4)
                    for md in (2, 3) for m in (1, 2, 3) for d in (False, True)]
            out += [chain_case(p, 1, md, cyc=True, entry=e) for p in POS_NAMES if p != "wrapped-scalar"
                    for md in (1, 2, 3, 4, 5) for e in ("init", "from", "transform")]
            out += [exp_case(k, p) for k in range(1, 9) for p in ("optional", "optional-rev", "union-mid", "list-opt-0", "opt-list-0")]
        else:   # search: random only, around everything
            pass
        n_cyc = n // 8
        for _ in range(n - n_cyc):
            out.append(gen_random_case(rng))
        for _ in range(n_cyc):
            c = gen_random_case(rng, cyc=True)
            if c is not None:
                out.append(c)
        return out

    def model_line(self, case):
        line = {"classes": case["classes"], "root": case["root"], "entry": case.get("entry", "init"),
                "value": norm(case["value"]), "legacy": False}
        if case.get("steps"):
            line["steps"] = [dict(st, value=norm(st["value"])) for st in case["steps"] if st["op"] != "reparse"]
        if case.get("cyc"):
            lims = [c.get("opts", {}).get("max_depth") or 0 for c in case["classes"]]
            # one turn of a cycle passes a data-class level (or, read as a plain container, a level of a finite
            # type): the limited parser cannot follow more than max_depth + 1 (+ type height) turns
            line["value"] = unfold(norm(case["value"]), max((max(lims) + 3) * 2, decl_height(case["classes"]) + 3))
            line["skip_unl"] = True
        return line

    def in_fragment(self, case):
        v = self.model_line(case)["value"]          # normalised; for a cyclic input the unfolding the model sees
        if case.get("entry") == "from" and v is not None and "l" in v:
            return False        # K.__from__(sequence) skips transform_dataclass: not modelled
        if case.get("fam") == "cyc/unlimited-below-limited-root":
            return False        # a cycle through a class without limit is not a finite unfolding: the model cannot represent it
        if case.get("hostile") or any(c.get("opts", {}).get("own_init") for c in case["classes"]):
            return False        # built-in leaf types with hostile scalars; classes with a user-written __init__: not modelled
        if has_override(case["classes"]):
            return False        # Options(override=True): the root's options replace the nested classes' own: not modelled
        return modelled(case["classes"], {"data": case["root"]}, v)

    # ---- model vs implementation ----
    @staticmethod
    def _same(io, mo):
        if "ok" in io:
            return "ok" in mo and io["ok"] == mo["ok"] and io["cost"] == mo["cost"]
        if "err" in io:
            return mo.get("err") == io["err"] and io["cost"] == mo["cost"]
        return False

    def compare(self, case, io, mo):
        if not isinstance(mo, dict) or "lim" not in mo:
            return f"driver: {mo}"
        if not self.in_fragment(case):
            self.stats["outside_fragment"] = self.stats.get("outside_fragment", 0) + 1
            return None
        if not isinstance(io, dict) or "lim" not in io:
            return f"impl: {io}"
        self.stats["compared"] = self.stats.get("compared", 0) + 1
        if case.get("cyc"):
            self.stats["cyclic_compared"] = self.stats.get("cyclic_compared", 0) + 1
        for which in ("lim", "unl"):
            if which not in io:
                continue
            if which not in mo:
                return f"driver gave no `{which}` answer"
            if not self._same(io[which], mo[which]):
                return (f"{'declared limits' if which == 'lim' else 'limits removed'}: implementation "
                        f"{_short(io[which])} vs model {_short(mo[which])}")
        msteps = iter(mo.get("steps") or [])
        for st, ist in zip(case.get("steps") or [], io.get("steps") or []):
            if st["op"] == "reparse":
                continue
            mst = next(msteps, None)
            if mst is None:
                return "driver gave no answer for an assignment step"
            if not modelled(case["classes"], {"data": st["cls"]}, {"d": [[step_field(case["classes"], st), norm(st["value"])]]}
                            if step_field(case["classes"], st) != "zz" else None):
                continue
            for which in ("lim", "unl"):
                if ist.get(which) is None and mst.get(which) is None:
                    continue
                if ist.get(which) is None or mst.get(which) is None or not self._same(ist[which], mst[which]):
                    return (f"assignment {st['op']} ({'declared limits' if which == 'lim' else 'limits removed'}): implementation "
                            f"{_short(ist.get(which))} vs model {_short(mst.get(which))}")
        return None

    # ---- the property, on what the implementation returned ----
    def spec(self, case, io, mo):
        if isinstance(io, dict) and ("hang" in io or "crash" in io):
            what = "does not end (killed after %ds)" % int(self.case_timeout) if "hang" in io else "kills the interpreter"
            if case.get("cyc"):
                return f"cyclic input not rejected: the parse {what}"
            return f"cost: the parse {what} on a finite input of size {vsize(norm(case['value']))}"
        if not isinstance(io, dict) or "lim" not in io:
            return f"no verdict from the implementation: {io}"
        if case.get("hostile"):
            return None         # constant-size input of a built-in leaf type: the demand is that the conversion ends (above)
        classes, lim, unl = spec_classes(case["classes"], case["root"]), io["lim"], io.get("unl")
        # -- depth limit exact --
        if "ok" in lim and not res_within(classes, lim["ok"]):
            return ("accepted a value whose data-class nesting exceeds max_depth "
                    f"(result nesting {res_depth(lim['ok'])}, limits {[limit_of(classes, k) for k in range(len(classes))]})")
        if "ok" in lim and not res_within_inherited(classes, lim["ok"]):
            return ("inherited-limit: accepted a value in which an instance sits deeper than the max_depth of an enclosing class "
                    f"allows (result nesting {res_depth(lim['ok'])}, limits {[limit_of(classes, k) for k in range(len(classes))]}): "
                    "a class' limit is not applied to nested classes that bring their own options")
        if case.get("cyc_forced") and "ok" in lim:
            return "a cyclic input was accepted"
        if case.get("cyc") and "escape" in lim:
            return f"a cyclic input under max_depth ended in {lim['escape']} instead of a rejection"
        if unl is not None:
            if "ok" in lim and "ok" not in unl:
                return "accepted with max_depth but rejected without any limit"
            if "ok" in unl and res_within(classes, unl["ok"]) and lim.get("ok") != unl["ok"]:
                got = "rejected" if "ok" not in lim else "parsed differently"
                return (f"nesting depth {res_depth(unl['ok'])} is within max_depth "
                        f"{[limit_of(classes, k) for k in range(len(classes))]} but the value is {got} ({_short(lim)})")
            if "ok" in lim and "ok" in unl and lim["ok"] != unl["ok"] and not decl_ambiguous(classes):
                return "max_depth changed the result of an accepted value"
        # -- second steps: assignments on instances taken from the parsed tree, re-parses of its sub-values --
        for st, ist in zip(case.get("steps") or [], io.get("steps") or []):
            why = self.spec_step(spec_classes(case["classes"], st["cls"]), st, ist)
            if why:
                return why
        # -- cost bounded --
        value = norm(case["value"])
        probe = unfold(value, max(8, decl_height(classes) + 2)) if case.get("cyc") else value
        for which, o in (("declared limits", lim), ("limits removed", unl)):
            why = self.cost_verdict(classes, probe, o, which)
            if why:
                return why
        return None

    @staticmethod
    def cost_verdict(classes, probe, o, which):
        if o is None:
            return None
        if has_override(classes):
            # under override a union stage cannot tighten the preferences (`__and__` returns the overriding options):
            # the three stages repeat per union level of the *declaration* — a constant of the declaration
            bound = cost_bound(classes, probe) * 3 ** decl_height(classes)
            formula = "3^height*weight*size*(depth+1)^2"
        elif decl_data_under_union(classes):
            # region of the known finding: a generous polynomial
            bound, formula = cost_bound(classes, probe), "weight*size*(depth+1)^2/2"
        else:
            # no union restarts its stages below it: the Lean theorem C18_cost_poly_partial gives weight*size for the
            # unchanged code; the oracle allows twice that
            bound, formula = 2 * decl_weight(classes) * vsize(probe), "2*weight*size"
        if o.get("cost", 0) > bound:
            return (f"cost: {o['cost']} leaf conversions ({which}) for an input of size {vsize(probe)}, "
                    f"depth {vdepth(probe)} exceeds {formula} = {bound}")
        return None

    def spec_step(self, classes, st, ist):
        lim, unl, fresh = ist.get("lim"), ist.get("unl"), ist.get("fresh")
        if lim is None:
            return None
        where = "an instance taken out of the parsed tree" if lim.get("nested") else "a directly constructed instance"
        if st["op"] == "reparse":
            # a sub-value of an accepted tree has nesting depth <= d: parsed on its own it must not be refused for its
            # depth (whether parsing a *result* again gives the same result is another property's business)
            if lim.get("err") == "depth" or "escape" in lim:
                return f"a sub-value taken out of an accepted tree is refused for its depth when parsed on its own ({_short(lim)})"
            return None
        fname = step_field(classes, st)
        limits = [limit_of(classes, k) for k in range(len(classes))]

        def sub(r):       # the instance with the assigned field: the instance is level 1 of what the setter parses
            return {"k": st["cls"], "f": [[fname, r]]}

        if "escape" in lim:
            return f"{st['op']} on {where} ended in {lim['escape']} instead of a verdict"
        if "ok" in lim and not res_within(classes, sub(lim["ok"])):
            return (f"{st['op']} on {where} accepted a value whose data-class nesting (with the instance) "
                    f"{1 + res_depth(lim['ok'])} exceeds max_depth {limits}")
        if unl is not None:
            if "ok" in lim and "ok" not in unl:
                return f"{st['op']} accepted with max_depth but rejected without any limit"
            if "ok" in unl and res_within(classes, sub(unl["ok"])) and ("ok" not in lim or lim["ok"] != unl["ok"]):
                return (f"{st['op']} on {where}: the assigned value has nesting depth {res_depth(unl['ok'])} (with the instance "
                        f"{1 + res_depth(unl['ok'])}), within max_depth {limits}, but is {_short(lim)}")
        if fresh is not None and lim.get("nested"):
            a = ("ok", lim["ok"]) if "ok" in lim else ("rejected",)
            b = ("ok", fresh["ok"]) if "ok" in fresh else ("rejected",)
            if a != b:
                return (f"{st['op']}: the same assignment is {_short(lim)} on an instance taken out of a parsed tree and "
                        f"{_short(fresh)} on a directly constructed one — the limit depends on where the instance came from")
        probe = {"d": [[fname, norm(st["value"])]]}
        for which, o in (("assignment, declared limits", lim), ("assignment, limits removed", unl)):
            why = self.cost_verdict(classes, probe, o, which)
            if why:
                return why
        return None

    def classify(self, case, io, why):
        if why.startswith("cost:") and decl_data_under_union(case["classes"]):
            return "union-retries-exponential"
        if why.startswith("inherited-limit:") and not has_override(case["classes"]) and mixed_limits(case["classes"]):
            return "limit-not-inherited"
        if why.startswith("cyclic input not rejected") and case.get("fam") == "cyc/unlimited-below-limited-root":
            return "limit-not-inherited"
        return None

    def neighbours(self, case, rng):
        out = []
        for e in ("init", "from", "transform"):
            if e != case.get("entry"):
                out.append(dict(case, entry=e))
        for md in (None, 1, 2, 3, 4):
            cl = [dict(c, opts=dict({k: v for k, v in c.get("opts", {}).items() if k != "max_depth"},
                                    **({"max_depth": md} if md is not None else {}))) for c in case["classes"]]
            if case.get("cyc") and md is None:
                continue
            out.append(dict(case, classes=cl))
        fam = case.get("fam", "")
        if fam.startswith("chain/") or fam.startswith("badleaf/"):
            pos = fam.split("/", 1)[1]
            for k in range(1, 7):
                out.append(chain_case(pos, k, case["classes"][0].get("opts", {}).get("max_depth")))
        return out

    def key(self, case, io):
        if case.get("cyc") or dict_nesting(norm(case["value"])) >= 2 or case.get("fam", "").startswith("nested-union") \
                or case.get("steps"):
            return json.dumps([case["classes"], case["value"], case.get("entry"), case.get("steps")], sort_keys=True)
        return None

    def distribution(self, case, io):
        lim = io.get("lim", {}) if isinstance(io, dict) else {}
        verdict = "ok" if "ok" in lim else lim.get("err") or ("escape" if "escape" in lim else "?")
        mds = sorted({str(c.get("opts", {}).get("max_depth")) for c in case["classes"]})
        return f"{case.get('fam', '?')}|md={','.join(mds)}|{case.get('entry', 'init')}|{verdict}"

    def extra_static(self, tier):
        return static_obligations(REPO)

    def finish_evidence(self, ev, tier):
        ev["coverage"]["exhaustive"] = False
        ev["coverage"]["fragment"] = dict(self.stats)
        ev["coverage"]["matrix"] = ("position x depth x max_depth matrix enumerated completely: 22 positions x depth 1..%s x max_depth %s"
                                    % (("4", "{None,1,2,3}") if tier == "quick" else ("8", "{None,1..5}, good and invalid bottom leaf")))


def _short(o):
    if o is None:
        return "None"
    if "ok" in o:
        if isinstance(o["ok"], bool):
            return f"ok(same={o['ok']}, cost {o.get('cost')})"
        return f"ok(nesting {res_depth(o['ok'])}, cost {o.get('cost')})"
    if "err" in o:
        return f"{o['err']}-error(cost {o.get('cost')})"
    return json.dumps(o)[:80]


CHECK = C18()
