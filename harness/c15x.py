import json, warnings
def impl(case):
    warnings.simplefilter('ignore')
    from utype import Options, type_transform
    from utype.specs.json_schema.parser import JsonSchemaParser
    from utype.utils.encode import JSONEncoder
    from utype.utils.exceptions import ParseError
    strict = Options(no_explicit_cast=True, no_data_loss=True)
    try:
        T = JsonSchemaParser(case['schema'])()
    except Exception as e:
        return {'build': type(e).__name__, 'msg': str(e)[:200]}
    outs = []
    for v in case['inputs']:
        try:
            r = type_transform(v, T, options=strict)
            outs.append({'ok': json.loads(json.dumps(r, cls=JSONEncoder))})
        except Exception as e:
            outs.append({'err': 'ParseError' if isinstance(e, ParseError) else type(e).__name__})
    return {'build': 'ok', 'outs': outs, 'type': repr(T)[:200]}
