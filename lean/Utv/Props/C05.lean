import Utv.Model.C05Spec
/-! C05 — placeholder while the pipeline is brought up (replaced by the refinement theorems). -/
namespace Utv.C05

theorem C05_dget_dset {α : Type} (k k' : Key) (v : α) (d : List (Key × α)) :
    dget k (dset k' v d) = if k' = k then some v else dget k d := by
  induction d with
  | nil => simp [dset, dget]
  | cons x xs ih =>
    obtain ⟨a, b⟩ := x
    simp only [dset]
    by_cases h : a = k'
    · subst h; simp only [if_true, dget]
    · simp only [h, if_false, dget, ih]
      by_cases h2 : a = k
      · subst h2; simp [h]
      · simp [h2]

end Utv.C05
