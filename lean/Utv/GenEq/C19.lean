import Utv.GenEq.Support
import Utv.Gen.Field
import Utv.Gen.Functional
import Utv.Model.C19
/-!
C19 — T1 obligation: `Field.ci` of the heap model is the recorded set-up decision, and the regenerated
`ParserField.is_case_insensitive` answers exactly that — for *every* options object of the parse (so the options of
a subclass or of the running parse play no part: `keyMatches` may read `f.ci` alone).
-/
namespace Utv.GenEq.C19
open Utv.Obj Utv.C19 Utv.Gen

/-- a `ParserField` after `setup` (only the attributes `is_case_insensitive` can reach; `own` = its own
`case_insensitive=`, whatever it is) -/
def encField (f : C19.Field) (own : OVal Unit) : OVal Unit :=
  .obj "ParserField" [("setup_case_insensitive", .bool f.ci), ("case_insensitive", own)]

theorem C19_gen_is_case_insensitive (W : World Unit) (f : C19.Field) (own options : OVal Unit) :
    Field.is_case_insensitive W (encField f own) options = .ok (.bool f.ci) := by
  gen_obligation "C19_gen_is_case_insensitive: the regenerated code (Utv.Gen) is no longer equal to the hand model here" by
    obj_simp [Field.is_case_insensitive, encField, getattr, lookupAttr, OVal.isNone]

/-! ### `multi` / `copy_value` (utils/functional.py) — the heap model's `copyValue` rebuilds exactly the kinds the
regenerated code rebuilds, with the class the regenerated code gives the result.

`CVal` (the value type of the T1 translation) knows the builtin container class at every level and nothing about
identity; an object of the heap model is seen through `isinstance`, i.e. an instance of a user subclass of `list`
is a `list` for `multi` (that is what `isinstance(f, (list, …))` in the source says — `CV.isinstance`).  A change
of the test (`type(f) in (…)`), of the class list, or of the way the result is built changes the generated text
and breaks these obligations; what it does to subclass instances is then found by the correspondence run, whose
defaults include instances of user subclasses of every container kind. -/

open Utv.C03C in
/-- the class `multi` / `isinstance(.., dict)` see -/
def cclsOf (k : Kind) : CCls :=
  match k with
  | .inst _ true => .dict          -- a Schema instance is a dict
  | _ =>
  match k.base with
  | .list => .list | .tuple => .tuple | .set => .set | .fset => .frozenset | .dict => .dict
  | _ => .other

open Utv.C03C in
/-- one level of a heap-model object, children already translated -/
def encNode (k : Kind) (xs : List CVal) : CVal :=
  match cclsOf k with
  | .dict => .dict (xs.map (fun _ => .atom 0)) xs
  | .other => .atom 0
  | c => .seq c xs

/-- `Kind.copied` is the regenerated test `multi(data) or isinstance(data, dict)` -/
theorem C19_gen_copied_iff_multi_or_dict (k : Kind) (xs : List C03C.CVal) :
    k.copied = (Functional.multi (encNode k xs) || C03C.CV.isinstance (encNode k xs) [.dict]) := by
  gen_obligation "C19_gen_copied_iff_multi_or_dict: utils/functional.py multi()/copy_value no longer test what the heap model's Kind.copied says" by
    cases k with
    | usr b => cases b <;> simp [Kind.copied, Kind.base, encNode, cclsOf, Functional.multi, C03C.CV.isinstance, C03C.CV.typeOf]
    | inst c b => cases b <;> simp [Kind.copied, Kind.base, encNode, cclsOf, Functional.multi, C03C.CV.isinstance, C03C.CV.typeOf]
    | _ => simp [Kind.copied, Kind.base, encNode, cclsOf, Functional.multi, C03C.CV.isinstance, C03C.CV.typeOf]

/-- what is not rebuilt is handed back as it is (`return data`) — whatever the recursive calls would do -/
theorem C19_gen_not_copied_returns_argument (W : C03C.World) (rec : C03C.CVal → C03C.M C03C.CVal) (k : Kind)
    (xs : List C03C.CVal) (h : k.copied = false) :
    Functional.copy_value_step W rec (encNode k xs) = .ok (encNode k xs) := by
  gen_obligation "C19_gen_not_copied_returns_argument: copy_value no longer returns other objects unchanged" by
    cases k with
    | usr b => cases b <;> simp_all [Kind.copied, Kind.base, encNode, cclsOf, Functional.copy_value_step, Functional.multi,
        C03C.CV.isinstance, C03C.CV.typeOf, pure, Except.pure, bind, Except.bind]
    | inst c b => cases b <;> simp_all [Kind.copied, Kind.base, encNode, cclsOf, Functional.copy_value_step, Functional.multi,
        C03C.CV.isinstance, C03C.CV.typeOf, pure, Except.pure, bind, Except.bind]
    | _ => simp_all [Kind.copied, Kind.base, encNode, cclsOf, Functional.copy_value_step, Functional.multi,
        C03C.CV.isinstance, C03C.CV.typeOf, pure, Except.pure, bind, Except.bind]

/-- a sequence-like object is rebuilt by calling its class on the copies of its items: every item goes through the
recursive call (nothing nested is shared), and the class is the object's own (`type(data)(…)`) -/
theorem C19_gen_seq_rebuilt_from_copies (W : C03C.World) (rec : C03C.CVal → C03C.M C03C.CVal) (k : Kind)
    (xs : List C03C.CVal) (h : k.isSeq = true) :
    Functional.copy_value_step W rec (encNode k xs)
      = (xs.mapM rec >>= fun ys => C03C.CV.construct W (cclsOf k) ys) := by
  gen_obligation "C19_gen_seq_rebuilt_from_copies: copy_value no longer rebuilds a list/set/tuple from the copies of its items" by
    cases k with
    | usr b => cases b <;> simp_all [Kind.isSeq, Kind.base, encNode, cclsOf, Functional.copy_value_step, Functional.multi,
        C03C.CV.isinstance, C03C.CV.typeOf, C03C.CV.iter, pure, Except.pure, bind, Except.bind]
    | inst c b => cases b <;> simp_all [Kind.isSeq, Kind.base, encNode, cclsOf, Functional.copy_value_step, Functional.multi,
        C03C.CV.isinstance, C03C.CV.typeOf, C03C.CV.iter, pure, Except.pure, bind, Except.bind]
    | _ => simp_all [Kind.isSeq, Kind.base, encNode, cclsOf, Functional.copy_value_step, Functional.multi,
        C03C.CV.isinstance, C03C.CV.typeOf, C03C.CV.iter, pure, Except.pure, bind, Except.bind]

/-- a dict (or dict subclass) is rebuilt as a *plain* dict with the same keys and copied values (`Kind.rebuilt`) -/
theorem C19_gen_dict_rebuilt_from_copies (W : C03C.World) (rec : C03C.CVal → C03C.M C03C.CVal) (k : Kind)
    (xs : List C03C.CVal) (h : k.base = .dict) :
    Functional.copy_value_step W rec (encNode k xs)
      = (xs.mapM rec >>= fun ys => pure (C03C.CVal.dict (xs.map (fun _ => .atom 0)) ys)) := by
  gen_obligation "C19_gen_dict_rebuilt_from_copies: copy_value no longer rebuilds a dict from the copies of its values" by
    cases k with
    | usr b => cases b <;> simp_all [Kind.base, encNode, cclsOf, Functional.copy_value_step, Functional.multi,
        C03C.CV.isinstance, C03C.CV.typeOf, C03C.CV.dictMapValues, pure, Except.pure, bind, Except.bind]
    | inst c b => cases b <;> simp_all [Kind.base, encNode, cclsOf, Functional.copy_value_step, Functional.multi,
        C03C.CV.isinstance, C03C.CV.typeOf, C03C.CV.dictMapValues, pure, Except.pure, bind, Except.bind]
    | _ => simp_all [Kind.base, encNode, cclsOf, Functional.copy_value_step, Functional.multi,
        C03C.CV.isinstance, C03C.CV.typeOf, C03C.CV.dictMapValues, pure, Except.pure, bind, Except.bind]

end Utv.GenEq.C19
