import Utv.Util.ConvJson
import Utv.Model.C12
open Lean Utv Utv.J Utv.Conv Utv.ConvJson

open Utv.C12M in
def additionOf : String → Addition
  | "none" => .none | "no" => .no | "yes" => .yes | _ => .unset
open Utv.C12M in
def additionName : Addition → String
  | .unset => "unset" | .none => "none" | .no => "no" | .yes => "yes"

open Utv.C12M in
/-- parse-level places that read the preferences (Model/C12.lean) -/
def handleParse (j : Json) : Json :=
  let ndl := bool! (fld j "ndl")
  let nec := bool! (fld j "nec")
  let a := additionOf (str! (fld j "addition"))
  match str! (fld j "kind") with
  | "options" => Json.mkObj [("addition", Json.str (additionName (normAddition ndl a)))]
  | "schema" => Json.mkObj [("fate", Json.str (match unknownKey (normAddition ndl a) with
      | .rejected => "rejected" | .dropped => "dropped" | .kept => "kept"))]
  | "tuple" => Json.mkObj [("excess", Json.arr ((tupleExcess (normAddition ndl a) ndl (nat! (fld j "nargs")) (nat! (fld j "nvals"))).map
      (fun (n : Nat) => Json.num n)).toArray)]
  | "dataclass" => encodeOutcome (dataclassUnwrap ⟨nec, ndl⟩ (decodeV (fld j "value")))
  | _ => Json.mkObj [("driver-error", Json.str "unknown parse kind")]

/-- ops:
  `conv`  one converter call (target class, flags, value) → outcome            (reused by C01 / C04)
  `c12`   the same call under the four flag combinations → {"ff","ft","tf","tt"}  (first letter nec, second ndl)
  `parse` the parse-level places that read the flags (options / schema / tuple / dataclass) -/
def handle (j : Json) : Json :=
  match str! (fld j "op") with
  | "conv" => encodeOutcome (runCall j (bool! (fld j "nec")) (bool! (fld j "ndl")))
  | "c12" =>
    Json.mkObj [("ff", encodeOutcome (runCall j false false)), ("ft", encodeOutcome (runCall j false true)),
                ("tf", encodeOutcome (runCall j true false)), ("tt", encodeOutcome (runCall j true true))]
  | "parse" => handleParse j
  | _ => Json.mkObj [("driver-error", Json.str "unknown op")]

def main : IO Unit := serveFlush handle
