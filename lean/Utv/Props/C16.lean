import Utv.Model.C16
import Utv.Util.ListLemmas
/-!
C16 — converter resolution is a pure function of the registration history.

`C16_resolve_refines` : for every class world, every cache setting and every finite history of
register / resolve operations, every resolve answers exactly what the one-screen specification
`specResolve` computes from the registrations made so far (highest priority, most recent wins ties).
No bound on the history, on the number of classes or on priorities.
-/
namespace Utv.C16

def Sorted (l : List Entry) : Prop := l.Pairwise (fun a b => a.prio ≥ b.prio)

/-- one update step of `best` -/
def upd (W : World) (t : Nat) (acc : Option Entry) (e : Entry) : Option Entry :=
  if e.det.matches W t then
    match acc with
    | none => some e
    | some b => if e.prio ≥ b.prio then some e else some b
  else acc

theorem best_append (W : World) (t : Nat) (regs : List Entry) (e : Entry) :
    best W t (regs ++ [e]) = upd W t (best W t regs) e := by
  unfold best
  rw [List.foldl_append]
  rfl

theorem ins_sorted (e : Entry) (l : List Entry) (h : Sorted l) : Sorted (ins e l) := by
  induction l with
  | nil => simp [ins, Sorted]
  | cons x xs ih =>
    unfold Sorted at *
    rw [List.pairwise_cons] at h
    simp only [ins]
    split
    · rename_i hgt
      rw [List.pairwise_cons]
      refine ⟨?_, ih h.2⟩
      intro a ha
      have : a = e ∨ a ∈ xs := by
        clear ih h
        induction xs with
        | nil => simp [ins] at ha; exact Or.inl ha
        | cons y ys ihy =>
          simp only [ins] at ha
          split at ha
          · rcases List.mem_cons.mp ha with h1 | h1
            · exact Or.inr (by simp [h1])
            · rcases ihy h1 with h2 | h2
              · exact Or.inl h2
              · exact Or.inr (by simp [h2])
          · rcases List.mem_cons.mp ha with h1 | h1
            · exact Or.inl h1
            · exact Or.inr h1
      rcases this with h1 | h1
      · subst h1; omega
      · exact h.1 a h1
    · rename_i hle
      rw [List.pairwise_cons]
      refine ⟨?_, List.pairwise_cons.mpr h⟩
      intro a ha
      rcases List.mem_cons.mp ha with h1 | h1
      · subst h1; omega
      · have := h.1 a h1; omega

theorem sortPrio_of_sorted (l : List Entry) (h : Sorted l) : sortPrio l = l := by
  induction l with
  | nil => rfl
  | cons x xs ih =>
    unfold Sorted at *
    rw [List.pairwise_cons] at h
    simp only [sortPrio, ih h.2]
    cases xs with
    | nil => rfl
    | cons y ys =>
      have := h.1 y (by simp)
      simp only [ins]
      split
      · omega
      · rfl

theorem find_ins (p : Entry → Bool) (e : Entry) (l : List Entry) (h : Sorted l) :
    (ins e l).find? p =
      if p e then
        (match l.find? p with
         | some x => if x.prio > e.prio then some x else some e
         | none => some e)
      else l.find? p := by
  induction l with
  | nil => simp [ins, List.find?]
  | cons y ys ih =>
    unfold Sorted at *
    rw [List.pairwise_cons] at h
    simp only [ins]
    split
    · rename_i hgt
      simp only [List.find?_cons]
      cases hy : p y with
      | true => simp [hgt]
      | false => simpa using ih h.2
    · rename_i hle
      simp only [List.find?_cons]
      cases hpe : p e with
      | false => simp
      | true =>
        simp only [if_true]
        cases hy : p y with
        | true => simp [hle]
        | false =>
          simp only
          cases hf : ys.find? p with
          | none => rfl
          | some x =>
            have hx : x ∈ ys := List.mem_of_find?_eq_some hf
            have := h.1 x hx
            have : ¬ x.prio > e.prio := by omega
            simp [this]

/-- The representation invariant relating a registry state to the registration history. -/
structure Inv (W : World) (r : Reg) (regs : List Entry) : Prop where
  sorted : Sorted r.entries
  first  : ∀ t, r.entries.find? (fun e => e.det.matches W t) = best W t regs
  cache  : ∀ t f, lookup t r.cache = some f → ∃ e, best W t regs = some e ∧ e.fn = f

theorem inv_init (W : World) (c : Bool) : Inv W { cacheOn := c } [] :=
  ⟨by simp [Sorted], by intro t; simp [best], by intro t f h; simp [lookup] at h⟩

theorem inv_register (W : World) (r : Reg) (regs : List Entry) (e : Entry) (h : Inv W r regs) :
    Inv W (register r e) (regs ++ [e]) := by
  have hs : sortPrio (e :: r.entries) = ins e r.entries := by
    simp [sortPrio, sortPrio_of_sorted _ h.sorted]
  refine ⟨?_, ?_, ?_⟩
  · simp only [register, hs]; exact ins_sorted e _ h.sorted
  · intro t
    simp only [register, hs]
    rw [find_ins _ e _ h.sorted, best_append, h.first t]
    unfold upd
    cases hm : e.det.matches W t with
    | false => simp
    | true =>
      simp only [if_true]
      cases hb : best W t regs with
      | none => rfl
      | some b =>
        simp only
        by_cases hgt : b.prio > e.prio
        · have : ¬ e.prio ≥ b.prio := by omega
          simp [hgt, this]
        · have : e.prio ≥ b.prio := by omega
          simp [hgt, this]
  · intro t f hl; simp [register, lookup] at hl

theorem resolve_spec (W : World) (r : Reg) (regs : List Entry) (t : Nat) (h : Inv W r regs) :
    (resolve W r t).2 = specResolve W regs t ∧ Inv W (resolve W r t).1 regs := by
  unfold resolve specResolve
  cases hsc : W.shortcut t with
  | some f => exact ⟨rfl, h⟩
  | none =>
    simp only
    cases hc : (if r.cacheOn then lookup t r.cache else none) with
    | some f =>
      simp only
      have hl : lookup t r.cache = some f := by
        split at hc
        · exact hc
        · cases hc
      obtain ⟨e, he, hf⟩ := h.cache t f hl
      simp [he, hf, h]
    | none =>
      simp only
      rw [h.first t]
      cases hb : best W t regs with
      | none => exact ⟨rfl, h⟩
      | some e =>
        refine ⟨rfl, ?_⟩
        cases hco : r.cacheOn with
        | false => simpa [hco] using h
        | true =>
          simp only [if_true]
          refine ⟨h.sorted, h.first, ?_⟩
          intro t' f' hl
          simp only [lookup] at hl
          split at hl
          · rename_i heq
            have : t = t' := by simpa using heq
            subst this
            exact ⟨e, hb, by simpa using hl⟩
          · exact h.cache t' f' hl

theorem run_refines (W : World) (ops : List Op) :
    ∀ (r : Reg) (regs : List Entry), Inv W r regs → (run W r ops).2 = specRun W regs ops := by
  induction ops with
  | nil => intro r regs _; rfl
  | cons op ops ih =>
    intro r regs h
    cases op with
    | reg e =>
      have := ih _ _ (inv_register W r regs e h)
      simpa [run, runWith, step, specRun] using this
    | res t =>
      obtain ⟨ho, hi⟩ := resolve_spec W r regs t h
      have := ih _ _ hi
      simp only [run, runWith, step, specRun] at this ⊢
      rw [← ho, ← this]

/-- **C16.**  Every resolve in every history, on every class world, with or without the cache,
returns the specification's answer for the registrations made before it. -/
theorem C16_resolve_refines (W : World) (cacheOn : Bool) (h : List Op) :
    (run W { cacheOn := cacheOn } h).2 = specRun W [] h :=
  run_refines W h _ _ (inv_init W cacheOn)

def regsOf : List Op → List Entry
  | [] => []
  | .reg e :: ops => e :: regsOf ops
  | .res _ :: ops => regsOf ops

theorem specRun_append (W : World) (h ops : List Op) :
    ∀ regs, specRun W regs (h ++ ops) = specRun W regs h ++ specRun W (regs ++ regsOf h) ops := by
  induction h with
  | nil => intro regs; simp [specRun, regsOf]
  | cons op h ih =>
    intro regs
    cases op with
    | reg e => simpa [specRun, regsOf, List.append_assoc] using ih (regs ++ [e])
    | res t => simp [specRun, regsOf, ih regs]

/-- Corollary in the words of the property: a registration made after a class has already been
resolved (and cached) takes effect at the next resolve of that class. -/
theorem C16_late_registration_effective (W : World) (c : Bool) (h : List Op) (e : Entry) (t : Nat) :
    (run W { cacheOn := c } (h ++ [.res t, .reg e, .res t])).2.getLast? =
      some (specResolve W (regsOf h ++ [e]) t) := by
  rw [C16_resolve_refines, specRun_append]
  simp [specRun, regsOf]

/-! ### Declarative reading of `best` (what "highest priority, most recent wins ties" means) -/

theorem C16_best_characterisation (W : World) (t : Nat) (regs : List Entry) (e : Entry)
    (h : best W t regs = some e) :
    ∃ l₁ l₂, regs = l₁ ++ e :: l₂ ∧ e.det.matches W t = true
      ∧ (∀ x ∈ l₁, x.det.matches W t = true → x.prio ≤ e.prio)
      ∧ (∀ x ∈ l₂, x.det.matches W t = true → x.prio < e.prio) := by
  induction regs using Utv.List.rev_ind generalizing e with
  | nil => simp [best] at h
  | snoc l a ih =>
    rw [best_append] at h
    unfold upd at h
    by_cases hm : a.det.matches W t = true
    · simp only [hm, if_true] at h
      cases hb : best W t l with
      | none =>
        rw [hb] at h
        cases h
        refine ⟨l, [], rfl, hm, ?_, by simp⟩
        intro x hx hxm
        -- no matching entry in l when best = none
        exfalso
        clear ih
        have : ∀ l : List Entry, best W t l = none → ∀ x ∈ l, x.det.matches W t = false := by
          intro l
          induction l using Utv.List.rev_ind with
          | nil => simp
          | snoc l' a' ih' =>
            intro hn x hx
            rw [best_append] at hn
            unfold upd at hn
            by_cases hm' : a'.det.matches W t = true
            · simp only [hm', if_true] at hn
              split at hn
              · cases hn
              · split at hn <;> cases hn
            · simp only [hm'] at hn
              rcases List.mem_append.mp hx with h1 | h1
              · exact ih' (by simpa using hn) x h1
              · simp at h1; subst h1; simpa using hm'
        have := this l hb x hx
        simp [hxm] at this
      | some b =>
        rw [hb] at h
        simp only at h
        obtain ⟨l₁, l₂, hl, hbm, h1, h2⟩ := ih b hb
        split at h
        · rename_i hge
          cases h
          refine ⟨l, [], rfl, hm, ?_, by simp⟩
          intro x hx hxm
          subst hl
          rcases List.mem_append.mp hx with hx | hx
          · have := h1 x hx hxm; omega
          · rcases List.mem_cons.mp hx with hx | hx
            · subst hx; omega
            · have := h2 x hx hxm; omega
        · rename_i hlt
          cases h
          refine ⟨l₁, l₂ ++ [a], by simp [hl], hbm, h1, ?_⟩
          intro x hx hxm
          rcases List.mem_append.mp hx with hx | hx
          · exact h2 x hx hxm
          · simp at hx; subst hx; omega
    · simp only [hm] at h
      obtain ⟨l₁, l₂, hl, hbm, h1, h2⟩ := ih e (by simpa using h)
      refine ⟨l₁, l₂ ++ [a], by simp [hl], hbm, h1, ?_⟩
      intro x hx hxm
      rcases List.mem_append.mp hx with hx | hx
      · exact h2 x hx hxm
      · simp at hx; subst hx; exact absurd hxm hm

/-! ### Non-vacuity and the pre-fix behaviour (negation witnesses, replayed by the harness) -/

def W₀ : World where
  issub t c := t == c || (t == 2 && c == 1)      -- class 2 is a subclass of class 1
  isinst _ _ := false
  hasattr _ _ := false
  custom _ _ := none
  shortcut _ := none
  fallback _ := none

def eA : Entry := ⟨.std [1] true none none, 10, 1⟩   -- register(C1, priority=1) -> f10
def eB : Entry := ⟨.std [1] true none none, 20, 0⟩   -- register(C1)             -> f20
def eC : Entry := ⟨.std [2] true none none, 30, 0⟩   -- register(C2)             -> f30

/-- the fixed model: a later priority-0 registration does not override priority 1 … -/
example : (run W₀ { cacheOn := true } [.reg eA, .reg eB, .res 1]).2 = [some 10] := by decide
/-- … and a registration after a cached lookup takes effect. -/
example : (run W₀ { cacheOn := true } [.reg eB, .res 2, .reg eC, .res 2]).2 = [some 20, some 30] := by
  decide

/-- Pre-fix code: priority 0 after a positive priority is inserted in front unsorted. -/
theorem C16_legacy_unsorted_witness :
    (runLegacy W₀ { cacheOn := false } [.reg eA, .reg eB, .res 1]).2
      ≠ specRun W₀ [] [.reg eA, .reg eB, .res 1] := by decide

/-- Pre-fix code: the cache is never invalidated. -/
theorem C16_legacy_stale_cache_witness :
    (runLegacy W₀ { cacheOn := true } [.reg eB, .res 2, .reg eC, .res 2]).2
      ≠ specRun W₀ [] [.reg eB, .res 2, .reg eC, .res 2] := by decide

end Utv.C16
