/-
C04 (continued) — WHEN the conversion glue walks through its input at all.

The converters are otherwise abstract in the C04 model (a converter call may do anything, including diverge).
This file pins down the one thing about them that the termination clause depends on: which converter *consumes*
(iterates to the end: `list(x)`, `t(x)`, `for item in x`, `y in x`) the input object it is given, as a function
of the target, the two cast flags and the kind of the input.  Mirrors, site by site

  utils/functional.py:7-10      multi()                         (the isinstance tuple; tied by an AST check every run)
  utils/transform.py:143-162    _attempt_from                   next(iter(value)): the first item only (fixes/C04-container-protocol-and-init-names;
                                                                before: list(value)[0], a walk through all of it)
  utils/transform.py:255-310    to_array_types                  t(data) for a multi value
  utils/transform.py:311-395    to_dict                         pairs of any iterable / the final t(data)
  utils/transform.py:509-570    to_datetime                     `"GMT" in data` only on text (fixes/C04-datetime-iterates-input)
  parser/cls.py:610-626         transform_dataclass             data[0] of a list/tuple, then init_dataclass -> to_dict

Tied to the code by harness kind `iter`: every (target, flags, input kind) cell is run on the real converter with a
counting input and the number of items pulled is compared with `consumes`.
-/
namespace Utv.C04.Iter

/-- what the input object is -/
inductive InKind where
  | sized (len : Nat)   -- list / tuple / set / frozenset / dict views: what `multi()` accepts
  | lazy                -- an iterator / generator (possibly endless)
  | iterable            -- an object that only offers `__iter__`
  | getitem             -- an object that only offers `__getitem__`
  | text                -- str / bytes
  | scalar              -- anything that cannot be iterated
  deriving DecidableEq, Repr

/-- the isinstance test of `multi()` — functional.py:8-10 -/
def isMulti : InKind → Bool
  | .sized _ => true
  | _ => false

def canIterate : InKind → Bool
  | .sized _ | .lazy | .iterable | .getitem => true
  | _ => false

inductive Scalar where
  | int | float | str | bytes | decimal | complex | bool | datetime | date | time | timedelta | uuid
  deriving DecidableEq, Repr

inductive Target where
  | scalar (s : Scalar)
  | array (sameType : Bool)   -- list/tuple/set/frozenset/deque; `sameType`: the input already is an instance of it
  | mapping                   -- dict
  | dataclass
  deriving DecidableEq, Repr

structure Flags where
  noExplicitCast : Bool := false
  noDataLoss : Bool := false
  legacyDatetime : Bool := false   -- before fixes/C04-datetime-iterates-input: `"GMT" in data` on any object
  legacyAttemptFrom : Bool := false -- before: `list(value)[0]` walked through a sized input to take its first item
  deriving DecidableEq, Repr

/-- `_attempt_from(value)` walks through the value — only the pre-fix `list(value)[0]` did (transform.py:143-162);
`next(iter(value))` pulls one item (a sized input of one item is thereby "consumed": there is nothing else in it) -/
def attemptFrom (f : Flags) : InKind → Bool
  | .sized n => !f.noExplicitCast && n != 0 && !(f.noDataLoss && n > 1) && (f.legacyAttemptFrom || n == 1)
  | _ => false

/-- does converting an input of kind `k` to the target consume the input object? -/
def consumes (f : Flags) : Target → InKind → Bool
  -- to_bool / to_uuid never call _attempt_from (transform.py:468-489, 622-645)
  | .scalar .bool, _ => false
  | .scalar .uuid, _ => false
  -- to_datetime / to_date: _attempt_from, then only text is searched; legacy: `"GMT" in data` walks any iterable
  | .scalar .datetime, k => attemptFrom f k || (f.legacyDatetime && canIterate k && !attemptFrom f k)
  | .scalar .date, k => attemptFrom f k || (f.legacyDatetime && canIterate k && !attemptFrom f k)
  -- every other scalar converter reaches the input only through _attempt_from
  | .scalar _, k => attemptFrom f k
  -- to_array_types: `isinstance(data, t)` returns it; `multi(data)` -> t(data) (before the no_explicit_cast test);
  -- anything else is wrapped: t([data])
  | .array same, k => !same && isMulti k
  -- to_dict: refused under no_explicit_cast; otherwise the pairs of ANY iterable are read
  | .mapping, k => !f.noExplicitCast && canIterate k
  -- transform_dataclass: a list/tuple gives data[0] (not walked); another iterable goes to init_dataclass -> to_dict
  | .dataclass, k => !f.noExplicitCast && canIterate k && !isMulti k

end Utv.C04.Iter
