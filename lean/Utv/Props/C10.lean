import Utv.Lemmas.C10Call
import Utv.Lemmas.C10Fuel
/-!
C10 — collecting errors changes reporting only, never the verdict or the value.

All theorems are about the executable model `Utv.C10.run` (lean/Utv/Model/C10.lean): for every world
(plain-class conversions, exact-type test, validators), every fuel, every declaration, every option
set of the fragment, both lookup strategies, every input and every collecting mode.
-/
namespace Utv.C10

/-- Turning on error collection (with any `max_errors`) does not change the value of an accepted input:
the fail-fast run returns `r` iff the collecting run returns `r`. -/
theorem C10_same_value (W : World) (fuel : Nat) (decl : List FieldDecl) (mC : Mode) (o : Opts) (data : Data)
    (r : Data) :
    run W fuel decl .ff o data = .ok r ↔ run W fuel decl mC o data = .ok r := by
  rcases run_strong W fuel decl mC o data with ⟨r', hF, hC⟩ | ⟨⟨x, hF⟩, x', hC⟩
  · rw [hF, hC]
  · rw [hF, hC]; simp

/-- … nor which inputs are accepted. -/
theorem C10_same_verdict (W : World) (fuel : Nat) (decl : List FieldDecl) (mC : Mode) (o : Opts) (data : Data) :
    isError (run W fuel decl .ff o data) = isError (run W fuel decl mC o data) := by
  rcases run_strong W fuel decl mC o data with ⟨r', hF, hC⟩ | ⟨⟨x, hF⟩, x', hC⟩
  · rw [hF, hC]
  · rw [hF, hC]; rfl

/-- The same holds below the top level: any type, parsed on a fresh context, is accepted fail-fast with
value `r` iff it is accepted collecting with value `r` (this is what the `&` defect broke). -/
theorem C10_type_same_value (W : World) (fuel : Nat) (T : Ty) (mC : Mode) (o : Opts) (v r : Val) :
    (parse W fuel T (clean0 .ff o) v).2 = .ok r ↔ (parse W fuel T (clean0 mC o) v).2 = .ok r := by
  rcases (parse_good W mC fuel).strong T o v with ⟨a, hF, hC⟩ | ⟨⟨c, x, hF⟩, c', x', hC⟩
  · rw [hF, hC]
  · rw [hF, hC]; simp

/-- A collecting run rejects with exactly one `CollectedParseError`; it carries the reports of the
uncapped run, cut at `max_errors`. -/
theorem C10_one_exception (W : World) (fuel : Nat) (decl : List FieldDecl) (mx : Option Nat) (hk : capOk mx 0)
    (o : Opts) (data : Data) (x : Exc) (h : run W fuel decl ⟨true, mx⟩ o data = .error x) :
    x = .collected (cap mx (reports (parse W fuel) .ff o decl data)) ∧
    reports (parse W fuel) .ff o decl data ≠ [] := by
  rw [run_collect W fuel decl mx hk, ← reports_eq (parse_good W _ fuel)] at h
  split at h
  · simp at h
  · rename_i hne
    simp only [Except.error.injEq] at h
    exact ⟨h.symm, hne⟩

/-- The number of reported errors is capped by `max_errors`. -/
theorem C10_count_le_max (W : World) (fuel : Nat) (decl : List FieldDecl) (k : Nat) (hk : 0 < k)
    (o : Opts) (data : Data) (x : Exc) (h : run W fuel decl ⟨true, some k⟩ o data = .error x) :
    ∃ es, x = .collected es ∧ es.length ≤ k := by
  obtain ⟨hx, _⟩ := C10_one_exception W fuel decl (some k) hk o data x h
  exact ⟨_, hx, by simp [cap, List.length_take, Nat.min_le_left]⟩

/-- Acceptance, in the collecting vocabulary: an input is accepted (in every mode) iff the uncapped
collecting run has nothing to report, and then the value is the one that run builds. -/
theorem C10_accept_iff_no_report (W : World) (fuel : Nat) (decl : List FieldDecl) (o : Opts) (data : Data) :
    isError (run W fuel decl .ff o data) = !(reports (parse W fuel) .ff o decl data).isEmpty := by
  rw [C10_same_verdict W fuel decl ⟨true, none⟩ o data, run_collect W fuel decl none trivial,
    ← reports_eq (parse_good W _ fuel)]
  cases reports (parse W fuel) .ff o decl data with
  | nil => rfl
  | cons e es => rfl

/-- "item `i` fails on its own" (the declaration and the input restricted to `i` are rejected fail-fast by the
item-level parse), in terms of the reports of that restricted parse -/
theorem failsAlone_iff (W : World) (fuel : Nat) (decl : List FieldDecl) (o : Opts) (data : Data) (i : String) :
    failsAlone W fuel decl o data i =
      (isItem decl data i && !(reportsX (parse W fuel) .ff o (declOf decl i) [] false (dataOf data i)).isEmpty) :=
  failsAloneX_iff W fuel decl [] o data i

/-- every error of the uncapped report either names an item that fails on its own or is an error of the whole
mapping (`globalReports`: ParamsExceedError, ParamsLackError, DependenciesAbsenceError) -/
theorem reports_sound (W : World) (fuel : Nat) (decl : List FieldDecl) (ex : List String) (o : Opts) (data : Data)
    (e : Err) (he : e ∈ reportsX (parse W fuel) .ff o decl ex true data) :
    (∃ i, e.item = some i ∧ failsAloneX W fuel decl ex o data i = true) ∨
      e ∈ globalReports (parse W fuel) .ff o decl ex data := by
  rcases (mem_reportsX_true (parse W fuel) .ff o decl ex data e).mp he with hg | hi
  · exact Or.inr hg
  · left
    obtain ⟨i, h1, h2, h3⟩ := reportsX_sound (parse W fuel) .ff o decl ex data e hi
    refine ⟨i, h1, ?_⟩
    rw [failsAloneX_iff, h2]
    cases hr : reportsX (parse W fuel) .ff o (declOf decl i) ex false (dataOf data i) with
    | nil => exact absurd hr h3
    | cons a as => rfl

theorem reports_complete (W : World) (fuel : Nat) (decl : List FieldDecl) (ex : List String) (o : Opts) (data : Data)
    (i : String) (hi : failsAloneX W fuel decl ex o data i = true) :
    ∃ e ∈ reportsX (parse W fuel) .ff o decl ex true data, e.item = some i := by
  rw [failsAloneX_iff] at hi
  simp only [Bool.and_eq_true, Bool.not_eq_true', List.isEmpty_eq_false_iff] at hi
  obtain ⟨e, he, hei⟩ := reportsX_complete (parse W fuel) .ff o decl ex data i hi.2
  exact ⟨e, (mem_reportsX_true (parse W fuel) .ff o decl ex data e).mpr (Or.inr he), hei⟩

/-- For a rejected input the (uncapped) collected error names exactly the failing top-level items — every
error that names an item names one that fails on its own (no valid item is reported), every item that fails on
its own is named — and, besides, carries exactly the errors of the whole mapping (`globalReports`: too many /
too few keys, a demanded dependency not given), which name no item. -/
theorem C10_reported_eq_failing (W : World) (fuel : Nat) (decl : List FieldDecl) (o : Opts) (data : Data) (x : Exc)
    (h : run W fuel decl ⟨true, none⟩ o data = .error x) :
    ∃ es, x = .collected es ∧
      (∀ e ∈ es, (∃ i, e.item = some i ∧ failsAlone W fuel decl o data i = true) ∨
        e ∈ globalReports (parse W fuel) .ff o decl [] data) ∧
      (∀ i, failsAlone W fuel decl o data i = true → ∃ e ∈ es, e.item = some i) ∧
      (∀ e ∈ globalReports (parse W fuel) .ff o decl [] data, e ∈ es) := by
  obtain ⟨hx, _⟩ := C10_one_exception W fuel decl none trivial o data x h
  refine ⟨_, hx, fun e he => reports_sound W fuel decl [] o data e he,
    fun i hi => reports_complete W fuel decl [] o data i hi, fun e he => ?_⟩
  exact (mem_reportsX_true (parse W fuel) .ff o decl [] data e).mpr (Or.inl he)

/-- The errors of the (uncapped) report that name no item are exactly the errors of the whole mapping. -/
theorem C10_itemless_errors (W : World) (fuel : Nat) (decl : List FieldDecl) (o : Opts) (data : Data) (x : Exc)
    (h : run W fuel decl ⟨true, none⟩ o data = .error x) :
    ∃ es, x = .collected es ∧
      ∀ e ∈ es, e.item = none ↔ e ∈ globalReports (parse W fuel) .ff o decl [] data := by
  obtain ⟨hx, _⟩ := C10_one_exception W fuel decl none trivial o data x h
  refine ⟨_, hx, fun e he => ⟨fun hn => ?_, fun hg => globalReports_item _ _ _ _ _ _ e hg⟩⟩
  rcases reports_sound W fuel decl [] o data e he with ⟨i, hi, _⟩ | hg
  · rw [hn] at hi; cases hi
  · exact hg

/-- With `max_errors = k` the collected error carries at most `k` errors, each naming an item that
fails on its own or being an error of the whole mapping. -/
theorem C10_capped_reports_failing (W : World) (fuel : Nat) (decl : List FieldDecl) (k : Nat) (hk : 0 < k)
    (o : Opts) (data : Data) (x : Exc) (h : run W fuel decl ⟨true, some k⟩ o data = .error x) :
    ∃ es, x = .collected es ∧ es.length ≤ k ∧
      ∀ e ∈ es, (∃ i, e.item = some i ∧ failsAlone W fuel decl o data i = true) ∨
        e ∈ globalReports (parse W fuel) .ff o decl [] data := by
  obtain ⟨hx, _⟩ := C10_one_exception W fuel decl (some k) hk o data x h
  refine ⟨_, hx, by simp [cap, List.length_take, Nat.min_le_left], ?_⟩
  intro e he
  exact reports_sound W fuel decl [] o data e (List.mem_of_mem_take he)

/-- An input is accepted (in either mode) iff no top-level item fails on its own and the mapping as a whole
has nothing to report. -/
theorem C10_accept_iff_none_fails (W : World) (fuel : Nat) (decl : List FieldDecl) (o : Opts) (data : Data) :
    isError (run W fuel decl .ff o data) = false ↔
      (∀ i, failsAlone W fuel decl o data i = false) ∧ globalReports (parse W fuel) .ff o decl [] data = [] := by
  rw [C10_accept_iff_no_report]
  unfold reports
  constructor
  · intro h
    simp only [Bool.not_eq_false', List.isEmpty_iff] at h
    constructor
    · intro i
      cases hf : failsAlone W fuel decl o data i with
      | false => rfl
      | true =>
        exfalso
        obtain ⟨e, he, _⟩ := reports_complete W fuel decl [] o data i hf
        rw [h] at he
        cases he
    · cases hg : globalReports (parse W fuel) .ff o decl [] data with
      | nil => rfl
      | cons e es =>
        exfalso
        have := (mem_reportsX_true (parse W fuel) .ff o decl [] data e).mpr (Or.inl (by rw [hg]; exact List.mem_cons_self))
        rw [h] at this
        cases this
  · rintro ⟨h1, h2⟩
    cases hr : reportsX (parse W fuel) .ff o decl [] true data with
    | nil => rfl
    | cons e es =>
      exfalso
      rcases reports_sound W fuel decl [] o data e (by rw [hr]; exact List.mem_cons_self) with ⟨i, _, hi⟩ | hg
      · have := h1 i
        unfold failsAlone at this
        rw [this] at hi
        cases hi
      · rw [h2] at hg
        cases hg

/-! ### calls with positional arguments (`FunctionParser.parse_params`) -/

/-- A call with positional arguments, `*args` and keywords returns the same bound values fail-fast and collecting. -/
theorem C10_call_same_value (W : World) (fuel : Nat) (sg : Sig) (mC : Mode) (o : Opts) (args : List Val)
    (kwargs : Data) (r : List Val × Data) :
    runCall W fuel sg .ff o args kwargs = .ok r ↔ runCall W fuel sg mC o args kwargs = .ok r := by
  rcases runCall_strong W fuel sg mC o args kwargs with ⟨r', hF, hC⟩ | ⟨⟨x, hF⟩, x', hC⟩
  · rw [hF, hC]
  · rw [hF, hC]; simp

/-- … and the same calls are rejected (what seed C10-C broke: an early return before `raise_error()`). -/
theorem C10_call_same_verdict (W : World) (fuel : Nat) (sg : Sig) (mC : Mode) (o : Opts) (args : List Val)
    (kwargs : Data) :
    isError (runCall W fuel sg .ff o args kwargs) = isError (runCall W fuel sg mC o args kwargs) := by
  rcases runCall_strong W fuel sg mC o args kwargs with ⟨r', hF, hC⟩ | ⟨⟨x, hF⟩, x', hC⟩
  · rw [hF, hC]
  · rw [hF, hC]; rfl

/-- A rejected collecting call raises one `CollectedParseError`: the reports of the positional loop followed by
those of the keyword part, cut at `max_errors`. -/
theorem C10_call_one_exception (W : World) (fuel : Nat) (sg : Sig) (mx : Option Nat) (hk : capOk mx 0)
    (o : Opts) (args : List Val) (kwargs : Data) (hnd : dupKw sg args kwargs = false) (x : Exc)
    (h : runCall W fuel sg ⟨true, mx⟩ o args kwargs = .error x) :
    x = .collected (cap mx (callReports (parse W fuel) .ff o sg args kwargs)) ∧
    callReports (parse W fuel) .ff o sg args kwargs ≠ [] := by
  rw [runCall_collect W fuel sg mx hk o args kwargs hnd, ← callReports_eq (parse_good W _ fuel)] at h
  split at h
  · simp at h
  · rename_i hne
    simp only [Except.error.injEq] at h
    exact ⟨h.symm, hne⟩

theorem C10_call_count_le_max (W : World) (fuel : Nat) (sg : Sig) (k : Nat) (hk : 0 < k)
    (o : Opts) (args : List Val) (kwargs : Data) (hnd : dupKw sg args kwargs = false) (x : Exc)
    (h : runCall W fuel sg ⟨true, some k⟩ o args kwargs = .error x) :
    ∃ es, x = .collected es ∧ es.length ≤ k := by
  obtain ⟨hx, _⟩ := C10_call_one_exception W fuel sg (some k) hk o args kwargs hnd x h
  exact ⟨_, hx, by simp [cap, List.length_take, Nat.min_le_left]⟩

/-- the errors of the whole keyword mapping of a call -/
def callGlobal (W : World) (fuel : Nat) (sg : Sig) (o : Opts) (args : List Val) (kwargs : Data) : List Err :=
  globalReports (parse W fuel) .ff o sg.decl (givenPos sg args) kwargs

/-- every error of the uncapped collecting call names an item that fails on its own, or belongs to the keyword
mapping as a whole … -/
theorem callReports_sound (W : World) (fuel : Nat) (sg : Sig) (hpo : sg.nposOnly = 0) (o : Opts) (args : List Val)
    (kwargs : Data) (e : Err) (he : e ∈ callReports (parse W fuel) .ff o sg args kwargs) :
    (∃ i, e.item = some i ∧ callFails W fuel sg o args kwargs i = true) ∨ e ∈ callGlobal W fuel sg o args kwargs := by
  rw [callReports_noPosOnly _ _ _ _ hpo] at he
  rcases List.mem_append.mp he with he | he
  · left
    rw [posReports_eq] at he
    obtain ⟨it, hit, hre⟩ := List.mem_filterMap.mp he
    obtain ⟨i, h1, h2⟩ := (posRep_posFailing W fuel sg o it).1 e hre
    refine ⟨i, h1, ?_⟩
    unfold callFails
    simp only [Bool.or_eq_true, List.any_eq_true, beq_iff_eq]
    left; exact ⟨it, hit, h2⟩
  · rcases reports_sound W fuel sg.decl (givenPos sg args) o kwargs e he with ⟨i, h1, h2⟩ | hg
    · left
      refine ⟨i, h1, ?_⟩
      unfold callFails
      rw [h2]; simp
    · exact Or.inr hg

/-- … and every item that fails on its own is named by one of them -/
theorem callReports_complete (W : World) (fuel : Nat) (sg : Sig) (hpo : sg.nposOnly = 0) (o : Opts) (args : List Val)
    (kwargs : Data) (i : String) (hi : callFails W fuel sg o args kwargs i = true) :
    ∃ e ∈ callReports (parse W fuel) .ff o sg args kwargs, e.item = some i := by
  unfold callFails at hi
  rw [callReports_noPosOnly _ _ _ _ hpo]
  simp only [Bool.or_eq_true, List.any_eq_true, beq_iff_eq] at hi
  rcases hi with ⟨it, hit, hf⟩ | hi
  · obtain ⟨e, he, hei⟩ := (posRep_posFailing W fuel sg o it).2 i hf
    refine ⟨e, List.mem_append.mpr (Or.inl ?_), hei⟩
    rw [posReports_eq]
    exact List.mem_filterMap.mpr ⟨it, hit, he⟩
  · obtain ⟨e, he, hei⟩ := reports_complete W fuel sg.decl (givenPos sg args) o kwargs i hi
    exact ⟨e, List.mem_append.mpr (Or.inr he), hei⟩

/-- For a rejected call the (uncapped) collected error names exactly the failing items: a parameter bound to a
positional argument that is rejected when given alone, an element `*args:j` rejected by the `*args` type, a
keyword / missing parameter / additional key that fails on its own; plus the errors of the keyword mapping as a
whole. -/
theorem C10_call_reported_eq_failing (W : World) (fuel : Nat) (sg : Sig) (hpo : sg.nposOnly = 0) (o : Opts)
    (args : List Val) (kwargs : Data) (hnd : dupKw sg args kwargs = false) (x : Exc)
    (h : runCall W fuel sg ⟨true, none⟩ o args kwargs = .error x) :
    ∃ es, x = .collected es ∧
      (∀ e ∈ es, (∃ i, e.item = some i ∧ callFails W fuel sg o args kwargs i = true) ∨
        e ∈ callGlobal W fuel sg o args kwargs) ∧
      (∀ i, callFails W fuel sg o args kwargs i = true → ∃ e ∈ es, e.item = some i) := by
  obtain ⟨hx, _⟩ := C10_call_one_exception W fuel sg none trivial o args kwargs hnd x h
  exact ⟨_, hx, fun e he => callReports_sound W fuel sg hpo o args kwargs e he,
    fun i hi => callReports_complete W fuel sg hpo o args kwargs i hi⟩

/-- With `max_errors = k`: at most `k` errors, each naming an item of the call that fails on its own (or an error
of the keyword mapping as a whole). -/
theorem C10_call_capped_reports_failing (W : World) (fuel : Nat) (sg : Sig) (hpo : sg.nposOnly = 0) (k : Nat)
    (hk : 0 < k) (o : Opts)
    (args : List Val) (kwargs : Data) (hnd : dupKw sg args kwargs = false) (x : Exc)
    (h : runCall W fuel sg ⟨true, some k⟩ o args kwargs = .error x) :
    ∃ es, x = .collected es ∧ es.length ≤ k ∧
      ∀ e ∈ es, (∃ i, e.item = some i ∧ callFails W fuel sg o args kwargs i = true) ∨
        e ∈ callGlobal W fuel sg o args kwargs := by
  obtain ⟨hx, _⟩ := C10_call_one_exception W fuel sg (some k) hk o args kwargs hnd x h
  refine ⟨_, hx, by simp [cap, List.length_take, Nat.min_le_left], ?_⟩
  intro e he
  exact callReports_sound W fuel sg hpo o args kwargs e (List.mem_of_mem_take he)

/-- A call is accepted (in either mode) iff none of its items fails on its own and its keyword mapping as a
whole has nothing to report. -/
theorem C10_call_accept_iff_none_fails (W : World) (fuel : Nat) (sg : Sig) (hpo : sg.nposOnly = 0) (o : Opts)
    (args : List Val) (kwargs : Data) (hnd : dupKw sg args kwargs = false) :
    isError (runCall W fuel sg .ff o args kwargs) = false ↔
      (∀ i, callFails W fuel sg o args kwargs i = false) ∧ callGlobal W fuel sg o args kwargs = [] := by
  rw [C10_call_same_verdict W fuel sg ⟨true, none⟩ o args kwargs, runCall_collect W fuel sg none trivial o args kwargs hnd,
    ← callReports_eq (parse_good W _ fuel)]
  constructor
  · intro h
    have hnil : callReports (parse W fuel) .ff o sg args kwargs = [] := by
      cases hr : callReports (parse W fuel) .ff o sg args kwargs with
      | nil => rfl
      | cons a as => rw [hr] at h; simp [isError] at h
    constructor
    · intro i
      cases hf : callFails W fuel sg o args kwargs i with
      | false => rfl
      | true =>
        exfalso
        obtain ⟨e, he, _⟩ := callReports_complete W fuel sg hpo o args kwargs i hf
        rw [hnil] at he; cases he
    · cases hg : callGlobal W fuel sg o args kwargs with
      | nil => rfl
      | cons e es =>
        exfalso
        have hm : e ∈ callReports (parse W fuel) .ff o sg args kwargs := by
          rw [callReports_noPosOnly _ _ _ _ hpo]
          refine List.mem_append.mpr (Or.inr ?_)
          exact (mem_reportsX_true (parse W fuel) .ff o sg.decl (givenPos sg args) kwargs e).mpr
            (Or.inl (by unfold callGlobal at hg; rw [hg]; exact List.mem_cons_self))
        rw [hnil] at hm; cases hm
  · rintro ⟨h1, h2⟩
    cases hr : callReports (parse W fuel) .ff o sg args kwargs with
    | nil => rfl
    | cons e es =>
      exfalso
      rcases callReports_sound W fuel sg hpo o args kwargs e (by rw [hr]; exact List.mem_cons_self) with ⟨i, _, hi⟩ | hg
      · rw [h1 i] at hi; cases hi
      · rw [h2] at hg; cases hg

/-! ### Schema construction with output properties (`__post_init__`) -/

/-- A Schema with `@property` outputs is constructed with the same value fail-fast and collecting … -/
theorem C10_schema_same_value (W : World) (fuel : Nat) (decl : List FieldDecl) (props : List PropDecl) (mC : Mode)
    (o : Opts) (data : Data) (r : Data) :
    runSchema W fuel decl props .ff o data = .ok r ↔ runSchema W fuel decl props mC o data = .ok r := by
  rcases runSchema_strong W fuel decl props mC o data with ⟨r', hF, hC⟩ | ⟨⟨x, hF⟩, x', hC⟩
  · rw [hF, hC]
  · rw [hF, hC]; simp

/-- … and rejected for the same inputs — also when only a computed property fails its return annotation
(what seed C10-r4-A broke: the error handled in a throw-away sub-context). -/
theorem C10_schema_same_verdict (W : World) (fuel : Nat) (decl : List FieldDecl) (props : List PropDecl) (mC : Mode)
    (o : Opts) (data : Data) :
    isError (runSchema W fuel decl props .ff o data) = isError (runSchema W fuel decl props mC o data) := by
  rcases runSchema_strong W fuel decl props mC o data with ⟨r', hF, hC⟩ | ⟨⟨x, hF⟩, x', hC⟩
  · rw [hF, hC]
  · rw [hF, hC]; rfl

/-- A rejected collecting construction raises one `CollectedParseError`: the input errors when there are any
(the properties are then not computed), otherwise one error per property whose value its annotation rejects
under the `throw` policy, each naming that property; cut at `max_errors`. -/
theorem C10_schema_one_exception (W : World) (fuel : Nat) (decl : List FieldDecl) (props : List PropDecl)
    (mx : Option Nat) (hk : capOk mx 0) (o : Opts) (data : Data) (x : Exc)
    (h : runSchema W fuel decl props ⟨true, mx⟩ o data = .error x) :
    (reports (parse W fuel) ⟨true, mx⟩ o decl data ≠ [] ∧
      x = .collected (cap mx (reports (parse W fuel) ⟨true, mx⟩ o decl data))) ∨
    (reports (parse W fuel) ⟨true, mx⟩ o decl data = [] ∧
      x = .collected (cap mx (propReports (parse W fuel) ⟨true, mx⟩ o decl props data))) := by
  rw [runSchema_collect W fuel decl props mx hk] at h
  by_cases hr : reports (parse W fuel) ⟨true, mx⟩ o decl data = []
  · right
    simp only [hr, if_true] at h
    split at h
    · simp at h
    · simp only [Except.error.injEq] at h
      exact ⟨hr, h.symm⟩
  · left
    simp only [hr, if_false, Except.error.injEq] at h
    exact ⟨hr, h.symm⟩

theorem C10_schema_count_le_max (W : World) (fuel : Nat) (decl : List FieldDecl) (props : List PropDecl)
    (k : Nat) (hk : 0 < k) (o : Opts) (data : Data) (x : Exc)
    (h : runSchema W fuel decl props ⟨true, some k⟩ o data = .error x) :
    ∃ es, x = .collected es ∧ es.length ≤ k := by
  rcases C10_schema_one_exception W fuel decl props (some k) hk o data x h with ⟨_, hx⟩ | ⟨_, hx⟩
  · exact ⟨_, hx, by simp [cap, List.length_take, Nat.min_le_left]⟩
  · exact ⟨_, hx, by simp [cap, List.length_take, Nat.min_le_left]⟩

/-! ### fuel

Every theorem above is stated for every fuel; at fuel 0 (and whenever the fuel is smaller than the depth of a
type) the model parser fails everything and the statements are true but say little.  The two theorems below
make the fuel-independent reading precise: from `fuel ≥ depth` on, nothing depends on the fuel.  `Fits` excludes
the one construct whose recursion depth follows the value instead of the type (a fixed tuple converting its
surplus items with a typed `addition` option). -/

/-- With fuel at least the depth of the type, the model parser is the fuel-independent one. -/
theorem C10_fuel_adequate (W : World) (T : Ty) (c : Ctx) (v : Val) (hf : Fits c.o T) (fuel : Nat)
    (hn : T.depth ≤ fuel) : parse W fuel T c v = parse W T.depth T c v :=
  parse_fuel_adequate W T c v hf fuel hn

/-- With fuel at least the depth of the declared types, a run of a declaration does not depend on the fuel. -/
theorem C10_run_fuel_adequate (W : World) (decl : List FieldDecl) (m : Mode) (o : Opts) (data : Data)
    (hf : ∀ T ∈ declTypes decl o, Fits o T) (fuel : Nat) (hn : declDepth decl o ≤ fuel) :
    run W fuel decl m o data = run W (declDepth decl o) decl m o data :=
  run_fuel_adequate W decl m o data hf fuel hn

/-! ### the code before the `fix:` commit (AllOf returned without `raise_error()`)

`C10_same_verdict` is false of `runLegacy`: a conjunction whose second argument rejects the value is
rejected fail-fast and accepted when collecting. -/

def legacyWorld : World :=
  { conv := fun _ _ t v => if t == 0 then some v else none
    exact := fun _ _ => false
    check := fun _ v => some v
    isNone := fun _ => false }

def legacyDecl : List FieldDecl :=
  [{ name := "a", ty := some (.comb .all [.leaf 0, .leaf 1]), required := true, default := none, onError := none }]

theorem C10_legacy_verdict_differs :
    isError (runLegacy legacyWorld 3 legacyDecl .ff {} [("a", .atom "inf")]) = true ∧
    isError (runLegacy legacyWorld 3 legacyDecl ⟨true, none⟩ {} [("a", .atom "inf")]) = false := by
  decide

/-- the repaired model rejects it in both modes -/
example :
    isError (run legacyWorld 3 legacyDecl .ff {} [("a", .atom "inf")]) = true ∧
    isError (run legacyWorld 3 legacyDecl ⟨true, none⟩ {} [("a", .atom "inf")]) = true := by
  decide

/-! ### non-vacuity: the premises of the theorems about rejected inputs are satisfiable -/

def demoDecl : List FieldDecl :=
  [{ name := "a", ty := some (.leaf 1), required := true, default := none, onError := none },
   { name := "b", ty := some (.leaf 0), required := true, default := none, onError := none },
   { name := "c", ty := some (.leaf 0), required := true, default := none, onError := none }]

def errOf : Res α → Option Exc
  | .ok _ => none
  | .error x => some x

example :
    errOf (run legacyWorld 3 demoDecl ⟨true, some 2⟩ { addition := .no } [("a", .atom "1"), ("zz", .atom "2")])
      = some (.collected [{ kind := .parse, item := some "a" }, { kind := .absence, item := some "b" }]) := by
  decide

example :
    errOf (run legacyWorld 3 demoDecl ⟨true, none⟩ { addition := .no, dfs := true }
        [("a", .atom "1"), ("zz", .atom "2")])
      = some (.collected [{ kind := .parse, item := some "a" }, { kind := .exceed, item := some "zz" },
          { kind := .absence, item := some "b" }, { kind := .absence, item := some "c" }]) := by
  decide

/-- typed additional keys (constrained addition type: key `x` violates it, `y` does not) -/
example :
    errOf (run legacyWorld 3 demoDecl ⟨true, some 3⟩ { addition := .typed (.leaf 1), addTy := some (.leaf 1) }
        [("a", .atom "1"), ("x", .atom "0"), ("b", .atom "2"), ("c", .atom "3")])
      = some (.collected [{ kind := .parse, item := some "a" }, { kind := .parse, item := some "x" }]) := by
  decide

/-- a call giving every parameter by position, one of them invalid, plus a bad `*args` element -/
example :
    errOf (runCall legacyWorld 3 { decl := demoDecl, npos := 3, hasVar := true, posTy := some (.leaf 1) }
        ⟨true, none⟩ {} [.atom "1", .atom "2", .atom "3", .atom "4"] [])
      = some (.collected [{ kind := .parse, item := some "a" }, { kind := .parse, item := some "*args:3" }]) := by
  decide

/-- the fuel hypotheses are satisfiable: `demoDecl` has depth 1, its options fit -/
example : declDepth demoDecl {} = 1 ∧ ∀ T ∈ declTypes demoDecl {}, Fits {} T := by
  refine ⟨by decide, ?_⟩
  intro T _
  exact Or.inl rfl

/-- errors of the whole mapping: too many keys, and a demanded dependency that is not given — reported once each,
without an item, next to the item errors -/
example :
    errOf (run legacyWorld 3
        [{ name := "a", ty := some (.leaf 0), required := false, default := none, onError := none, deps := ["b"] },
         { name := "b", ty := some (.leaf 0), required := false, default := none, onError := none }]
        ⟨true, none⟩ { addition := .no, maxParams := some 1 } [("a", .atom "1"), ("zz", .atom "2")])
      = some (.collected [{ kind := .paramsExceed }, { kind := .depsAbsence }, { kind := .exceed, item := some "zz" }]) := by
  decide

end Utv.C10
