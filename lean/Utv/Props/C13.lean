import Utv.Model.C13
import Utv.Lemmas.C13Json
import Utv.Lemmas.C13Wf
/-!
C13 — the generated JSON Schema is valid and describes what the parser does.

Part 1 (this section): the structure clauses — `properties`, `required`, `additionalProperties` of the
input view (and `properties` of the output view) against the parser's treatment of names, for every
declaration, every class mode and both views.  Part 2: `C13_wf`.  Part 3: `C13_outputs_validate`.
-/
set_option linter.unusedSimpArgs false
namespace Utv.C13
open Utv.JsonSchema

/-! ## field predicates: static view = run-time view = documented meaning -/

/-- the generator's static input view is the documented one -/
theorem C13_static_noinput_eq_spec (f : FieldMeta) (o : Opts) : alwaysNoInput f o = Spec.noInput f o := by
  unfold alwaysNoInput Spec.noInput Spec.flagOn Spec.inMode memMode
  cases hfd : (f.final && f.hasDefault) <;> cases hni : f.noInput <;> cases hm : o.mode <;> cases hfm : f.mode <;> simp

/-- the generator's static output view is the documented one -/
theorem C13_static_nooutput_eq_spec (f : FieldMeta) (o : Opts) : alwaysNoOutput f o = Spec.noOutput f o := by
  unfold alwaysNoOutput Spec.noOutput Spec.flagOn Spec.inMode memMode
  cases hni : f.noOutput <;> cases hm : o.mode <;> cases hfm : f.mode <;> simp

/-- what the parser does with a supplied value (`is_no_input`, repaired) is what the generator assumes (`always_no_input`) -/
theorem C13_runtime_noinput_eq_static (f : FieldMeta) (o : Opts) : isNoInput f o = alwaysNoInput f o := by
  unfold isNoInput alwaysNoInput
  cases hfd : (f.final && f.hasDefault) <;> cases hni : f.noInput <;> cases hm : o.mode <;> cases hfm : f.mode <;> simp

/-- what the parser publishes (`is_no_output`, repaired) is what the generator assumes (`always_no_output`) -/
theorem C13_runtime_nooutput_eq_static (f : FieldMeta) (o : Opts) : isNoOutput f o = alwaysNoOutput f o := by
  unfold isNoOutput alwaysNoOutput
  cases hni : f.noOutput <;> cases hm : o.mode <;> cases hfm : f.mode <;> simp

/-- before `fixes/C13-flag-mode.patch`: a field declared for modes r/w only, `no_input='w'`, parsed in mode `a`,
took input although no schema listed it (a declaration `Field.__init__` accepts) -/
theorem C13_legacy_flag_mode_witness :
    ∃ f o, fieldMetaOk f = true ∧ isNoInputLegacy f o = false ∧ alwaysNoInput f o = true :=
  ⟨{ name := "a", attname := "a", aliases := [], required := .never, hasDefault := false, deferDefault := false,
     noInput := .modes ['w'], noOutput := .no, mode := some ['r', 'w'], final := false, deps := [], title := none,
     description := none, deprecated := false, exampleV := none },
   { mode := some 'a', addition := .drop, ignoreRequired := false, noDefault := false, deferDefault := false },
   by decide⟩

/-- `is_required` (used by generator and parser alike) is the documented "absence is an error" -/
theorem C13_required_eq_spec (f : FieldMeta) (o : Opts) : isRequired f o = Spec.absenceIsError f o := by
  unfold isRequired Spec.absenceIsError
  rw [C13_static_noinput_eq_spec]
  cases hi : o.ignoreRequired <;> cases hn : Spec.noInput f o <;> cases hr : f.required <;> simp

/-! ## reading the generated document of a data class -/

theorem genFields_keys (cfg : Cfg) (o : Opts) (fs : List Fld) :
    keys (genFields cfg o fs) = ((fs.map Fld.meta).filter (fieldVisible cfg o)).map (·.name) := by
  induction fs with
  | nil => simp [genFields, keys]
  | cons f rest ih =>
    obtain ⟨m, ty⟩ := f
    rw [genFields.eq_def]
    simp only [List.map_cons, Fld.meta]
    by_cases h : fieldVisible cfg o m = true
    · simp [h, List.filter_cons, keys] at ih ⊢; exact ih
    · simp [h, List.filter_cons] at ih ⊢; exact ih

theorem filterMap_strOf_strs (xs : List String) : (xs.map Json.str).filterMap strOf = xs := by
  induction xs with
  | nil => rfl
  | cons x rest ih => simp [strOf, ih]

theorem isRequired_visible (cfg : Cfg) (o : Opts) (f : FieldMeta) (h : cfg.output = false) :
    (fieldVisible cfg o f && listedRequired cfg o f) = Spec.absenceIsError f o := by
  rw [← C13_required_eq_spec]
  unfold fieldVisible listedRequired isRequired
  cases ha : alwaysNoInput f o <;> simp [h]

theorem lookup_properties_data (cfg : Cfg) (c : ClassMeta) (fs : List Fld) (a : Ty) :
    lookup "properties" (gen cfg (.data c fs a)) = some (.obj (genFields cfg (effOpts cfg c) fs)) := by
  rw [gen.eq_def]; simp [lookup]

/-- `properties` of the input view lists exactly the fields the parser takes input for (class mode) -/
theorem C13_properties_iff_accepted (gm : Option Char) (c : ClassMeta) (fs : List Fld) (a : Ty) :
    propertyNames (generate ⟨false, gm⟩ (.data c fs a)) =
      ((fs.map Fld.meta).filter fun f => !isNoInput f c.opts).map (·.name) := by
  simp only [propertyNames, generate, lookup_properties_data, genFields_keys, effOpts]
  congr 1
  apply List.filter_congr
  intro f _
  simp [fieldVisible, C13_runtime_noinput_eq_static]

/-- … in the property's own words: a name is a listed property iff it names a field that exists in this mode,
is not closed to input, and is not a defaulted `Final` -/
theorem C13_properties_iff_spec (gm : Option Char) (c : ClassMeta) (fs : List Fld) (a : Ty) (name : String) :
    name ∈ propertyNames (generate ⟨false, gm⟩ (.data c fs a)) ↔
      ∃ f ∈ fs.map Fld.meta, f.name = name ∧ Spec.noInput f c.opts = false := by
  rw [C13_properties_iff_accepted]
  simp only [List.mem_map, List.mem_filter, C13_runtime_noinput_eq_static, C13_static_noinput_eq_spec]
  constructor
  · rintro ⟨f, ⟨⟨g, hg, rfl⟩, hf⟩, rfl⟩
    exact ⟨g.meta, ⟨g, hg, rfl⟩, rfl, by simpa using hf⟩
  · rintro ⟨f, ⟨g, hg, rfl⟩, rfl, hf⟩
    exact ⟨g.meta, ⟨⟨g, hg, rfl⟩, by simpa using hf⟩, rfl⟩

/-- `properties` of the output view lists exactly the fields the parser publishes in this mode -/
theorem C13_output_properties_iff_published (gm : Option Char) (c : ClassMeta) (fs : List Fld) (a : Ty) :
    propertyNames (generate ⟨true, gm⟩ (.data c fs a)) =
      ((fs.map Fld.meta).filter fun f => !isNoOutput f c.opts).map (·.name) := by
  simp only [propertyNames, generate, lookup_properties_data, genFields_keys, effOpts]
  congr 1
  apply List.filter_congr
  intro f _
  simp [fieldVisible, C13_runtime_nooutput_eq_static]

theorem lookup_classAnnotations (k : String) (o : Opts) (h : (k == "x-annotation") = false) :
    lookup k (classAnnotations o) = none := by
  unfold classAnnotations
  cases o.mode <;> simp [lookup, h, BEq.comm]

theorem lookup_reqSeg_ne (k : String) (cfg : Cfg) (o : Opts) (ms : List FieldMeta) (h : (k == "required") = false) :
    lookup k (reqSeg cfg o ms) = none := by
  unfold reqSeg; split <;> simp [lookup, h, BEq.comm]

theorem lookup_depSeg_ne (k : String) (cfg : Cfg) (o : Opts) (ms : List FieldMeta) (h : (k == "dependentRequired") = false) :
    lookup k (depSeg cfg o ms) = none := by
  unfold depSeg; split <;> simp [lookup, h, BEq.comm]

theorem lookup_addSeg_ne (k : String) (o : Opts) (s : Obj) (h : (k == "additionalProperties") = false) :
    lookup k (addSeg o s) = none := by
  unfold addSeg; cases o.addition <;> simp [lookup, h, BEq.comm]

theorem lookup_reqSeg (cfg : Cfg) (o : Opts) (ms : List FieldMeta) :
    lookup "required" (reqSeg cfg o ms) =
      (if (requiredNames cfg o ms).isEmpty then none else some (strArr (requiredNames cfg o ms))) := by
  unfold reqSeg
  by_cases h : (requiredNames cfg o ms).isEmpty = true
  · rw [if_pos h, if_pos h]; rfl
  · rw [if_neg h, if_neg h]; simp [lookup]

theorem lookup_required_data (cfg : Cfg) (c : ClassMeta) (fs : List Fld) (a : Ty) :
    lookup "required" (gen cfg (.data c fs a)) =
      (if (requiredNames cfg (effOpts cfg c) (fs.map Fld.meta)).isEmpty then none
       else some (strArr (requiredNames cfg (effOpts cfg c) (fs.map Fld.meta)))) := by
  rw [gen.eq_def]
  simp only [lookup_append]
  rw [lookup_depSeg_ne _ _ _ _ (by decide), lookup_addSeg_ne _ _ _ (by decide), lookup_classAnnotations _ _ (by decide),
    lookup_reqSeg]
  have h0 : ∀ x : Json, lookup "required" [("type", Json.str "object"), ("properties", x)] = none := by
    intro x; simp [lookup]
  rw [h0]
  by_cases h : (requiredNames cfg (effOpts cfg c) (fs.map Fld.meta)).isEmpty = true
  · rw [if_pos h]
  · rw [if_neg h]

/-- `required` of the input view lists exactly the fields whose absence is an error (class mode) -/
theorem C13_required_iff_absence_error (gm : Option Char) (c : ClassMeta) (fs : List Fld) (a : Ty) :
    requiredOf (generate ⟨false, gm⟩ (.data c fs a)) =
      ((fs.map Fld.meta).filter fun f => Spec.absenceIsError f c.opts).map (·.name) := by
  have hf : requiredNames ⟨false, gm⟩ (effOpts ⟨false, gm⟩ c) (fs.map Fld.meta) =
      ((fs.map Fld.meta).filter fun f => Spec.absenceIsError f c.opts).map (·.name) := by
    unfold requiredNames
    congr 1
    apply List.filter_congr
    intro f _
    exact isRequired_visible ⟨false, gm⟩ c.opts f rfl
  simp only [requiredOf, generate, lookup_required_data]
  by_cases h : (requiredNames ⟨false, gm⟩ (effOpts ⟨false, gm⟩ c) (fs.map Fld.meta)).isEmpty = true
  · rw [if_pos h, ← hf]
    simpa using h
  · rw [if_neg h]
    simp only [strArr, filterMap_strOf_strs]
    exact hf

theorem lookup_addSeg (o : Opts) (s : Obj) :
    lookup "additionalProperties" (addSeg o s) =
      (match o.addition with
       | .drop => none
       | .reject => some (.bool false)
       | .keep => some (.bool true)
       | .convert => some (.obj s)) := by
  unfold addSeg
  cases o.addition <;> simp [lookup]

theorem lookup_additional_data (cfg : Cfg) (c : ClassMeta) (fs : List Fld) (a : Ty) :
    lookup "additionalProperties" (gen cfg (.data c fs a)) =
      (match (effOpts cfg c).addition with
       | .drop => none
       | .reject => some (.bool false)
       | .keep => some (.bool true)
       | .convert => some (.obj (gen cfg a))) := by
  rw [gen.eq_def]
  simp only [lookup_append]
  rw [lookup_reqSeg_ne _ _ _ _ (by decide), lookup_depSeg_ne _ _ _ _ (by decide), lookup_classAnnotations _ _ (by decide),
    lookup_addSeg]
  have h0 : ∀ x : Json, lookup "additionalProperties" [("type", Json.str "object"), ("properties", x)] = none := by
    intro x; simp [lookup]
  rw [h0]
  cases (effOpts cfg c).addition <;> rfl

/-- `additionalProperties` says exactly what the parser does with unknown keys:
absent ↔ dropped, `false` ↔ rejected, `true` ↔ kept, the addition type's schema ↔ converted -/
theorem C13_additional_reflects_policy (cfg : Cfg) (c : ClassMeta) (fs : List Fld) (a : Ty) :
    additionalOf (generate cfg (.data c fs a)) = Spec.additionalMeans cfg a (parserUnknown c.opts) := by
  simp only [additionalOf, generate, lookup_additional_data, effOpts, parserUnknown]
  cases c.opts.addition <;> simp [Spec.additionalMeans, generate]

/-- … and the four answers are pairwise different, so the document determines the treatment -/
theorem C13_additional_policy_determined (cfg : Cfg) (a : Ty) (u u' : Spec.Unknown)
    (h : Spec.additionalMeans cfg a u = Spec.additionalMeans cfg a u') : u = u' := by
  cases u <;> cases u' <;> simp [Spec.additionalMeans, generate] at h ⊢

/-- the parser's treatment of unknown keys is the documented one -/
theorem C13_unknown_keys_eq_spec (o : Opts) : parserUnknown o = Spec.unknownKeys o := by
  cases h : o.addition <;> simp [parserUnknown, Spec.unknownKeys, h]

/-! ## the generator's `mode` argument (known finding `generator-mode-ignored`)

Full statement (false of the code as it is):
  `∀ cfg c fs a, propertyNames (generate ⟨false, cfg.genMode⟩ (.data c fs a)) =
      ((fs.map Fld.meta).filter fun f => !isNoInput f (requestedOpts cfg c)).map (·.name)`
and the same for `required`. -/

theorem C13_mode_param_partial (cfg : Cfg) (c : ClassMeta) (fs : List Fld) (a : Ty)
    (h : KnownDefect.modeIgnored cfg c = false) :
    propertyNames (generate ⟨false, cfg.genMode⟩ (.data c fs a)) =
        ((fs.map Fld.meta).filter fun f => !isNoInput f (requestedOpts cfg c)).map (·.name) ∧
    requiredOf (generate ⟨false, cfg.genMode⟩ (.data c fs a)) =
        ((fs.map Fld.meta).filter fun f => Spec.absenceIsError f (requestedOpts cfg c)).map (·.name) := by
  have ho : requestedOpts cfg c = c.opts := by
    unfold requestedOpts
    unfold KnownDefect.modeIgnored at h
    cases hm : cfg.genMode with
    | none => rfl
    | some m =>
      simp [hm] at h
      cases c with
      | mk n o => cases o; simp_all
  rw [ho]
  exact ⟨C13_properties_iff_accepted _ c fs a, C13_required_iff_absence_error _ c fs a⟩

def witnessField : FieldMeta :=
  { name := "a", attname := "a", aliases := [], required := .always, hasDefault := false, deferDefault := false,
    noInput := .no, noOutput := .no, mode := some ['w'], final := false, deps := [], title := none,
    description := none, deprecated := false, exampleV := none }

def witnessClass : ClassMeta :=
  ⟨"W1", { mode := none, addition := .drop, ignoreRequired := false, noDefault := false, deferDefault := false }⟩

/-- a write-only field of a mode-less class: asked for mode `r`, the generator still lists and requires it -/
theorem C13_mode_param_ignored_witness :
    ∃ cfg c fs a, KnownDefect.modeIgnored cfg c = true ∧
      propertyNames (generate ⟨false, cfg.genMode⟩ (.data c fs a)) ≠
        ((fs.map Fld.meta).filter fun f => !isNoInput f (requestedOpts cfg c)).map (·.name) :=
  ⟨⟨false, some 'r'⟩, witnessClass, [.mk witnessField (.plain .int)], .any, by decide, by decide⟩

/-- the hypotheses of the partial theorem are satisfiable, with a non-empty answer -/
example : ∃ cfg c fs a, KnownDefect.modeIgnored cfg c = false ∧
    propertyNames (generate ⟨false, cfg.genMode⟩ (.data c fs a)) = ["a"] :=
  ⟨⟨false, none⟩, witnessClass, [.mk witnessField (.plain .int)], .any, by decide, by decide⟩

/-! ## Part 2 — the generated document is a well-formed 2020-12 schema -/

theorem seqPrim_array (p : Prim) (h : (p == .list || p == .set || p == .tuple) = true) : getPrimitive p = "array" := by
  cases p <;> simp at h <;> rfl

mutual
theorem wf_gen (cfg : Cfg) : (t : Ty) → wfTy t = true → wfKws (gen cfg t) = true
  | .any, _ => by rw [gen.eq_def]; exact wfKws_nil
  | .plain p, _ => by rw [gen.eq_def]; exact wf_plainSchema p
  | .scalar p m cs, h => by
    rw [wfTy.eq_def] at h
    simp only [Bool.and_eq_true] at h
    rw [gen.eq_def]
    simp only [wfKws_append, wf_ruleHead, Bool.true_and]
    exact wf_scalar_cons p m cs h.1 h.2
  | .seq p m cs item, h => by
    rw [wfTy.eq_def] at h
    simp only [Bool.and_eq_true] at h
    have ih := wf_gen cfg item h.2
    rw [gen.eq_def]
    simp only [wfKws_append, wf_ruleHead, Bool.true_and, wfKws_cons, wfKws_nil, Bool.and_true]
    rw [wf_array_cons p m cs (seqPrim_array p h.1.1.1) h.1.1.2 h.1.2, Bool.true_and]
    simp [wfEntry, schemaKeywords, wf_obj, ih]
  | .tup m cs items, h => by
    rw [wfTy.eq_def] at h
    simp only [Bool.and_eq_true] at h
    have ih := wf_genList cfg items h.2
    rw [gen.eq_def]
    simp only [wfKws_append, wf_ruleHead, Bool.true_and, wfKws_cons, wfKws_nil, Bool.and_true]
    rw [wf_array_cons .tuple m cs rfl h.1.1.1 h.1.1.2, Bool.true_and]
    cases items with
    | nil => simp at h
    | cons t rest =>
      rw [genList.eq_def] at ih ⊢
      simp only [wfList_cons, Bool.and_eq_true] at ih
      simp [wfEntry, schemaKeywords, schemaArrayKeywords, ih.1, ih.2]
  | .map m cs key val, h => by
    rw [wfTy.eq_def] at h
    simp only [Bool.and_eq_true] at h
    have ih := wf_gen cfg val h.2
    rw [gen.eq_def]
    simp only [wfKws_append, wf_ruleHead, Bool.true_and, wfKws_cons, wfKws_nil, Bool.and_true]
    rw [wf_object_cons m cs h.1.1.1 h.1.1.2, Bool.true_and]
    simp [wfEntry, schemaKeywords, schemaArrayKeywords, schemaMapKeywords, wfMap_cons, wfMap_nil, wf_obj, ih]
  | .enum e, _ => by rw [gen.eq_def]; exact wf_enumSchema e
  | .logic op ts, h => by
    rw [wfTy.eq_def] at h
    simp only [Bool.and_eq_true] at h
    have ih := wf_genList cfg ts h.2
    rw [gen.eq_def]
    simp only [wfKws_cons, wfKws_nil, Bool.and_true]
    cases ts with
    | nil => simp at h
    | cons t rest =>
      rw [genList.eq_def] at ih ⊢
      simp only [wfList_cons, Bool.and_eq_true] at ih
      cases op <;> simp [opName, wfEntry, schemaKeywords, schemaArrayKeywords, ih.1, ih.2]
  | .data c fields addTy, h => by
    rw [wfTy.eq_def] at h
    simp only [Bool.and_eq_true] at h
    have ihF := wf_genFields cfg (effOpts cfg c) fields h.1.2
    have ihA := wf_gen cfg addTy h.2
    rw [gen.eq_def]
    simp only [wfKws_append, wfKws_cons, wfKws_nil, Bool.and_true]
    rw [wf_reqSeg _ _ _ (by rw [← fieldNames_eq]; exact h.1.1.2), wf_depSeg _ _ _ (wfFields_deps fields h.1.2),
      wf_addSeg _ _ ihA, wf_classAnnotations]
    simp [wfEntry, wfSimple, wfType, primitiveNames, schemaKeywords, schemaArrayKeywords, schemaMapKeywords, ihF]
theorem wf_genList (cfg : Cfg) : (ts : List Ty) → wfTys ts = true → wfList (genList cfg ts) = true
  | [], _ => by rw [genList.eq_def]; exact wfList_nil
  | t :: rest, h => by
    rw [wfTys.eq_def] at h
    simp only [Bool.and_eq_true] at h
    rw [genList.eq_def]
    simp only [wfList_cons, wf_obj, wf_gen cfg t h.1, wf_genList cfg rest h.2, Bool.and_self]
theorem wf_genFields (cfg : Cfg) (o : Opts) : (fs : List Fld) → wfFields fs = true → wfMap (genFields cfg o fs) = true
  | [], _ => by rw [genFields.eq_def]; exact wfMap_nil
  | .mk m ty :: rest, h => by
    rw [wfFields.eq_def] at h
    simp only [Bool.and_eq_true] at h
    have ih1 := wf_gen cfg ty h.1.2
    have ih2 := wf_genFields cfg o rest h.2
    rw [genFields.eq_def]
    by_cases hv : fieldVisible cfg o m = true
    · simp only [hv, if_true, wfMap_cons, wf_obj, wfKws_append, ih1, wf_fieldExtras, ih2, Bool.and_self]
    · simp only [hv]; exact ih2
end

/-- `C13_wf`: for every well-formed declaration, every generator mode and both views, the generated document
satisfies the 2020-12 metaschema (restricted to the vocabulary the generator can emit). -/
theorem C13_wf (cfg : Cfg) (t : Ty) (h : wfTy t = true) : wf (generate cfg t) = true := by
  unfold generate
  rw [wf_obj]
  exact wf_gen cfg t h

end Utv.C13
