import Utv.Lemmas.Py
/-! Order facts on the numeric fragment (bool, int, float, Decimal; NaN excluded): irreflexivity,
reflexivity of `==`, symmetry, trichotomy — what the lax range constraints need. -/
namespace Utv.Py

theorem Q.scaled_swap (a b : Q) : Q.scaled b a = ((Q.scaled a b).2, (Q.scaled a b).1) := by
  simp [Q.scaled, Int.min_comm]

theorem Q.lt_irrefl (a : Q) : Q.lt a a = false := by simp [Q.lt, Q.scaled]
theorem Q.eq_refl (a : Q) : Q.eq a a = true := by simp [Q.eq, Q.scaled]
theorem Q.eq_symm (a b : Q) : Q.eq a b = Q.eq b a := by
  simp only [Q.eq, Q.scaled_swap a b]
  by_cases h : (Q.scaled a b).1 = (Q.scaled a b).2 <;> simp [h, eq_comm]
theorem Q.tri (a b : Q) (h : Q.lt a b = false) : Q.eq a b = true ∨ Q.lt b a = true := by
  simp only [Q.lt, Q.eq, Q.scaled_swap a b] at *
  simp only [decide_eq_false_iff_not, decide_eq_true_eq] at *
  omega

def NumV.isNan : NumV → Bool
  | .nan => true
  | _ => false

theorem NumV.lt_irrefl (x : NumV) : NumV.lt x x = false := by
  cases x with
  | fin q => simp [NumV.lt, Q.lt_irrefl]
  | inf s => cases s <;> rfl
  | nan => rfl

theorem NumV.eq_refl (x : NumV) (h : x.isNan = false) : NumV.eq x x = true := by
  cases x with
  | fin q => simp [NumV.eq, Q.eq_refl]
  | inf s => simp [NumV.eq]
  | nan => simp [NumV.isNan] at h

theorem NumV.eq_symm (x y : NumV) : NumV.eq x y = NumV.eq y x := by
  cases x <;> cases y <;> simp [NumV.eq, Q.eq_symm, Bool.beq_comm]

theorem NumV.tri (x y : NumV) (hx : x.isNan = false) (hy : y.isNan = false) (h : NumV.lt x y = false) :
    NumV.eq x y = true ∨ NumV.lt y x = true := by
  cases x with
  | nan => simp [NumV.isNan] at hx
  | fin a =>
    cases y with
    | nan => simp [NumV.isNan] at hy
    | fin b => simpa [NumV.lt, NumV.eq] using Q.tri a b (by simpa [NumV.lt] using h)
    | inf s => cases s <;> simp_all [NumV.lt, NumV.eq]
  | inf s =>
    cases y with
    | nan => simp [NumV.isNan] at hy
    | fin b => cases s <;> simp_all [NumV.lt, NumV.eq]
    | inf t => cases s <;> cases t <;> simp_all [NumV.lt, NumV.eq]

/-- a number that is not NaN (bool, int, finite or infinite float / Decimal) -/
def Numeric (v : PyVal) : Prop := ∃ x, num? v = some x ∧ x.isNan = false

theorem numeric_not_decnan {v : PyVal} (h : Numeric v) : isDecNan v = false := by
  obtain ⟨x, hx, hn⟩ := h
  cases v <;> try rfl
  rename_i d
  cases d with
  | fin _ _ _ => rfl
  | inf _ => rfl
  | nan _ =>
    simp [num?] at hx
    subst hx
    simp [NumV.isNan] at hn

theorem numeric_not_floatnan {v : PyVal} (h : Numeric v) : isFloatNan v = false := by
  obtain ⟨x, hx, hn⟩ := h
  cases v <;> try rfl
  rename_i f
  cases f with
  | fin _ _ => rfl
  | inf _ => rfl
  | nan =>
    simp [num?] at hx
    subst hx
    simp [NumV.isNan] at hn

theorem lt_numeric {v b : PyVal} {x y : NumV} (hv : num? v = some x) (hb : num? b = some y)
    (nx : x.isNan = false) (ny : y.isNan = false) : lt v b = .ok (NumV.lt x y) := by
  have dv := numeric_not_decnan ⟨x, hv, nx⟩
  have db := numeric_not_decnan ⟨y, hb, ny⟩
  have fv := numeric_not_floatnan ⟨x, hv, nx⟩
  have fb := numeric_not_floatnan ⟨y, hb, ny⟩
  simp [lt, hv, hb, dv, db, fv, fb, pure, Except.pure]

theorem eq_numeric {v b : PyVal} {x y : NumV} (hv : num? v = some x) (hb : num? b = some y) :
    eq v b = NumV.eq x y := by
  cases v <;> simp [num?] at hv <;> cases b <;> simp [num?] at hb <;>
    simp [eq, eqScalar, num?, hv, hb]

end Utv.Py
