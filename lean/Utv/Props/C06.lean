import Utv.Props.C05
import Utv.Model.C06
/-!
C06 — the result does not depend on the field-lookup strategy.

`C06_df_eq_ff` : for every world, well-formed parser, `Options` and input with distinct keys, data-first and
field-first parsing produce the same data (as a finite map) and handle the same set of errors — obtained from
the two C05 refinements to the common `FieldContract`, not by a simultaneous induction over the two loops.
`C06_same_outcome` : what the caller observes under the two strategies, for EVERY input: equal mapping and attribute
views when both succeed; otherwise both fail, in the same way (both raise / both collect), and what they report are
violations of the one contract — the same SET of violations underlies both runs; uncapped collecting reports exactly
that set under both; fail-fast reports one member of it, `max_errors = k` at most `max k 1` members of it.
WHICH member a fail-fast run raises (which `k` a capped run reports) is NOT the same in general: it is the first the
strategy's own loop comes across (`C06_failfast_kind_differs_witness`: a required field missing + another field
unconvertible → data-first raises the ParseError, field-first the AbsenceError).  A caller's `except AbsenceError` can
therefore observe the strategy: known finding `failfast-first-error-order`, predicate `KnownDefect`.
`C06_same_outcome_partial` : outside `KnownDefect` (every violation is reported, or there is only one) the outcome is
the same in the strict sense — the same error raised, the same set collected.
`C06_params_error_same` : a max_params / min_params violation is raised first by both.
`C06_strategy_unobservable(_partial)` : whatever `data_first_search` is set to (True, False, None = chosen by
`assign_search_strategy`), the outcome is the same in those senses.
The `C06_legacy_*` witnesses refute all of this for the code before fixes/C06-1..5-*.patch.
-/
namespace Utv.C06
open Utv.C05 Utv.C05.Spec

variable {V : Type}

/-- **C06.** -/
theorem C06_df_eq_ff [DecidableEq V] (W : World V) (LL : LowerLaws W) (P : Parser V) (hwf : P.wf W = true)
    (o : Opts V) (data : List (Key × V)) (hnd : (data.map (·.1)).Nodup) :
    MapEq (dataFirst {} W P o data).result (fieldFirst {} W P o data).result
    ∧ SetEq (dataFirst {} W P o data).errs (fieldFirst {} W P o data).errs := by
  have wf := WF.of_wf hwf
  obtain ⟨h1, h2⟩ := dataFirst_equiv_ref LL wf o data hnd
  rw [fieldFirst_eq_ref LL wf o hnd]
  exact ⟨h1, h2⟩

/-- "equal parsed data when both succeed, and a failure of the same kind otherwise" — the strict reading: the same
error is raised, the same set of errors is collected.  This is what the property asks for; the code meets it outside
`KnownDefect` only (`C06_same_outcome_partial`, `C06_failfast_kind_differs_witness`). -/
def SameOutcomeStrict : Outcome V → Outcome V → Prop
  | .ok m a, .ok m' a' => MapEq m m' ∧ MapEq a a'
  | .raised e, .raised e' => e = e'
  | .collected es, .collected es' => SetEq es es'
  | _, _ => False

/-- What holds for every input, `viol` being the violations of the contract (one set, whatever the strategy) and `cap`
the `max_errors` in force:
* both succeed, with equal mapping and attribute views; or
* both raise, each one a member of `viol` — not necessarily the same member: each strategy raises the first violation
  its own loop meets; or
* both collect: without a cap, exactly `viol` (as a set) under both; under `max_errors = k`, a non-empty selection of at
  most `max k 1` members of `viol` under both — again not necessarily the same selection. -/
def SameOutcome (viol : List Err) (cap : Option Nat) : Outcome V → Outcome V → Prop
  | .ok m a, .ok m' a' => MapEq m m' ∧ MapEq a a'
  | .raised e, .raised e' => e ∈ viol ∧ e' ∈ viol
  | .collected es, .collected es' =>
    match cap with
    | none => SetEq es viol ∧ SetEq es' viol
    | some k => es ≠ [] ∧ es' ≠ [] ∧ es.length ≤ max k 1 ∧ es'.length ≤ max k 1
                ∧ (∀ e ∈ es, e ∈ viol) ∧ (∀ e ∈ es', e ∈ viol)
  | _, _ => False

/-- all the violations are one and the same -/
def OneViolation (l : List Err) : Prop := ∀ x ∈ l, ∀ y ∈ l, x = y

instance (l : List Err) : Decidable (OneViolation l) := by unfold OneViolation; infer_instance

/-- **Known finding `failfast-first-error-order`**: not every violation is reported (fail-fast, or collecting under
`max_errors`) and the input has two different ones.  Which of them is reported depends on the order in which the
strategy's loop meets them: data-first walks the input and only then looks for missing fields, field-first walks the
declared fields. -/
def KnownDefect [DecidableEq V] (W : World V) (P : Parser V) (o : Opts V) (data : List (Key × V)) : Prop :=
  (o.collectErrors = false ∨ o.maxErrors.isSome = true) ∧ ¬ OneViolation (contract W P o data).errs

instance [DecidableEq V] (W : World V) (P : Parser V) (o : Opts V) (data : List (Key × V)) :
    Decidable (KnownDefect W P o data) := by unfold KnownDefect; infer_instance

/-- `parse_data` is `parseWith` for the strategy it selects -/
theorem parseData_eq_parseWith [DecidableEq V] (W : World V) (P : Parser V) (o : Opts V) (data : List (Key × V)) :
    parseData {} W P o data = parseWith W P o data (useDataFirst P o) := by
  unfold parseData parseWith; rfl

theorem parseWith_nodup [DecidableEq V] (W : World V) (P : Parser V) (o : Opts V) (data : List (Key × V)) (df : Bool) :
    ((parseWith W P o data df).result.map (·.1)).Nodup := by
  unfold parseWith
  cases df
  · exact fieldFirst_nodup W P o data
  · exact dataFirst_nodup W P o data

theorem parseWith_refines [DecidableEq V] (W : World V) (LL : LowerLaws W) (P : Parser V) (hwf : P.wf W = true)
    (o : Opts V) (data : List (Key × V)) (hnd : (data.map (·.1)).Nodup) (df : Bool) :
    MapEq (parseWith W P o data df).result (contract W P o data).result
    ∧ SetEq (parseWith W P o data df).errs (contract W P o data).errs := by
  unfold parseWith
  cases df
  · exact C05_ff_refines W LL P hwf o data hnd
  · exact C05_df_refines W LL P hwf o data hnd

/-- the two views are functions of the parsed data as a finite map -/
theorem views_congr {W : World V} (LL : LowerLaws W) {P : Parser V} (wf : WF W P) (o : Opts V)
    (r₁ r₂ : List (Key × V)) (h : MapEq r₁ r₂) (hn₁ : (r₁.map (·.1)).Nodup) (hn₂ : (r₂.map (·.1)).Nodup)
    (hok₁ : ResultKeysOk W P r₁) (hok₂ : ResultKeysOk W P r₂) :
    MapEq (views {} W P o r₁).1 (views {} W P o r₂).1 ∧ MapEq (views {} W P o r₁).2 (views {} W P o r₂).2 := by
  obtain ⟨a1, a2⟩ := views_spec LL wf o r₁ hn₁ hok₁
  obtain ⟨b1, b2⟩ := views_spec LL wf o r₂ hn₂ hok₂
  obtain ⟨c1, c2⟩ := views_keys LL wf o r₁ hok₁
  obtain ⟨d1, d2⟩ := views_keys LL wf o r₂ hok₂
  constructor
  · intro k
    cases hk : anyAccepts W P k
    · rw [(a2 k hk).1, (b2 k hk).1]; exact h k
    · by_cases hn : ∃ kf ∈ P.fields, kf.2.name = k
      · obtain ⟨kf, hf, rfl⟩ := hn
        rw [(a1 kf hf).2, (b1 kf hf).2, h kf.2.name]
      · have hn' : ∀ kf ∈ P.fields, kf.2.name ≠ k := fun kf hf e => hn ⟨kf, hf, e⟩
        rw [c1 k hk hn', d1 k hk hn']
  · intro k
    cases hk : anyAccepts W P k
    · rw [(a2 k hk).2, (b2 k hk).2]; exact h k
    · by_cases hn : ∃ kf ∈ P.fields, kf.2.attname = k
      · obtain ⟨kf, hf, rfl⟩ := hn
        rw [(a1 kf hf).1, (b1 kf hf).1, h kf.2.name]
      · have hn' : ∀ kf ∈ P.fields, kf.2.attname ≠ k := fun kf hf e => hn ⟨kf, hf, e⟩
        rw [c2 k hk hn', d2 k hk hn']

theorem take_subset {α : Type} (n : Nat) (l : List α) : ∀ e ∈ l.take n, e ∈ l := fun _ h => List.mem_of_mem_take h

/-- the common part of the two theorems below -/
theorem runs_related [DecidableEq V] (W : World V) (LL : LowerLaws W) (P : Parser V) (hwf : P.wf W = true)
    (o : Opts V) (data : List (Key × V)) (hnd : (data.map (·.1)).Nodup) (b₁ b₂ : Bool) :
    MapEq (parseWith W P o data b₁).result (parseWith W P o data b₂).result
    ∧ SetEq (parseWith W P o data b₁).errs (contract W P o data).errs
    ∧ SetEq (parseWith W P o data b₂).errs (contract W P o data).errs
    ∧ ∀ b, ResultKeysOk W P (parseWith W P o data b).result := by
  obtain ⟨r1, e1⟩ := parseWith_refines W LL P hwf o data hnd b₁
  obtain ⟨r2, e2⟩ := parseWith_refines W LL P hwf o data hnd b₂
  refine ⟨fun k => (r1 k).trans (r2 k).symm, e1, e2, ?_⟩
  intro b k hk
  apply contract_result_keys W P o data k
  rw [← (parseWith_refines W LL P hwf o data hnd b).1 k]
  intro hc; exact ((dget_eq_none_iff _ _).1 hc) hk

/-- **C06 at the level of what the caller observes — for every input.** -/
theorem C06_same_outcome [DecidableEq V] (W : World V) (LL : LowerLaws W) (P : Parser V) (hwf : P.wf W = true)
    (o : Opts V) (data : List (Key × V)) (hnd : (data.map (·.1)).Nodup) (b₁ b₂ : Bool) :
    SameOutcome (contract W P o data).errs o.maxErrors (runWith W P o data b₁) (runWith W P o data b₂) := by
  have wf := WF.of_wf hwf
  obtain ⟨hr, e1, e2, hok⟩ := runs_related W LL P hwf o data hnd b₁ b₂
  have he : SetEq (parseWith W P o data b₁).errs (parseWith W P o data b₂).errs := fun e => (e1 e).trans (e2 e).symm
  unfold runWith finish
  cases h1 : (parseWith W P o data b₁).errs with
  | nil =>
    have h2 : (parseWith W P o data b₂).errs = [] := (setEq_nil_iff he).1 h1
    rw [h2]
    exact views_congr LL wf o _ _ hr (parseWith_nodup W P o data b₁) (parseWith_nodup W P o data b₂) (hok b₁) (hok b₂)
  | cons x xs =>
    cases h2 : (parseWith W P o data b₂).errs with
    | nil => exact absurd ((setEq_nil_iff he).2 h2) (by rw [h1]; simp)
    | cons y ys =>
      rw [h1] at e1; rw [h2] at e2
      simp only
      cases o.collectErrors
      · exact ⟨(e1 x).1 (by simp), (e2 y).1 (by simp)⟩
      · simp only [Bool.not_true, Bool.false_eq_true, if_false]
        cases hm : o.maxErrors with
        | none => exact ⟨e1, e2⟩
        | some n =>
          have hpos : 0 < max n 1 := by omega
          refine ⟨?_, ?_, ?_, ?_, ?_, ?_⟩
          · intro h; have := congrArg List.length h; simp [List.length_take] at this
          · intro h; have := congrArg List.length h; simp [List.length_take] at this
          · rw [List.length_take]; omega
          · rw [List.length_take]; omega
          · exact fun e h => (e1 e).1 (List.mem_of_mem_take h)
          · exact fun e h => (e2 e).1 (List.mem_of_mem_take h)

/-- **C06 in the strict reading, outside the known finding**: when every violation is reported (collecting without a
cap) or the input has at most one, both strategies raise the SAME error / collect the SAME set. -/
theorem C06_same_outcome_partial [DecidableEq V] (W : World V) (LL : LowerLaws W) (P : Parser V) (hwf : P.wf W = true)
    (o : Opts V) (data : List (Key × V)) (hnd : (data.map (·.1)).Nodup) (b₁ b₂ : Bool)
    (hk : ¬ KnownDefect W P o data) :
    SameOutcomeStrict (runWith W P o data b₁) (runWith W P o data b₂) := by
  have wf := WF.of_wf hwf
  obtain ⟨hr, e1, e2, hok⟩ := runs_related W LL P hwf o data hnd b₁ b₂
  have he : SetEq (parseWith W P o data b₁).errs (parseWith W P o data b₂).errs := fun e => (e1 e).trans (e2 e).symm
  have hone : (o.collectErrors = false ∨ o.maxErrors.isSome = true) → OneViolation (contract W P o data).errs := by
    intro h; exact Classical.byContradiction fun hn => hk ⟨h, hn⟩
  unfold runWith finish
  cases h1 : (parseWith W P o data b₁).errs with
  | nil =>
    have h2 : (parseWith W P o data b₂).errs = [] := (setEq_nil_iff he).1 h1
    rw [h2]
    exact views_congr LL wf o _ _ hr (parseWith_nodup W P o data b₁) (parseWith_nodup W P o data b₂) (hok b₁) (hok b₂)
  | cons x xs =>
    cases h2 : (parseWith W P o data b₂).errs with
    | nil => exact absurd ((setEq_nil_iff he).2 h2) (by rw [h1]; simp)
    | cons y ys =>
      rw [h1] at e1; rw [h2] at e2
      simp only
      cases hc : o.collectErrors
      · exact hone (Or.inl hc) x ((e1 x).1 (by simp)) y ((e2 y).1 (by simp))
      · simp only [Bool.not_true, Bool.false_eq_true, if_false]
        cases hm : o.maxErrors with
        | none => exact fun e => (e1 e).trans (e2 e).symm
        | some n =>
          have h1v := hone (Or.inr (by rw [hm]; rfl))
          have hpos : 0 < max n 1 := by omega
          have hx : x ∈ (x :: xs).take (max n 1) := by
            cases hmx : max n 1 with
            | zero => omega
            | succ m => simp [List.take_succ_cons]
          have hy : y ∈ (y :: ys).take (max n 1) := by
            cases hmx : max n 1 with
            | zero => omega
            | succ m => simp [List.take_succ_cons]
          intro e
          constructor
          · intro h
            have : e = y := h1v e ((e1 e).1 (List.mem_of_mem_take h)) y ((e2 y).1 (by simp))
            rw [this]; exact hy
          · intro h
            have : e = x := h1v e ((e2 e).1 (List.mem_of_mem_take h)) x ((e1 x).1 (by simp))
            rw [this]; exact hx

/-- **A max_params / min_params violation is raised first, by both strategies**: the prologue is shared. -/
theorem C06_params_error_same [DecidableEq V] (W : World V) (P : Parser V) (o : Opts V) (data : List (Key × V))
    (e : Err) (es : List Err) (hp : paramsCheck o data.length = e :: es) (hc : o.collectErrors = false) (b : Bool) :
    runWith W P o data b = .raised e := by
  unfold runWith finish parseWith
  simp only [hp, List.cons_append, hc]
  rfl

/-- **Whatever `data_first_search` says — True, False, or None (`assign_search_strategy` decides) — the
outcome is that of either forced strategy.** -/
theorem C06_strategy_unobservable [DecidableEq V] (W : World V) (LL : LowerLaws W) (P : Parser V)
    (hwf : P.wf W = true) (o : Opts V) (data : List (Key × V)) (hnd : (data.map (·.1)).Nodup) (b : Bool) :
    SameOutcome (contract W P o data).errs o.maxErrors
      (finish {} W P o (parseData {} W P o data)) (runWith W P o data b) := by
  rw [parseData_eq_parseWith]
  exact C06_same_outcome W LL P hwf o data hnd (useDataFirst P o) b

theorem C06_strategy_unobservable_partial [DecidableEq V] (W : World V) (LL : LowerLaws W) (P : Parser V)
    (hwf : P.wf W = true) (o : Opts V) (data : List (Key × V)) (hnd : (data.map (·.1)).Nodup) (b : Bool)
    (hk : ¬ KnownDefect W P o data) :
    SameOutcomeStrict (finish {} W P o (parseData {} W P o data)) (runWith W P o data b) := by
  rw [parseData_eq_parseWith]
  exact C06_same_outcome_partial W LL P hwf o data hnd (useDataFirst P o) b hk

/-- **C06 from the declarations as written**: for any class of any sequence of class declarations whose names do not
clash (`Parser.wfNames`; the rest of `wf` is derived, `C05_wf_of_no_name_clash`), under any runtime or class options. -/
theorem C06_declared_same_outcome [DecidableEq V] (W : World V) (LL : LowerLaws W) (decls : List (ClassDecl V))
    (B : Built V) (hB : B ∈ buildAll W decls) (hnames : B.parser.wfNames W = true)
    (runtime : Option (Opts V)) (data : List (Key × V)) (hnd : (data.map (·.1)).Nodup) (b₁ b₂ : Bool) :
    let o := (runtime.getD B.opts).normalise
    SameOutcome (contract W B.parser o data).errs o.maxErrors
      (runWith W B.parser o data b₁) (runWith W B.parser o data b₂)
    ∧ (¬ KnownDefect W B.parser o data →
        SameOutcomeStrict (runWith W B.parser o data b₁) (runWith W B.parser o data b₂)) := by
  intro o
  have hwf := C05_wf_of_no_name_clash W LL decls B hB hnames
  exact ⟨C06_same_outcome W LL B.parser hwf o data hnd b₁ b₂,
    C06_same_outcome_partial W LL B.parser hwf o data hnd b₁ b₂⟩

/-! ### Non-vacuity, and the code before fixes/C06-1..5-*.patch -/

def P₀ : Parser Nat := mkParser W₀ cA

/-- `class K(Schema): a: int; b: int`, parsed from `{'b': <unconvertible>}`: two violations — `a` is missing, `b` does
not convert.  Data-first meets `b` in the input first and raises its ParseError; field-first walks the fields, finds
`a` missing and raises AbsenceError.  The same with `collect_errors=True, max_errors=1`. -/
def cTwo : ClassDecl Nat := { fields := [{ attname := 0 }, { attname := 3 }], opts := {} }

def raisedErr : Outcome Nat → Option Err | .raised e => some e | _ => none
def collectedErrs : Outcome Nat → Option (List Err) | .collected es => some es | _ => none

theorem C06_failfast_kind_differs_witness :
    raisedErr (runWith W₀ (mkParser W₀ cTwo) {} [(3, 99)] true) = some (.parse 3)
    ∧ raisedErr (runWith W₀ (mkParser W₀ cTwo) {} [(3, 99)] false) = some (.absence 0)
    ∧ collectedErrs (runWith W₀ (mkParser W₀ cTwo) { collectErrors := true, maxErrors := some 1 } [(3, 99)] true)
        = some [.parse 3]
    ∧ collectedErrs (runWith W₀ (mkParser W₀ cTwo) { collectErrors := true, maxErrors := some 1 } [(3, 99)] false)
        = some [.absence 0]
    ∧ KnownDefect W₀ (mkParser W₀ cTwo) {} [(3, 99)] := by decide

/-- the hypothesis of the partial theorem is satisfiable: one violation only; and without a cap both collect the two -/
example : (mkParser W₀ cTwo).wf W₀ = true := by decide
example : ¬ KnownDefect W₀ (mkParser W₀ cTwo) {} [(3, 1)] := by decide
example : ¬ KnownDefect W₀ (mkParser W₀ cTwo) { collectErrors := true } [(3, 99)] := by decide
example : collectedErrs (runWith W₀ (mkParser W₀ cTwo) { collectErrors := true } [(3, 99)] true) = some [.parse 3, .absence 0]
    ∧ collectedErrs (runWith W₀ (mkParser W₀ cTwo) { collectErrors := true } [(3, 99)] false) = some [.absence 0, .parse 3] := by
  decide

example : P₀.wf W₀ = true := by decide

/-- the strategies agree after the fix on the witnesses below -/
example : (parseWith W₀ P₀ {} [(0, 10), (2, 10)] true).result = (parseWith W₀ P₀ {} [(0, 10), (2, 10)] false).result
    ∧ (parseWith W₀ P₀ {} [(0, 10), (2, 10)] true).errs = (parseWith W₀ P₀ {} [(0, 10), (2, 10)] false).errs := by decide

/-- (a) the same field under two aliases with the same raw value: data-first compared the *parsed* stored
value with the raw duplicate and reported a conflict, field-first did not -/
theorem C06_legacy_parsed_vs_raw_witness :
    (dataFirstLegacy W₀ P₀ {} [(0, 10), (2, 10)]).errs = [.aliasConflict 0]
    ∧ (fieldFirstLegacy W₀ P₀ {} [(0, 10), (2, 10)]).errs = [] := by decide

/-- (b) `ignore_required=True`: data-first skipped the default-filling loop -/
def cDefault : ClassDecl Nat := { fields := [{ attname := 0, default := some 5 }], opts := { ignoreRequired := true } }

theorem C06_legacy_ignore_required_witness :
    (dataFirstLegacy W₀ (mkParser W₀ cDefault) cDefault.opts []).result = []
    ∧ (fieldFirstLegacy W₀ (mkParser W₀ cDefault) cDefault.opts []).result = [(0, 5)] := by decide

example : (dataFirst {} W₀ (mkParser W₀ cDefault) cDefault.opts []).result = [(0, 5)] := by decide

/-- (c) a callable `no_input` that fires: data-first forgot the field had been given and reported its absence -/
def cCallable : ClassDecl Nat := { fields := [{ attname := 0, noInput := .pred 0 }], opts := {} }

theorem C06_legacy_callable_no_input_witness :
    (dataFirstLegacy W₀ (mkParser W₀ cCallable) {} [(0, 0)]).errs = [.absence 0]
    ∧ (fieldFirstLegacy W₀ (mkParser W₀ cCallable) {} [(0, 0)]).errs = [] := by decide

example : (dataFirst {} W₀ (mkParser W₀ cCallable) {} [(0, 0)]).errs = [] := by decide

/-- (d) a case-insensitive field given as 'a' and 'A' with different values: field-first merged the two
silently (last wins), data-first reported a conflict -/
def cCi : ClassDecl Nat := { fields := [{ attname := 0, ci := some true }], opts := {} }

theorem C06_legacy_case_duplicates_witness :
    (dataFirstLegacy W₀ (mkParser W₀ cCi) {} [(0, 1), (1, 2)]).errs = [.aliasConflict 0]
    ∧ (fieldFirstLegacy W₀ (mkParser W₀ cCi) {} [(0, 1), (1, 2)]).errs = []
    ∧ (fieldFirstLegacy W₀ (mkParser W₀ cCi) {} [(0, 1), (1, 2)]).result = [(0, 2)] := by decide

example : (fieldFirst {} W₀ (mkParser W₀ cCi) {} [(0, 1), (1, 2)]).errs = [.aliasConflict 0] := by decide

/-- (e) `ignore_alias_conflicts=True`: data-first kept the last duplicate in input order (and parsed all of
them), field-first the first alias in declaration order -/
theorem C06_legacy_ignore_conflicts_witness :
    (dataFirstLegacy W₀ P₀ { ignoreAliasConflicts := true } [(0, 8), (2, 7)]).result = [(0, 7)]
    ∧ (fieldFirstLegacy W₀ P₀ { ignoreAliasConflicts := true } [(0, 8), (2, 7)]).result = [(0, 8)] := by decide

example : (dataFirst {} W₀ P₀ { ignoreAliasConflicts := true } [(2, 7), (0, 8)]).result = [(0, 8)] := by decide

/-- (f) conflicting duplicates of a field whose input is ignored (`no_input=True`): field-first raised,
data-first did not -/
def cNoInput : ClassDecl Nat := { fields := [{ attname := 0, aliasFrom := [2], default := some 5, noInput := .yes }], opts := {} }

theorem C06_legacy_no_input_conflict_witness :
    (dataFirstLegacy W₀ (mkParser W₀ cNoInput) {} [(0, 1), (2, 2)]).errs = []
    ∧ (fieldFirstLegacy W₀ (mkParser W₀ cNoInput) {} [(0, 1), (2, 2)]).errs = [.aliasConflict 0] := by decide

example : (fieldFirst {} W₀ (mkParser W₀ cNoInput) {} [(0, 1), (2, 2)]).errs = [] := by decide

end Utv.C06
