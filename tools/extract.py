#!/usr/bin/env python3
"""T1 — translator: regenerates lean/Utv/Gen/*.lean from the *source text* of /repo (ast only; nothing
from /repo is imported or executed).

(a) tables: literal data the theorems and models depend on;
(b) functions: small branch-only code (the `Constraints` validators of parser/rule.py, `multi`/`copy_value`
    of utils/functional.py) translated statement by statement into a shallow embedding: Lean `do` blocks in the
    `Except Exc` monad over `PyVal`, built from the `Py.*` operators of lean/Utv/Py/Basic.lean.

Anything outside the accepted subset stops the translation of that function with an `untranslatable` record;
the function is then emitted as a `def … := throw (.unmodelled "untranslatable …")` so that every theorem about it
stops checking (never silently skipped).
"""
from __future__ import annotations

import argparse
import ast
import json
import sys
from pathlib import Path

CONSTRAINT_FUNCS = [
    "decimal_places", "lax_decimal_places", "multiple_of", "lax_multiple_of", "_parse_decimal", "max_digits",
    "lax_max_digits", "const", "lax_const", "enum", "lax_enum", "regex", "gt", "ge", "lax_ge", "lt", "le", "lax_le",
    "length", "lax_length", "max_length", "lax_max_length", "min_length", "unique_items", "lax_unique_items",
]

CLS_NAMES = {
    "Decimal": ".decimal", "EnumMeta": ".enumMeta", "Enum": ".enum", "int": ".int", "float": ".float", "str": ".str",
    "bool": ".bool", "list": ".list", "tuple": ".tuple", "set": ".set", "frozenset": ".frozenset",
}


class Untranslatable(Exception):
    pass


def lname(n: str) -> str:
    """Lean-safe local name"""
    return n + "_"


class FuncTranslator:
    """One Python function -> one Lean `def` in the M monad."""

    def __init__(self, fn: ast.FunctionDef, owner: str, siblings: set[str], tables: set[str], src_file: str):
        self.fn = fn
        self.owner = owner
        self.siblings = siblings
        self.tables = tables
        self.src_file = src_file
        self.assigned: set[str] = set()
        self.declared: set[str] = set()

    def fail(self, node, why=""):
        raise Untranslatable(f"{self.src_file}:{getattr(node, 'lineno', '?')} {type(node).__name__} {why}")

    # ---- expressions: returns (code, pure) ; code has Lean type PyVal (pure) or M PyVal (not pure) ----------
    def bind(self, code_pure):
        code, pure = code_pure
        return code if pure else f"(← {code})"

    def val(self, e) -> tuple[str, bool]:
        if isinstance(e, ast.Name):
            if e.id in self.tables:
                return f"Tables.{e.id}", True
            if e.id in ("True", "False", "None"):
                self.fail(e)
            return lname(e.id), True
        if isinstance(e, ast.Constant):
            v = e.value
            if v is None:
                return "PyVal.none", True
            if v is True or v is False:
                return f"(PyVal.bool {'true' if v else 'false'})", True
            if isinstance(v, int):
                return f"(PyVal.int ({v}))", True
            if isinstance(v, str):
                return f"(PyVal.str {json.dumps(v)})", True
            self.fail(e, "constant")
        if isinstance(e, (ast.Set, ast.Tuple, ast.List)):
            kind = {ast.Set: ".set", ast.Tuple: ".tuple", ast.List: ".list"}[type(e)]
            items = [self.bind(self.val(x)) for x in e.elts]
            return f"(PyVal.seq {kind} [{', '.join(items)}])", True
        if isinstance(e, ast.BinOp):
            op = {ast.Mod: "mod", ast.FloorDiv: "floordiv", ast.Mult: "mul", ast.Sub: "sub", ast.Add: "add"}.get(type(e.op))
            if not op:
                self.fail(e, "operator")
            return f"Py.{op} {self.atom(e.left)} {self.atom(e.right)}", False
        if isinstance(e, (ast.Compare, ast.BoolOp)) or (isinstance(e, ast.UnaryOp) and isinstance(e.op, ast.Not)):
            return f"(PyVal.bool {self.cond(e)})", True
        if isinstance(e, ast.Subscript):
            base = self.atom(e.value)
            sl = e.slice
            if isinstance(sl, ast.Slice):
                if sl.step is not None:
                    self.fail(e, "slice step")
                if sl.lower is None and sl.upper is not None:
                    return f"Py.sliceTo {base} {self.atom(sl.upper)}", False
                if sl.lower is not None and sl.upper is None:
                    return f"Py.sliceFrom {base} {self.atom(sl.lower)}", False
                self.fail(e, "slice form")
            return f"Py.index {base} {self.atom(sl)}", False
        if isinstance(e, ast.Attribute):
            return f"Py.getattrValue {self.atom(e.value)} {json.dumps(e.attr)}", False
        if isinstance(e, ast.Call):
            return self.call(e)
        self.fail(e)

    def atom(self, e) -> str:
        """expression usable as a function argument"""
        return self.bind(self.val(e))

    def call(self, e: ast.Call) -> tuple[str, bool]:
        f = e.func
        if e.keywords:
            self.fail(e, "keyword arguments")
        if isinstance(f, ast.Name):
            n = f.id
            a = e.args
            if n == "len" and len(a) == 1:
                return f"Py.len {self.atom(a[0])}", False
            if n == "str" and len(a) == 1:
                return f"Py.str P {self.atom(a[0])}", False
            if n == "abs" and len(a) == 1:
                return f"Py.abs {self.atom(a[0])}", False
            if n == "round" and len(a) == 2:
                return f"Py.round P {self.atom(a[0])} {self.atom(a[1])}", False
            if n == "list" and len(a) == 1:
                return f"Py.toList {self.atom(a[0])}", False
            if n == "type" and len(a) == 1:
                return f"(PyVal.cls (Py.typeOf {self.atom(a[0])}))", True
            if n == "Decimal" and len(a) == 1:
                # the idiom Decimal(str(x))
                inner = a[0]
                if isinstance(inner, ast.Call) and isinstance(inner.func, ast.Name) and inner.func.id == "str" and len(inner.args) == 1:
                    return f"Py.decimalOfStrOf P {self.atom(inner.args[0])}", False
                self.fail(e, "Decimal(...) form")
            if n in ("isinstance", "hasattr"):
                return f"(PyVal.bool {self.cond(e)})", True
            # calling a local value: `lst(value)` (an Enum class held in a variable)
            if len(a) == 1 and n not in CLS_NAMES:
                return f"Py.callValue {lname(n)} {self.atom(a[0])}", False
            self.fail(e, f"call of {n}")
        if isinstance(f, ast.Attribute):
            # cls._sibling(value)
            if isinstance(f.value, ast.Name) and f.value.id in ("cls", "self") and f.attr in self.siblings:
                args = " ".join(self.atom(x) for x in e.args)
                return f"{self.owner}.{lean_ident(f.attr)} P {args}", False
            if f.attr == "as_tuple" and not e.args:
                return f"Py.asTuple {self.atom(f.value)}", False
            if isinstance(f.value, ast.Name) and f.value.id == "re" and f.attr == "fullmatch" and len(e.args) == 2:
                return f"Py.reFullmatch P {self.atom(e.args[0])} {self.atom(e.args[1])}", False
            self.fail(e, f"method {f.attr}")
        if isinstance(f, ast.Call):
            # type(value)(lst)
            if isinstance(f.func, ast.Name) and f.func.id == "type" and len(f.args) == 1 and len(e.args) == 1:
                return f"Py.construct (Py.typeOf {self.atom(f.args[0])}) {self.atom(e.args[0])}", False
        self.fail(e, "call form")

    # ---- conditions: Lean Bool-valued code usable inside a `do` block (may contain nested `(← …)`) ---------
    def cond(self, e) -> str:
        if isinstance(e, ast.UnaryOp) and isinstance(e.op, ast.Not):
            return f"(!{self.cond(e.operand)})"
        if isinstance(e, ast.BoolOp):
            # short-circuit, as Python
            parts = [self.cond_m(v) for v in e.values]
            acc = parts[-1]
            for p in reversed(parts[:-1]):
                if isinstance(e.op, ast.Or):
                    acc = f"(do if (← {p}) then pure true else {acc})"
                else:
                    acc = f"(do if (← {p}) then {acc} else pure false)"
            return f"(← {acc})"
        if isinstance(e, ast.Compare):
            if len(e.ops) != 1:
                self.fail(e, "chained comparison")
            op, l, r = e.ops[0], e.left, e.comparators[0]
            m = {ast.Lt: "lt", ast.LtE: "le", ast.Gt: "gt", ast.GtE: "ge"}.get(type(op))
            if m:
                return f"(← Py.{m} {self.atom(l)} {self.atom(r)})"
            if isinstance(op, ast.Eq):
                return f"(Py.eq {self.atom(l)} {self.atom(r)})"
            if isinstance(op, ast.NotEq):
                return f"(Py.ne {self.atom(l)} {self.atom(r)})"
            if isinstance(op, ast.In):
                return f"(← Py.contains {self.atom(r)} {self.atom(l)})"
            if isinstance(op, ast.NotIn):
                return f"(!(← Py.contains {self.atom(r)} {self.atom(l)}))"
            self.fail(e, "comparison operator")
        if isinstance(e, ast.Call) and isinstance(e.func, ast.Name) and not e.keywords:
            if e.func.id == "isinstance" and len(e.args) == 2 and isinstance(e.args[1], ast.Name) and e.args[1].id in CLS_NAMES:
                return f"(Py.isinstance {self.atom(e.args[0])} {CLS_NAMES[e.args[1].id]})"
            if e.func.id == "hasattr" and len(e.args) == 2 and isinstance(e.args[1], ast.Constant) and isinstance(e.args[1].value, str):
                return f"(Py.hasattr {self.atom(e.args[0])} {json.dumps(e.args[1].value)})"
        return f"(Py.truthy {self.atom(e)})"

    def cond_m(self, e) -> str:
        """condition as an `M Bool` action (for short-circuit operators)"""
        return f"(do pure {self.cond(e)})"

    # ---- statements -----------------------------------------------------------------------------------------
    def assign(self, name: str, code_pure, ind: str) -> str:
        code, pure = code_pure
        n = lname(name)
        if name in self.declared:
            return f"{ind}{n} {'←' if not pure else ':='} {code}" if not pure else f"{ind}{n} := {code}"
        self.declared.add(name)
        return f"{ind}let mut {n} ← {code}" if not pure else f"{ind}let mut {n} := {code}"

    def stmts(self, body, ind: str) -> list[str]:
        out = []
        for s in body:
            out += self.stmt(s, ind)
        return out

    def stmt(self, s, ind: str) -> list[str]:
        if isinstance(s, ast.Expr) and isinstance(s.value, ast.Constant) and isinstance(s.value.value, str):
            return []  # docstring
        if isinstance(s, ast.Return):
            if s.value is None:
                return [f"{ind}return PyVal.none"]
            if isinstance(s.value, ast.Tuple):
                items = ", ".join(self.atom(x) for x in s.value.elts)
                return [f"{ind}return (PyVal.seq .tuple [{items}])"]
            code, pure = self.val(s.value)
            return [f"{ind}return {code}" if pure else f"{ind}return (← {code})"]
        if isinstance(s, ast.Raise):
            exc = s.exc
            name = exc.func.id if isinstance(exc, ast.Call) and isinstance(exc.func, ast.Name) else (exc.id if isinstance(exc, ast.Name) else None)
            m = {"ValueError": ".valueError", "TypeError": ".typeError"}.get(name)
            if not m:
                self.fail(s, "raise form")
            return [f"{ind}throw {m}"]
        if isinstance(s, ast.Assign):
            if len(s.targets) != 1:
                self.fail(s)
            t = s.targets[0]
            if isinstance(t, ast.Name):
                return [self.assign(t.id, self.val(s.value), ind)]
            if isinstance(t, ast.Tuple) and len(t.elts) == 2 and all(isinstance(x, ast.Name) for x in t.elts):
                a, b = t.elts[0].id, t.elts[1].id
                tmp = f"pair_{s.lineno}"
                out = [f"{ind}let {tmp} ← Py.unpack2 {self.atom(s.value)}"]
                out.append(self.assign(a, (f"{tmp}.1", True), ind))
                out.append(self.assign(b, (f"{tmp}.2", True), ind))
                return out
            self.fail(s, "assignment target")
        if isinstance(s, ast.If):
            # declare variables first assigned inside a branch before the `if` (Lean scoping)
            pre = []
            for nm in sorted(assigned_names(s.body) | assigned_names(s.orelse)):
                if nm not in self.declared:
                    self.declared.add(nm)
                    pre.append(f"{ind}let mut {lname(nm)} := PyVal.none")
            out = pre + [f"{ind}if {self.cond(s.test)} then"]
            out += self.stmts(s.body, ind + "  ") or [f"{ind}  pure ()"]
            if s.orelse:
                out.append(f"{ind}else")
                out += self.stmts(s.orelse, ind + "  ")
            return out
        if isinstance(s, ast.For):
            if s.orelse or not isinstance(s.target, ast.Name):
                self.fail(s, "for form")
            pre = []
            for nm in sorted(assigned_names(s.body)):
                if nm not in self.declared:
                    self.declared.add(nm)
                    pre.append(f"{ind}let mut {lname(nm)} := PyVal.none")
            out = pre + [f"{ind}for {lname(s.target.id)} in (← Py.iter {self.atom(s.iter)}) do"]
            out += self.stmts(s.body, ind + "  ")
            return out
        if isinstance(s, ast.Continue):
            return [f"{ind}continue"]
        if isinstance(s, ast.Pass):
            return [f"{ind}pure ()"]
        if isinstance(s, ast.Expr) and isinstance(s.value, ast.Call):
            c = s.value
            if isinstance(c.func, ast.Attribute) and c.func.attr == "append" and isinstance(c.func.value, ast.Name) and len(c.args) == 1:
                nm = c.func.value.id
                return [f"{ind}{lname(nm)} ← Py.append {lname(nm)} {self.atom(c.args[0])}"]
        self.fail(s)

    def translate(self) -> str:
        args = [a.arg for a in self.fn.args.args if a.arg not in ("cls", "self")]
        reassigned = assigned_names(self.fn.body)
        head = f"def {lean_ident(self.fn.name)} (P : Prims) {' '.join(f'({lname(a)} : PyVal)' for a in args)} : M PyVal := do"
        lines = [f"/-- {self.src_file}:{self.fn.lineno} `{self.fn.name}` -/", head]
        lines.append("  let _ := P")
        for a in args:
            self.declared.add(a)
            if a in reassigned:
                lines.append(f"  let mut {lname(a)} := {lname(a)}")
        lines += self.stmts(self.fn.body, "  ")
        return "\n".join(lines)


def assigned_names(body) -> set[str]:
    out = set()
    for node in body:
        for n in ast.walk(node):
            if isinstance(n, ast.Assign):
                for t in n.targets:
                    for x in ast.walk(t):
                        if isinstance(x, ast.Name):
                            out.add(x.id)
            elif isinstance(n, ast.Expr) and isinstance(n.value, ast.Call) and isinstance(n.value.func, ast.Attribute) \
                    and n.value.func.attr == "append" and isinstance(n.value.func.value, ast.Name):
                out.add(n.value.func.value.id)
    return out


def lean_ident(n: str) -> str:
    return {"_parse_decimal": "parseDecimal"}.get(n, n)


# -------------------------------------------------------------------------------------------------------------
# tables
# -------------------------------------------------------------------------------------------------------------

def find_assign(tree, name, cls=None):
    body = tree.body
    if cls:
        for n in tree.body:
            if isinstance(n, ast.ClassDef) and n.name == cls:
                body = n.body
                break
        else:
            return None
    for n in body:
        if isinstance(n, ast.Assign) and any(isinstance(t, ast.Name) and t.id == name for t in n.targets):
            return n.value
        if isinstance(n, ast.AnnAssign) and isinstance(n.target, ast.Name) and n.target.id == name and n.value is not None:
            return n.value
    return None


def cls_lit(e) -> str:
    if isinstance(e, ast.Name) and e.id in CLS_NAMES:
        return f"(PyVal.cls {CLS_NAMES[e.id]})"
    raise Untranslatable(f"class literal {ast.dump(e)}")


def lean_str_list(xs) -> str:
    return "[" + ", ".join(json.dumps(x) for x in xs) + "]"


def gen_tables(repo: Path, notes: list) -> tuple[str, dict]:
    rule = ast.parse((repo / "utype/parser/rule.py").read_text())
    out = ["import Utv.Py.Basic", "/-! GENERATED by tools/extract.py from /repo source text — do not edit. -/",
           "namespace Utv.Gen.Tables", "open Utv.Py", ""]
    js = {}
    # TYPE_EXACT_TOLERANCE
    tet = find_assign(rule, "TYPE_EXACT_TOLERANCE")
    items = []
    for el in tet.elts:
        kind = {ast.Set: ".set", ast.Tuple: ".tuple", ast.List: ".list"}[type(el)]
        items.append(f"PyVal.seq {kind} [{', '.join(cls_lit(x) for x in el.elts)}]")
    out.append("/-- rule.py `TYPE_EXACT_TOLERANCE` (note: an entry written as a tuple never equals a set) -/")
    out.append(f"def TYPE_EXACT_TOLERANCE : PyVal := PyVal.seq .tuple [{', '.join(items)}]")
    # __constraints__ order
    order = None
    for n in ast.walk(rule):
        val = None
        if isinstance(n, ast.Assign) and any(isinstance(t, ast.Name) and t.id == "__constraints__" for t in n.targets):
            val = n.value
        elif isinstance(n, ast.AnnAssign) and isinstance(n.target, ast.Name) and n.target.id == "__constraints__":
            val = n.value
        if isinstance(val, (ast.List, ast.Tuple)) and all(isinstance(x, ast.Constant) for x in val.elts):
            order = [x.value for x in val.elts]
            break
    if order is None:
        notes.append("untranslatable utype/parser/rule.py Rule.__constraints__")
        order = []
    js["constraint_order"] = order
    out.append("/-- rule.py `Rule.__constraints__`: the order in which validators run -/")
    out.append(f"def constraintOrder : List String := {lean_str_list(order)}")
    # transformer tables
    tr = ast.parse((repo / "utype/utils/transform.py").read_text())
    for nm in ("NULL_VALUES", "FALSE_VALUES", "TRUE_VALUES", "ARRAY_SEPARATORS", "STRUCTURE_BRACKET"):
        v = find_assign(tr, nm, "TypeTransformer")
        try:
            vals = [x.value for x in v.elts]
        except Exception:
            notes.append(f"untranslatable utype/utils/transform.py TypeTransformer.{nm}")
            vals = []
        js[nm] = vals
        out.append(f"def {nm} : List String := {lean_str_list(vals)}")
    ms = find_assign(tr, "MS_WATERSHED", "TypeTransformer")
    try:
        msv = int(eval(compile(ast.Expression(ms), "x", "eval"), {"__builtins__": {}, "int": int}))
    except Exception:
        notes.append("untranslatable TypeTransformer.MS_WATERSHED")
        msv = 0
    js["MS_WATERSHED"] = msv
    out.append(f"def MS_WATERSHED : Nat := {msv}")
    # Options defaults (class attributes of Options that are plain literals)
    opt = ast.parse((repo / "utype/parser/options.py").read_text())
    defaults = {}
    for n in opt.body:
        if isinstance(n, ast.ClassDef) and n.name == "Options":
            for s in n.body:
                tgt, val = None, None
                if isinstance(s, ast.AnnAssign) and isinstance(s.target, ast.Name) and s.value is not None:
                    tgt, val = s.target.id, s.value
                elif isinstance(s, ast.Assign) and len(s.targets) == 1 and isinstance(s.targets[0], ast.Name):
                    tgt, val = s.targets[0].id, s.value
                if tgt and isinstance(val, ast.Constant):
                    defaults[tgt] = val.value
    js["options_defaults"] = defaults
    out.append("/-- options.py: class-level defaults of `Options` that are literals -/")
    out.append("def optionsDefaults : List (String × String) := [" + ", ".join(
        f"({json.dumps(k)}, {json.dumps(repr(v))})" for k, v in defaults.items()) + "]")
    out += ["", "end Utv.Gen.Tables", ""]
    return "\n".join(out), js


def gen_constraints(repo: Path, notes: list) -> str:
    src_file = "utype/parser/rule.py"
    tree = ast.parse((repo / src_file).read_text())
    cls = next((n for n in tree.body if isinstance(n, ast.ClassDef) and n.name == "Constraints"), None)
    out = ["import Utv.Py.Basic", "import Utv.Gen.Tables",
           "/-! GENERATED by tools/extract.py from utype/parser/rule.py (class Constraints) — do not edit. -/",
           "set_option linter.unusedVariables false",
           "namespace Utv.Gen.Constraints", "open Utv.Py", "open Utv.Gen", ""]
    fns = {n.name: n for n in (cls.body if cls else []) if isinstance(n, ast.FunctionDef)}
    # dependency order: _parse_decimal first
    names = sorted(CONSTRAINT_FUNCS, key=lambda n: (n != "_parse_decimal",))
    for name in names:
        fn = fns.get(name)
        if fn is None:
            notes.append(f"untranslatable {src_file} Constraints.{name} (not found)")
            out.append(f"def {lean_ident(name)} (P : Prims) (a_ b_ : PyVal) : M PyVal := throw (.unmodelled \"missing {name}\")\n")
            continue
        nargs = len([a for a in fn.args.args if a.arg not in ("cls", "self")])
        try:
            tr = FuncTranslator(fn, "Utv.Gen.Constraints", set(CONSTRAINT_FUNCS), {"TYPE_EXACT_TOLERANCE"}, src_file)
            out.append(tr.translate() + "\n")
        except Untranslatable as e:
            notes.append(f"untranslatable {e} (Constraints.{name})")
            params = " ".join(f"(a{i}_ : PyVal)" for i in range(nargs))
            out.append(f"def {lean_ident(name)} (P : Prims) {params} : M PyVal := throw (.unmodelled \"untranslatable {name}\")\n")
    out += ["end Utv.Gen.Constraints", ""]
    return "\n".join(out)


# -------------------------------------------------------------------------------------------------------------
# utils/functional.py: multi, copy_value  ->  Gen/Functional.lean (over Utv.C03C.CVal; recursion left open: the
# recursive call becomes the parameter `rec`, theorems are about every function satisfying the equation)
# -------------------------------------------------------------------------------------------------------------

FUNC_CLS = {"list": ".list", "tuple": ".tuple", "set": ".set", "frozenset": ".frozenset", "dict": ".dict"}


class FunctionalTranslator:
    def __init__(self, fn: ast.FunctionDef, bool_siblings: set[str], src_file: str):
        self.fn = fn
        self.bool_siblings = bool_siblings
        self.src_file = src_file

    def fail(self, node, why=""):
        raise Untranslatable(f"{self.src_file}:{getattr(node, 'lineno', '?')} {type(node).__name__} {why}")

    def name(self, e) -> str:
        if isinstance(e, ast.Name) and e.id not in FUNC_CLS:
            return lname(e.id)
        self.fail(e, "expected a local name")

    def cls(self, e) -> str:
        if isinstance(e, ast.Name) and e.id in FUNC_CLS:
            return FUNC_CLS[e.id]
        # type({}.values()) / type({}.keys())
        if isinstance(e, ast.Call) and isinstance(e.func, ast.Name) and e.func.id == "type" and len(e.args) == 1 and not e.keywords:
            a = e.args[0]
            if isinstance(a, ast.Call) and isinstance(a.func, ast.Attribute) and isinstance(a.func.value, ast.Dict) \
                    and not a.func.value.keys and not a.args and a.func.attr in ("values", "keys"):
                return ".dictValues" if a.func.attr == "values" else ".dictKeys"
        self.fail(e, "class expression")

    def cond(self, e) -> str:
        if isinstance(e, ast.UnaryOp) and isinstance(e.op, ast.Not):
            return f"(!{self.cond(e.operand)})"
        if isinstance(e, ast.BoolOp):
            op = " && " if isinstance(e.op, ast.And) else " || "
            return "(" + op.join(self.cond(v) for v in e.values) + ")"
        if isinstance(e, ast.Call) and isinstance(e.func, ast.Name) and not e.keywords:
            if e.func.id == "isinstance" and len(e.args) == 2:
                c = e.args[1]
                cs = [self.cls(x) for x in c.elts] if isinstance(c, ast.Tuple) else [self.cls(c)]
                return f"(CV.isinstance {self.name(e.args[0])} [{', '.join(cs)}])"
            if e.func.id in self.bool_siblings and len(e.args) == 1:
                return f"({e.func.id} {self.name(e.args[0])})"
        self.fail(e, "condition")

    def elt(self, e, var: str) -> str:
        """element expression of a comprehension over `var`: the variable itself or f(var) with f the function itself"""
        if isinstance(e, ast.Name) and e.id == var:
            return f"pure {lname(var)}"
        if isinstance(e, ast.Call) and isinstance(e.func, ast.Name) and e.func.id == self.fn.name and len(e.args) == 1 \
                and not e.keywords and isinstance(e.args[0], ast.Name) and e.args[0].id == var:
            return f"rec {lname(var)}"
        self.fail(e, "comprehension element")

    def items(self, e) -> str:
        """[g(d) for d in x] / (g(d) for d in x)  ->  M (List CVal)"""
        if isinstance(e, (ast.ListComp, ast.GeneratorExp)) and len(e.generators) == 1:
            g = e.generators[0]
            if not g.ifs and not g.is_async and isinstance(g.target, ast.Name):
                return f"(← CV.iter {self.name(g.iter)}).mapM (fun {lname(g.target.id)} => {self.elt(e.elt, g.target.id)})"
        self.fail(e, "comprehension form")

    def value(self, e) -> str:
        """-> code of type M CVal"""
        if isinstance(e, ast.Name):
            return f"pure {self.name(e)}"
        if isinstance(e, ast.ListComp):
            return f"CV.construct W .list (← {self.items(e)})"
        if isinstance(e, ast.DictComp) and len(e.generators) == 1:
            g = e.generators[0]
            it = g.iter
            if not g.ifs and isinstance(g.target, ast.Tuple) and len(g.target.elts) == 2 and all(isinstance(x, ast.Name) for x in g.target.elts) \
                    and isinstance(it, ast.Call) and isinstance(it.func, ast.Attribute) and it.func.attr == "items" and not it.args \
                    and isinstance(e.key, ast.Name) and e.key.id == g.target.elts[0].id:
                v = g.target.elts[1].id
                return f"CV.dictMapValues {self.name(it.func.value)} (fun {lname(v)} => {self.elt(e.value, v)})"
            self.fail(e, "dict comprehension form")
        if isinstance(e, ast.Call) and len(e.args) == 1 and not e.keywords:
            f = e.func
            if isinstance(f, ast.Call) and isinstance(f.func, ast.Name) and f.func.id == "type" and len(f.args) == 1:
                return f"CV.construct W (CV.typeOf {self.name(f.args[0])}) (← {self.items(e.args[0])})"
            if isinstance(f, ast.Name) and f.id in FUNC_CLS and f.id != "dict":
                return f"CV.construct W {FUNC_CLS[f.id]} (← {self.items(e.args[0])})"
        self.fail(e, "returned expression")

    def stmts(self, body, ind: str) -> list[str]:
        out = []
        for st in body:
            if isinstance(st, ast.Expr) and isinstance(st.value, ast.Constant) and isinstance(st.value.value, str):
                continue
            if isinstance(st, ast.Return) and st.value is not None:
                out.append(f"{ind}return (← {self.value(st.value)})")
            elif isinstance(st, ast.If):
                out.append(f"{ind}if {self.cond(st.test)} then")
                out += self.stmts(st.body, ind + "  ") or [f"{ind}  pure ()"]
                if st.orelse:
                    out.append(f"{ind}else")
                    out += self.stmts(st.orelse, ind + "  ")
            else:
                self.fail(st, "statement")
        return out

    def args(self):
        a = self.fn.args
        if a.vararg or a.kwarg or a.kwonlyargs or a.defaults or len(a.args) != 1:
            self.fail(self.fn, "signature")
        return a.args[0].arg

    def translate_bool(self) -> str:
        arg = self.args()
        body = [st for st in self.fn.body if not (isinstance(st, ast.Expr) and isinstance(st.value, ast.Constant))]
        if len(body) != 1 or not isinstance(body[0], ast.Return):
            self.fail(self.fn, "bool function body")
        return (f"/-- {self.src_file}:{self.fn.lineno} `{self.fn.name}` -/\n"
                f"def {self.fn.name} ({lname(arg)} : CVal) : Bool :=\n  {self.cond(body[0].value)}")

    def translate_step(self) -> str:
        arg = self.args()
        lines = [f"/-- {self.src_file}:{self.fn.lineno} `{self.fn.name}`, one unfolding: the recursive calls go through `rec` -/",
                 f"def {self.fn.name}_step (W : World) (rec : CVal → M CVal) ({lname(arg)} : CVal) : M CVal := do",
                 "  let _ := W", "  let _ := rec"]
        body = self.stmts(self.fn.body, "  ")
        if not body:
            self.fail(self.fn, "empty body")
        return "\n".join(lines + body)


def gen_functional(repo: Path, notes: list) -> str:
    src_file = "utype/utils/functional.py"
    tree = ast.parse((repo / src_file).read_text())
    fns = {n.name: n for n in tree.body if isinstance(n, ast.FunctionDef)}
    out = ["import Utv.Model.C03Copy",
           "/-! GENERATED by tools/extract.py from utype/utils/functional.py (multi, copy_value) — do not edit. -/",
           "set_option linter.unusedVariables false",
           "namespace Utv.Gen.Functional", "open Utv.C03C", ""]
    try:
        if "multi" not in fns:
            raise Untranslatable(f"{src_file} multi (not found)")
        out.append(FunctionalTranslator(fns["multi"], set(), src_file).translate_bool() + "\n")
    except Untranslatable as e:
        notes.append(f"untranslatable {e} (functional.multi)")
        out.append("def multi (f_ : CVal) : Bool := false\n")
    try:
        if "copy_value" not in fns:
            raise Untranslatable(f"{src_file} copy_value (not found)")
        out.append(FunctionalTranslator(fns["copy_value"], {"multi"}, src_file).translate_step() + "\n")
    except Untranslatable as e:
        notes.append(f"untranslatable {e} (functional.copy_value)")
        out.append("def copy_value_step (W : World) (rec : CVal → M CVal) (data_ : CVal) : M CVal := "
                   "throw (.unmodelled \"untranslatable copy_value\")\n")
    out += ["end Utv.Gen.Functional", ""]
    return "\n".join(out)


def main():
    ap = argparse.ArgumentParser()
    ap.add_argument("--repo", default="/repo")
    ap.add_argument("--out", required=True)
    a = ap.parse_args()
    repo, outd = Path(a.repo), Path(a.out)
    outd.mkdir(parents=True, exist_ok=True)
    notes: list[str] = []
    files = {}
    tables, js = gen_tables(repo, notes)
    files["Tables.lean"] = tables
    files["Constraints.lean"] = gen_constraints(repo, notes)
    files["Functional.lean"] = gen_functional(repo, notes)
    files["tables.json"] = json.dumps(js, indent=1, sort_keys=True)
    files["NOTES.txt"] = "\n".join(notes) + ("\n" if notes else "")
    for name, txt in files.items():
        p = outd / name
        if not p.exists() or p.read_text() != txt:   # keep mtimes when nothing changed (lake no-op)
            p.write_text(txt)
    for n in notes:
        print(n)
    print(f"extract: {len(files)} files, {len(notes)} untranslatable")
    return 0


if __name__ == "__main__":
    sys.exit(main())
