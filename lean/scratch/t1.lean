import Utv.Lemmas.C20
namespace Utv.C20

theorem undefinedRef_of {W : World} {i : Nat} (h1 : W.ref i = true) (h2 : W.defd i = false) :
    undefinedRef W = true := by
  simp only [World.ref, Bool.and_eq_true, decide_eq_true_eq] at h1
  simp only [undefinedRef, List.any_eq_true, List.mem_range]
  exact ⟨i, h1.1, by simp [h1.2, h2]⟩

theorem undefinedRef_ex {W : World} (h : undefinedRef W = true) :
    ∃ i, W.ref i = true ∧ W.defd i = false := by
  simp only [undefinedRef, List.any_eq_true, List.mem_range] at h
  obtain ⟨i, hi, hb⟩ := h
  simp only [Bool.and_eq_true, Bool.not_eq_true'] at hb
  exact ⟨i, by simp [World.ref, hi, hb.1], hb.2⟩

theorem alone_stuck {W : World} (h1 : W.isFn = false) (h2 : undefinedRef W = true) (c : Call) :
    alone W c = .nameError := by simp [alone, h1, h2]

theorem alone_resolved {W : World} {g : G} (G : GInv W g) (R : Resolved W g) (c : Call) :
    alone W c = parseOutcome W c := by
  unfold alone
  split
  · rename_i h
    simp only [Bool.and_eq_true, Bool.not_eq_true'] at h
    obtain ⟨i, hr, hd⟩ := undefinedRef_ex h.2
    have := (R i (G.undef i hr hd).1).2
    simp [h.1] at this
  · rfl

def Good (W : World) (g : G) (t t' : Th) : Prop :=
  HInv W g t' ∧ t'.pc.inCS = true ∧ t'.calls = t.calls ∧ t'.outs = t.outs ∧ t'.wrongF = t.wrongF

theorem popAdvance_G {W : World} {g : G} {t : Th} (P : t.popF W g t.popIt) : Good W g t (popAdvance t) := by
  unfold popAdvance
  split
  · rename_i hp
    rw [hp] at P
    exact ⟨P, rfl, rfl, rfl, rfl⟩
  · rename_i n ns hp
    rw [hp] at P
    exact ⟨P, rfl, rfl, rfl, rfl⟩

theorem enterFinally_G {W : World} {g : G} {t : Th} (P : t.popF W g t.rn) :
    Good W g t (enterFinally W false t) := by
  unfold enterFinally
  simp only [Bool.false_eq_true, if_false]
  exact popAdvance_G (t := { t with popIt := t.rn }) P

theorem PostF.toPop {W : World} {g : G} {rn : List Nat} {r : Bool} {c : List Nat} {e : Option Outcome}
    (P : PostF W g rn r c e) : PopF W g rn r c e rn where
  toBase := P.toBase
  excSome := by simp [P.exc0]
  sub := fun _ hi => hi
  own := fun _ => P.own
  fty := by
    intro i hi
    have := P.fty i hi
    simpa [P.exc0] using this

theorem clearAdvance_G {W : World} {g : G} {t : Th} (P : t.postF W g) :
    Good W g t (clearAdvance W false t) := by
  unfold clearAdvance
  split
  · exact enterFinally_G P.toPop
  · exact ⟨P, rfl, rfl, rfl, rfl⟩

theorem enterClear_G {W : World} {g : G} {t : Th} (P : t.postF W g) :
    Good W g t (enterClear W false t) := by
  unfold enterClear
  split
  · exact clearAdvance_G (t := { t with clrIt := t.clear }) P
  · exact enterFinally_G P.toPop

theorem fieldAdvance_G {W : World} {g : G} {t : Th} (G : GInv W g)
    (F : t.fldF W g (fun i => decide (i < t.fi))) : Good W g t (fieldAdvance W t) := by
  unfold fieldAdvance
  split
  · exact ⟨F, rfl, rfl, rfl, rfl⟩
  · rename_i hlt
    refine ⟨?_, rfl, rfl, rfl, rfl⟩
    show PostF W g t.rn t.resolved t.clear t.exc
    refine { toBase := F.toBase, exc0 := F.exc0, sub := F.sub, own := F.own, fty := ?_ }
    intro i hi
    have h1 := F.fty i hi
    have h2 := G.isRef i hi
    simp only [World.ref, Bool.and_eq_true, decide_eq_true_eq] at h2
    have : i < t.fi := by omega
    simpa [this] using h1

theorem afterLoop_G {W : World} {g : G} {t : Th} (G : GInv W g) (L : t.loopF W g []) :
    Good W g t (afterLoop W false t) := by
  unfold afterLoop
  split
  · have : ({ t with fi := 0 } : Th).fldF W g (fun i => decide (i < ({ t with fi := 0 } : Th).fi)) := by
      refine { toBase := L.toBase, exc0 := L.exc0, sub := ?_, own := ?_, fty := ?_, evVal := L.evVal }
      · intro i hi; exact L.sub i (by simpa using hi)
      · intro i hi; simpa using L.own i hi
      · intro i hi; simpa using L.fty i hi
    exact fieldAdvance_G (t := { t with fi := 0 }) G this
  · rename_i hr
    have hrn : t.rn = [] := L.res (by simpa using hr)
    refine enterClear_G ?_
    refine { toBase := L.toBase, exc0 := L.exc0, sub := ?_, own := ?_, fty := ?_ }
    · intro i hi; exact L.sub i (by simpa using hi)
    · intro i hi; simpa using L.own i hi
    · intro i hi; simpa [hrn] using L.fty i hi

theorem advance_G {W : World} {g : G} {t : Th} (G : GInv W g) (L : t.loopF W g t.names) :
    Good W g t (advance W false t) := by
  unfold advance
  split
  · rename_i hn
    rw [hn] at L
    exact afterLoop_G G L
  · rename_i n ns hn
    rw [hn] at L
    exact ⟨L, rfl, rfl, rfl, rfl⟩

end Utv.C20
