import Utv.Lemmas.C20
namespace Utv.C20

structure StepOK (W : World) (g g' : G) (t t' : Th) : Prop where
  ginv : GInv W g'
  good : Good W g' t t'
  lock : g'.lock = g.lock
  pend : ∀ i ∈ g'.pending, i ∈ g.pending

theorem upd_same {α : Type} (f : Nat → α) (i : Nat) (v : α) : upd f i v i = v := by simp [upd]
theorem upd_other {α : Type} (f : Nat → α) (i j : Nat) (v : α) (h : j ≠ i) : upd f i v j = f j := by simp [upd, h]

theorem good_of {W : World} {g : G} {t t' : Th} (h : HInv W g t') (hcs : t'.pc.inCS = true)
    (h1 : t'.calls = t.calls) (h2 : t'.outs = t.outs) (h3 : t'.wrongF = t.wrongF) : Good W g t t' :=
  ⟨h, hcs, h1, h2, h3⟩

theorem step_list {W : World} {g : G} {k : Nat} {t : Th} (G : GInv W g) (H : HInv W g t) (hpc : t.pc = .list) :
    StepOK W g (stepTh W false k g t).1 t (stepTh W false k g t).2 := by
  simp only [stepTh, hpc]
  simp only [HInv, hpc] at H
  obtain ⟨h1, h2, h3, h4, h5⟩ := H
  refine ⟨G, ?_, rfl, fun _ h => h⟩
  have : Good W g { t with names := g.pending } (advance W false { t with names := g.pending }) := by
    apply advance_G G
    show LoopF W g t.rn t.resolved t.clear t.exc g.pending
    refine { rnDef := by simp [h1], res := fun _ => h1, clr := by simp [h1, h2], exc0 := h4, nodup := by simpa [h1] using G.nodup,
             sub := by simp [h1], own := fun i hi => Or.inl hi, fty := h5, evVal := by simp [h1] }
  exact this

theorem step_next {W : World} {g : G} {k : Nat} {t : Th} (G : GInv W g) (H : HInv W g t) (hpc : t.pc = .next) :
    StepOK W g (stepTh W false k g t).1 t (stepTh W false k g t).2 := by
  simp only [stepTh, hpc]
  simp only [HInv, hpc] at H
  exact ⟨G, advance_G G H, rfl, fun _ h => h⟩

theorem step_get {W : World} {g : G} {k : Nat} {t : Th} (G : GInv W g) (H : HInv W g t) (hpc : t.pc = .get) :
    StepOK W g (stepTh W false k g t).1 t (stepTh W false k g t).2 := by
  simp only [stepTh, hpc]
  simp only [HInv, hpc] at H
  have hc : t.cur ∈ g.pending := H.sub _ (by simp)
  simp only [List.contains_iff_mem, hc, if_true]
  exact ⟨G, good_of (t' := { t with pc := .eval }) H rfl rfl rfl rfl, rfl, fun _ h => h⟩

theorem LoopF.tail {W : World} {g : G} {rn : List Nat} {r : Bool} {c : List Nat} {e : Option Outcome}
    {n : Nat} {ns : List Nat} (L : LoopF W g rn r c e (n :: ns)) (hu : Undef W n) : LoopF W g rn r c e ns where
  toBase := L.toBase
  exc0 := L.exc0
  nodup := by have := L.nodup; simp only [List.cons_append, List.nodup_cons] at this; exact this.2
  sub := fun i hi => L.sub i (by simp only [List.cons_append, List.mem_cons]; exact Or.inr hi)
  own := by
    intro i hi
    rcases L.own i hi with h | h | h
    · rcases List.mem_cons.mp h with h | h
      · subst h; exact Or.inr (Or.inr hu)
      · exact Or.inl h
    · exact Or.inr (Or.inl h)
    · exact Or.inr (Or.inr h)
  fty := L.fty
  evVal := L.evVal

theorem step_eval {W : World} {g : G} {k : Nat} {t : Th} (G : GInv W g) (hl : g.lock = some k)
    (H : HInv W g t) (hpc : t.pc = .eval) :
    StepOK W g (stepTh W false k g t).1 t (stepTh W false k g t).2 := by
  simp only [stepTh, hpc]
  simp only [HInv, hpc] at H
  have hc : t.cur ∈ g.pending := H.sub _ (by simp)
  have hnr : t.cur ∉ t.rn := by
    have := H.nodup
    simp only [List.cons_append, List.nodup_cons, List.mem_append, not_or] at this
    exact this.1.2
  split
  · -- the name exists: evaluated
    rename_i hd
    refine ⟨?_, ?_, rfl, fun _ h => h⟩
    · refine { nodup := G.nodup, isRef := G.isRef, undef := ?_, done := G.done, plain := G.plain, noJunk := G.noJunk,
               free := by simp [hl] }
      intro i hr hdi
      have hne : i ≠ t.cur := by intro h; subst h; simp [hd] at hdi
      have := G.undef i hr hdi
      simpa [upd_other _ _ _ _ hne] using this
    · refine good_of (t' := { t with pc := .isev }) ?_ rfl rfl rfl rfl
      simp only [HInv]
      refine ⟨?_, hd, upd_same _ _ _, upd_same _ _ _⟩
      refine { toBase := H.toBase, exc0 := H.exc0, nodup := H.nodup, sub := H.sub, own := H.own, fty := H.fty, evVal := ?_ }
      intro i hi
      have hne : i ≠ t.cur := by intro h; subst h; exact hnr hi
      simpa [upd_other _ _ _ _ hne] using H.evVal i hi
  · rename_i hd
    have hd' : W.defd t.cur = false := by simpa using hd
    split
    · -- NameError, ignored
      rename_i hf
      refine ⟨G, ?_, rfl, fun _ h => h⟩
      refine good_of (t' := { t with pc := .next }) ?_ rfl rfl rfl rfl
      simp only [HInv]
      exact H.tail ⟨hd', hf⟩
    · -- NameError raised: through `finally`
      rename_i hf
      have hf' : W.isFn = false := by simpa using hf
      refine ⟨G, ?_, rfl, fun _ h => h⟩
      unfold raise
      simp only [Bool.false_eq_true, if_false]
      have := enterFinally_G (W := W) (g := g) (t := { t with exc := some .nameError }) ?_
      · exact this
      · show PopF W g t.rn t.resolved t.clear (some .nameError) t.rn
        refine { toBase := H.toBase, excSome := ?_, sub := fun _ h => h, own := by simp, fty := ?_ }
        · intro e he
          cases he
          exact ⟨rfl, hf', undefinedRef_of (G.isRef _ hc) hd'⟩
        · intro i hi; simpa using H.fty i hi

theorem step_isev {W : World} {g : G} {k : Nat} {t : Th} (G : GInv W g) (H : HInv W g t) (hpc : t.pc = .isev) :
    StepOK W g (stepTh W false k g t).1 t (stepTh W false k g t).2 := by
  simp only [stepTh, hpc]
  simp only [HInv, hpc] at H
  obtain ⟨L, hd, he, hv⟩ := H
  simp only [he, if_true]
  refine ⟨G, good_of (t' := { t with pc := .rdval }) ?_ rfl rfl rfl rfl, rfl, fun _ h => h⟩
  simp only [HInv]
  exact ⟨L, hd, he, hv⟩

theorem step_rdval {W : World} {g : G} {k : Nat} {t : Th} (G : GInv W g) (H : HInv W g t) (hpc : t.pc = .rdval) :
    StepOK W g (stepTh W false k g t).1 t (stepTh W false k g t).2 := by
  simp only [stepTh, hpc]
  simp only [HInv, hpc] at H
  obtain ⟨L, hd, he, hv⟩ := H
  simp only [hv]
  refine ⟨G, good_of (t' := { t with tval := .raw, pc := .wrA }) ?_ rfl rfl rfl rfl, rfl, fun _ h => h⟩
  simp only [HInv]
  exact ⟨L, hd, he, trivial⟩

theorem step_wrA {W : World} {g : G} {k : Nat} {t : Th} (G : GInv W g) (H : HInv W g t) (hpc : t.pc = .wrA) :
    StepOK W g (stepTh W false k g t).1 t (stepTh W false k g t).2 := by
  simp only [stepTh, hpc]
  simp only [HInv, hpc] at H
  refine ⟨G, good_of (t' := { t with pc := .wrB }) ?_ rfl rfl rfl rfl, rfl, fun _ h => h⟩
  simp only [HInv]
  exact H


theorem step_wrB {W : World} {g : G} {k : Nat} {t : Th} (G : GInv W g) (hl : g.lock = some k)
    (H : HInv W g t) (hpc : t.pc = .wrB) :
    StepOK W g (stepTh W false k g t).1 t (stepTh W false k g t).2 := by
  simp only [stepTh, hpc]
  simp only [HInv, hpc] at H
  obtain ⟨L, hd, he, hv⟩ := H
  have hnd := L.nodup
  simp only [List.cons_append, List.nodup_cons, List.mem_append, not_or] at hnd
  refine ⟨?_, ?_, rfl, fun _ h => h⟩
  · exact { nodup := G.nodup, isRef := G.isRef, undef := G.undef, done := G.done, plain := G.plain,
            noJunk := G.noJunk, free := by simp [hl] }
  · unfold afterWrite
    simp only [Bool.false_eq_true, if_false]
    refine good_of ?_ rfl rfl rfl rfl
    simp only [HInv]
    refine { rnDef := ?_, res := by simp, clr := ?_, exc0 := L.exc0, nodup := ?_, sub := ?_, own := ?_, fty := L.fty, evVal := ?_ }
    · intro i hi
      rcases List.mem_append.mp hi with h | h
      · exact L.rnDef i h
      · simp at h; subst h; exact hd
    · have := L.clr
      split <;> rename_i hloc <;> simp [hloc] at this ⊢ <;> simp [this]
    · rw [← List.append_assoc, List.nodup_append]
      refine ⟨hnd.2, by simp, ?_⟩
      intro a ha b hb
      simp at hb; subst hb
      intro hab; subst hab
      rcases List.mem_append.mp ha with h | h
      · exact hnd.1.1 h
      · exact hnd.1.2 h
    · intro i hi
      apply L.sub
      simp only [List.mem_append, List.mem_singleton] at hi
      simp only [List.cons_append, List.mem_cons, List.mem_append]
      rcases hi with h | h | h
      · exact Or.inr (Or.inl h)
      · exact Or.inr (Or.inr h)
      · exact Or.inl h
    · intro i hi
      rcases L.own i hi with h | h | h
      · rcases List.mem_cons.mp h with h | h
        · exact Or.inr (Or.inl (by simp [h]))
        · exact Or.inl h
      · exact Or.inr (Or.inl (by simp [h]))
      · exact Or.inr (Or.inr h)
    · intro i hi
      rcases List.mem_append.mp hi with h | h
      · have hne : i ≠ t.cur := by intro e; subst e; exact hnd.1.2 h
        simpa [upd_other _ _ _ _ hne] using L.evVal i h
      · simp at h; subst h
        simp [upd_same, he, hv, parseAnn]

/-- in the field loop every listed name that exists is one this pass resolved -/
theorem FldF.mem_rn {W : World} {g : G} {rn : List Nat} {r : Bool} {c : List Nat} {e : Option Outcome}
    {dn : Nat → Bool} (F : FldF W g rn r c e dn) {i : Nat} (hp : i ∈ g.pending) (hd : W.defd i = true) : i ∈ rn := by
  rcases F.own i hp with h | h
  · exact h
  · simp [Undef, hd] at h

/-- the field loop never runs for a class with an undefined name -/
theorem FldF.notStuck {W : World} {g : G} {rn : List Nat} {r : Bool} {c : List Nat} {e : Option Outcome}
    {dn : Nat → Bool} (G : GInv W g) (F : FldF W g rn r c e dn) : ¬ (W.isFn = false ∧ undefinedRef W = true) := by
  rintro ⟨hf, hu⟩
  obtain ⟨u, hr, hd⟩ := undefinedRef_ex hu
  have hp := (G.undef u hr hd).1
  rcases F.own u hp with h | h
  · have := F.rnDef u h; simp [hd] at this
  · simp [Undef, hf] at h

theorem FldF.succ {W : World} {g : G} {rn : List Nat} {r : Bool} {c : List Nat} {e : Option Outcome} {n : Nat}
    (F : FldF W g rn r c e (fun i => decide (i < n))) (hn : n ∉ g.pending) :
    FldF W g rn r c e (fun i => decide (i < n + 1)) where
  toBase := F.toBase
  exc0 := F.exc0
  sub := F.sub
  own := F.own
  evVal := F.evVal
  fty := by
    intro i hi
    have hne : i ≠ n := by intro h; subst h; exact hn hi
    have : (i < n + 1) = (i < n) := by apply propext; omega
    simpa [this] using F.fty i hi

theorem step_fldTyQ {W : World} {g : G} {k : Nat} {t : Th} (G : GInv W g) (H : HInv W g t) (hpc : t.pc = .fldTyQ) :
    StepOK W g (stepTh W false k g t).1 t (stepTh W false k g t).2 := by
  simp only [stepTh, hpc]
  simp only [HInv, hpc] at H
  refine ⟨G, ?_, rfl, fun _ h => h⟩
  split
  · rename_i hn
    refine good_of (t' := { t with pc := .fldOtyQ }) ?_ rfl rfl rfl rfl
    simp only [HInv]
    apply H.succ
    intro hp
    have := H.fty _ hp
    split at this <;> simp [hn] at this
  · refine good_of (t' := { t with pc := .fldTy }) ?_ rfl rfl rfl rfl
    simp only [HInv]
    exact H

theorem step_fldTy {W : World} {g : G} {k : Nat} {t : Th} (G : GInv W g) (H : HInv W g t) (hpc : t.pc = .fldTy) :
    StepOK W g (stepTh W false k g t).1 t (stepTh W false k g t).2 := by
  simp only [stepTh, hpc]
  simp only [HInv, hpc] at H
  split
  · rename_i hr
    refine ⟨G, ?_, rfl, fun _ h => h⟩
    refine good_of (t' := { t with pc := .rftIsev }) ?_ rfl rfl rfl rfl
    simp only [HInv]
    exact ⟨H, hr⟩
  · rename_i v hr
    have hnp : t.fi ∉ g.pending := by
      intro hp
      have := H.fty _ hp
      simp [hr] at this
    split
    · rename_i hj
      exact absurd (by rw [hr, hj]) (G.noJunk t.fi)
    · split
      · refine ⟨G, ?_, rfl, fun _ h => h⟩
        refine good_of (t' := { t with pc := .rrfA }) ?_ rfl rfl rfl rfl
        simp only [HInv]
        exact ⟨H, hnp⟩
      · refine ⟨G, ?_, rfl, fun _ h => h⟩
        refine good_of (t' := { t with pc := .fldOtyQ }) ?_ rfl rfl rfl rfl
        simp only [HInv]
        exact H.succ hnp


theorem upd_id {α : Type} (f : Nat → α) (i : Nat) : upd f i (f i) = f := by
  funext j; simp only [upd]; split <;> simp_all

theorem step_rftIsev {W : World} {g : G} {k : Nat} {t : Th} (G : GInv W g) (H : HInv W g t) (hpc : t.pc = .rftIsev) :
    StepOK W g (stepTh W false k g t).1 t (stepTh W false k g t).2 := by
  simp only [stepTh, hpc]
  simp only [HInv, hpc] at H
  obtain ⟨F, hr⟩ := H
  split
  · rename_i he
    refine ⟨G, ?_, rfl, fun _ h => h⟩
    refine good_of (t' := { t with pc := .rftRdval }) ?_ rfl rfl rfl rfl
    simp only [HInv]
    exact ⟨F, hr, he⟩
  · rename_i he
    have hf : ∀ i, upd g.fty t.fi .ref i = g.fty i := by
      intro i; simp only [upd]; split
      · rename_i h; rw [h, hr]
      · rfl
    refine ⟨?_, ?_, rfl, fun _ h => h⟩
    · exact { nodup := G.nodup, isRef := G.isRef, undef := by simpa [hf] using G.undef,
              done := by simpa [hf] using G.done, plain := by simpa [hf] using G.plain,
              noJunk := by simpa [hf] using G.noJunk, free := by simpa [hf] using G.free }
    · refine good_of (t' := { t with pc := .fldOtyQ }) ?_ rfl rfl rfl rfl
      simp only [HInv]
      refine { toBase := F.toBase, exc0 := F.exc0, sub := F.sub, own := F.own, evVal := F.evVal, fty := ?_ }
      intro i hi
      simp only [hf]
      by_cases hne : i = t.fi
      · subst hne
        have hnr : t.fi ∉ t.rn := fun h => he (F.evVal _ h).1
        simpa [hnr] using hr
      · have : (i < t.fi + 1) = (i < t.fi) := by apply propext; omega
        simpa [this] using F.fty i hi

theorem step_rftRdval {W : World} {g : G} {k : Nat} {t : Th} (G : GInv W g) (hl : g.lock = some k)
    (H : HInv W g t) (hpc : t.pc = .rftRdval) :
    StepOK W g (stepTh W false k g t).1 t (stepTh W false k g t).2 := by
  simp only [stepTh, hpc]
  simp only [HInv, hpc] at H
  obtain ⟨F, hr, he⟩ := H
  have href : W.ref t.fi = true := by
    cases h : W.ref t.fi with
    | true => rfl
    | false => have := G.plain _ h; rw [hr] at this; cases this
  have hdef : W.defd t.fi = true := by
    cases h : W.defd t.fi with
    | true => rfl
    | false => have := (G.undef _ href h).2.1; rw [he] at this; cases this
  have hp : t.fi ∈ g.pending := by
    apply Classical.byContradiction
    intro hnp
    rcases G.done _ href hdef hnp with h | h
    · rw [hr] at h; cases h
    · exact F.notStuck G h
  have hrn : t.fi ∈ t.rn := F.mem_rn hp hdef
  have hv : g.val t.fi = .parsed := (F.evVal _ hrn).2
  rw [hv]
  refine ⟨?_, ?_, rfl, fun _ h => h⟩
  · refine { nodup := G.nodup, isRef := G.isRef, undef := ?_, done := ?_, plain := ?_, noJunk := ?_, free := by simp [hl] }
    · intro i hri hdi
      have hne : i ≠ t.fi := by intro h; subst h; simp [hdef] at hdi
      simpa [upd_other _ _ _ _ hne] using G.undef i hri hdi
    · intro i hri hdi hnp
      have hne : i ≠ t.fi := by intro h; subst h; exact hnp hp
      simpa [upd_other _ _ _ _ hne] using G.done i hri hdi hnp
    · intro i hri
      have hne : i ≠ t.fi := by intro h; subst h; simp [href] at hri
      simpa [upd_other _ _ _ _ hne] using G.plain i hri
    · intro i
      by_cases hne : i = t.fi
      · subst hne; simp [upd_same]
      · simpa [upd_other _ _ _ _ hne] using G.noJunk i
  · refine good_of (t' := { t with pc := .fldOtyQ }) ?_ rfl rfl rfl rfl
    simp only [HInv]
    refine { toBase := F.toBase, exc0 := F.exc0, sub := F.sub, own := F.own, evVal := F.evVal, fty := ?_ }
    intro i hi
    by_cases hne : i = t.fi
    · subst hne
      simp [hrn, upd_same]
    · have : (i < t.fi + 1) = (i < t.fi) := by apply propext; omega
      simpa [this, upd_other _ _ _ _ hne] using F.fty i hi

theorem step_rrfA {W : World} {g : G} {k : Nat} {t : Th} (G : GInv W g) (H : HInv W g t) (hpc : t.pc = .rrfA) :
    StepOK W g (stepTh W false k g t).1 t (stepTh W false k g t).2 := by
  simp only [stepTh, hpc]
  simp only [HInv, hpc] at H
  refine ⟨G, good_of (t' := { t with pc := .rrfB }) ?_ rfl rfl rfl rfl, rfl, fun _ h => h⟩
  simp only [HInv]; exact H

theorem step_rrfB {W : World} {g : G} {k : Nat} {t : Th} (G : GInv W g) (H : HInv W g t) (hpc : t.pc = .rrfB) :
    StepOK W g (stepTh W false k g t).1 t (stepTh W false k g t).2 := by
  simp only [stepTh, hpc]
  simp only [HInv, hpc] at H
  refine ⟨G, good_of (t' := { t with pc := .rrfC }) ?_ rfl rfl rfl rfl, rfl, fun _ h => h⟩
  simp only [HInv]; exact H

theorem step_rrfC {W : World} {g : G} {k : Nat} {t : Th} (G : GInv W g) (H : HInv W g t) (hpc : t.pc = .rrfC) :
    StepOK W g (stepTh W false k g t).1 t (stepTh W false k g t).2 := by
  simp only [stepTh, hpc]
  simp only [HInv, hpc] at H
  refine ⟨G, good_of (t' := { t with pc := .fldOtyQ }) ?_ rfl rfl rfl rfl, rfl, fun _ h => h⟩
  simp only [HInv]; exact H.1.succ H.2

theorem step_fldOtyQ {W : World} {g : G} {k : Nat} {t : Th} (G : GInv W g) (H : HInv W g t) (hpc : t.pc = .fldOtyQ) :
    StepOK W g (stepTh W false k g t).1 t (stepTh W false k g t).2 := by
  simp only [stepTh, hpc]
  simp only [HInv, hpc] at H
  exact ⟨G, fieldAdvance_G (t := { t with fi := t.fi + 1 }) G H, rfl, fun _ h => h⟩

theorem step_addn {W : World} {g : G} {k : Nat} {t : Th} (G : GInv W g) (H : HInv W g t) (hpc : t.pc = .addn) :
    StepOK W g (stepTh W false k g t).1 t (stepTh W false k g t).2 := by
  simp only [stepTh, hpc]
  simp only [HInv, hpc] at H
  exact ⟨G, enterClear_G H, rfl, fun _ h => h⟩

theorem step_clr1 {W : World} {g : G} {k : Nat} {t : Th} (G : GInv W g) (hl : g.lock = some k)
    (H : HInv W g t) (hpc : t.pc = .clr1) :
    StepOK W g (stepTh W false k g t).1 t (stepTh W false k g t).2 := by
  simp only [stepTh, hpc]
  simp only [HInv, hpc] at H
  refine ⟨?_, ?_, rfl, fun _ h => h⟩
  · refine { nodup := G.nodup, isRef := G.isRef, undef := ?_, done := G.done, plain := G.plain, noJunk := G.noJunk,
             free := by simp [hl] }
    intro i hri hdi
    have := G.undef i hri hdi
    refine ⟨this.1, ?_, this.2.2⟩
    show upd g.ev t.cur false i = false
    simp only [upd]; split <;> simp [this.2.1]
  · refine good_of (t' := { t with pc := .clr2 }) ?_ rfl rfl rfl rfl
    simp only [HInv]
    exact { toBase := H.toBase, exc0 := H.exc0, sub := H.sub, own := H.own, fty := H.fty }

theorem step_clr2 {W : World} {g : G} {k : Nat} {t : Th} (G : GInv W g) (hl : g.lock = some k)
    (H : HInv W g t) (hpc : t.pc = .clr2) :
    StepOK W g (stepTh W false k g t).1 t (stepTh W false k g t).2 := by
  simp only [stepTh, hpc]
  simp only [HInv, hpc] at H
  refine ⟨?_, ?_, rfl, fun _ h => h⟩
  · exact { nodup := G.nodup, isRef := G.isRef, undef := G.undef, done := G.done, plain := G.plain,
            noJunk := G.noJunk, free := by simp [hl] }
  · apply clearAdvance_G
    exact { toBase := H.toBase, exc0 := H.exc0, sub := H.sub, own := H.own, fty := H.fty }

theorem step_popd {W : World} {g : G} {k : Nat} {t : Th} (G : GInv W g) (hl : g.lock = some k)
    (H : HInv W g t) (hpc : t.pc = .popd) :
    StepOK W g (stepTh W false k g t).1 t (stepTh W false k g t).2 := by
  simp only [stepTh, hpc]
  simp only [HInv, hpc] at H
  have hcur : W.defd t.cur = true := H.rnDef _ (H.sub _ (by simp))
  have hmem : ∀ i, i ∈ g.pending.erase t.cur ↔ i ∈ g.pending ∧ i ≠ t.cur := by
    intro i
    rw [G.nodup.mem_erase_iff]; exact And.comm
  refine ⟨?_, ?_, rfl, fun i hi => ((hmem i).mp hi).1⟩
  · refine { nodup := G.nodup.erase _, isRef := fun i hi => G.isRef i ((hmem i).mp hi).1, undef := ?_, done := ?_,
             plain := G.plain, noJunk := G.noJunk, free := by simp [hl] }
    · intro i hri hdi
      have := G.undef i hri hdi
      refine ⟨(hmem i).mpr ⟨this.1, ?_⟩, this.2⟩
      intro h; subst h; simp [hcur] at hdi
    · intro i hri hdi hnp
      by_cases hp : i ∈ g.pending
      · have hic : i = t.cur := by
          apply Classical.byContradiction; intro hne; exact hnp ((hmem i).mpr ⟨hp, hne⟩)
        subst hic
        have := H.fty _ hp
        cases he : t.exc with
        | none => left; simpa [he] using this
        | some e => right; exact (H.excSome e he).2
      · exact G.done i hri hdi hp
  · apply popAdvance_G
    show PopF W _ t.rn t.resolved t.clear t.exc t.popIt
    refine { toBase := H.toBase, excSome := H.excSome, sub := fun i hi => H.sub i (by simp [hi]), own := ?_, fty := ?_ }
    · intro he i hi
      obtain ⟨hp, hne⟩ := (hmem i).mp hi
      rcases H.own he i hp with h | h
      · rcases List.mem_cons.mp h with h | h
        · exact absurd h hne
        · exact Or.inl h
      · exact Or.inr h
    · intro i hi
      obtain ⟨hp, hne⟩ := (hmem i).mp hi
      have := H.fty i hp
      simpa [hne] using this

end Utv.C20
