import Utv.Model.C14P0
/-! C14 — lemmas on decimal digit strings (`pad`, `natStr`) and on the `str` methods of the model. -/
namespace Utv.C14

theorem natStr_ne_nil (n : Nat) : natStr n ≠ [] := Nat.toDigits_ne_nil

theorem natStr_isDigit {n : Nat} {c : Char} (h : c ∈ natStr n) : c.isDigit = true :=
  Nat.isDigit_of_mem_toDigits (by decide) (by decide) h

theorem ofDigits_natStr (n : Nat) : Nat.ofDigitChars 10 (natStr n) 0 = n := Nat.ofDigitChars_ten_toDigits

theorem natStr_inj {a b : Nat} (h : natStr a = natStr b) : a = b := by
  have := congrArg (fun l => Nat.ofDigitChars 10 l 0) h
  simpa [ofDigits_natStr] using this

theorem natStr_length_le {n w : Nat} (hw : 0 < w) (h : n < 10 ^ w) : (natStr n).length ≤ w :=
  (Nat.length_toDigits_le_iff (by decide) hw).2 h

theorem pad_length {n w : Nat} (hw : 0 < w) (h : n < 10 ^ w) : (pad w n).length = w := by
  have := natStr_length_le hw h
  simp [pad]; omega

theorem pad_isDigit {n w : Nat} {c : Char} (h : c ∈ pad w n) : c.isDigit = true := by
  simp only [pad, List.mem_append, List.mem_replicate] at h
  rcases h with ⟨_, rfl⟩ | h
  · decide
  · exact natStr_isDigit h

theorem ofDigits_pad (w n : Nat) : Nat.ofDigitChars 10 (pad w n) 0 = n := by
  simp [pad, Nat.ofDigitChars_append, ofDigits_natStr]

theorem pad_ne_nil (w n : Nat) : pad w n ≠ [] := by
  simp [pad, natStr_ne_nil]

namespace P0

theorem digitsN_pad {n w : Nat} (hw : 0 < w) (h : n < 10 ^ w) (r : Str) :
    digitsN w (pad w n ++ r) = some (n, r) := by
  have hl := pad_length hw h
  have htake : (pad w n ++ r).take w = pad w n := by
    rw [List.take_append_of_le_length (by omega)]; simp [List.take_of_length_le, hl]
  have hdrop : (pad w n ++ r).drop w = r := by
    rw [List.drop_append_of_le_length (by omega)]; simp [List.drop_of_length_le, hl]
  have hall : (pad w n).all Char.isDigit = true := by
    simp only [List.all_eq_true]; intro c hc; exact pad_isDigit hc
  simp [digitsN, htake, hdrop, hall, ofDigits_pad, hl]

end P0
end Utv.C14

namespace Utv.C14

/-! ### `in`, `replace`, `strip` on strings that do not contain the characters in question -/

theorem contains_of_not_mem {p : Char} {ps s : Str} (h : p ∉ s) : contains (p :: ps) s = false := by
  induction s with
  | nil => simp [contains]
  | cons c cs ih =>
    have hc : p ≠ c := fun e => h (by simp [e])
    have hcs : p ∉ cs := fun e => h (by simp [e])
    simp [contains, List.isPrefixOf, hc, ih hcs]

theorem contains_singleton_of_mem {p : Char} {s : Str} (h : p ∈ s) : contains [p] s = true := by
  induction s with
  | nil => simp at h
  | cons c cs ih =>
    simp only [contains, List.isPrefixOf, Bool.or_eq_true, Bool.and_eq_true, beq_iff_eq]
    rcases List.mem_cons.mp h with rfl | h'
    · left; simp [List.isPrefixOf]
    · right; exact ih h'

theorem removeAll_go_of_not_mem {p : Char} {ps s : Str} (h : p ∉ s) : removeAll.go (p :: ps) 0 s = s := by
  induction s with
  | nil => simp [removeAll.go]
  | cons c cs ih =>
    have hc : p ≠ c := fun e => h (by simp [e])
    have hcs : p ∉ cs := fun e => h (by simp [e])
    simp [removeAll.go, List.isPrefixOf, hc, ih hcs]

theorem removeAll_of_not_mem {p : Char} {ps s : Str} (h : p ∉ s) : removeAll (p :: ps) s = s := by
  simp [removeAll, removeAll_go_of_not_mem h]

theorem removeAll_of_second_not_mem {p q : Char} {ps s : Str} (h : q ∉ s) : removeAll (p :: q :: ps) s = s := by
  have : removeAll.go (p :: q :: ps) 0 s = s := by
    induction s with
    | nil => simp [removeAll.go]
    | cons c cs ih =>
      have hcs : q ∉ cs := fun e => h (by simp [e])
      have hpre : (p :: q :: ps).isPrefixOf (c :: cs) = false := by
        cases cs with
        | nil => simp [List.isPrefixOf]
        | cons d ds =>
          have : q ≠ d := fun e => h (by simp [e])
          simp [List.isPrefixOf, this]
      simp [removeAll.go, hpre, ih hcs]
  simp [removeAll, this]

theorem dropWhile_of_all_false {p : Char → Bool} {l : Str} (h : ∀ c ∈ l, p c = false) : l.dropWhile p = l := by
  cases l with
  | nil => rfl
  | cons c cs => simp [List.dropWhile, h c (by simp)]

theorem strip_of_no_space {s : Str} (h : ∀ c ∈ s, isSpace c = false) : strip s = s := by
  have h1 : lstrip s = s := dropWhile_of_all_false h
  have h2 : rstrip s = s := by
    unfold rstrip
    rw [dropWhile_of_all_false (fun c hc => h c (List.mem_reverse.mp hc))]
    simp
  simp [strip, h1, h2]

theorem rstripChar_of_not_mem {z : Char} {s : Str} (h : z ∉ s) : rstripChar z s = s := by
  unfold rstripChar
  rw [dropWhile_of_all_false]
  · simp
  · intro c hc
    have : c ≠ z := fun e => h (e ▸ List.mem_reverse.mp hc)
    simp [this]

theorem endsWith_singleton_of_not_mem {z : Char} {s : Str} (h : z ∉ s) : endsWith [z] s = false := by
  unfold endsWith
  cases hs : s.reverse with
  | nil => simp [List.isPrefixOf]
  | cons c cs =>
    have : c ∈ s := List.mem_reverse.mp (by simp [hs])
    have hne : z ≠ c := fun e => h (e ▸ this)
    simp [List.isPrefixOf, hne]

/-- the alphabet of `isoformat()` output -/
def isoChar (c : Char) : Bool := c.isDigit || c == '-' || c == ':' || c == 'T' || c == '.' || c == '+'

theorem isoChar_of_digit {c : Char} (h : c.isDigit = true) : isoChar c = true := by simp [isoChar, h]

theorem all_isoChar_pad (w n : Nat) : (pad w n).all isoChar = true := by
  simp only [List.all_eq_true]; intro c h; exact isoChar_of_digit (pad_isDigit h)

theorem all_isoChar_isoDate (d : Date) : (isoDate d).all isoChar = true := by
  simp [isoDate, List.all_append, all_isoChar_pad, isoChar]

theorem all_isoChar_isoClock (k : Clock) : (isoClock k).all isoChar = true := by
  unfold isoClock
  split <;> simp [List.all_append, all_isoChar_pad, isoChar]

theorem all_isoChar_isoClockMs (k : Clock) : (isoClockMs k).all isoChar = true := by
  simp [isoClockMs, List.all_append, all_isoChar_pad, isoChar]

theorem all_isoChar_isoOffset (o : Int) : (isoOffset o).all isoChar = true := by
  unfold isoOffset
  simp only []
  split <;> split <;> (try split) <;> simp [List.all_append, all_isoChar_pad, isoChar]

theorem all_isoChar_isoTz (tz : Option Int) : (isoTz tz).all isoChar = true := by
  cases tz with
  | none => simp [isoTz]
  | some o => exact all_isoChar_isoOffset o

theorem all_isoChar_isoDateTime (dt : DateTime) : (isoDateTime dt).all isoChar = true := by
  simp [isoDateTime, List.all_append, all_isoChar_isoDate, all_isoChar_isoClock, all_isoChar_isoTz, isoChar]

theorem not_mem_of_isoChar {s : Str} (h : s.all isoChar = true) {z : Char} (hz : isoChar z = false) : z ∉ s :=
  fun hm => by simp [List.all_eq_true.mp h z hm] at hz

theorem isoChar_not_space {c : Char} (h : isoChar c = true) : isSpace c = false := by
  cases hs : isSpace c with
  | false => rfl
  | true =>
    simp only [isSpace, Bool.or_eq_true, beq_iff_eq] at hs
    rcases hs with ((((((((rfl | rfl) | rfl) | rfl) | rfl) | rfl) | rfl) | rfl) | rfl) | rfl <;> simp [isoChar] at h


/-! ### `str(int)` -/

theorem toLower_digit (c : Char) (h : c.isDigit = true) : c.toLower = c := by
  unfold Char.toLower
  split
  · rename_i hu
    simp only [Char.isDigit, Bool.and_eq_true, decide_eq_true_eq] at h
    have h1 := UInt32.le_iff_toNat_le.mp h.2
    have h2 := UInt32.le_iff_toNat_le.mp hu.1
    simp at h1 h2
    omega
  · rfl

theorem lower_natStr (n : Nat) : lower (natStr n) = natStr n := by
  unfold lower
  have : ∀ l : Str, (∀ c ∈ l, c.isDigit = true) → l.map Char.toLower = l := by
    intro l; induction l with
    | nil => intro _; rfl
    | cons c cs ih =>
      intro h
      simp [toLower_digit c (h c (by simp)), ih (fun d hd => h d (by simp [hd]))]
  exact this _ (fun c hc => natStr_isDigit hc)

theorem lower_intStr (i : Int) : lower (intStr i) = intStr i := by
  unfold intStr
  split
  · have := lower_natStr i.natAbs
    simp only [lower, List.map_cons] at this ⊢
    rw [this]; rfl
  · exact lower_natStr _

theorem intStr_ne_nil (i : Int) : intStr i ≠ [] := by
  unfold intStr; split
  · simp
  · exact natStr_ne_nil _

/-- the first character of `str(i)` is a digit or the minus sign -/
theorem intStr_head (i : Int) : ∃ c r, intStr i = c :: r ∧ (c.isDigit = true ∨ c = '-') := by
  unfold intStr; split
  · exact ⟨'-', _, rfl, Or.inr rfl⟩
  · cases h : natStr i.toNat with
    | nil => exact absurd h (natStr_ne_nil _)
    | cons c r => exact ⟨c, r, rfl, Or.inl (natStr_isDigit (by rw [h]; simp))⟩

theorem intStr_eq_natStr {i : Int} {n : Nat} (h : intStr i = natStr n) : i = n := by
  unfold intStr at h
  split at h
  · cases hn : natStr n with
    | nil => exact absurd hn (natStr_ne_nil _)
    | cons c r =>
      rw [hn] at h
      have hc : c.isDigit = true := natStr_isDigit (by rw [hn]; simp)
      have : c = '-' := by injection h with h1 _; exact h1.symm
      subst this; simp at hc
  · have := natStr_inj h
    omega

end Utv.C14
