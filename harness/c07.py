"""C07 — data-class instances stay valid under every sequence of mutations.

Correspondence: a generated class descriptor is instantiated through the public API (`type(name,
(Schema,), ns)` / `DataClass`), an instance is built, and the same operation sequence (attribute and item
assignment / deletion, update, pop, popitem, setdefault, clear, `|=`, copy) runs on the real instance(s)
and on the Lean model `Utv.C07.hrun`; after *every* operation the result kind, the returned value and,
for every live instance, the dict contents (ordered), `__dict__`, the attribute view and the `in` view
are compared.

What is not C07's business is handed to the model as tables measured on the library's type-level API
(`type_transform(value, T)` for every field type, the typed addition) — the model composes them the way
`Schema` is supposed to.

Oracle (spec sweep, on what the implementation returned only): `check_instance` below — the
property's invariant written independently of utype.
"""
from __future__ import annotations

import ast
import hashlib
import itertools
import json
import re

from .common import Check, LEAN, REPO, run_driver, run_impl

# ---------------------------------------------------------------------------------------------
# value encoding (shared by adapter, model line and oracle)
# ---------------------------------------------------------------------------------------------


def enc(v):
    if v is None:
        return None
    if isinstance(v, bool):
        return {"b": v}
    if isinstance(v, int):
        return {"i": str(v)}
    if isinstance(v, float):
        return {"f": repr(v)}
    if isinstance(v, str):
        return {"s": v}
    if isinstance(v, (bytes, bytearray)):
        return {"y": bytes(v).hex()}
    if isinstance(v, tuple):
        return {"t": [enc(x) for x in v]}
    if isinstance(v, list):
        return {"l": [enc(x) for x in v]}
    if isinstance(v, dict):
        return {"d": [[enc(k), enc(x)] for k, x in v.items()]}
    return {"o": type(v).__name__}


class Opaque:
    """a value of a class the encoding does not know (e.g. the library's `unprovided` sentinel)"""
    def __init__(self, name):
        self.name = name


def dec(j):
    if j is None:
        return None
    (k, x), = j.items()
    if k == "o":
        return Opaque(x)
    if k == "b":
        return bool(x)
    if k == "i":
        return int(x)
    if k == "f":
        return float(x)
    if k == "s":
        return x
    if k == "y":
        return bytes.fromhex(x)
    if k == "t":
        return tuple(dec(e) for e in x)
    if k == "l":
        return [dec(e) for e in x]
    if k == "d":
        return {dec(a): dec(b) for a, b in x}
    raise ValueError(j)


def txt(e) -> str:
    """canonical text of an *encoded* value: what the Lean model carries around"""
    return json.dumps(e, sort_keys=True, separators=(",", ":"))


# field types of the generated classes: name -> (builder run in the worker, independent conformance predicate)
TYPES = ["int", "ge10", "str5", "optint"]


def conforms(tname: str, v) -> bool:
    """the declared type's meaning, written without utype"""
    if tname == "int":
        return isinstance(v, int)
    if tname == "ge10":
        return isinstance(v, int) and v >= 10
    if tname == "str5":
        return isinstance(v, str) and len(v) <= 5
    if tname == "optint":
        return v is None or isinstance(v, int)
    if tname == "tuple":
        return isinstance(v, tuple)
    return True


_PY_TYPES = {}


def py_type(tname):
    if not _PY_TYPES:
        from typing import Optional
        from utype import Rule

        class Ge10(int, Rule):
            ge = 10

        class Str5(str, Rule):
            max_length = 5

        _PY_TYPES.update(int=int, ge10=Ge10, str5=Str5, optint=Optional[int])
    return _PY_TYPES[tname]


_CONV_TYPES = {}


def conv_type(tname):
    """the same type as the type-level API wants it (typing generics go through Rule.parse_annotation)"""
    if tname not in _CONV_TYPES:
        from utype import Rule
        T = py_type(tname)
        _CONV_TYPES[tname] = T if isinstance(T, type) else Rule.parse_annotation(annotation=T)
    return _CONV_TYPES[tname]


# ---------------------------------------------------------------------------------------------
# descriptor -> static field table (computed from the descriptor alone, no utype involved)
# ---------------------------------------------------------------------------------------------

def field_table(case):
    """[{att,name,aliases,required,immutable,no_output,prop,deps(names),type,...}] in parser.fields order"""
    out = []
    by_att = {}
    for f in case["fields"]:
        name = f.get("alias") or f["att"]
        aliases = [name]
        for a in [f["att"]] + list(f.get("alias_from") or []):
            if a not in aliases:
                aliases.append(a)
        has_default = "default" in f
        r = {"att": f["att"], "name": name, "aliases": aliases, "type": f["type"],
             "required": bool(f.get("required")) and not has_default,
             "immutable": bool(f.get("immutable")) or bool(f.get("final")), "no_output": bool(f.get("no_output")), "prop": False,
             "deps": [], "dependants": [], "defer": bool(f.get("defer")) and has_default,
             "default": f.get("default") if has_default else None, "has_default": has_default}
        out.append(r)
        by_att[f["att"]] = r
    for p in case.get("props", []):
        name = p.get("alias") or p["att"]
        aliases = [name] + ([p["att"]] if p["att"] != name else [])
        deps = [by_att[d]["name"] for d in p["deps"]]
        r = {"att": p["att"], "name": name, "aliases": aliases, "kind": p.get("kind", "tuple"),
             "type": "ge10" if p.get("kind") == "ge10" else "tuple", "required": False, "immutable": False,
             "no_output": False, "prop": True, "deps": deps, "dep_atts": list(p["deps"]), "dependants": [],
             "defer": False, "default": None, "has_default": False}
        out.append(r)
        for d in p["deps"]:
            if name not in by_att[d]["dependants"]:
                by_att[d]["dependants"].append(name)
    return out


def resolve(table, key):
    for f in table:
        if key in f["aliases"]:
            return f
    return None


# ---------------------------------------------------------------------------------------------
# adapter (runs in the worker, real utype)
# ---------------------------------------------------------------------------------------------

_CLS_CACHE = {}
_COUNTER = [0]


def _options(o):
    from utype import Options
    okw = {}
    for k in ("immutable", "ignore_required", "ignore_delete_nonexistent", "collect_errors", "override"):
        if o.get(k):
            okw[k] = True
    if o.get("mode"):
        okw["mode"] = o["mode"]
    add = o.get("addition", "ignore")
    if add == "forbid":
        okw["addition"] = False
    elif add == "allow":
        okw["addition"] = True
    elif add == "typed":
        okw["addition"] = int
    return okw


def _namespace(fields, props, opts, excluded, declare_opts=False):
    """class body for the given declarations (`opts` None: the body declares no __options__)"""
    from utype import Field, Options
    ns = {"__annotations__": {}, "__module__": __name__}
    if opts is not None:
        okw = _options(opts)
        if okw or declare_opts:      # a subclass must say so when it wants the defaults back
            ns["__options__"] = Options(**okw)
    for f in fields:
        if f.get("final"):
            from typing import Final
            ns["__annotations__"][f["att"]] = Final[py_type(f["type"])]
        else:
            ns["__annotations__"][f["att"]] = py_type(f["type"])
        kw = {}
        if f.get("alias"):
            kw["alias"] = f["alias"]
        if f.get("alias_from"):
            kw["alias_from"] = list(f["alias_from"])
        if "default" in f:
            kw["default"] = dec(f["default"])
            if f.get("defer"):
                kw["defer_default"] = True
        elif not f.get("required"):
            kw["required"] = False
        if f.get("immutable"):
            kw["immutable"] = True
        if f.get("no_output"):
            kw["no_output"] = True
        if kw:
            ns[f["att"]] = Field(**kw)      # otherwise the field is declared by its annotation alone
    for x in excluded:
        ns["__annotations__"][x] = int
        ns[x] = 0
    for p in props:
        def make(deps, kind):
            # "tuple": total; "guard": raises on a falsy first dependency; "ge10": returns the first dependency and
            # declares the return type Ge10 (the result may not convert)
            if kind == "ge10":
                def fget(self) -> py_type("ge10"):
                    return tuple(getattr(self, d) for d in deps)[0]     # reads every declared dependency
            elif kind == "guard":
                def fget(self) -> tuple:
                    vals = tuple(getattr(self, d) for d in deps)
                    if not vals[0]:
                        raise ValueError("getter refuses a falsy first dependency")
                    return vals
            else:
                def fget(self) -> tuple:
                    return tuple(getattr(self, d) for d in deps)
            return fget
        fget = make(tuple(p["deps"]), p.get("kind", "tuple"))
        fget.__name__ = p["att"]
        fkw = {"dependencies": list(p["deps"])}
        if p.get("alias"):
            fkw["alias"] = p["alias"]
        ns[p["att"]] = property(Field(**fkw)(fget))
    return ns


def build_class(case):
    """The class of the instances.  `case["fields"|"props"|"opts"]` is its *effective* declaration; with
    `case["hier"]` it is reached by inheritance: a base class (other declarations of some fields, other options)
    and either a subclass body that re-declares `hier["own"]` (and may declare __options__), or the documented
    `Options(...)(Base)` variant."""
    import warnings
    from utype import DataClass, Options, Schema

    key = json.dumps([case["base"], case["opts"], case["fields"], case.get("props", []), case.get("excluded", []),
                      case.get("hier")], sort_keys=True)
    if key in _CLS_CACHE and not case.get("prelude"):
        # (a case with a prelude gets a class of its own: what the prelude leaves behind must not depend on
        # which cases the worker saw before)
        return _CLS_CACHE[key]
    root = Schema if case["base"] == "schema" else DataClass
    h = case.get("hier")
    with warnings.catch_warnings():
        warnings.simplefilter("ignore")
        _COUNTER[0] += 1
        if not h:
            cls = type(f"K{_COUNTER[0]}", (root,),
                       _namespace(case["fields"], case.get("props", []), case["opts"], case.get("excluded", [])))
        else:
            base = type(f"B{_COUNTER[0]}", (root,),
                        _namespace(h["base_fields"], h.get("base_props", []), h["base_opts"], case.get("excluded", [])))
            if h["via"] == "options":
                cls = Options(**_options(case["opts"]))(base)
            else:
                own = [f for f in case["fields"] if f["att"] in h["own"]]
                lprops = [p for p in case.get("props", []) if p["att"] in h.get("leaf_props", [])]
                cls = type(f"K{_COUNTER[0]}", (base,),
                           _namespace(own, lprops, case["opts"] if h.get("leaf_opts") else None, [], declare_opts=True))
    _CLS_CACHE[key] = cls
    return cls


_PARENTS = {}


def build_nested(case, cls):
    """the instance as the value of a field of another data class (`case["nest"]`): at the parent's construction or by a
    later assignment through the parent's attribute / item / update; as the field itself, an element of a List or a
    value of a Dict"""
    import warnings
    from typing import Dict, List, Optional
    from utype import DataClass, Field, Options, Schema
    n = case["nest"]
    key = (id(cls), json.dumps(n, sort_keys=True))
    P = _PARENTS.get(key)
    if P is None:
        ann = {"field": cls, "list": List[cls], "dict": Dict[str, cls], "optional": Optional[cls]}[n["shape"]]
        ns = {"__annotations__": {"n": ann}, "__module__": __name__}
        okw = _options(n["parent_opts"])
        if okw:
            ns["__options__"] = Options(**okw)
        if n["when"] != "init":
            ns["n"] = Field(required=False)
        _COUNTER[0] += 1
        with warnings.catch_warnings():
            warnings.simplefilter("ignore")
            P = type(f"P{_COUNTER[0]}", (Schema if n["parent_base"] == "schema" else DataClass,), ns)
        _PARENTS[key] = P
    val = {k: dec(v) for k, v in case["init"]}
    wrapped = {"field": val, "optional": val, "list": [val], "dict": {"k": val}}[n["shape"]]
    if n["when"] == "init":
        p = P(n=wrapped)
    else:
        p = P()
        if n["when"] == "setattr":
            p.n = wrapped
        elif n["when"] == "setitem":
            p["n"] = wrapped
        else:
            p.update(n=wrapped)
    got = p.n
    if n["shape"] == "list":
        got = got[0]
    elif n["shape"] == "dict":
        got = got["k"]
    if type(got) is not cls:
        raise TypeError("nested value is not an instance of the class")
    return got, p


def inst_opts(case):
    """The options that govern the instance, by the documented rule (not read from the library): its own class's,
    unless it was built inside a data class whose options say override and its own do not — then the enclosing
    immutable / ignore_required / ignore_delete_nonexistent (a DataClass accessor always uses its class's)."""
    o = case["opts"]
    n = case.get("nest")
    if not n or case["base"] != "schema":
        return o
    p = n["parent_opts"]
    if p.get("override") and not o.get("override"):
        e = {k: v for k, v in o.items() if k not in ("immutable", "ignore_required", "ignore_delete_nonexistent")}
        for k in ("immutable", "ignore_required", "ignore_delete_nonexistent"):
            if p.get(k):
                e[k] = True
        return e
    return o


def exc_name(e) -> str:
    from utype.utils import exceptions as exc
    if isinstance(e, exc.UpdateError):
        return "UpdateError"
    if isinstance(e, exc.DeleteError):
        return "DeleteError"
    if isinstance(e, exc.ParseError):
        return "ParseError"
    if isinstance(e, KeyError):
        return "KeyError"
    if isinstance(e, AttributeError):
        return "AttributeError"
    return "other:" + type(e).__name__


def snapshot(inst, table, is_schema):
    d = inst.__dict__
    if is_schema:
        data = [[k, txt(enc(v))] for k, v in dict.items(inst)]
    else:
        data = []
    attrs = [[k, txt(enc(v))] for k, v in d.items() if k not in ("__options__", "__context__")]
    view, has = [], []
    for f in table:
        try:
            view.append([f["att"], txt(enc(getattr(inst, f["att"])))])
        except AttributeError:
            view.append([f["att"], None])
        except Exception as e:  # noqa
            # a property that is not stored is computed on reading: a raising getter / a result that does not
            # convert means "not readable", like AttributeError; for a declared field any other error is reported
            view.append([f["att"], None if f["prop"] else "!" + type(e).__name__])
        try:
            has.append([f["att"], bool(f["att"] in inst)])
        except Exception as e:  # noqa
            has.append([f["att"], "!" + type(e).__name__])
    return {"data": data, "attrs": attrs, "view": view, "has": has}


def convert(T, x):
    """the field type's own converter, through the type-level public API (no Schema involved)"""
    from utype import type_transform
    try:
        return txt(enc(type_transform(x, T)))
    except Exception:  # noqa
        return None


def op_values(case):
    vals = []
    for op in case["ops"]:
        if "v" in op:
            vals.append(op["v"])
        for _, v in op.get("kv", []):
            vals.append(v)
    seen, out = set(), []
    for v in vals:
        t = txt(v)
        if t not in seen:
            seen.add(t)
            out.append(v)
    return out


def run_prelude(case, cls):
    """Earlier use of the same declarations under OTHER options, before the instance under test exists: a subclass
    with its own Options (a PATCH-style variant), the Options(...)(cls) variant, or `cls.__from__(data, options=...)`;
    each is parsed and mutated.  Nothing of it may influence the instance under test: model and oracle ignore the
    prelude, i.e. the run is compared with the same history without it."""
    import warnings
    from utype import Options
    keep = []
    for n, pre in enumerate(case.get("prelude") or []):
        data = {k: dec(v) for k, v in pre.get("data", [])}
        try:
            with warnings.catch_warnings():
                warnings.simplefilter("ignore")
                if pre["how"] == "subclass":
                    sub = type(f"{cls.__name__}Pre{n}", (cls,), {"__module__": __name__, "__options__": Options(**_options(pre["opts"]))})
                    o = sub(**data)
                elif pre["how"] == "optcall":
                    o = Options(**_options(pre["opts"]))(cls)(**data)
                else:
                    o = cls.__from__(data, options=Options(**_options(pre["opts"])))
        except Exception:  # noqa — a prelude that does not parse is still an earlier parse
            continue
        keep.append(o)
        for op in pre.get("ops", []):
            try:
                k = op.get("k")
                if op["op"] == "delattr":
                    delattr(o, k)
                elif op["op"] == "setattr":
                    setattr(o, k, dec(op["v"]))
                elif op["op"] == "delitem":
                    del o[k]
                elif op["op"] == "pop":
                    o.pop(k)
                elif op["op"] == "popitem":
                    o.popitem()
                elif op["op"] == "clear":
                    o.clear()
            except Exception:  # noqa
                pass
    return keep


def impl(case):
    import operator
    import warnings
    warnings.simplefilter("ignore")
    table = field_table(case)
    is_schema = case["base"] == "schema"
    try:
        cls = build_class(case)
    except Exception as e:  # noqa — the library's own declaration checks decide legality
        return {"skip": "declaration: " + type(e).__name__}
    _prelude_keep = run_prelude(case, cls)
    try:
        if case.get("nest"):
            inst, _keep = build_nested(case, cls)
        else:
            inst = cls(**{k: dec(v) for k, v in case["init"]})
    except Exception as e:  # noqa
        return {"skip": "init: " + exc_name(e)}
    # tables for the model: type-level conversions of every raw argument, order of the dependant sets
    vals = op_values(case)
    ptable = []
    for f in table:
        if f["prop"]:
            continue
        T = conv_type(f["type"])
        for v in vals:
            ptable.append([f["name"], txt(v), convert(T, dec(v))])
    atable = [[txt(v), convert(int, dec(v))] for v in vals]
    # conversion of the results of "ge10" properties: every value their first dependency can take
    ctable = []
    for p in table:
        if p["prop"] and p["kind"] == "ge10":
            f0 = next(f for f in table if f["att"] == p["dep_atts"][0])
            cands = {r for (nm, _x, r) in ptable if nm == f0["name"] and r is not None}
            cands.add(txt(f0["default"]))
            try:
                cands.add(txt(enc(getattr(inst, f0["att"]))))
            except Exception:  # noqa
                pass
            for c_ in sorted(cands):
                ctable.append([p["name"], c_, convert(py_type("ge10"), dec(json.loads(c_)))])
    dependants = {}
    try:
        for f in table:
            pf = cls.__parser__.get_field(f["name"])
            dependants[f["name"]] = [d for d in pf.dependants]
    except Exception:  # noqa
        pass
    heap = [inst]
    out = {"init": [snapshot(inst, table, is_schema)], "steps": [], "ptable": ptable, "atable": atable, "ctable": ctable,
           "dependants": dependants}
    for op in case["ops"]:
        kind = op["op"]
        res, ret = "ok", None
        try:
            if kind == "copy":
                if not is_schema:
                    raise AttributeError("no copy")
                heap.append(heap[op["i"]].copy())
            else:
                o = heap[op["i"]]
                k = op.get("k")
                v = dec(op["v"]) if "v" in op else None
                if kind == "setattr":
                    setattr(o, k, v)
                elif kind == "delattr":
                    delattr(o, k)
                elif kind == "setitem":
                    o[k] = v
                elif kind == "delitem":
                    del o[k]
                elif kind == "update":
                    o.update({a: dec(b) for a, b in op["kv"]})
                elif kind == "ior":
                    r = operator.ior(o, {a: dec(b) for a, b in op["kv"]})
                    if r is not o:
                        heap[op["i"]] = r
                elif kind == "pop":
                    r = o.pop(k, dec(op["d"][0])) if op.get("d") is not None else o.pop(k)
                    ret = txt(enc(r))
                elif kind == "popitem":
                    r = o.popitem()
                    ret = txt(enc(r[1]))
                elif kind == "setdefault":
                    ret = txt(enc(o.setdefault(k, v)))
                elif kind == "clear":
                    o.clear()
                else:
                    raise ValueError(kind)
        except Exception as e:  # noqa
            res = exc_name(e)
        out["steps"].append({"res": res, "ret": ret, "heap": [snapshot(h, table, is_schema) for h in heap]})
    return out


# ---------------------------------------------------------------------------------------------
# the property's predicate (oracle) — evaluated on what the implementation returned
# ---------------------------------------------------------------------------------------------

def _val(t):
    return dec(json.loads(t))


def check_instance(case, table, snap, root, taint, prev_snap=None):
    """Violations of the invariant on one instance snapshot; `root` is the initial snapshot of its lineage.
    Returns a list of (tag, message)."""
    bad = []
    o = inst_opts(case)
    data = {k: v for k, v in snap["data"]}
    attrs = {k: v for k, v in snap["attrs"]}
    view = {k: v for k, v in snap["view"]}
    has = {k: v for k, v in snap["has"]}
    is_schema = case["base"] == "schema"
    prev_data = {k: v for k, v in prev_snap["data"]} if prev_snap else None
    if len(data) != len(snap["data"]):
        bad.append(("shape", "duplicate keys"))
    # 1. every present field conforms, sits under its output name; nothing unparsed
    for k, t in snap["data"]:
        f = resolve(table, k)
        if f is None:
            add = o.get("addition", "ignore")
            if add in ("ignore", "forbid"):
                bad.append(("raw", f"key {k!r} is not a field and additions are not accepted, yet it is in the instance"))
            elif add == "typed" and not conforms("int", _val(t)):
                bad.append(("raw", f"addition {k!r} holds {t} which is not of the declared addition type int"))
            continue
        if k != f["name"]:
            bad.append(("raw", f"field {f['att']!r} is stored under key {k!r} instead of its output name {f['name']!r}"))
        if not conforms(f["type"], _val(t)):
            bad.append(("conform", f"field {f['att']!r} holds {t} which does not conform to its declared type {f['type']}"))
        if f["no_output"]:
            bad.append(("views", f"no_output field {f['att']!r} appears under the keys"))
    for f in table:
        if not f["prop"] and f["att"] in attrs and not conforms(f["type"], _val(attrs[f["att"]])):
            bad.append(("conform", f"attribute {f['att']!r} holds {attrs[f['att']]} which does not conform to {f['type']}"))

    def present(f):
        if not is_schema or f["no_output"]:
            return f["att"] in attrs
        return f["name"] in data

    def stored(sn, f):
        d = {k: v for k, v in sn["data"]}
        a = {k: v for k, v in sn["attrs"]}
        return (d.get(f["name"]), a.get(f["att"])) if is_schema else (None, a.get(f["att"]))

    for f in table:
        if f["prop"]:
            continue
        # 2. required fields are present
        if f["required"] and not o.get("ignore_required") and not present(f):
            bad.append(("required", f"required field {f['att']!r} is missing"))
        # 3. immutable fields hold their initial value
        if (f["immutable"] or o.get("immutable")) and stored(snap, f) != stored(root, f):
            bad.append(("immutable", f"immutable field {f['att']!r} changed from {stored(root, f)} to {stored(snap, f)}"))
        # 4. attribute view and key view agree
        v = view.get(f["att"])
        dflt = txt(f["default"]) if f["defer"] else None
        if isinstance(v, str) and v.startswith("!"):
            bad.append(("views", f"reading attribute {f['att']!r} raises {v[1:]}"))
        elif is_schema and not f["no_output"]:
            if f["name"] in data:
                if v != data[f["name"]]:
                    bad.append(("views", f"attribute {f['att']!r} reads {v} but key {f['name']!r} holds {data[f['name']]}"))
            elif v is not None and v != dflt:
                bad.append(("views", f"key {f['name']!r} is absent but attribute {f['att']!r} still reads {v}"))
            if has.get(f["att"]) != (f["name"] in data):
                bad.append(("views", f"{f['att']!r} in obj is {has.get(f['att'])} but key presence is {f['name'] in data}"))
        else:
            if f["att"] in attrs:
                if v != attrs[f["att"]]:
                    bad.append(("views", f"attribute {f['att']!r} reads {v} but the instance stores {attrs[f['att']]}"))
            elif v is not None and not (is_schema and v == dflt):
                bad.append(("views", f"attribute {f['att']!r} is not stored but reads {v}"))
            if not is_schema and has.get(f["att"]) != ((f["att"] in attrs) and not f["no_output"]):
                bad.append(("views", f"{f['att']!r} in obj is {has.get(f['att'])} but attribute presence is {f['att'] in attrs}"))
    # 5. stored properties are the getter applied to the current attribute values
    for p in table:
        if not p["prop"] or not is_schema:
            continue
        if p["name"] not in data:
            taint.discard(p["name"])
            continue
        if view.get(p["att"]) != data[p["name"]]:
            bad.append(("views", f"property {p['att']!r} reads {view.get(p['att'])} but key holds {data[p['name']]}"))
        deps = [view.get(a) for a in p["dep_atts"]]
        readable = all(isinstance(x, str) and not x.startswith("!") for x in deps)
        if not readable:
            fresh = False
        elif p["kind"] == "ge10":
            d0 = _val(deps[0])        # the getter returns its first dependency, declared Ge10
            fresh = isinstance(d0, int) and not isinstance(d0, bool) and d0 >= 10 and _val(data[p["name"]]) == d0 \
                and type(_val(data[p["name"]])) is int
        elif p["kind"] == "guard" and not _val(deps[0]):
            fresh = False             # the getter raises on a falsy first dependency: nothing may be stored
        else:
            fresh = json.loads(data[p["name"]]) == {"t": [json.loads(x) for x in deps]}
        if fresh:
            if prev_data is None or prev_data.get(p["name"]) != data[p["name"]]:
                taint.discard(p["name"])     # recomputed since the last snapshot
        else:
            tag = "stale-dependant-after-delete" if p["name"] in taint else "stale"
            bad.append((tag, f"property {p['att']!r} holds {data[p['name']]} but its dependencies now read {deps}"))
    return bad


SINGLE_KEY = {"setattr", "delattr", "setitem", "delitem", "pop", "popitem", "setdefault", "clear", "copy"}


def violations(case, io):
    """every violation of the property in the run, as (step, instance, tag, message)"""
    table = field_table(case)
    out = []
    roots = [io["init"][0]]
    taints = [set()]
    for tag, msg in check_instance(case, table, io["init"][0], roots[0], taints[0]):
        out.append((-1, 0, "init-" + tag, msg))
    prev = io["init"]
    for n, (op, st) in enumerate(zip(case["ops"], io["steps"])):
        heap = st["heap"]
        if op["op"] == "copy" and st["res"] == "ok" and len(heap) == len(prev) + 1:
            roots.append(roots[op["i"]])
            taints.append(set(taints[op["i"]]))
        single = op["op"] in SINGLE_KEY or len(op.get("kv", [])) <= 1
        if st["res"] != "ok" and single and heap != prev:
            out.append((n, op.get("i", 0), "raise-changed",
                        f"{op['op']} raised {st['res']} but the instance changed"))
        # a removal of a dependency under a stored property: later staleness of that property is the known finding
        if st["res"] == "ok" and op["op"] in ("delattr", "delitem", "pop", "popitem") and op["i"] < len(prev):
            before = {k for k, _ in prev[op["i"]]["data"]}
            after = {k for k, _ in heap[op["i"]]["data"]}
            for p in table:
                if p["prop"] and p["name"] in after and any(d in before and d not in after for d in p["deps"]):
                    taints[op["i"]].add(p["name"])
        for i, sn in enumerate(heap):
            if i < len(prev) and sn == prev[i] and not any(v[1] == i for v in out):
                continue   # unchanged and clean so far
            # a fresh copy is compared with the instance it was copied from
            before = prev[i] if i < len(prev) else (prev[op["i"]] if op["op"] == "copy" and op["i"] < len(prev) else None)
            for tag, msg in check_instance(case, table, sn, roots[i] if i < len(roots) else sn,
                                           taints[i] if i < len(taints) else set(), before):
                out.append((n, i, tag, msg))
        prev = heap
    return out


# ---------------------------------------------------------------------------------------------
# generator
# ---------------------------------------------------------------------------------------------

VALID = {"int": [0, 3, 12, 15, -4], "ge10": [10, 12, 15, 99], "str5": ["ab", "hello", ""], "optint": [None, 5, 12]}
CONVERTIBLE = {"int": ["12", "7", 12.0, True, b"15"], "ge10": ["12", "10", 15.0, b"99"], "str5": [12, 7, b"ab", True],
               "optint": ["12", "3", 5.0]}
INVALID = {"int": ["xyz", [1, 2], None, "1.5x"], "ge10": [9, "5", "xyz", None, -1], "str5": ["toolong", "abcdefgh", 123456],
           "optint": ["xyz", [1], "q"]}
ANYVALS = [1, "12", "xyz", None, 12, "ab", [1, 2]]


def gen_value(rng, tname, cls_=None):
    cls_ = cls_ or rng.choices(["valid", "convertible", "invalid"], [50, 25, 25])[0]
    pool = {"valid": VALID, "convertible": CONVERTIBLE, "invalid": INVALID}[cls_]
    return enc(rng.choice(pool[tname]))


def gen_class(rng, base=None):
    base = base or ("schema" if rng.random() < 0.82 else "dataclass")
    nf = rng.randint(2, 5)
    fields = []
    for att in ["a", "b", "c", "d", "e"][:nf]:
        t = rng.choice(TYPES)
        f = {"att": att, "type": t}
        k = rng.random()
        if k < 0.35:
            f["required"] = True
        elif k < 0.65:
            f["default"] = enc(rng.choice(VALID[t]))
        elif k < 0.75:
            f["default"] = enc(rng.choice(VALID[t]))
            f["defer"] = True
        if rng.random() < 0.25:
            f["alias"] = att + "@"
        if rng.random() < 0.25:
            f["alias_from"] = [att + "$"] + ([att + "#"] if rng.random() < 0.3 else [])
        if rng.random() < 0.15:
            f["immutable"] = True
        elif rng.random() < 0.1:
            f["final"] = True            # Final[T]: immutable through ParserField.immutable (field.py:520-524)
        if rng.random() < 0.18:
            f["no_output"] = True
        fields.append(f)
    props = []
    if base == "schema":
        for pa in ["p", "q"][: rng.choice([0, 1, 1, 1, 2])]:
            deps = rng.sample([f["att"] for f in fields], rng.randint(1, min(2, nf)))
            p = {"att": pa, "deps": deps}
            kind = rng.choices(["tuple", "guard", "ge10"], [50, 25, 25])[0]
            if kind == "ge10":
                ints = [f["att"] for f in fields if f["type"] in ("int", "ge10", "optint")]
                if ints:
                    p["deps"] = [rng.choice(ints)] + [d for d in deps if d not in ints][:1]
                    p["kind"] = "ge10"
            elif kind == "guard":
                p["kind"] = "guard"
            if rng.random() < 0.25:
                p["alias"] = "@" + pa
            props.append(p)
    opts = {"addition": rng.choices(["ignore", "allow", "forbid", "typed"], [30, 25, 10, 35])[0]}
    if rng.random() < 0.07:
        opts["immutable"] = True
    if rng.random() < 0.15:
        opts["ignore_required"] = True
    if rng.random() < 0.2:
        opts["ignore_delete_nonexistent"] = True
    if rng.random() < 0.15:
        opts["collect_errors"] = True      # must make no difference to the mutators (they force the error)
    init = []
    for f in fields:
        name_pool = [f["att"], f.get("alias") or f["att"]] + list(f.get("alias_from") or [])
        if f.get("required") and rng.random() < 0.97 or rng.random() < 0.5:
            cls_ = "valid" if rng.random() < 0.8 else "convertible"
            init.append([rng.choice(name_pool), gen_value(rng, f["type"], cls_)])
    if opts["addition"] in ("allow", "typed") and rng.random() < 0.4:
        init.append(["x1", enc(rng.choice([1, "12"]))])
    return {"base": base, "opts": opts, "fields": fields, "props": props, "init": init, "excluded": ["_x"]}


def vary_field(rng, f):
    """another declaration of the same attribute, as a base class might have it (no alias: same output name)"""
    t = rng.choice(TYPES)
    g = {"att": f["att"], "type": t}
    k = rng.random()
    if k < 0.4:
        g["required"] = True
    elif k < 0.8:
        g["default"] = enc(rng.choice(VALID[t]))
    if rng.random() < 0.3:
        g["immutable"] = True
    if rng.random() < 0.25:
        g["no_output"] = True
    if rng.random() < 0.2:
        g["alias_from"] = [f["att"] + "$"]
    return g


def vary_opts(rng, o):
    b = {"addition": rng.choice(["ignore", "allow", "forbid", "typed"])}
    for k, pr in (("immutable", 0.4), ("ignore_required", 0.3), ("ignore_delete_nonexistent", 0.3)):
        if rng.random() < pr:
            b[k] = True
    return b


def add_hierarchy(rng, c):
    """reach the same effective declaration through inheritance: narrowed / re-declared fields, inherited fields,
    option variants"""
    fields, props = c["fields"], c["props"]
    if rng.random() < 0.3:
        c["hier"] = {"via": "options", "base_fields": fields, "base_props": props, "base_opts": vary_opts(rng, c["opts"])}
        return c
    eligible = [f["att"] for f in fields if not f.get("alias")]
    own = [a for a in eligible if rng.random() < 0.6]
    leaf_props = [p["att"] for p in props] if rng.random() < 0.5 else []
    base_fields = [vary_field(rng, f) if f["att"] in own else f for f in fields]
    # a field that only the subclass has (it must come last: the base's fields and properties keep their places)
    if len(leaf_props) == len(props) and len(fields) > 2 and rng.random() < 0.3:
        base_fields = base_fields[:-1]
        if fields[-1]["att"] not in own:
            own.append(fields[-1]["att"])
    leaf_opts = rng.random() < 0.5
    c["hier"] = {"via": "subclass", "base_fields": base_fields, "base_props": [p for p in props if p["att"] not in leaf_props],
                 "base_opts": vary_opts(rng, c["opts"]) if leaf_opts else c["opts"], "own": own, "leaf_props": leaf_props,
                 "leaf_opts": leaf_opts}
    return c


def key_pool(case):
    tab = field_table(case)
    keys = []
    for f in tab:
        keys += [(a, f) for a in f["aliases"]]
    return tab, keys


def gen_kv(rng, case, tab, keys, attr_only=False):
    r = rng.random()
    if r < 0.82:
        k, f = rng.choice(keys)
        if attr_only:
            k = f["att"]
        v = enc(rng.choice(ANYVALS)) if f["prop"] else gen_value(rng, f["type"])
        return k, v
    if r < 0.97:
        return rng.choice(["x1", "x2"] if not attr_only else ["zz"]), enc(rng.choice(ANYVALS))
    return "_x", enc(1)


def gen_ops(rng, case, maxlen):
    tab, keys = key_pool(case)
    n = rng.randint(1, maxlen)
    ops = []
    nheap = 1
    dc = case["base"] == "dataclass"
    for _ in range(n):
        i = rng.randrange(nheap)
        if dc:
            kind = rng.choices(["setattr", "delattr"], [60, 40])[0]
        else:
            kind = rng.choices(["setattr", "setitem", "delattr", "delitem", "update", "pop", "popitem", "setdefault",
                                "clear", "ior", "copy"], [14, 16, 8, 9, 10, 10, 6, 9, 3, 7, 5])[0]
        if kind == "copy":
            if nheap >= 3:
                continue
            nheap += 1
            ops.append({"op": "copy", "i": i})
        elif kind in ("setattr",):
            k, v = gen_kv(rng, case, tab, keys, attr_only=True)
            ops.append({"op": kind, "i": i, "k": k, "v": v})
        elif kind in ("setitem", "setdefault"):
            k, v = gen_kv(rng, case, tab, keys)
            ops.append({"op": kind, "i": i, "k": k, "v": v})
        elif kind == "delattr":
            ops.append({"op": kind, "i": i, "k": rng.choice(keys)[1]["att"] if rng.random() < 0.93 else "zz"})
        elif kind == "delitem":
            ops.append({"op": kind, "i": i, "k": rng.choice(keys)[0] if rng.random() < 0.88 else rng.choice(["x1", "x2"])})
        elif kind == "pop":
            op = {"op": kind, "i": i, "k": rng.choice(keys)[0] if rng.random() < 0.88 else rng.choice(["x1", "x2"])}
            if rng.random() < 0.35:
                op["d"] = [enc(rng.choice([None, 0, "dflt"]))]
            ops.append(op)
        elif kind in ("update", "ior"):
            m = rng.choice([0, 1, 1, 2, 2, 3])
            kv, seen = [], set()
            for _ in range(m):
                k, v = gen_kv(rng, case, tab, keys)
                if k not in seen:
                    seen.add(k)
                    kv.append([k, v])
            ops.append({"op": kind, "i": i, "kv": kv})
        else:
            ops.append({"op": kind, "i": i})
    return ops


def add_nesting(rng, c):
    """obtain the instance as a nested value; the enclosing class has options of its own"""
    own = c["opts"]
    if rng.random() < 0.2:
        own["override"] = True
    po = vary_opts(rng, own)
    if rng.random() < 0.2:
        po["collect_errors"] = True
    parent_base = "schema" if rng.random() < 0.75 else "dataclass"
    when = rng.choice(["init", "init", "setattr", "setitem", "update"])
    if parent_base == "dataclass" and when in ("setitem", "update"):
        when = "setattr"
    if when != "init":
        po.pop("immutable", None)         # the parent must accept the assignment
    if c["base"] == "schema" and rng.random() < 0.3:
        po["override"] = True
        po["addition"] = own.get("addition", "ignore")   # additions: keep the two rules apart (see design notes)
    c["nest"] = {"parent_opts": po, "parent_base": parent_base, "when": when,
                 "shape": rng.choice(["field", "field", "list", "dict", "optional"])}
    return c


def add_prelude(rng, c):
    """an earlier parse (and mutation) of the same declarations under other options"""
    tab, keys = key_pool(c)
    pre = []
    for _ in range(rng.choice([1, 1, 2])):
        po = vary_opts(rng, c["opts"])
        if rng.random() < 0.7:
            po["ignore_required"] = True
        else:
            po.pop("ignore_required", None)
        if rng.random() < 0.3:
            po["mode"] = rng.choice(["r", "w", "a"])
        if rng.random() < 0.2:
            po["collect_errors"] = True
        how = rng.choice(["subclass", "subclass", "from", "optcall"])
        data = [kv for kv in c["init"] if rng.random() < 0.6]
        ops = []
        for _ in range(rng.randint(0, 3)):
            k, f = rng.choice(keys)
            if c["base"] == "dataclass":
                ops.append({"op": "delattr", "k": f["att"]})
            else:
                kind = rng.choice(["delattr", "delitem", "pop", "popitem", "clear"])
                ops.append({"op": kind, "k": f["att"] if kind == "delattr" else k})
        pre.append({"how": how, "opts": po, "data": data, "ops": ops})
    c["prelude"] = pre
    return c


def gen_case(rng, maxlen):
    c = gen_class(rng)
    if rng.random() < 0.4:
        c = add_hierarchy(rng, c)
    if rng.random() < 0.35:
        c = add_nesting(rng, c)
    if rng.random() < 0.35:
        c = add_prelude(rng, c)
    c["ops"] = gen_ops(rng, c, maxlen)
    return c


# a class with one field of every kind, used by the exhaustive part and the directed patterns
FULL = {"base": "schema",
        "opts": {"addition": "typed"},
        "fields": [{"att": "a", "type": "str5", "default": enc("d")},
                   {"att": "b", "type": "int", "required": True},
                   {"att": "c", "type": "ge10", "alias": "c@", "alias_from": ["c$"]},
                   {"att": "m", "type": "int", "default": enc(1), "immutable": True},
                   {"att": "s", "type": "int", "default": enc(7), "no_output": True}],
        "props": [{"att": "p", "deps": ["b", "s"]}],
        "init": [["b", enc(3)], ["c", enc(12)]], "excluded": ["_x"]}


def exhaustive_cases(length):
    """every sequence of exactly `length` operations over a fixed alphabet on FULL (prefixes are checked on the way)"""
    alpha = []
    for k, vals in (("b", [5, "6", "xyz"]), ("c$", [20, "11", 3])):
        for v in vals:
            alpha.append({"op": "setitem", "i": 0, "k": k, "v": enc(v)})
    alpha += [{"op": "setattr", "i": 0, "k": "s", "v": enc(9)}, {"op": "setattr", "i": 0, "k": "m", "v": enc(2)},
              {"op": "delattr", "i": 0, "k": "c"}, {"op": "delitem", "i": 0, "k": "b"},
              {"op": "pop", "i": 0, "k": "c"}, {"op": "pop", "i": 0, "k": "a", "d": [enc(0)]},
              {"op": "popitem", "i": 0}, {"op": "setdefault", "i": 0, "k": "c", "v": enc("13")},
              {"op": "setdefault", "i": 0, "k": "x1", "v": enc("zz")},
              {"op": "ior", "i": 0, "kv": [["a", enc("toolong")], ["m", enc(5)]]},
              {"op": "update", "i": 0, "kv": [["c", enc(30)], ["x2", enc("4")]]},
              {"op": "clear", "i": 0}]
    out = []
    for seq in itertools.product(alpha, repeat=length):
        out.append(dict(FULL, ops=[dict(o) for o in seq]))
    return out


def directed_cases(rng, n):
    """patterns that a uniform generator reaches rarely: copy then mutate both, delete then re-set, aliases"""
    out = []
    for _ in range(n):
        c = gen_class(rng, base="schema")
        tab, keys = key_pool(c)
        nos = [f for f in tab if f["no_output"] and not f["prop"] and not f["immutable"]]
        if nos and not any(nos[0]["att"] in p["deps"] for p in c["props"]):
            others = [f["att"] for f in tab if not f["prop"] and f["att"] != nos[0]["att"]]
            c["props"].append({"att": "r", "deps": [nos[0]["att"]] + others[:1]})
            tab, keys = key_pool(c)
        ops = [{"op": "copy", "i": 0}]
        for _ in range(rng.randint(2, 6)):
            i = rng.randrange(2)
            k, f = rng.choice(keys)
            if f["prop"]:
                continue
            kind = rng.choice(["setattr", "setitem", "pop", "delattr", "setdefault"])
            if kind == "setattr":
                ops.append({"op": kind, "i": i, "k": f["att"], "v": gen_value(rng, f["type"], "valid")})
            elif kind in ("setitem", "setdefault"):
                ops.append({"op": kind, "i": i, "k": k, "v": gen_value(rng, f["type"])})
            elif kind == "pop":
                ops.append({"op": kind, "i": i, "k": k})
            else:
                ops.append({"op": kind, "i": i, "k": f["att"]})
        c["ops"] = ops
        out.append(c)
    return out


# ---------------------------------------------------------------------------------------------
# the check
# ---------------------------------------------------------------------------------------------

DICT_MUTATORS = ["__delitem__", "__ior__", "__setitem__", "clear", "copy", "pop", "popitem", "setdefault", "update"]


class C07(Check):
    prop = "C07"
    props_modules = ["Utv.Props.C07"]
    driver = "C07"
    impl = "harness.c07:impl"
    rule = ("random data classes (2-5 fields drawn from required/default/deferred-default/optional x aliased x alias_from x "
            "immutable/Final x no_output over 4 field types, 0-2 getter properties with declared dependencies (getter total / raising on a falsy first dependency / returning a value that may not convert to its declared Ge10 return type), options immutable/"
            "ignore_required/ignore_delete_nonexistent/collect_errors/addition in {ignore,allow,forbid,int}; Schema 82% / DataClass 18%; "
            "40% of the classes are reached by inheritance: a base class with other declarations of some fields (type, default, "
            "immutable, no_output) and other options, and a subclass that re-declares them (by annotation alone or with a Field), "
            "inherits the rest, may add a field and may declare its own options, or the Options(...)(Base) variant; 35% of the "
            "instances are obtained as a nested value (field / List / Dict / Optional of the class in a Schema or DataClass parent "
            "whose options differ: immutable, ignore_required, ignore_delete_nonexistent, addition, collect_errors, override on "
            "either side), at the parent's construction or by a later assignment through its attribute, item or update; 35% of the "
            "histories start with a prelude: the same declarations are parsed and mutated first under other options (a subclass with "
            "Options(ignore_required / immutable / mode / addition ...), the Options(...)(cls) variant, cls.__from__(data, options=...)) "
            "and the run must equal the history without it) "
            "x operation sequences (<=12 quick, <=40 thorough) over setattr/setitem/delattr/delitem/update/pop/popitem/"
            "setdefault/clear/|=/copy on up to 3 live instances, arguments valid/convertible/invalid 50/25/25 for the "
            "addressed field's type; plus directed copy-then-mutate-both sequences; thorough adds every sequence of length 4 "
            "over an 18-operation alphabet on a class with one field of every kind.  non-trivial = at least two "
            "state-changing operations and at least one raising or removing operation; distinct by (class, sequence)")
    assumptions = ["the converter of each field type is taken from utype's type-level API (type_transform) and handed to the model as a table: "
                   "C07 is about what the mutators do with it, not about the converters (C01/C02)",
                   "fragment: on_error/invalid_values = throw, no mode, getter-only properties whose dependencies are "
                   "declared non-property fields (getters may raise, results may not convert); property setters/deleters, callable no_output, "
                   "case-insensitive fields, property-to-property dependencies are outside the model (not generated)",
                   "the initial instance is produced by the real constructor; the theorems assume the invariant for it and the sweep checks it"]
    budget = {"quick": 1500, "thorough": 12000}
    search_budget = {"quick": 3000, "thorough": 20000}
    case_timeout = 20.0

    def cases(self, tier, rng, n):
        out = []
        if tier == "thorough":
            out += exhaustive_cases(4)
        maxlen = 40 if tier == "thorough" else 12
        nd = max(50, n // 8)
        out += directed_cases(rng, nd)
        out += [gen_case(rng, maxlen) for _ in range(n - nd)]
        return out

    CHUNK = 4000

    def evaluate(self, cases):
        """impl and model in chunks; verdicts are computed here and only failing cases (and a few samples)
        keep their full outputs, so that the exhaustive part fits in memory"""
        impl_outs, model_outs = [], []
        for at in range(0, len(cases), self.CHUNK):
            chunk = cases[at:at + self.CHUNK]
            ios = run_impl(self.impl, chunk, self.case_timeout, extra_env=self.impl_env)
            lines = [self.model_line(c, io) for c, io in zip(chunk, ios)]
            idx = [i for i, l in enumerate(lines) if l is not None]
            outs = run_driver(self.driver, [lines[i] for i in idx])
            mos = [None] * len(chunk)
            for i, o in zip(idx, outs):
                mos[i] = o
            for n, (c, io, mo) in enumerate(zip(chunk, ios, mos)):
                if isinstance(io, dict) and "__worker_exc__" not in io and "hang" not in io and "crash" not in io:
                    pre = {"cmp": self._compare(c, io, mo), "spec": self._spec(c, io, mo), "key": self._key(c, io),
                           "dist": self._distribution(c, io)}
                    if pre["cmp"] or pre["spec"] or at + n < 5:
                        io = dict(io, _pre=pre)
                    else:
                        io, mo = {"_pre": pre, "slim": True}, None
                impl_outs.append(io)
                model_outs.append(mo)
        return impl_outs, model_outs

    def compare(self, case, io, mo):
        if isinstance(io, dict) and "_pre" in io:
            return io["_pre"]["cmp"]
        return self._compare(case, io, mo)

    def spec(self, case, io, mo):
        if isinstance(io, dict) and "_pre" in io:
            return io["_pre"]["spec"]
        return self._spec(case, io, mo)

    def key(self, case, io):
        if isinstance(io, dict) and "_pre" in io:
            return io["_pre"]["key"]
        return self._key(case, io)

    def distribution(self, case, io):
        if isinstance(io, dict) and "_pre" in io:
            return io["_pre"]["dist"]
        return self._distribution(case, io)

    def model_line(self, case, io=None):
        if not isinstance(io, dict) or "init" not in io:
            return None
        tab = field_table(case)
        fields = []
        for f in tab:
            dps = io.get("dependants", {}).get(f["name"])
            if dps is None or sorted(dps) != sorted(f["dependants"]):
                dps = f["dependants"]
            fields.append({"att": f["att"], "name": f["name"], "aliases": f["aliases"], "required": f["required"],
                           "immutable": f["immutable"], "no_output": f["no_output"], "prop": f["prop"], "deps": f["deps"],
                           "dependants": dps})
        pnames = {f["name"] for f in tab if f["prop"]}
        s0 = io["init"][0]
        ops = []
        for op in case["ops"]:
            o = {"op": op["op"], "i": op.get("i", 0)}
            if "k" in op:
                o["k"] = op["k"]
            if "v" in op:
                o["v"] = txt(op["v"])
            if "kv" in op:
                o["kv"] = [[k, txt(v)] for k, v in op["kv"]]
            if op.get("d") is not None:
                o["d"] = txt(op["d"][0])
            ops.append(o)
        return {"base": case["base"], "legacy": bool(case.get("legacy")), "opts": case["opts"],
                "enclosing": case["nest"]["parent_opts"] if case.get("nest") else None, "fields": fields,
                "excluded": case.get("excluded", []), "ptable": io["ptable"], "atable": io["atable"],
                "ctable": io.get("ctable", []), "propkinds": [[f["name"], f["kind"]] for f in tab if f["prop"]],
                "deferred": [[f["name"], txt(f["default"])] for f in tab if f["defer"]],
                # the state handed to __post_init__: the constructed instance minus the computed properties
                "init": {"data": [kv for kv in s0["data"] if kv[0] not in pnames], "attrs": s0["attrs"]},
                "ops": ops}

    # -- correspondence -------------------------------------------------------------------------
    @staticmethod
    def _norm_snap(s):
        def j(t):
            return json.loads(t) if isinstance(t, str) and not t.startswith("!") else t
        return {"data": [[k, j(v)] for k, v in s["data"]], "attrs": sorted([k, j(v)] for k, v in s["attrs"]),
                "view": [[k, j(v)] for k, v in s["view"]], "has": [list(x) for x in s["has"]]}

    def _compare(self, case, io, mo):
        if not isinstance(io, dict):
            return f"impl: {io}"
        if "skip" in io:
            return None
        if "init" not in io:
            return f"impl: {io}"
        if not isinstance(mo, dict) or "steps" not in mo:
            return f"driver: {str(mo)[:200]}"
        if "PRIM-MISS" in json.dumps(mo):
            return "driver: conversion table incomplete (PRIM-MISS)"
        a, b = [self._norm_snap(s) for s in io["init"]], [self._norm_snap(s) for s in mo["init"]]
        if a != b:
            return f"initial instance differs: impl={a} model={b}"
        if len(io["steps"]) != len(mo["steps"]):
            return "step count differs"
        for n, (si, sm) in enumerate(zip(io["steps"], mo["steps"])):
            op = case["ops"][n]
            if si["res"] != sm["res"]:
                return f"step {n} {op['op']}: impl {si['res']} model {sm['res']}"
            ri = json.loads(si["ret"]) if si["ret"] is not None else None
            rm = json.loads(sm["ret"]) if sm["ret"] is not None else None
            if si["res"] == "ok" and op["op"] in ("pop", "popitem", "setdefault") and ri != rm:
                return f"step {n} {op['op']}: returned impl {ri} model {rm}"
            a, b = [self._norm_snap(s) for s in si["heap"]], [self._norm_snap(s) for s in sm["heap"]]
            if a != b:
                for i, (x, y) in enumerate(zip(a, b)):
                    if x != y:
                        part = next(k for k in x if x[k] != y[k])
                        return f"step {n} {op['op']} instance {i} {part}: impl={x[part]} model={y[part]}"
                return f"step {n} {op['op']}: number of instances differs"
        return None

    # -- oracle ---------------------------------------------------------------------------------
    def _spec(self, case, io, mo):
        if not isinstance(io, dict):
            return f"the operation sequence did not complete: {io}"
        if "skip" in io:
            return None
        if "init" not in io:
            return f"the operation sequence did not complete: {io}"
        vs = violations(case, io)
        if not vs:
            return None
        unknown = [v for v in vs if v[2] != "stale-dependant-after-delete"]
        n, i, tag, msg = (unknown or vs)[0]
        where = "after construction" if n < 0 else f"after step {n} ({case['ops'][n]['op']})"
        return f"{tag}: {where}, instance {i}: {msg}"

    def classify(self, case, io, why):
        if why.startswith("stale-dependant-after-delete:"):
            return "stale-dependant-after-delete"
        return None

    # -- evidence -------------------------------------------------------------------------------
    def _key(self, case, io):
        if not isinstance(io, dict) or "steps" not in io:
            return None
        prev = io["init"]
        changed = raised = removed = 0
        for op, st in zip(case["ops"], io["steps"]):
            if st["res"] != "ok":
                raised += 1
            elif st["heap"] != prev:
                changed += 1
                if op["op"] in ("delattr", "delitem", "pop", "popitem", "clear"):
                    removed += 1
            prev = st["heap"]
        if changed >= 2 and (raised or removed):
            return hashlib.sha1(json.dumps([case["base"], case["opts"], case["fields"], case.get("props"), case["init"],
                                            case["ops"], case.get("hier"), case.get("nest"), case.get("prelude")], sort_keys=True).encode()).hexdigest()
        return None

    def _distribution(self, case, io):
        if not isinstance(io, dict):
            return "adapter-failure"
        if "skip" in io:
            return "skipped/" + io["skip"]
        kinds = {}
        for op, st in zip(case["ops"], io["steps"]):
            kinds[st["res"]] = kinds.get(st["res"], 0) + 1
        top = max(kinds, key=kinds.get) if kinds else "none"
        return f"{case['base']}/add={case['opts'].get('addition')}/props={len(case.get('props', []))}/len={min(len(case['ops']) // 5 * 5, 40)}+/mostly={top}"

    def neighbours(self, case, rng):
        out = []
        ops = case["ops"]
        for i in range(1, len(ops)):
            out.append(dict(case, ops=ops[:i]))
        for i in range(len(ops)):
            if ops[i]["op"] != "copy":
                out.append(dict(case, ops=ops[:i] + ops[i + 1:]))
        tab, keys = key_pool(case)
        for _ in range(10):
            extra = gen_ops(rng, case, 4)
            if all(o.get("i", 0) < 1 + sum(1 for x in ops if x["op"] == "copy") for o in extra if o["op"] != "copy"):
                out.append(dict(case, ops=ops + [o for o in extra if o["op"] != "copy"]))
        return out

    def finish_evidence(self, ev, tier):
        ev["coverage"]["exhaustive"] = False
        if tier == "thorough":
            ev["coverage"]["exhaustive_part"] = "every sequence of exactly 4 operations (104976 sequences, prefixes checked on the way) over an 18-operation alphabet (valid/convertible/invalid arguments) on the class FULL"

    # -- T1 table: which dict mutators does Schema define itself? --------------------------------
    def extra_static(self, tier):
        out = []
        try:
            tree = ast.parse((REPO / "utype" / "schema.py").read_text())
            defined = {}
            for node in tree.body:
                if isinstance(node, ast.ClassDef) and node.name in ("Schema", "DataClass"):
                    defined[node.name] = {n.name for n in node.body if isinstance(n, ast.FunctionDef)}
            have = sorted(m for m in DICT_MUTATORS if m in defined.get("Schema", set()))
            src = (LEAN / "Utv" / "Model" / "C07.lean").read_text()
            m = re.search(r"def overridden : List String :=\s*\[(.*?)\]", src, flags=re.S)
            lean = sorted(re.findall(r'"([^"]+)"', m.group(1))) if m else None
            if lean != have:
                out.append(f"T1: dict mutators defined by Schema are {have}, the model assumes {lean} (an inherited dict method bypasses parsing)")
            extra = sorted(m for m in DICT_MUTATORS + ["__getitem__", "__contains__"] if m in defined.get("DataClass", set()))
            if extra:
                out.append(f"T1: DataClass now defines mapping methods {extra}, the model gives it none")
        except Exception as e:  # noqa
            out.append(f"T1: could not read utype/schema.py: {e}")
        return out


CHECK = C07()
