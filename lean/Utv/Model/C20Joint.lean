import Utv.Model.C20
import Utv.Model.C20Reg2
/-
C20 — threads that both resolve forward references / parse (model `Utv.C20`) and look converters up or register
them in the shared registry (model `Utv.C20.Reg2`).  The two kinds of shared state are disjoint (the parser's
`forward_refs`, `ForwardRef` flags, `fields[*].type` and `_forward_refs_lock` on one side; the registry's `_registry`,
`_cache`, `_generation` and `_lock` on the other), no line touches both, and data only flows from a lookup's result
into the value being parsed.  A joint system is therefore the product: every thread has a parser component and a
registry component, and a joint schedule says which thread moves and on which side.  Every interleaving of the two
sides is allowed — including registry steps while the thread holds the parser lock (`parse_annotation` inside the
resolving pass looks converters up) — which over-approximates the real program, where a thread's lookups sit at fixed
places of its parsing.
-/
namespace Utv.C20.Joint

inductive Side | parser | registry
  deriving DecidableEq, Repr

structure Sys where
  p : Utv.C20.Sys
  r : Reg2.Sys

def step (W : World) (RW : Utv.C16.World) (co : Bool) (s : Sys) (e : Nat × Side) : Sys :=
  match e.2 with
  | .parser => { s with p := s.p.step W false e.1 }
  | .registry => { s with r := s.r.step RW co e.1 }

def run (W : World) (RW : Utv.C16.World) (co : Bool) (s : Sys) (sched : List (Nat × Side)) : Sys :=
  sched.foldl (step W RW co) s

def init (W : World) (prog : Nat → List Call) (entries : List Utv.C16.Entry) (cache : List (Nat × Nat))
    (rprog : Nat → List Reg.Op) : Sys :=
  { p := Utv.C20.init W prog, r := Reg2.init entries cache rprog }

/-- the steps of one side, in order -/
def proj (side : Side) (sched : List (Nat × Side)) : List Nat :=
  sched.filterMap fun e => if e.2 = side then some e.1 else none

/-- a thread is in the middle of a registry operation -/
def midOp (t : Reg2.Th) : Prop := t.pc ≠ .start ∧ t.pc ≠ .fin

/-- the registry component of a thread waits for the registry lock -/
def rblocked (r : Reg2.Sys) (k : Nat) : Prop :=
  ((r.th k).pc = .rlock ∨ (r.th k).pc = .wlock) ∧ r.g.lock ≠ none

/-- thread `k` can take a step: the registry operation it is in the middle of can go on, or — between registry
operations — its parser side can go on, or it can start its next registry operation -/
def canStep (s : Sys) (k : Nat) : Prop :=
  (midOp (s.r.th k) ∧ ¬ rblocked s.r k) ∨
  (¬ midOp (s.r.th k) ∧ (((s.p.th k).pc ≠ .fin ∧ ¬ ((s.p.th k).pc = .lock ∧ s.p.g.lock ≠ none)) ∨ (s.r.th k).pc = .start))

end Utv.C20.Joint
