import Utv.Model.C14P0
import Utv.Util.J
open Lean Utv.J Utv.C14

/-! Line protocol of the C14 check: a case (`cfg`, declared type, instance, CPython's answers for the
number / UUID / UTF-8 builtins) in, the model's encoding tree, parse result and domain verdicts out.
Strings travel as lists of code points. -/

def cps (j : Json) : Str := (arr! j).map fun c => Char.ofNat (nat! c)
def cpsOut (s : Str) : Json := Json.arr (s.map fun c => Json.num c.toNat).toArray
def bigInt (j : Json) : Int := ((str! j).toInt?).getD 0
def bigNat (j : Json) : Nat := (bigInt j).toNat
def intOut (i : Int) : Json := Json.str (toString i)

def fIn (j : Json) : F :=
  match arr! j with
  | [t, neg, m, e] => if str! t == "fin" then .fin (bool! neg) (bigNat m) (bigInt e) else .nan
  | [t, neg] => if str! t == "inf" then .inf (bool! neg) else .nan
  | _ => .nan
def fOut : F → Json
  | .fin neg m e => Json.arr #[Json.str "fin", Json.bool neg, intOut m, intOut e]
  | .inf neg => Json.arr #[Json.str "inf", Json.bool neg]
  | .nan => Json.arr #[Json.str "nan"]

def decIn (j : Json) : Dec :=
  match arr! j with
  | [t, neg, c, e] => if str! t == "fin" then .fin (bool! neg) (bigNat c) (bigInt e) else .nan
  | [t, neg] => if str! t == "inf" then .inf (bool! neg) else .nan
  | _ => .nan
def decOut : Dec → Json
  | .fin neg c e => Json.arr #[Json.str "fin", Json.bool neg, intOut c, intOut e]
  | .inf neg => Json.arr #[Json.str "inf", Json.bool neg]
  | .nan => Json.arr #[Json.str "nan"]

def tzIn (j : Json) : Option Int := if isNull j then none else some (bigInt j)
def tzOut : Option Int → Json
  | none => Json.null
  | some o => intOut o

def evalIn (j : Json) : EVal :=
  match obj? j "int" with
  | some i => .int (bigInt i)
  | none => match obj? j "tuple" with
    | some xs => .tuple ((arr! xs).map bigInt)
    | none => .str (cps (fld j "str"))

instance : Inhabited Ty := ⟨.none⟩
instance : Inhabited Val := ⟨.none⟩
instance : Inhabited Js := ⟨.null⟩

/-- the single key of a tagged object and its payload -/
def tagOf (j : Json) : String × Json :=
  match j with
  | .obj kvs => (match kvs.toList with
    | (k, v) :: _ => (k, v)
    | [] => ("", Json.null))
  | _ => ("", Json.null)

def litIn (j : Json) : Lit :=
  let (tag, e) := tagOf j
  if tag == "bool" then .bool (bool! e)
  else if tag == "int" then .int (bigInt e)
  else if tag == "str" then .str (cps e)
  else .none

def kindIn (j : Json) : Kind :=
  match arr! j with
  | [t, r, d] => if str! t == "input" then .input (bool! r) (if isNull d then none else some (litIn d)) else .noOutput
  | [t, x] =>
    if str! t == "noinput" then .noInput (litIn x)
    else match arr! x with
      | [k, deps] => if str! k == "concat" then .prop (.concat ((arr! deps).map cps)) else .prop (.sumInt ((arr! deps).map cps))
      | _ => .noOutput
  | _ => .noOutput

partial def tyIn (j : Json) : Ty :=
  match j with
  | .str s =>
    if s == "none" then .none else if s == "bool" then .bool else if s == "int" then .int
    else if s == "float" then .float else if s == "str" then .str else if s == "bytes" then .bytes
    else if s == "dec" then .dec else if s == "date" then .date else if s == "datetime" then .datetime
    else if s == "time" then .time else if s == "delta" then .delta else .uuid
  | _ =>
    let (tag, e) := tagOf j
    if tag == "enum" then
      let mixin := match str! (fld e "mixin") with | "int" => Mixin.int | "str" => Mixin.str | _ => Mixin.none
      .enum ⟨mixin, (arr! (fld e "members")).map fun m => match arr! m with
        | [n, v] => (cps n, evalIn v) | _ => ([], .int 0)⟩
    else if tag == "list" then .list (tyIn e)
    else if tag == "set" then .set (tyIn e)
    else if tag == "tuple" then .tuple ((arr! e).map tyIn)
    else if tag == "tuplevar" then .tupleVar (tyIn e)
    else if tag == "dict" then (match arr! e with
      | [k, t] => .dict (if str! k == "int" then .int else .str) (tyIn t)
      | _ => .none)
    else if tag == "data" then
      match e with
      | .arr _ =>
        -- short form: plain required fields under their own names
        .data ((arr! e).map fun f => match arr! f with
          | [n, t] => (⟨cps n, [cps n], false, .input true none⟩, tyIn t) | _ => (⟨[], [], false, .noOutput⟩, .none)) ⟨none, false⟩
      | _ =>
        .data ((arr! (fld e "fields")).map fun f =>
          (⟨cps (fld f "name"), (arr! (fld f "keys")).map cps, bool! (fld f "ci"), kindIn (fld f "kind")⟩, tyIn (fld f "ty")))
          ⟨optNat (fld e "maxDepth"), bool! (fld e "dataFirst")⟩
    else if tag == "optional" then .optional (tyIn e)
    else if tag == "cut" then .cut
    else .none

def keyIn (j : Json) : Key :=
  match obj? j "int" with
  | some i => .int (bigInt i)
  | none => .str (cps (fld j "str"))
def keyOut : Key → Json
  | .str s => Json.mkObj [("str", cpsOut s)]
  | .int i => Json.mkObj [("int", intOut i)]

def elemTy : Ty → Ty
  | .list t | .set t | .tupleVar t | .optional t => t
  | .dict _ t => t
  | t => t

partial def valIn (t : Ty) (j : Json) : Val :=
  let nats (j : Json) := (arr! j).map nat!
  let (tag, e) := tagOf j
  match t with
  | .optional t' => if tag == "none" then .none else valIn t' j
  | _ =>
  if tag == "none" then .none
  else if tag == "bool" then .bool (bool! e)
  else if tag == "int" then .int (bigInt e)
  else if tag == "float" then .float (fIn e)
  else if tag == "str" then .str (cps e)
  else if tag == "bytes" then .bytes ((nats e).map UInt8.ofNat)
  else if tag == "dec" then .dec (decIn e)
  else if tag == "date" then (match nats e with | [y, m, d] => .date ⟨y, m, d⟩ | _ => .none)
  else if tag == "datetime" then (match arr! e with
    | [y, m, d, h, mi, s, us, tz] => .datetime ⟨⟨nat! y, nat! m, nat! d⟩, ⟨nat! h, nat! mi, nat! s, nat! us⟩, tzIn tz⟩
    | _ => .none)
  else if tag == "time" then (match arr! e with
    | [h, mi, s, us, tz] => .time ⟨⟨nat! h, nat! mi, nat! s, nat! us⟩, tzIn tz⟩
    | _ => .none)
  else if tag == "delta" then .delta (bigInt e)
  else if tag == "uuid" then .uuid (bigNat e)
  else if tag == "enum" then (match t with | .enum decl => .enum decl (nat! e) | _ => .none)
  else if tag == "list" then .list ((arr! e).map (valIn (elemTy t)))
  else if tag == "set" then .set ((arr! e).map (valIn (elemTy t)))
  else if tag == "tuple" then (match t with
    | .tuple ts => .tuple (List.zipWith valIn ts (arr! e))
    | _ => .tuple ((arr! e).map (valIn (elemTy t))))
  else if tag == "dict" then .dict ((arr! e).map fun kv => match arr! kv with
    | [k, v] => (keyIn k, valIn (elemTy t) v) | _ => (.int 0, .none))
  else if tag == "data" then (match t with
    | .data fts _ => .data ((arr! e).map fun f => match arr! f with
        | [n, v] => (cps n, valIn (((fts.find? fun ft => ft.1.name == cps n).map (·.2)).getD .none) v)
        | _ => ([], .none))
    | _ => .none)
  else .none

partial def valOut : Val → Json
  | .none => Json.mkObj [("none", Json.null)]
  | .bool b => Json.mkObj [("bool", Json.bool b)]
  | .int i => Json.mkObj [("int", intOut i)]
  | .float f => Json.mkObj [("float", fOut f)]
  | .str s => Json.mkObj [("str", cpsOut s)]
  | .bytes b => Json.mkObj [("bytes", Json.arr (b.map fun x => Json.num x.toNat).toArray)]
  | .dec d => Json.mkObj [("dec", decOut d)]
  | .date d => Json.mkObj [("date", Json.arr #[Json.num d.y, Json.num d.m, Json.num d.d])]
  | .datetime dt => Json.mkObj [("datetime", Json.arr #[Json.num dt.date.y, Json.num dt.date.m, Json.num dt.date.d,
      Json.num dt.clock.h, Json.num dt.clock.mi, Json.num dt.clock.s, Json.num dt.clock.us, tzOut dt.tz])]
  | .time t => Json.mkObj [("time", Json.arr #[Json.num t.clock.h, Json.num t.clock.mi, Json.num t.clock.s,
      Json.num t.clock.us, tzOut t.tz])]
  | .delta us => Json.mkObj [("delta", intOut us)]
  | .uuid n => Json.mkObj [("uuid", intOut n)]
  | .enum _ i => Json.mkObj [("enum", Json.num i)]
  | .list xs => Json.mkObj [("list", Json.arr (xs.map valOut).toArray)]
  | .set xs => Json.mkObj [("set", Json.arr (xs.map valOut).toArray)]
  | .tuple xs => Json.mkObj [("tuple", Json.arr (xs.map valOut).toArray)]
  | .dict kvs => Json.mkObj [("dict", Json.arr (kvs.map fun kv => Json.arr #[keyOut kv.1, valOut kv.2]).toArray)]
  | .data fs => Json.mkObj [("data", Json.arr (fs.map fun kv => Json.arr #[cpsOut kv.1, valOut kv.2]).toArray)]

partial def treeOut : Js → Json
  | .null => Json.null
  | .bool b => Json.bool b
  | .int i => Json.mkObj [("i", intOut i)]
  | .float f => Json.mkObj [("f", fOut f)]
  | .str s => Json.mkObj [("s", cpsOut s)]
  | .arr xs => Json.arr (xs.map treeOut).toArray
  | .obj kvs => Json.mkObj [("o", Json.arr (kvs.map fun kv => Json.arr #[cpsOut kv.1, treeOut kv.2]).toArray)]

partial def treeIn (j : Json) : Js :=
  match j with
  | .null => .null
  | .bool b => .bool b
  | .arr xs => .arr (xs.toList.map treeIn)
  | _ =>
    let (tag, e) := tagOf j
    if tag == "i" then .int (bigInt e)
    else if tag == "f" then .float (fIn e)
    else if tag == "s" then .str (cps e)
    else if tag == "o" then .obj ((arr! e).map fun kv => match arr! kv with
      | [k, v] => (cps k, treeIn v) | _ => ([], .null))
    else .null

def resTag {α : Type} : Res α → String
  | .ok _ => "ok"
  | .perr => "perr"
  | .unmodelled w => "unmodelled: " ++ w

/-- `P0` with the number / UUID / UTF-8 builtins answered from CPython's table -/
def mkPrims (t : Json) : Prims :=
  let tbl (name : String) : List (Json × Json) :=
    (arr! (fld t name)).map fun p => match arr! p with | [a, b] => (a, b) | _ => (Json.null, Json.null)
  let look (name : String) (key : Json) : Option Json :=
    ((tbl name).find? fun p => p.1.compress == key.compress).map (·.2)
  { P0 with
    floatOfDec := fun d => match look "floatOfDec" (decOut d) with | some f => fIn f | none => P0.floatOfDec d
    decOfFloat := fun f => match look "decOfFloat" (fOut f) with | some d => decIn d | none => P0.decOfFloat f
    decStr := fun d => match look "decStr" (decOut d) with | some s => cps s | none => P0.decStr d
    decOfStr := fun s => match look "decOfStr" (cpsOut s) with
      | some d => if isNull d then none else some (decIn d)
      | none => P0.decOfStr s
    uuidStr := fun n => match look "uuidStr" (intOut n) with | some s => cps s | none => P0.uuidStr n
    uuidOfStr := fun s => match look "uuidOfStr" (cpsOut s) with
      | some n => if isNull n then none else some (bigNat n)
      | none => P0.uuidOfStr s
    floatParses := fun s => match look "floatParses" (cpsOut s) with
      | some b => bool! b
      | none => P0.floatParses s
    utf8Decode := fun b =>
      match look "utf8Decode" (Json.arr (b.map fun x => Json.num x.toNat).toArray) with
      | some s => cps s | none => P0.utf8Decode b }

def handle (j : Json) : Json :=
  let flags := (arr! (fld j "cfg")).map bool!
  let cfg : Cfg := match flags with
    | [a, b, c, d] => ⟨a, b, c, d⟩
    | _ => Cfg.fixed
  let P := mkPrims (fld j "prims")
  let T := tyIn (fld j "ty")
  match obj? j "parse_tree" with
  | some tr =>
    -- parse a JSON tree delivered by the harness (what json.loads returned for the real text)
    let r := parse cfg P .lenient 0 T (treeIn tr)
    Json.mkObj [("parse", Json.str (resTag r)), ("back", match r with | .ok y => valOut y | _ => Json.null)]
  | none =>
  let x := valIn T (fld j "val")
  let enc := encode cfg P x
  let base : List (String × Json) := [
    ("echo", valOut x),
    ("inDomain", Json.bool (inDomain cfg 0 T x)),
    ("setOfContainers", Json.bool T.setOfContainers),
    ("declChecked", Json.bool (match T with | .data fs _ => declChecked (fs.map (·.1)) | _ => true)),
    ("hasInf", Json.bool x.hasInf),
    ("enc", Json.str (resTag enc))]
  match enc with
  | .ok tree =>
    let r := parse cfg P .lenient 0 T tree
    Json.mkObj (base ++ [
      ("tree", treeOut tree), ("std", Json.bool tree.standard), ("wf", Json.bool tree.wf),
      ("parse", Json.str (resTag r)),
      ("back", match r with | .ok y => valOut y | _ => Json.null),
      ("eq", Json.bool (match r with | .ok y => y.canon.beq x.canon | _ => false))])
  | _ => Json.mkObj base

def main : IO Unit := serve handle
