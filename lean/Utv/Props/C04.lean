import Utv.Lemmas.C04
import Utv.Lemmas.C04Ts
import Utv.Model.C04Iter
/-!
C04 — invalid input raises ParseError and nothing else; parsing always terminates.

Everything below is about the models in `Utv/Model/C04*.lean` (the code *with* fixes/C04-*.patch;
`Legacy` flags switch single repaired sites back) and holds for **every** `World`: every behaviour of
every component (converter, validator, `origin(value)`, dict insertion, `!=`, discriminator lookup,
hooks, function body) — `ok`, any exception class, or divergence — every option record, every
declaration, every input, every context state.  No bound on container sizes or numbers of fields.

Headline statements
* `C04_rule_parse_no_escape`, `C04_logical_no_escape`, `C04_parse_value_no_escape`,
  `C04_parse_data_no_escape`, `C04_class_init_no_escape`, `C04_init_dataclass_no_escape`,
  `C04_parse_params_no_escape`, `C04_call_escape_only_from_body`:
  at each public entry point no exception other than a ParseError comes out
  (developer hooks and the function body are the only, explicitly named, sources).
* `C04_*_terminates`: if every component terminates, so does the entry point
  (`C04_*_diverges_only_with_component` is the contrapositive reading).
* `seq_no_body_on_error`, `seq_no_instance_on_error`: when parsing fails the call *is* that failure —
  the body / attribute assignment / post-init are never sequenced.
* `C04_ts_*`: the timestamp loop of `to_datetime` terminates on every finite number and diverges
  exactly on ±inf; with the finiteness guard it always terminates.
* `C04_legacy_*_witness`: each pre-fix site lets a non-ParseError out (or hangs) — concrete worlds, `decide`.
-/
namespace Utv.C04

variable {V : Type}

/-! ## Rule.parse -/

theorem safe_readItemsOf (W : World V) (hw : ∀ s, Safe (W.warn s)) (L : Legacy) (hL : L.rawIteration = false) (o : Opts) (v : V) :
    Safe (readItemsOf W L o v) := by
  unfold readItemsOf
  simp only [hL]
  safe_auto

theorem safe_readPairsOf (W : World V) (hw : ∀ s, Safe (W.warn s)) (L : Legacy) (hL : L.rawIteration = false) (o : Opts) (v : V) :
    Safe (readPairsOf W L o v) := by
  unfold readPairsOf
  simp only [hL]
  safe_auto

theorem safe_seqLoop (W : World V) (hw : ∀ s, Safe (W.warn s)) (L : Legacy) (hL : L.seqIndex = false) (o : Opts) (t : Ty) (v : V)
    (all : List V) (xs : List V) : ∀ i acc, Safe (seqLoop W L o t v all xs i acc) := by
  induction xs with
  | nil => intro i acc; exact safe_pure _
  | cons x xs ih =>
    intro i acc
    unfold seqLoop
    simp only [hL]
    safe_auto
    all_goals exact ih _ _

theorem safe_exceedLoop (o : Opts) (is : List Nat) : Safe (exceedLoop o is) := by
  induction is with
  | nil => exact safe_pure _
  | cons i is ih => unfold exceedLoop; safe_auto

theorem safe_tupleLoop (W : World V) (hw : ∀ s, Safe (W.warn s)) (L : Legacy) (hL : L.tupleMissing = false) (o : Opts) (v : List V)
    (ts : List Ty) : ∀ i acc, Safe (tupleLoop W L o v ts i acc) := by
  induction ts with
  | nil => intro i acc; exact safe_pure _
  | cons t ts ih =>
    intro i acc
    unfold tupleLoop
    simp only [hL]
    safe_auto
    all_goals first | exact ih _ _ | (simp at *)

theorem safe_tupleExtra (W : World V) (hw : ∀ s, Safe (W.warn s)) (o : Opts) (t : Ty) (xs : List V) :
    ∀ i acc, Safe (tupleExtra W o t xs i acc) := by
  induction xs with
  | nil => intro i acc; exact safe_pure _
  | cons x xs ih =>
    intro i acc
    unfold tupleExtra
    safe_auto
    all_goals exact ih _ _

theorem safe_tupleArgs (W : World V) (hw : ∀ s, Safe (W.warn s)) (L : Legacy) (hL : L.tupleMissing = false) (hR : L.rawIteration = false)
    (o : Opts) (ts : List Ty) (v : V) : Safe (tupleArgs W L o ts v) := by
  unfold tupleArgs
  have h0 := safe_readItemsOf W hw L hR o v
  have h1 := fun xs => safe_tupleLoop W hw L hL o xs ts
  have h2 := safe_tupleExtra W hw o
  have h3 := safe_exceedLoop o
  safe_auto
  all_goals first | exact h1 _ _ _ | exact h2 _ _ _ _ | exact h3 _

theorem safe_renderKey (W : World V) (hw : ∀ s, Safe (W.warn s)) (L : Legacy) (hK : L.mapKeyStr = false) (k : V) : Safe (renderKey W L k) := by
  unfold renderKey
  simp only [hK]
  safe_auto

theorem safe_mapLoop (W : World V) (hw : ∀ s, Safe (W.warn s)) (L : Legacy) (hL : L.mapInsert = false) (hK : L.mapKeyStr = false) (o : Opts) (kt : Ty)
    (vt : Option Ty) (kvs : List (V × V)) : ∀ i acc, Safe (mapLoop W L o kt vt kvs i acc) := by
  induction kvs with
  | nil => intro i acc; exact safe_pure _
  | cons kv rest ih =>
    intro i acc
    obtain ⟨k, x⟩ := kv
    have hr := safe_renderKey W hw L hK k
    unfold mapLoop
    simp only [hL]
    safe_auto
    all_goals first | exact ih _ _ | (simp at *)

theorem safe_containsCount (W : World V) (hw : ∀ s, Safe (W.warn s)) (L : Legacy) (hL : L.containsNarrow = false) (t : Ty)
    (xs : List V) : ∀ i c, Safe (containsCount W L t xs i c) := by
  induction xs with
  | nil => intro i c; exact safe_pure _
  | cons x xs ih =>
    intro i c
    unfold containsCount
    simp only [hL]
    safe_auto
    all_goals first | exact ih _ _ | (simp at *)

theorem safe_parseContains (W : World V) (hw : ∀ s, Safe (W.warn s)) (L : Legacy) (hL : L.containsNarrow = false) (hR : L.rawIteration = false)
    (o : Opts) (t : Ty) (a b : Option Nat) (v : V) : Safe (parseContains W L o t a b v) := by
  unfold parseContains
  have h0 := safe_readItemsOf W hw L hR o v
  have h := safe_containsCount W hw L hL t
  safe_auto
  all_goals exact h _ _ _

theorem safe_validatorsLoop (W : World V) (hw : ∀ s, Safe (W.warn s)) (o : Opts) (ks : List Nat) : ∀ v, Safe (validatorsLoop W o ks v) := by
  induction ks with
  | nil => intro v; exact safe_pure _
  | cons k ks ih =>
    intro v
    unfold validatorsLoop
    apply safe_bind
    · apply safe_tryExcept
      intro e
      apply safe_bind
      · apply safe_handleError
        split
        · rename_i h; simp at h; exact h.1
        · rfl
      · intro _; exact safe_pure _
    · intro a; exact ih a

/-- the flags that matter inside `Rule.parse` -/
def Legacy.ruleFixed (L : Legacy) : Bool :=
  !L.seqIndex && !L.tupleMissing && !L.rewrap && !L.mapInsert && !L.containsNarrow && !L.mapKeyStr && !L.rawIteration

theorem safe_argsParse (W : World V) (hw : ∀ s, Safe (W.warn s)) (L : Legacy) (hL : L.ruleFixed = true) (o : Opts) (R : RuleDecl)
    (v : V) : Safe (argsParse W L o R v) := by
  simp [Legacy.ruleFixed] at hL
  obtain ⟨⟨⟨⟨⟨⟨h1, h2⟩, h3⟩, h4⟩, _⟩, h6⟩, h7⟩ := hL
  unfold argsParse
  have hri := safe_readItemsOf W hw L h7 o
  have hrp := safe_readPairsOf W hw L h7 o
  have hs := safe_seqLoop W hw L h1 o
  have ht := safe_tupleArgs W hw L h2 h7 o
  have hm := safe_mapLoop W hw L h4 h6 o
  split
  · exact safe_pure _
  · exact safe_pure _
  · simp only [h3]
    unfold seqArgs mapArgs
    safe_auto
    all_goals first | exact hri _ | exact hrp _ | exact hs _ _ _ _ _ _ | exact ht _ _ | exact hm _ _ _ _ _ | exact safe_exceedLoop o _ | exact safe_tupleLoop W hw L h2 o _ _ _ _ | exact safe_tupleExtra W hw o _ _ _ _ | (simp at *)

/-- **Rule.parse lets nothing but ParseError out** — for every behaviour of converter, validators,
`origin(value)`, dict insertion and contained-type conversion.  `pre_validate`/`post_validate` are
developer hooks (identity unless overridden): they are the only assumption. -/
theorem C04_rule_parse_no_escape (W : World V) (hw : ∀ s, Safe (W.warn s)) (o : Opts) (R : RuleDecl) (v : V)
    (hpre : ∀ v, Safe (W.pre v)) (hpost : ∀ v, Safe (W.post v)) :
    Safe (ruleParse W Legacy.none o R v) := by
  unfold ruleParse
  have ha := safe_argsParse W hw Legacy.none rfl o R
  have hv := safe_validatorsLoop W hw o
  have hc := safe_parseContains W hw Legacy.none rfl rfl o
  have hcc := safe_containsCount W hw Legacy.none rfl
  safe_auto
  all_goals first | exact hpre _ | exact hpost _ | exact ha _ | exact hv _ _ | exact hc _ _ _ _ | exact hcc _ _ _ _ | exact safe_readItemsOf W hw _ (by first | rfl | (simp [Legacy.ruleFixed] at hL; exact hL.2)) o _

/-- the same with the repaired sites individually switched back: whatever is not switched stays proved -/
theorem C04_rule_parse_no_escape_partial (W : World V) (hw : ∀ s, Safe (W.warn s)) (L : Legacy) (hL : L.ruleFixed = true) (o : Opts)
    (R : RuleDecl) (v : V) (hpre : ∀ v, Safe (W.pre v)) (hpost : ∀ v, Safe (W.post v)) :
    Safe (ruleParse W L o R v) := by
  unfold ruleParse
  have ha := safe_argsParse W hw L hL o R
  have hv := safe_validatorsLoop W hw o
  have hc := safe_parseContains W hw L (by simp [Legacy.ruleFixed] at hL; exact hL.1.1.2) (by simp [Legacy.ruleFixed] at hL; exact hL.2) o
  have hcc := safe_containsCount W hw L (by simp [Legacy.ruleFixed] at hL; exact hL.1.1.2)
  safe_auto
  all_goals first | exact hpre _ | exact hpost _ | exact ha _ | exact hv _ _ | exact hc _ _ _ _ | exact hcc _ _ _ _ | exact safe_readItemsOf W hw _ (by first | rfl | (simp [Legacy.ruleFixed] at hL; exact hL.2)) o _

/-! ## LogicalType.logical_parse -/

theorem safe_allLoop (W : World V) (hw : ∀ s, Safe (W.warn s)) (L : Legacy) (hL : L.allOfRaw = false) (o : Opts) (ts : List Ty) :
    ∀ v, Safe (allLoop W L o ts v) := by
  induction ts with
  | nil => intro v; exact safe_pure _
  | cons t ts ih =>
    intro v
    unfold allLoop
    simp only [hL, Bool.false_or]
    apply safe_bind
    · apply safe_tryExcept
      intro e
      apply safe_bind
      · apply safe_handleError
        split
        · assumption
        · rfl
      · intro _; exact safe_pure _
    · intro r
      cases r with
      | none => exact safe_pure _
      | some y => exact ih y

theorem safe_anyStage (W : World V) (hw : ∀ s, Safe (W.warn s)) (stage : Nat) (ts : List Ty) (v : V) : Safe (anyStage W stage ts v) := by
  induction ts with
  | nil => exact safe_pure _
  | cons t ts ih => unfold anyStage; safe_auto

theorem safe_xorLoop (W : World V) (hw : ∀ s, Safe (W.warn s)) (o : Opts) (v : V) (ts : List Ty) : ∀ r x, Safe (xorLoop W o v ts r x) := by
  induction ts with
  | nil => intro r x; exact safe_pure _
  | cons t ts ih =>
    intro r x
    unfold xorLoop
    safe_auto
    all_goals exact ih _ _

theorem safe_notLoop (W : World V) (hw : ∀ s, Safe (W.warn s)) (o : Opts) (ts : List Ty) (v : V) : Safe (notLoop W o ts v) := by
  induction ts with
  | nil => exact safe_pure _
  | cons t ts ih => unfold notLoop; safe_auto

/-- **a logical type (`&`, `|`, `^`, `~`) lets nothing but ParseError out**, whatever its arguments do -/
theorem C04_logical_no_escape (W : World V) (hw : ∀ s, Safe (W.warn s)) (o : Opts) (c : Comb) (args : List Ty) (v : V) :
    Safe (logicalParse W Legacy.none o c args v) := by
  have h1 := safe_allLoop W hw Legacy.none rfl o args
  have h2 := fun k => safe_anyStage W hw k args v
  have h3 := safe_xorLoop W hw o v args
  have h4 := safe_notLoop W hw o args v
  unfold logicalParse
  cases c <;> (dsimp only; safe_auto)
  all_goals first | exact h1 _ | exact h2 _ | exact h3 _ _ | exact h4

theorem C04_logical_no_escape_partial (W : World V) (hw : ∀ s, Safe (W.warn s)) (L : Legacy) (hL : L.allOfRaw = false) (o : Opts)
    (c : Comb) (args : List Ty) (v : V) : Safe (logicalParse W L o c args v) := by
  have h1 := safe_allLoop W hw L hL o args
  have h2 := fun k => safe_anyStage W hw k args v
  have h3 := safe_xorLoop W hw o v args
  have h4 := safe_notLoop W hw o args v
  unfold logicalParse
  cases c <;> (dsimp only; safe_auto)
  all_goals first | exact h1 _ | exact h2 _ | exact h3 _ _ | exact h4

/-! ## fields, data classes -/

theorem safe_invalidValue (W : DataWorld V) (hw : ∀ s, Safe (W.warn s)) (o : Opts) (f : FieldDecl V) (e : Exc)
    (he : e.isPerr = true) (raw : V) (b : Bool) : Safe (invalidValue W o f e raw b) := by
  unfold invalidValue
  safe_auto
  all_goals exact safe_handleError _ _ he

theorem safe_fieldConvert (W : DataWorld V) (hw : ∀ s, Safe (W.warn s)) (o : Opts) (f : FieldDecl V) (t : Ty) (v raw : V) (b : Bool) :
    Safe (fieldConvert W o f t v raw b) := by
  have hi := fun e => safe_invalidValue W hw o f (wrap Site.fieldValue e (some f.id)) rfl raw b
  unfold fieldConvert
  safe_auto
  all_goals exact hi _

theorem safe_parseValue (W : DataWorld V) (hw : ∀ s, Safe (W.warn s)) (L : Legacy) (hL : L.discLookup = false) (o : Opts)
    (f : FieldDecl V) (v : V) (b : Bool) : Safe (parseValue W L o f v b) := by
  have h := safe_fieldConvert W hw o f
  have hi := fun e (he : e.isPerr = true) => safe_invalidValue W hw o f e he v b
  unfold parseValue
  simp only [hL]
  safe_auto
  all_goals first | exact h _ _ _ _ | exact hi _ rfl | (simp at *)

/-- **a field's `parse_value` lets nothing but ParseError out** (any converter, any `to_dict`, any
discriminator lookup) -/
theorem C04_parse_value_no_escape (W : DataWorld V) (hw : ∀ s, Safe (W.warn s)) (o : Opts) (f : FieldDecl V) (v : V) (asAbsent : Bool) :
    Safe (parseValue W Legacy.none o f v asAbsent) :=
  safe_parseValue W hw Legacy.none rfl o f v asAbsent

theorem safe_parseAddition (W : DataWorld V) (hw : ∀ s, Safe (W.warn s)) (o : Opts) (P : ParserDecl V) (k : Nat) (v : V) :
    Safe (parseAddition W o P k v) := by
  unfold parseAddition
  safe_auto

theorem safe_aliasConflict (W : DataWorld V) (hw : ∀ s, Safe (W.warn s)) (L : Legacy) (hL : L.aliasCompare = false) (a b : V) :
    Safe (aliasConflict W L a b) := by
  unfold aliasConflict
  simp only [hL]
  safe_auto

def Legacy.dataFixed (L : Legacy) : Bool := !L.aliasCompare && !L.discLookup

theorem safe_dfScan (W : DataWorld V) (hw : ∀ s, Safe (W.warn s)) (L : Legacy) (hL : L.aliasCompare = false) (P : ParserDecl V)
    (data : List (Nat × V)) : ∀ inputs conflicts, Safe (dfScan W L P data inputs conflicts) := by
  have hac := safe_aliasConflict W hw L hL
  induction data with
  | nil => intro inputs conflicts; exact safe_pure _
  | cons kv rest ih =>
    intro inputs conflicts
    obtain ⟨key, v⟩ := kv
    unfold dfScan
    safe_auto
    all_goals first | exact ih _ _ | exact hac _ _

theorem safe_dfItems (W : DataWorld V) (hw : ∀ s, Safe (W.warn s)) (L : Legacy) (hL : L.dataFixed = true) (o : Opts) (P : ParserDecl V)
    (ex : List Nat) (cf : List Nat) (inputs : List (Given V)) : ∀ a, Safe (dfItems W L o P ex cf inputs a) := by
  simp [Legacy.dataFixed] at hL
  have hpv := safe_parseValue W hw L hL.2 o
  have hpa := safe_parseAddition W hw o P
  induction inputs with
  | nil => intro a; exact safe_pure _
  | cons g rest ih =>
    intro a
    unfold dfItems
    safe_auto
    all_goals first | exact ih _ | exact hpv _ _ _ | exact hpa _ _

theorem safe_dfMissing (o : Opts) (ex : List Nat) (given : List Nat) (fs : List (FieldDecl V)) :
    ∀ a, Safe (dfMissing o ex given fs a) := by
  induction fs with
  | nil => intro a; exact safe_pure _
  | cons f fs ih =>
    intro a
    unfold dfMissing
    safe_auto
    all_goals exact ih _

theorem safe_depsCheck (W : DataWorld V) (hw : ∀ s, Safe (W.warn s)) (o : Opts) (a : Acc V) : Safe (depsCheck W o a) := by
  unfold depsCheck
  safe_auto

theorem safe_caseConflict (W : DataWorld V) (hw : ∀ s, Safe (W.warn s)) (L : Legacy) (hL : L.aliasCompare = false)
    (first : V) (xs : List V) : Safe (caseConflict W L first xs) := by
  have hac := safe_aliasConflict W hw L hL
  induction xs with
  | nil => exact safe_pure _
  | cons x xs ih =>
    unfold caseConflict
    safe_auto
    all_goals exact hac _ _

theorem safe_ffConflicts (W : DataWorld V) (hw : ∀ s, Safe (W.warn s)) (L : Legacy) (hL : L.aliasCompare = false)
    (value : V) (xs : List (V × List V)) : Safe (ffConflicts W L value xs) := by
  have hac := safe_aliasConflict W hw L hL
  have hcc := safe_caseConflict W hw L hL
  induction xs with
  | nil => exact safe_pure _
  | cons x xs ih =>
    obtain ⟨x, variants⟩ := x
    unfold ffConflicts
    safe_auto
    all_goals first | exact hac _ _ | exact hcc _ _

theorem safe_ffFields (W : DataWorld V) (hw : ∀ s, Safe (W.warn s)) (L : Legacy) (hL : L.dataFixed = true) (o : Opts) (ex : List Nat)
    (data : List (Nat × V)) (fs : List (FieldDecl V)) : ∀ a, Safe (ffFields W L o ex data fs a) := by
  simp [Legacy.dataFixed] at hL
  have hpv := safe_parseValue W hw L hL.2 o
  have hfc := safe_ffConflicts W hw L hL.1
  have hcc := safe_caseConflict W hw L hL.1
  induction fs with
  | nil => intro a; exact safe_pure _
  | cons f fs ih =>
    intro a
    unfold ffFields
    safe_auto
    all_goals first | exact ih _ | exact hpv _ _ _ | exact hfc _ _ | exact hcc _ _

theorem safe_ffAddition (W : DataWorld V) (hw : ∀ s, Safe (W.warn s)) (o : Opts) (P : ParserDecl V) (used : List Nat)
    (data : List (Nat × V)) : ∀ acc, Safe (ffAddition W o P used data acc) := by
  have hpa := safe_parseAddition W hw o P
  induction data with
  | nil => intro acc; exact safe_pure _
  | cons kv rest ih =>
    intro acc
    obtain ⟨k, v⟩ := kv
    unfold ffAddition
    safe_auto
    all_goals first | exact ih _ | exact hpa _ _

theorem safe_parseData (W : DataWorld V) (hw : ∀ s, Safe (W.warn s)) (L : Legacy) (hL : L.dataFixed = true) (o : Opts)
    (P : ParserDecl V) (ex : List Nat) (data : List (Nat × V)) : Safe (parseData W L o P ex data) := by
  have h0 := safe_dfScan W hw L (by simp [Legacy.dataFixed] at hL; exact hL.1) P data
  have h1 := safe_dfItems W hw L hL o P ex
  have h2 := safe_dfMissing (V := V) o ex
  have h3 := safe_depsCheck W hw o
  have h4 := safe_ffFields W hw L hL o ex data P.fields
  have h5 := safe_ffAddition W hw o P
  unfold parseData dataFirstParse fieldFirstParse
  safe_auto
  all_goals first | exact h0 _ _ | exact h1 _ _ _ | exact h2 _ _ _ | exact h3 _ | exact h4 _ | exact h5 _ _ _

/-- **`parse_data` (data-first and field-first) lets nothing but ParseError out**: every field
conversion, alias comparison, addition conversion and bookkeeping error is a ParseError -/
theorem C04_parse_data_no_escape (W : DataWorld V) (hw : ∀ s, Safe (W.warn s)) (o : Opts) (P : ParserDecl V) (ex : List Nat)
    (data : List (Nat × V)) : Safe (parseData W Legacy.none o P ex data) :=
  safe_parseData W hw Legacy.none rfl o P ex data

theorem safe_parserCall (W : DataWorld V) (hw : ∀ s, Safe (W.warn s)) (L : Legacy) (hL : L.dataFixed = true) (o : Opts)
    (P : ParserDecl V) (data : List (Nat × V)) : Safe (parserCall W L o P data) := by
  have h := safe_parseData W hw L hL o P [] data
  unfold parserCall
  safe_auto

/-- **data-class construction**: only ParseError, unless the developer's own
`__post_init__`/`__validate__` raises something else; for the running options `o`, whatever they are -/
theorem C04_class_init_no_escape (W : DataWorld V) (hw : ∀ s, Safe (W.warn s)) (o : Opts) (P : ParserDecl V) (postInit : M Unit)
    (hpost : Safe postInit) (kw : List (Nat × V)) (schema : Bool) :
    Safe (classInit W Legacy.none o P postInit kw schema) := by
  have h := safe_parserCall W hw Legacy.none rfl o P kw
  unfold classInit
  safe_auto

/-- `Cls(**kwargs)` (context made from the declared options) -/
theorem C04_class_call_no_escape (W : DataWorld V) (hw : ∀ s, Safe (W.warn s)) (declared : Opts) (P : ParserDecl V) (postInit : M Unit)
    (hpost : Safe postInit) (kw : List (Nat × V)) (schema : Bool) :
    Safe (classCall W Legacy.none declared P postInit kw schema) :=
  C04_class_init_no_escape W hw _ P postInit hpost kw schema

/-- **`Cls.__from__(data, options)` / `init_dataclass` / nested data-class conversion**: only ParseError, for ANY
input object — a mapping with keys of any type, a mapping whose own protocol raises, a non-mapping — any declared
options, any options given for the call, any enclosing context.  (No string-keyed proviso any more: with
fixes/C04-nonstring-keys the keys are checked, and the mapping is read, inside the wrapping `try`.) -/
theorem C04_init_dataclass_no_escape (W : DataWorld V) (hw : ∀ s, Safe (W.warn s)) (declared : Opts) (given ctx : Option Opts)
    (P : ParserDecl V) (postInit : M Unit) (hpost : Safe postInit) (data : V)
    (schema : Bool) : Safe (initDataclass W Legacy.none declared given ctx P postInit data schema) := by
  have h := fun o kw => C04_class_init_no_escape W hw o P postInit hpost kw schema
  unfold initDataclass
  simp only [Legacy.none, Bool.false_and]
  safe_auto
  all_goals first | exact h _ _ | exact safe_parseData W hw Legacy.none rfl _ P [] _ | (simp at *)

/-- sequencing lemma of the MODEL (one unfolding of `bind`; its content is model fidelity, see the trace theorems
`C04_instance_only_after_clean_parse*` for the statement about events): when parsing fails, construction *is* that failure — attribute assignment
and the post-init hook are never sequenced and the context is left exactly as parsing left it -/
theorem seq_no_instance_on_error (W : DataWorld V) (L : Legacy) (o : Opts) (P : ParserDecl V)
    (postInit : M Unit) (kw : List (Nat × V)) (schema : Bool) (s : St) (e : Exc)
    (hfail : (parserCall W L o P kw s).1 = .raise e) :
    classInit W L o P postInit kw schema s = (.raise e, (parserCall W L o P kw s).2) := by
  unfold classInit
  rw [bind_apply]
  rcases h : parserCall W L o P kw s with ⟨r, s'⟩
  rw [h] at hfail
  simp only at hfail
  subst hfail
  rfl

/-- the trace reading: a failed construction adds no `attrsSet`/`postInit` event of its own -/
theorem seq_no_instance_on_error_trace (W : DataWorld V) (L : Legacy) (o : Opts) (P : ParserDecl V)
    (postInit : M Unit) (kw : List (Nat × V)) (schema : Bool) (s : St) (e : Exc)
    (hfail : (parserCall W L o P kw s).1 = .raise e) :
    (classInit W L o P postInit kw schema s).2.trace = (parserCall W L o P kw s).2.trace := by
  rw [seq_no_instance_on_error W L o P postInit kw schema s e hfail]

/-- **`Cls(<dict>)`** (the positional form of the generated `__init__`): only ParseError, for a dict with keys of any
type and for a dict subclass whose own protocol raises -/
theorem C04_class_call_dict_no_escape (W : DataWorld V) (hw : ∀ s, Safe (W.warn s)) (declared : Opts) (P : ParserDecl V) (postInit : M Unit)
    (hpost : Safe postInit) (d : V) (schema : Bool) :
    Safe (classCallDict W Legacy.none declared P postInit d schema) := by
  have h := fun o kw => C04_class_init_no_escape W hw o P postInit hpost kw schema
  unfold classCallDict
  safe_auto
  all_goals first | exact h _ _ | exact safe_parseData W hw Legacy.none rfl _ P [] _ | (simp at *)

/-! ### declared vs running options: collected errors are never dropped -/

/-- **`BaseParser.__call__` succeeds only with a clean context**: whatever the running options are (declared on
the class, given for the call, or pushed down with `override`), a result comes out only if nothing is left in
`errors`/`tmp_errors` — `raise_error` consults no option at all -/
theorem C04_parser_call_ok_clean (W : DataWorld V) (L : Legacy) (o : Opts) (P : ParserDecl V)
    (kw : List (Nat × V)) (s s' : St) (r : List (Nat × V))
    (hok : parserCall W L o P kw s = (.ok r, s')) : s'.errors = [] ∧ s'.tmp = [] := by
  unfold parserCall at hok
  rw [bind_apply] at hok
  rcases h : parseData W L o P [] kw s with ⟨r1, s1⟩
  rw [h] at hok
  cases r1 with
  | raise e => simp at hok
  | diverge => simp at hok
  | ok a =>
    simp only at hok
    rw [bind_apply] at hok
    unfold raiseError at hok
    by_cases hc : (s1.errors.isEmpty && s1.tmp.isEmpty) = true
    · simp only [hc, if_true] at hok
      simp only [pure_apply, Prod.mk.injEq, Res.ok.injEq] at hok
      obtain ⟨_, rfl⟩ := hok
      simp only [Bool.and_eq_true, List.isEmpty_iff] at hc
      exact hc
    · simp only [hc] at hok
      simp at hok

/-- **errors collected while parsing are never dropped**: if `parse_data` comes back with anything collected, the
construction raises exactly that as a CollectedParseError and sequences neither `set_attributes` nor post-init —
for every running option record, in particular when `collect_errors` was not declared on the class -/
theorem C04_no_instance_with_collected_errors (W : DataWorld V) (L : Legacy) (o : Opts) (P : ParserDecl V)
    (postInit : M Unit) (kw : List (Nat × V)) (schema : Bool) (s s1 : St) (r : List (Nat × V))
    (hparse : parseData W L o P [] kw s = (.ok r, s1)) (hleft : s1.errors ≠ [] ∨ s1.tmp ≠ []) :
    classInit W L o P postInit kw schema s = (.raise (.collected (s1.errors ++ s1.tmp)), s1) := by
  have hfail : parserCall W L o P kw s = (.raise (.collected (s1.errors ++ s1.tmp)), s1) := by
    unfold parserCall
    rw [bind_apply, hparse]
    simp only
    rw [bind_apply]
    unfold raiseError
    have hc : (s1.errors.isEmpty && s1.tmp.isEmpty) = false := by
      rcases hleft with h | h
      · cases he : s1.errors with
        | nil => exact absurd he h
        | cons a l => simp
      · cases ht : s1.tmp with
        | nil => exact absurd ht h
        | cons a l => simp
    simp [hc]
  have := seq_no_instance_on_error W L o P postInit kw schema s _ (by rw [hfail])
  rw [this, hfail]

/-- the declared options matter only through the options the context runs with -/
theorem C04_declared_options_only_through_running (W : DataWorld V) (L : Legacy) (d d' : Opts)
    (given ctx : Option Opts) (P : ParserDecl V) (postInit : M Unit) (data : V) (schema : Bool)
    (h : runningOpts d given ctx = runningOpts d' given ctx) :
    initDataclass W L d given ctx P postInit data schema = initDataclass W L d' given ctx P postInit data schema := by
  unfold initDataclass
  rw [h]

/-- options given for one call run it (no enclosing context) -/
theorem C04_given_options_run (d g : Opts) : runningOpts d (some g) none = g := rfl

/-- options of an enclosing context with `override` replace declared options that do not say `override` themselves -/
theorem C04_override_pushes_down (d c : Opts) (hc : c.override = true) (hd : d.override = false) :
    runningOpts d none (some c) = c := by
  simp [runningOpts, makeContextOpts, hc, hd]

/-- without `override` above (or with `override` declared below) the declared options run -/
theorem C04_declared_options_run (d c : Opts) (h : c.override = false ∨ d.override = true) :
    runningOpts d none (some c) = d := by
  rcases h with h | h <;> simp [runningOpts, makeContextOpts, h]

/-! ## decorated functions -/

theorem safe_parsePosType (W : DataWorld V) (hw : ∀ s, Safe (W.warn s)) (o : Opts) (F : FuncDecl V) (i : Nat) (v : V) :
    Safe (parsePosType W o F i v) := by
  unfold parsePosType
  safe_auto

theorem safe_posArgs (W : DataWorld V) (hw : ∀ s, Safe (W.warn s)) (L : Legacy) (hL : L.discLookup = false) (o : Opts) (F : FuncDecl V)
    (xs : List V) : ∀ i args keys, Safe (posArgs W L o F xs i args keys) := by
  have hpv := safe_parseValue W hw L hL o
  have hpt := safe_parsePosType W hw o F
  induction xs with
  | nil => intro i args keys; exact safe_pure _
  | cons x xs ih =>
    intro i args keys
    unfold posArgs
    safe_auto
    all_goals first | exact ih _ _ _ | exact hpv _ _ _ | exact hpt _ _

theorem safe_posOnlyMissing (o : Opts) (F : FuncDecl V) (fs : List (Nat × FieldDecl V)) :
    ∀ args keys, Safe (posOnlyMissing o F fs args keys) := by
  induction fs with
  | nil => intro args keys; exact safe_pure _
  | cons f fs ih =>
    intro args keys
    obtain ⟨index, f⟩ := f
    unfold posOnlyMissing
    safe_auto
    all_goals exact ih _ _

theorem safe_parseParams (W : DataWorld V) (hw : ∀ s, Safe (W.warn s)) (L : Legacy) (hL : L.dataFixed = true) (o : Opts)
    (F : FuncDecl V) (args : List V) (kw : List (Nat × V)) (hwf : doubleBound F args kw = false) :
    Safe (parseParams W L o F args kw) := by
  have h1 := safe_posArgs W hw L (by simp [Legacy.dataFixed] at hL; exact hL.2) o F args
  have h2 := safe_posOnlyMissing o F F.posOnly
  have h3 := fun ex => safe_parseData W hw L hL o F.parser ex kw
  unfold parseParams
  simp only [hwf]
  safe_auto
  all_goals first | exact h1 _ _ _ | exact h2 _ _ | exact h3 _ | (simp at *)

/-- **argument parsing of a decorated function lets nothing but ParseError out** — for a well-formed CALL.
A call that binds a parameter by position and again by keyword is not an input that fails to parse: it is answered
with Python's own `TypeError: f() got multiple values for argument` (`C04_double_binding_is_the_callers_type_error`),
by CPython when the function has no **kwargs and by utype (func.py:627-642) otherwise. -/
theorem C04_parse_params_no_escape (W : DataWorld V) (hw : ∀ s, Safe (W.warn s)) (o : Opts) (F : FuncDecl V) (args : List V)
    (kw : List (Nat × V)) (hwf : doubleBound F args kw = false) : Safe (parseParams W Legacy.none o F args kw) :=
  safe_parseParams W hw Legacy.none rfl o F args kw hwf

/-- the ill-formed call: nothing is parsed, nothing is collected, no event is emitted, the body is not entered — the
call IS the TypeError, in the state it was made in (any `Legacy`, any components) -/
theorem C04_double_binding_is_the_callers_type_error (W : DataWorld V) (L : Legacy) (o : Opts) (F : FuncDecl V)
    (body : List V → List (Nat × V) → M V) (args : List V) (kw : List (Nat × V)) (s : St)
    (hdb : doubleBound F args kw = true) :
    syncCall W L o F body args kw s = (.raise (builtinExc K.typeError), s) := by
  unfold syncCall parseParams
  simp only [hdb, if_true]
  rfl

theorem safe_parseResult (W : DataWorld V) (hw : ∀ s, Safe (W.warn s)) (o : Opts) (F : FuncDecl V) (r : V) :
    Safe (parseResult W o F r) := by
  unfold parseResult
  safe_auto

/-- sequencing lemma of the MODEL (one unfolding of `bind`; see `C04_body_entered_only_after_parse` for the trace
statement): when argument parsing fails, the call *is* that failure: the result and the
final context do not mention the body — it is never entered, whatever it would have done -/
theorem seq_no_body_on_error (W : DataWorld V) (L : Legacy) (o : Opts) (F : FuncDecl V)
    (body : List V → List (Nat × V) → M V) (args : List V) (kw : List (Nat × V)) (s : St) (e : Exc)
    (hfail : (parseParams W L o F args kw s).1 = .raise e) :
    syncCall W L o F body args kw s = (.raise e, (parseParams W L o F args kw s).2) := by
  unfold syncCall
  rw [bind_apply]
  rcases h : parseParams W L o F args kw s with ⟨r, s'⟩
  rw [h] at hfail
  simp only at hfail
  subst hfail
  rfl

/-- hence two different bodies cannot be told apart through a call whose arguments do not parse -/
theorem seq_body_irrelevant_on_error (W : DataWorld V) (L : Legacy) (o : Opts) (F : FuncDecl V)
    (body body' : List V → List (Nat × V) → M V) (args : List V) (kw : List (Nat × V)) (s : St) (e : Exc)
    (hfail : (parseParams W L o F args kw s).1 = .raise e) :
    syncCall W L o F body args kw s = syncCall W L o F body' args kw s := by
  rw [seq_no_body_on_error W L o F body args kw s e hfail,
      seq_no_body_on_error W L o F body' args kw s e hfail]

/-- **the only non-ParseError exception a decorated call can produce is one its own body raised**:
the arguments parsed, the body was entered with them, and the body itself ended with that exception -/
theorem C04_call_escape_only_from_body (W : DataWorld V) (hw : ∀ s, Safe (W.warn s)) (o : Opts) (F : FuncDecl V)
    (body : List V → List (Nat × V) → M V) (args : List V) (kw : List (Nat × V)) (hwf : doubleBound F args kw = false) (s : St)
    (hesc : (syncCall W Legacy.none o F body args kw s).1.escapes = true) :
    ∃ p s1, parseParams W Legacy.none o F args kw s = (.ok p, s1) ∧
      (body p.1 p.2 { s1 with trace := s1.trace ++ [.enterBody] }).1.escapes = true := by
  have hp := (C04_parse_params_no_escape W hw o F args kw hwf).h s
  unfold syncCall at hesc
  rw [bind_apply] at hesc
  rcases h : parseParams W Legacy.none o F args kw s with ⟨r, s1⟩
  rw [h] at hesc hp
  cases r with
  | raise e => simp only [Res.escapes] at hesc hp; rw [hp] at hesc; cases hesc
  | diverge => simp [Res.escapes] at hesc
  | ok p =>
    refine ⟨p, s1, rfl, ?_⟩
    simp only at hesc
    rw [bind_apply] at hesc
    simp only [emit] at hesc
    rw [bind_apply] at hesc
    rcases hb : body p.1 p.2 { s1 with trace := s1.trace ++ [.enterBody] } with ⟨rb, s2⟩
    rw [hb] at hesc
    cases rb with
    | raise e => simpa using hesc
    | diverge => simp [Res.escapes] at hesc
    | ok r =>
      simp only at hesc
      have := (safe_parseResult W hw o F r).h s2
      rw [this] at hesc
      cases hesc

/-- corollary: a body that raises only ParseErrors (or nothing) gives a call that does too -/
theorem C04_call_no_escape (W : DataWorld V) (hw : ∀ s, Safe (W.warn s)) (o : Opts) (F : FuncDecl V)
    (body : List V → List (Nat × V) → M V) (hbody : ∀ a k, Safe (body a k)) (args : List V)
    (kw : List (Nat × V)) (hwf : doubleBound F args kw = false) : Safe (syncCall W Legacy.none o F body args kw) := by
  constructor
  intro s
  cases hesc : (syncCall W Legacy.none o F body args kw s).1.escapes with
  | false => rfl
  | true =>
    obtain ⟨p, s1, _, hb⟩ := C04_call_escape_only_from_body W hw o F body args kw hwf s hesc
    rw [(hbody p.1 p.2).h] at hb
    cases hb

/-! ## termination: an entry point diverges only if a component does -/

/-- every component comes back -/
structure World.Terminates (W : World V) : Prop where
  conv : ∀ t v, Term (W.conv t v)
  convAt : ∀ k t v, Term (W.convAt k t v)
  construct : ∀ t v, Term (W.construct t v)
  insertKey : ∀ v, Term (W.insertKey v)
  validate : ∀ k v, Term (W.validate k v)
  readItems : ∀ v, Term (W.readItems v)
  readPairs : ∀ v, Term (W.readPairs v)
  warn : ∀ s, Term (W.warn s)
  keyStr : ∀ v, Term (W.keyStr v)
  pre : ∀ v, Term (W.pre v)
  post : ∀ v, Term (W.post v)

structure DataWorld.Terminates (W : DataWorld V) : Prop where
  base : W.toWorld.Terminates
  toDict : ∀ v, Term (W.toDict v)
  castKeys : ∀ v, Term (W.castKeys v)
  readMapping : ∀ v, Term (W.readMapping v)
  discLookup : ∀ f v, Term (W.discLookup f v)
  neq : ∀ a b, Term (W.neq a b)

macro "term_close" hW:ident : tactic => `(tactic| first
  | exact ($hW).conv _ _ | exact ($hW).convAt _ _ _ | exact ($hW).construct _ _ | exact ($hW).insertKey _
  | exact ($hW).validate _ _ | exact ($hW).pre _ | exact ($hW).post _ | exact ($hW).keyStr _
  | exact ($hW).readItems _ | exact ($hW).readPairs _ | exact ($hW).warn _)

theorem term_readItemsOf (W : World V) (hW : W.Terminates) (L : Legacy) (o : Opts) (v : V) : Term (readItemsOf W L o v) := by
  unfold readItemsOf
  term_auto
  all_goals term_close hW

theorem term_readPairsOf (W : World V) (hW : W.Terminates) (L : Legacy) (o : Opts) (v : V) : Term (readPairsOf W L o v) := by
  unfold readPairsOf
  term_auto
  all_goals term_close hW

theorem term_seqLoop (W : World V) (hW : W.Terminates) (L : Legacy) (o : Opts) (t : Ty) (v : V) (all : List V)
    (xs : List V) : ∀ i acc, Term (seqLoop W L o t v all xs i acc) := by
  induction xs with
  | nil => intro i acc; exact term_pure _
  | cons x xs ih =>
    intro i acc
    unfold seqLoop
    term_auto
    all_goals first | exact ih _ _ | term_close hW

theorem term_exceedLoop (o : Opts) (is : List Nat) : Term (exceedLoop o is) := by
  induction is with
  | nil => exact term_pure _
  | cons i is ih => unfold exceedLoop; term_auto

theorem term_tupleLoop (W : World V) (hW : W.Terminates) (L : Legacy) (o : Opts) (v : List V)
    (ts : List Ty) : ∀ i acc, Term (tupleLoop W L o v ts i acc) := by
  induction ts with
  | nil => intro i acc; exact term_pure _
  | cons t ts ih =>
    intro i acc
    unfold tupleLoop
    term_auto
    all_goals first | exact ih _ _ | term_close hW

theorem term_tupleExtra (W : World V) (hW : W.Terminates) (o : Opts) (t : Ty) (xs : List V) :
    ∀ i acc, Term (tupleExtra W o t xs i acc) := by
  induction xs with
  | nil => intro i acc; exact term_pure _
  | cons x xs ih =>
    intro i acc
    unfold tupleExtra
    term_auto
    all_goals first | exact ih _ _ | term_close hW

theorem term_tupleArgs (W : World V) (hW : W.Terminates) (L : Legacy) (o : Opts) (ts : List Ty) (v : V) :
    Term (tupleArgs W L o ts v) := by
  have h0 := term_readItemsOf W hW L o v
  have h1 := fun xs => term_tupleLoop W hW L o xs ts
  have h2 := term_tupleExtra W hW o
  have h3 := term_exceedLoop o
  unfold tupleArgs
  term_auto
  all_goals first | exact h1 _ _ _ | exact h2 _ _ _ _ | exact h3 _

theorem term_renderKey (W : World V) (hW : W.Terminates) (L : Legacy) (k : V) : Term (renderKey W L k) := by
  unfold renderKey
  term_auto
  all_goals term_close hW

theorem term_mapLoop (W : World V) (hW : W.Terminates) (L : Legacy) (o : Opts) (kt : Ty) (vt : Option Ty)
    (kvs : List (V × V)) : ∀ i acc, Term (mapLoop W L o kt vt kvs i acc) := by
  induction kvs with
  | nil => intro i acc; exact term_pure _
  | cons kv rest ih =>
    intro i acc
    obtain ⟨k, x⟩ := kv
    have hr := term_renderKey W hW L k
    unfold mapLoop
    term_auto
    all_goals first | exact ih _ _ | term_close hW

theorem term_containsCount (W : World V) (hW : W.Terminates) (L : Legacy) (t : Ty) (xs : List V) :
    ∀ i c, Term (containsCount W L t xs i c) := by
  induction xs with
  | nil => intro i c; exact term_pure _
  | cons x xs ih =>
    intro i c
    unfold containsCount
    term_auto
    all_goals first | exact ih _ _ | term_close hW

theorem term_validatorsLoop (W : World V) (hW : W.Terminates) (o : Opts) (ks : List Nat) :
    ∀ v, Term (validatorsLoop W o ks v) := by
  induction ks with
  | nil => intro v; exact term_pure _
  | cons k ks ih =>
    intro v
    unfold validatorsLoop
    term_auto
    all_goals first | exact ih _ | term_close hW

theorem term_argsParse (W : World V) (hW : W.Terminates) (L : Legacy) (o : Opts) (R : RuleDecl) (v : V) :
    Term (argsParse W L o R v) := by
  have hri := term_readItemsOf W hW L o
  have hrp := term_readPairsOf W hW L o
  have hs := term_seqLoop W hW L o
  have ht := term_tupleArgs W hW L o
  have hm := term_mapLoop W hW L o
  unfold argsParse seqArgs mapArgs
  term_auto
  all_goals first | exact hri _ | exact hrp _ | exact hs _ _ _ _ _ _ | exact ht _ _ | exact hm _ _ _ _ _ | exact term_tupleLoop W hW L o _ _ _ _ | exact term_exceedLoop o _ | exact term_tupleExtra W hW o _ _ _ _ | term_close hW

theorem term_parseContains (W : World V) (hW : W.Terminates) (L : Legacy) (o : Opts) (t : Ty)
    (a b : Option Nat) (v : V) : Term (parseContains W L o t a b v) := by
  have h0 := term_readItemsOf W hW L o v
  have h := term_containsCount W hW L t
  unfold parseContains
  term_auto
  all_goals exact h _ _ _

/-- **Rule.parse terminates whenever its components do** (any `Legacy` setting) -/
theorem C04_rule_parse_terminates (W : World V) (hW : W.Terminates) (L : Legacy) (o : Opts) (R : RuleDecl)
    (v : V) : Term (ruleParse W L o R v) := by
  have ha := term_argsParse W hW L o R
  have hv := term_validatorsLoop W hW o
  have hc := term_parseContains W hW L o
  have hcc := term_containsCount W hW L
  unfold ruleParse
  term_auto
  all_goals first | exact ha _ | exact hv _ _ | exact hc _ _ _ _ | exact hcc _ _ _ _ | exact term_readItemsOf W hW L o _ | term_close hW

/-- contrapositive reading: if `Rule.parse` hangs, some component hangs -/
theorem C04_rule_parse_diverges_only_with_component (W : World V) (L : Legacy) (o : Opts) (R : RuleDecl)
    (v : V) (s : St) (hdiv : (ruleParse W L o R v s).1.diverges = true) : ¬ W.Terminates := by
  intro hW
  have := (C04_rule_parse_terminates W hW L o R v).h s
  rw [this] at hdiv
  cases hdiv

theorem term_allLoop (W : World V) (hW : W.Terminates) (L : Legacy) (o : Opts) (ts : List Ty) :
    ∀ v, Term (allLoop W L o ts v) := by
  induction ts with
  | nil => intro v; exact term_pure _
  | cons t ts ih =>
    intro v
    unfold allLoop
    term_auto
    all_goals first | exact ih _ | term_close hW

theorem term_anyStage (W : World V) (hW : W.Terminates) (stage : Nat) (ts : List Ty) (v : V) :
    Term (anyStage W stage ts v) := by
  induction ts with
  | nil => exact term_pure _
  | cons t ts ih =>
    unfold anyStage
    term_auto
    all_goals term_close hW

theorem term_xorLoop (W : World V) (hW : W.Terminates) (o : Opts) (v : V) (ts : List Ty) :
    ∀ r x, Term (xorLoop W o v ts r x) := by
  induction ts with
  | nil => intro r x; exact term_pure _
  | cons t ts ih =>
    intro r x
    unfold xorLoop
    term_auto
    all_goals first | exact ih _ _ | term_close hW

theorem term_notLoop (W : World V) (hW : W.Terminates) (o : Opts) (ts : List Ty) (v : V) :
    Term (notLoop W o ts v) := by
  induction ts with
  | nil => exact term_pure _
  | cons t ts ih =>
    unfold notLoop
    term_auto
    all_goals term_close hW

/-- **a logical type terminates whenever its arguments do** -/
theorem C04_logical_terminates (W : World V) (hW : W.Terminates) (L : Legacy) (o : Opts) (c : Comb)
    (args : List Ty) (v : V) : Term (logicalParse W L o c args v) := by
  have h1 := term_allLoop W hW L o args
  have h2 := fun k => term_anyStage W hW k args v
  have h3 := term_xorLoop W hW o v args
  have h4 := term_notLoop W hW o args v
  unfold logicalParse
  cases c <;> (dsimp only; term_auto)
  all_goals first | exact h1 _ | exact h2 _ | exact h3 _ _ | exact h4

macro "dterm_close" hW:ident : tactic => `(tactic| first
  | exact ($hW).base.conv _ _ | exact ($hW).toDict _ | exact ($hW).castKeys _ | exact ($hW).readMapping _
  | exact ($hW).discLookup _ _ | exact ($hW).neq _ _ | exact ($hW).base.warn _)

theorem term_invalidValue (W : DataWorld V) (hW : W.Terminates) (o : Opts) (f : FieldDecl V) (e : Exc) (raw : V)
    (b : Bool) : Term (invalidValue W o f e raw b) := by
  unfold invalidValue
  term_auto
  all_goals dterm_close hW

theorem term_fieldConvert (W : DataWorld V) (hW : W.Terminates) (o : Opts) (f : FieldDecl V) (t : Ty) (v raw : V)
    (b : Bool) : Term (fieldConvert W o f t v raw b) := by
  have hi := fun e => term_invalidValue W hW o f e raw b
  unfold fieldConvert
  term_auto
  all_goals first | exact hi _ | dterm_close hW

theorem term_parseValue (W : DataWorld V) (hW : W.Terminates) (L : Legacy) (o : Opts) (f : FieldDecl V)
    (v : V) (b : Bool) : Term (parseValue W L o f v b) := by
  have h := term_fieldConvert W hW o f
  have hi := fun e => term_invalidValue W hW o f e v b
  unfold parseValue
  term_auto
  all_goals first | exact h _ _ _ _ | exact hi _ | dterm_close hW

theorem term_parseAddition (W : DataWorld V) (hW : W.Terminates) (o : Opts) (P : ParserDecl V) (k : Nat)
    (v : V) : Term (parseAddition W o P k v) := by
  unfold parseAddition
  term_auto
  all_goals dterm_close hW

theorem term_aliasConflict (W : DataWorld V) (hW : W.Terminates) (L : Legacy) (a b : V) :
    Term (aliasConflict W L a b) := by
  unfold aliasConflict
  term_auto
  all_goals dterm_close hW

theorem term_dfScan (W : DataWorld V) (hW : W.Terminates) (L : Legacy) (P : ParserDecl V)
    (data : List (Nat × V)) : ∀ inputs conflicts, Term (dfScan W L P data inputs conflicts) := by
  have hac := term_aliasConflict W hW L
  induction data with
  | nil => intro inputs conflicts; exact term_pure _
  | cons kv rest ih =>
    intro inputs conflicts
    obtain ⟨key, v⟩ := kv
    unfold dfScan
    term_auto
    all_goals first | exact ih _ _ | exact hac _ _

theorem term_dfItems (W : DataWorld V) (hW : W.Terminates) (L : Legacy) (o : Opts) (P : ParserDecl V)
    (ex : List Nat) (cf : List Nat) (inputs : List (Given V)) : ∀ a, Term (dfItems W L o P ex cf inputs a) := by
  have hpv := term_parseValue W hW L o
  have hpa := term_parseAddition W hW o P
  induction inputs with
  | nil => intro a; exact term_pure _
  | cons g rest ih =>
    intro a
    unfold dfItems
    term_auto
    all_goals first | exact ih _ | exact hpv _ _ _ | exact hpa _ _

theorem term_dfMissing (o : Opts) (ex : List Nat) (given : List Nat) (fs : List (FieldDecl V)) :
    ∀ a, Term (dfMissing o ex given fs a) := by
  induction fs with
  | nil => intro a; exact term_pure _
  | cons f fs ih =>
    intro a
    unfold dfMissing
    term_auto
    all_goals exact ih _

theorem term_caseConflict (W : DataWorld V) (hW : W.Terminates) (L : Legacy)
    (first : V) (xs : List V) : Term (caseConflict W L first xs) := by
  have hac := term_aliasConflict W hW L
  induction xs with
  | nil => exact term_pure _
  | cons x xs ih =>
    unfold caseConflict
    term_auto
    all_goals exact hac _ _

theorem term_ffConflicts (W : DataWorld V) (hW : W.Terminates) (L : Legacy)
    (value : V) (xs : List (V × List V)) : Term (ffConflicts W L value xs) := by
  have hac := term_aliasConflict W hW L
  have hcc := term_caseConflict W hW L
  induction xs with
  | nil => exact term_pure _
  | cons x xs ih =>
    obtain ⟨x, variants⟩ := x
    unfold ffConflicts
    term_auto
    all_goals first | exact hac _ _ | exact hcc _ _

theorem term_ffFields (W : DataWorld V) (hW : W.Terminates) (L : Legacy) (o : Opts) (ex : List Nat)
    (data : List (Nat × V)) (fs : List (FieldDecl V)) : ∀ a, Term (ffFields W L o ex data fs a) := by
  have hpv := term_parseValue W hW L o
  have hfc := term_ffConflicts W hW L
  have hcc := term_caseConflict W hW L
  induction fs with
  | nil => intro a; exact term_pure _
  | cons f fs ih =>
    intro a
    unfold ffFields
    term_auto
    all_goals first | exact ih _ | exact hpv _ _ _ | exact hfc _ _ | exact hcc _ _

theorem term_ffAddition (W : DataWorld V) (hW : W.Terminates) (o : Opts) (P : ParserDecl V) (used : List Nat)
    (data : List (Nat × V)) : ∀ acc, Term (ffAddition W o P used data acc) := by
  have hpa := term_parseAddition W hW o P
  induction data with
  | nil => intro acc; exact term_pure _
  | cons kv rest ih =>
    intro acc
    obtain ⟨k, v⟩ := kv
    unfold ffAddition
    term_auto
    all_goals first | exact ih _ | exact hpa _ _

theorem term_parseData (W : DataWorld V) (hW : W.Terminates) (L : Legacy) (o : Opts) (P : ParserDecl V)
    (ex : List Nat) (data : List (Nat × V)) : Term (parseData W L o P ex data) := by
  have h0 := term_dfScan W hW L P data
  have h1 := term_dfItems W hW L o P ex
  have h2 := term_dfMissing (V := V) o ex
  have h4 := term_ffFields W hW L o ex data P.fields
  have h5 := term_ffAddition W hW o P
  unfold parseData dataFirstParse fieldFirstParse depsCheck
  term_auto
  all_goals first | exact h0 _ _ | exact h1 _ _ _ | exact h2 _ _ _ | exact h4 _ | exact h5 _ _ _

/-- **data-class construction terminates whenever the field converters and the post-init hook do** -/
theorem C04_class_init_terminates (W : DataWorld V) (hW : W.Terminates) (L : Legacy) (o : Opts)
    (P : ParserDecl V) (postInit : M Unit) (hpost : Term postInit) (kw : List (Nat × V)) (schema : Bool) :
    Term (classInit W L o P postInit kw schema) := by
  have h := term_parseData W hW L o P [] kw
  unfold classInit parserCall
  term_auto

theorem C04_init_dataclass_terminates (W : DataWorld V) (hW : W.Terminates) (L : Legacy) (declared : Opts)
    (given ctx : Option Opts) (P : ParserDecl V) (postInit : M Unit) (hpost : Term postInit) (data : V)
    (schema : Bool) : Term (initDataclass W L declared given ctx P postInit data schema) := by
  have h := fun o kw => C04_class_init_terminates W hW L o P postInit hpost kw schema
  unfold initDataclass
  term_auto
  all_goals first | exact h _ _ | dterm_close hW | exact term_parseData W hW L _ P [] _

theorem term_posArgs (W : DataWorld V) (hW : W.Terminates) (L : Legacy) (o : Opts) (F : FuncDecl V)
    (xs : List V) : ∀ i args keys, Term (posArgs W L o F xs i args keys) := by
  have hpv := term_parseValue W hW L o
  induction xs with
  | nil => intro i args keys; exact term_pure _
  | cons x xs ih =>
    intro i args keys
    unfold posArgs parsePosType
    term_auto
    all_goals first | exact ih _ _ _ | exact hpv _ _ _ | dterm_close hW

theorem term_posOnlyMissing (o : Opts) (F : FuncDecl V) (fs : List (Nat × FieldDecl V)) :
    ∀ args keys, Term (posOnlyMissing o F fs args keys) := by
  induction fs with
  | nil => intro args keys; exact term_pure _
  | cons f fs ih =>
    intro args keys
    obtain ⟨index, f⟩ := f
    unfold posOnlyMissing
    term_auto
    all_goals exact ih _ _

/-- **a decorated call terminates whenever the converters and the body do** -/
theorem C04_call_terminates (W : DataWorld V) (hW : W.Terminates) (L : Legacy) (o : Opts) (F : FuncDecl V)
    (body : List V → List (Nat × V) → M V) (hbody : ∀ a k, Term (body a k)) (args : List V)
    (kw : List (Nat × V)) : Term (syncCall W L o F body args kw) := by
  have h1 := term_posArgs W hW L o F args
  have h2 := term_posOnlyMissing o F F.posOnly
  have h3 := fun ex => term_parseData W hW L o F.parser ex kw
  unfold syncCall parseParams parseResult
  term_auto
  all_goals first | exact h1 _ _ _ | exact h2 _ _ | exact h3 _ | exact hbody _ _ | dterm_close hW

/-! ## trace statements: the body is entered / attributes are set only after a successful parse -/

/-- every component leaves the event trace alone (only the entry points emit `enterBody`/`attrsSet`/`postInit`) -/
structure DataWorld.QuietW (W : DataWorld V) : Prop where
  conv : ∀ t v, Quiet (W.conv t v)
  warn : ∀ s, Quiet (W.warn s)
  toDict : ∀ v, Quiet (W.toDict v)
  castKeys : ∀ v, Quiet (W.castKeys v)
  readMapping : ∀ v, Quiet (W.readMapping v)
  discLookup : ∀ f v, Quiet (W.discLookup f v)
  neq : ∀ a b, Quiet (W.neq a b)

macro "quiet_close" hW:ident : tactic => `(tactic| first
  | exact ($hW).conv _ _ | exact ($hW).warn _ | exact ($hW).toDict _ | exact ($hW).castKeys _
  | exact ($hW).readMapping _ | exact ($hW).discLookup _ _ | exact ($hW).neq _ _)

theorem quiet_invalidValue (W : DataWorld V) (hW : W.QuietW) (o : Opts) (f : FieldDecl V) (e : Exc) (raw : V) (b : Bool) :
    Quiet (invalidValue W o f e raw b) := by
  unfold invalidValue
  quiet_auto
  all_goals quiet_close hW

theorem quiet_fieldConvert (W : DataWorld V) (hW : W.QuietW) (o : Opts) (f : FieldDecl V) (t : Ty) (v raw : V) (b : Bool) :
    Quiet (fieldConvert W o f t v raw b) := by
  have hi := fun e => quiet_invalidValue W hW o f e raw b
  unfold fieldConvert
  quiet_auto
  all_goals first | exact hi _ | quiet_close hW

theorem quiet_parseValue (W : DataWorld V) (hW : W.QuietW) (L : Legacy) (o : Opts) (f : FieldDecl V) (v : V) (b : Bool) :
    Quiet (parseValue W L o f v b) := by
  have h := quiet_fieldConvert W hW o f
  have hi := fun e => quiet_invalidValue W hW o f e v b
  unfold parseValue
  quiet_auto
  all_goals first | exact h _ _ _ _ | exact hi _ | quiet_close hW

theorem quiet_parseAddition (W : DataWorld V) (hW : W.QuietW) (o : Opts) (P : ParserDecl V) (k : Nat) (v : V) :
    Quiet (parseAddition W o P k v) := by
  unfold parseAddition
  quiet_auto
  all_goals quiet_close hW

theorem quiet_aliasConflict (W : DataWorld V) (hW : W.QuietW) (L : Legacy) (a b : V) : Quiet (aliasConflict W L a b) := by
  unfold aliasConflict
  quiet_auto
  all_goals quiet_close hW

theorem quiet_dfScan (W : DataWorld V) (hW : W.QuietW) (L : Legacy) (P : ParserDecl V) (data : List (Nat × V)) :
    ∀ inputs conflicts, Quiet (dfScan W L P data inputs conflicts) := by
  have hac := quiet_aliasConflict W hW L
  induction data with
  | nil => intro inputs conflicts; exact quiet_pure _
  | cons kv rest ih =>
    intro inputs conflicts
    obtain ⟨key, v⟩ := kv
    unfold dfScan
    quiet_auto
    all_goals first | exact ih _ _ | exact hac _ _

theorem quiet_dfItems (W : DataWorld V) (hW : W.QuietW) (L : Legacy) (o : Opts) (P : ParserDecl V) (ex cf : List Nat)
    (inputs : List (Given V)) : ∀ a, Quiet (dfItems W L o P ex cf inputs a) := by
  have hpv := quiet_parseValue W hW L o
  have hpa := quiet_parseAddition W hW o P
  induction inputs with
  | nil => intro a; exact quiet_pure _
  | cons g rest ih =>
    intro a
    unfold dfItems
    quiet_auto
    all_goals first | exact ih _ | exact hpv _ _ _ | exact hpa _ _

theorem quiet_dfMissing (o : Opts) (ex given : List Nat) (fs : List (FieldDecl V)) :
    ∀ a, Quiet (dfMissing o ex given fs a) := by
  induction fs with
  | nil => intro a; exact quiet_pure _
  | cons f fs ih =>
    intro a
    unfold dfMissing
    quiet_auto
    all_goals exact ih _

theorem quiet_caseConflict (W : DataWorld V) (hW : W.QuietW) (L : Legacy) (first : V) (xs : List V) :
    Quiet (caseConflict W L first xs) := by
  have hac := quiet_aliasConflict W hW L
  induction xs with
  | nil => exact quiet_pure _
  | cons x xs ih =>
    unfold caseConflict
    quiet_auto
    all_goals exact hac _ _

theorem quiet_ffConflicts (W : DataWorld V) (hW : W.QuietW) (L : Legacy) (value : V) (xs : List (V × List V)) :
    Quiet (ffConflicts W L value xs) := by
  have hac := quiet_aliasConflict W hW L
  have hcc := quiet_caseConflict W hW L
  induction xs with
  | nil => exact quiet_pure _
  | cons x xs ih =>
    obtain ⟨x, variants⟩ := x
    unfold ffConflicts
    quiet_auto
    all_goals first | exact hac _ _ | exact hcc _ _

theorem quiet_ffFields (W : DataWorld V) (hW : W.QuietW) (L : Legacy) (o : Opts) (ex : List Nat) (data : List (Nat × V))
    (fs : List (FieldDecl V)) : ∀ a, Quiet (ffFields W L o ex data fs a) := by
  have hpv := quiet_parseValue W hW L o
  have hfc := quiet_ffConflicts W hW L
  have hcc := quiet_caseConflict W hW L
  induction fs with
  | nil => intro a; exact quiet_pure _
  | cons f fs ih =>
    intro a
    unfold ffFields
    quiet_auto
    all_goals first | exact ih _ | exact hpv _ _ _ | exact hfc _ _ | exact hcc _ _

theorem quiet_ffAddition (W : DataWorld V) (hW : W.QuietW) (o : Opts) (P : ParserDecl V) (used : List Nat)
    (data : List (Nat × V)) : ∀ acc, Quiet (ffAddition W o P used data acc) := by
  have hpa := quiet_parseAddition W hW o P
  induction data with
  | nil => intro acc; exact quiet_pure _
  | cons kv rest ih =>
    intro acc
    obtain ⟨k, v⟩ := kv
    unfold ffAddition
    quiet_auto
    all_goals first | exact ih _ | exact hpa _ _

theorem quiet_parseData (W : DataWorld V) (hW : W.QuietW) (L : Legacy) (o : Opts) (P : ParserDecl V) (ex : List Nat)
    (data : List (Nat × V)) : Quiet (parseData W L o P ex data) := by
  have h0 := quiet_dfScan W hW L P data
  have h1 := quiet_dfItems W hW L o P ex
  have h2 := quiet_dfMissing (V := V) o ex
  have h4 := quiet_ffFields W hW L o ex data P.fields
  have h5 := quiet_ffAddition W hW o P
  unfold parseData dataFirstParse fieldFirstParse depsCheck
  quiet_auto
  all_goals first | exact h0 _ _ | exact h1 _ _ _ | exact h2 _ _ _ | exact h4 _ | exact h5 _ _ _

theorem quiet_parserCall (W : DataWorld V) (hW : W.QuietW) (L : Legacy) (o : Opts) (P : ParserDecl V)
    (data : List (Nat × V)) : Quiet (parserCall W L o P data) := by
  have h := quiet_parseData W hW L o P [] data
  unfold parserCall
  quiet_auto

theorem quiet_posArgs (W : DataWorld V) (hW : W.QuietW) (L : Legacy) (o : Opts) (F : FuncDecl V) (xs : List V) :
    ∀ i args keys, Quiet (posArgs W L o F xs i args keys) := by
  have hpv := quiet_parseValue W hW L o
  induction xs with
  | nil => intro i args keys; exact quiet_pure _
  | cons x xs ih =>
    intro i args keys
    unfold posArgs parsePosType
    quiet_auto
    all_goals first | exact ih _ _ _ | exact hpv _ _ _ | quiet_close hW

theorem quiet_posOnlyMissing (o : Opts) (F : FuncDecl V) (fs : List (Nat × FieldDecl V)) :
    ∀ args keys, Quiet (posOnlyMissing o F fs args keys) := by
  induction fs with
  | nil => intro args keys; exact quiet_pure _
  | cons f fs ih =>
    intro args keys
    obtain ⟨index, f⟩ := f
    unfold posOnlyMissing
    quiet_auto
    all_goals exact ih _ _

theorem quiet_parseParams (W : DataWorld V) (hW : W.QuietW) (L : Legacy) (o : Opts) (F : FuncDecl V) (args : List V)
    (kw : List (Nat × V)) : Quiet (parseParams W L o F args kw) := by
  have h1 := quiet_posArgs W hW L o F args
  have h2 := quiet_posOnlyMissing o F F.posOnly
  have h3 := fun ex => quiet_parseData W hW L o F.parser ex kw
  unfold parseParams
  quiet_auto
  all_goals first | exact h1 _ _ _ | exact h2 _ _ | exact h3 _

/-- **the body is entered only after the arguments parsed** (trace statement, any `Legacy`): if the call's trace holds
an `enterBody` event that was not there before — whatever the components did, as long as they do not write events
themselves — then `parse_params` returned normally, and it did so with nothing left in the context's error lists -/
theorem C04_body_entered_only_after_parse (W : DataWorld V) (hW : W.QuietW) (L : Legacy) (o : Opts) (F : FuncDecl V)
    (body : List V → List (Nat × V) → M V) (args : List V) (kw : List (Nat × V)) (s : St)
    (hnot : Ev.enterBody ∉ s.trace)
    (hin : Ev.enterBody ∈ (syncCall W L o F body args kw s).2.trace) :
    ∃ p s1, parseParams W L o F args kw s = (.ok p, s1) := by
  have hq := (quiet_parseParams W hW L o F args kw).h s
  unfold syncCall at hin
  rw [bind_apply] at hin
  rcases h : parseParams W L o F args kw s with ⟨r, s1⟩
  rw [h] at hin hq
  cases r with
  | ok p => exact ⟨p, s1, rfl⟩
  | raise e => simp only at hin hq; rw [hq] at hin; exact absurd hin hnot
  | diverge => simp only at hin hq; rw [hq] at hin; exact absurd hin hnot

/-- **`parse_params` hands arguments to the body only with a clean context**: a result comes out only if nothing is
left in `errors` / `tmp_errors` of the CALL's context — an error of a positional, keyword or `*args` item that was
handled (under collect_errors: collected) is therefore never lost on the way to the final `raise_error`
(func.py:598 reports a failed `*args` item to the call's context, not to the item's child context) -/
theorem C04_parse_params_ok_clean (W : DataWorld V) (L : Legacy) (o : Opts) (F : FuncDecl V) (args : List V)
    (kw : List (Nat × V)) (s s' : St) (p : List V × List (Nat × V))
    (hok : parseParams W L o F args kw s = (.ok p, s')) : s'.errors = [] ∧ s'.tmp = [] := by
  unfold parseParams at hok
  by_cases hdb : doubleBound F args kw = true
  · simp [hdb, raise] at hok
  have hdb' : doubleBound F args kw = false := by simpa using hdb
  simp only [hdb', Bool.false_eq_true, if_false] at hok
  rw [bind_apply] at hok
  rcases h1 : posArgs W L o F args 0 [] [] s with ⟨r1, s1⟩
  rw [h1] at hok
  cases r1 with
  | raise e => simp at hok
  | diverge => simp at hok
  | ok a1 =>
    obtain ⟨pa, keys⟩ := a1
    simp only at hok
    rw [bind_apply] at hok
    rcases h2 : posOnlyMissing o F F.posOnly pa keys s1 with ⟨r2, s2⟩
    rw [h2] at hok
    cases r2 with
    | raise e => simp at hok
    | diverge => simp at hok
    | ok a2 =>
      obtain ⟨pa2, keys2⟩ := a2
      simp only at hok
      rw [bind_apply] at hok
      rcases h3 : parseData W L o F.parser keys2 kw s2 with ⟨r3, s3⟩
      rw [h3] at hok
      cases r3 with
      | raise e => simp at hok
      | diverge => simp at hok
      | ok kw3 =>
        simp only at hok
        rw [bind_apply] at hok
        unfold raiseError at hok
        by_cases hc : (s3.errors.isEmpty && s3.tmp.isEmpty) = true
        · simp only [hc, if_true] at hok
          simp only [pure_apply, Prod.mk.injEq, Res.ok.injEq] at hok
          obtain ⟨_, rfl⟩ := hok
          simp only [Bool.and_eq_true, List.isEmpty_iff] at hc
          exact hc
        · simp only [hc] at hok
          simp at hok

/-- hence: an `enterBody` event implies arguments that parsed AND a context without collected errors -/
theorem C04_body_entered_only_with_clean_context (W : DataWorld V) (hW : W.QuietW) (L : Legacy) (o : Opts) (F : FuncDecl V)
    (body : List V → List (Nat × V) → M V) (args : List V) (kw : List (Nat × V)) (s : St)
    (hnot : Ev.enterBody ∉ s.trace)
    (hin : Ev.enterBody ∈ (syncCall W L o F body args kw s).2.trace) :
    ∃ p s1, parseParams W L o F args kw s = (.ok p, s1) ∧ s1.errors = [] ∧ s1.tmp = [] := by
  obtain ⟨p, s1, h⟩ := C04_body_entered_only_after_parse W hW L o F body args kw s hnot hin
  exact ⟨p, s1, h, C04_parse_params_ok_clean W L o F args kw s s1 p h⟩

/-- **attributes are set only after a clean parse** (trace statement for `Cls(**kw)` and for the running options of
any other entry): an `attrsSet` event that was not there before implies that `BaseParser.__call__` returned a
result and left nothing in `errors` / `tmp_errors` -/
theorem C04_instance_only_after_clean_parse (W : DataWorld V) (hW : W.QuietW) (L : Legacy) (o : Opts) (P : ParserDecl V)
    (postInit : M Unit) (kw : List (Nat × V)) (schema : Bool) (s : St)
    (hnot : Ev.attrsSet ∉ s.trace)
    (hin : Ev.attrsSet ∈ (classInit W L o P postInit kw schema s).2.trace) :
    ∃ r s1, parserCall W L o P kw s = (.ok r, s1) ∧ s1.errors = [] ∧ s1.tmp = [] := by
  have hq := (quiet_parserCall W hW L o P kw).h s
  unfold classInit at hin
  rw [bind_apply] at hin
  rcases h : parserCall W L o P kw s with ⟨r, s1⟩
  rw [h] at hin hq
  cases r with
  | ok a => exact ⟨a, s1, rfl, C04_parser_call_ok_clean W L o P kw s s1 a h⟩
  | raise e => simp only at hin hq; rw [hq] at hin; exact absurd hin hnot
  | diverge => simp only at hin hq; rw [hq] at hin; exact absurd hin hnot

theorem quiet_keywordData (W : DataWorld V) (hW : W.QuietW) (L : Legacy) (o : Opts) (d : V) : Quiet (keywordData W L o d) := by
  unfold keywordData
  quiet_auto
  all_goals quiet_close hW

/-- the same for `Cls.__from__` / `init_dataclass` / `type_transform` / a nested field: an `attrsSet` event implies
that reading the mapping succeeded and that the parse under the RUNNING options was clean -/
theorem C04_instance_only_after_clean_parse_init_dataclass (W : DataWorld V) (hW : W.QuietW) (L : Legacy)
    (declared : Opts) (given ctx : Option Opts) (P : ParserDecl V) (postInit : M Unit) (data : V) (schema : Bool) (s : St)
    (hnot : Ev.attrsSet ∉ s.trace)
    (hin : Ev.attrsSet ∈ (initDataclass W L declared given ctx P postInit data schema s).2.trace) :
    ∃ kw s0 r s1, Ev.attrsSet ∉ s0.trace ∧
      parserCall W L (runningOpts declared given ctx) P kw s0 = (.ok r, s1) ∧ s1.errors = [] ∧ s1.tmp = [] := by
  have hk := quiet_keywordData W hW L (runningOpts declared given ctx)
  unfold initDataclass at hin
  simp only at hin
  rw [bind_apply] at hin
  have hq0 := (quiet_enterCheck W.toWorld 0).h s
  rcases h0 : enterCheck W.toWorld 0 s with ⟨r0, s0⟩
  rw [h0] at hin hq0
  cases r0 with
  | raise e => simp only at hin hq0; rw [hq0] at hin; exact absurd hin hnot
  | diverge => simp only at hin hq0; rw [hq0] at hin; exact absurd hin hnot
  | ok u =>
    simp only at hin hq0
    rw [bind_apply] at hin
    have hq1 : Quiet (tryExcept (do
        let d ← if W.isMapping data = true then pure data
          else if (runningOpts declared given ctx).noExplicitCast = true then raise (builtinExc K.typeError)
          else W.toDict data
        keywordData W L (runningOpts declared given ctx) d)
      (fun e => raise (wrap Site.initDataclass e))) := by
      quiet_auto
      all_goals first | exact hk _ | quiet_close hW
    have hq1s := hq1.h s0
    generalize hm : (tryExcept (do
        let d ← if W.isMapping data = true then pure data
          else if (runningOpts declared given ctx).noExplicitCast = true then raise (builtinExc K.typeError)
          else W.toDict data
        keywordData W L (runningOpts declared given ctx) d)
      (fun e => raise (wrap Site.initDataclass e))) s0 = res at hin hq1s
    obtain ⟨r1, s1⟩ := res
    have hn1 : Ev.attrsSet ∉ s1.trace := by simp only at hq1s; rw [hq1s, hq0]; exact hnot
    cases r1 with
    | raise e => simp only at hin; exact absurd hin hn1
    | diverge => simp only at hin; exact absurd hin hn1
    | ok d =>
      simp only at hin
      by_cases c1 : (L.nonStrKeys && !(runningOpts declared given ctx).castKeywordStr && !W.strKeyed d) = true
      · simp only [c1, if_true, raise] at hin; exact absurd hin hn1
      · simp only [c1] at hin
        by_cases c2 : (L.initNamedParams && W.reservedKey d) = true
        · simp only [c2, if_true, raise] at hin; exact absurd hin hn1
        · simp only [c2] at hin
          obtain ⟨r, s2, h1, h2, h3⟩ :=
            C04_instance_only_after_clean_parse W hW L _ P postInit (W.unpack d) schema s1 hn1 (by simpa using hin)
          exact ⟨W.unpack d, s1, r, s2, hn1, h1, h2, h3⟩

/-! ## the timestamp loops of `to_datetime` (transform.py:515-519, 550-557) -/

/-- the model loop returns `y` exactly when Python's `while` stops at `y` after finitely many iterations -/
theorem C04_ts_loop_ok_iff (x y : Ts) :
    tsLoop x = .ok y ↔ ∃ fuel, whileFuel Ts.gtW Ts.div1000 fuel x = some y := tsLoop_ok_iff x y

/-- the model says `diverge` exactly when Python's `while` is still running after any number of iterations -/
theorem C04_ts_loop_diverges_iff (x : Ts) :
    tsLoop x = .diverge ↔ ∀ fuel, whileFuel Ts.gtW Ts.div1000 fuel x = none := tsLoop_diverge_iff x

/-- **the loop terminates on every finite number (and on NaN) and diverges exactly on ±inf** -/
theorem C04_ts_loop_diverges_exactly_on_inf (x : Ts) :
    (∀ fuel, whileFuel Ts.gtW Ts.div1000 fuel x = none) ↔ ∃ s, x = .inf s := by
  rw [← tsLoop_diverge_iff]; exact tsLoop_diverge_iff_inf x

/-- every finite input leaves the loop, below the watershed, after `loopK` divisions by 1000 -/
theorem C04_ts_loop_finite_terminates (s : Bool) (n q : Nat) :
    whileFuel Ts.gtW Ts.div1000 (loopK n q + 1) (.fin s n q) = some (.fin s n (loopQ n q))
    ∧ (Ts.fin s n (loopQ n q)).gtW = false := by
  refine ⟨whileFuel_fin s n q, ?_⟩
  simp only [Ts.gtW, decide_eq_false_iff_not]
  exact loopQ_exit n q

/-- **with the finiteness guard (fixes/C04-datetime-nonfinite-loop) the numeric branch always comes back** -/
theorem C04_ts_normalize_terminates (x : Ts) : Term (tsNormalize false x) := by
  constructor
  intro s
  cases x <;> simp [tsNormalize, Ts.isFinite, tsLoop, raise, Res.diverges]

/-- negation for the code as it was: `datetime(float('inf'))` never returns -/
theorem C04_legacy_ts_hang_witness : (tsNormalize true (.inf false) {}).1.diverges = true := by decide

/-- the numeric branch of `to_datetime` as a whole (guard, loop, `utcfromtimestamp`) comes back on EVERY numeric input —
finite, ±inf, NaN, an int or a Decimal beyond the float range — as soon as `utcfromtimestamp` does -/
theorem C04_to_datetime_numeric_terminates (fromTs : Ts → M V) (hf : ∀ y, Term (fromTs y)) (x : TsIn) :
    Term (toDatetimeNumeric false fromTs x) := by
  unfold toDatetimeNumeric
  apply term_bind
  · cases x with
    | num x => exact C04_ts_normalize_terminates x
    | hugeInt => exact term_raise _
    | hugeDec s n q => exact term_raise _
  · exact hf

/-- hence a converter that IS this branch discharges its own `Terminates.conv` obligation: the hypothesis of the
`*_terminates` theorems is not left open for the datetime leaf on numeric input -/
theorem C04_datetime_leaf_discharges_conv (W : World V) (tdt : Ty) (fromTs : Ts → M V) (cl : V → TsIn)
    (hconv : ∀ v, W.conv tdt v = toDatetimeNumeric false fromTs (cl v)) (hf : ∀ y, Term (fromTs y)) :
    ∀ v, Term (W.conv tdt v) := by
  intro v; rw [hconv]; exact C04_to_datetime_numeric_terminates fromTs hf (cl v)

/-- and before the guard it did not: `datetime(float('inf'))` as a converter call -/
theorem C04_legacy_to_datetime_numeric_hangs (fromTs : Ts → M V) :
    (toDatetimeNumeric true fromTs (.num (.inf false)) {}).1.diverges = true := rfl

/-! ## composition: nested types terminate because their parts do (structural recursion on a finite type tree) -/

/-- one nested declaration: the type id it is known by, and how it is parsed -/
inductive Nested where
  | rule (t : Ty) (R : RuleDecl)
  | logical (t : Ty) (c : Comb) (args : List Ty)

/-- the world in which one more type id is a nested constrained / logical type, parsed by the MODEL's own
`ruleParse` / `logicalParse` over the world below it (this is what `transform_rule` does, rule.py:2096-2098) -/
def nest (W : World V) (L : Legacy) (o : Opts) : Nested → World V
  | .rule t₀ R => { W with
      conv := fun t v => if t == t₀ then ruleParse W L o R v else W.conv t v
      convAt := fun st t v => if t == t₀ then ruleParse W L o R v else W.convAt st t v }
  | .logical t₀ c args => { W with
      conv := fun t v => if t == t₀ then logicalParse W L o c args v else W.conv t v
      convAt := fun st t v => if t == t₀ then logicalParse W L o c args v else W.convAt st t v }

/-- a finite type tree, innermost declarations first: each may refer to the leaves and to the ones before it -/
def nestAll (W : World V) (L : Legacy) (o : Opts) : List Nested → World V
  | [] => W
  | d :: ds => nestAll (nest W L o d) L o ds

theorem nest_terminates (W : World V) (hW : W.Terminates) (L : Legacy) (o : Opts) (d : Nested) :
    (nest W L o d).Terminates := by
  cases d with
  | rule t₀ R =>
    refine ⟨?_, ?_, hW.construct, hW.insertKey, hW.validate, hW.readItems, hW.readPairs, hW.warn, hW.keyStr, hW.pre, hW.post⟩
    · intro t v; simp only [nest]; split
      · exact C04_rule_parse_terminates W hW L o R v
      · exact hW.conv t v
    · intro st t v; simp only [nest]; split
      · exact C04_rule_parse_terminates W hW L o R v
      · exact hW.convAt st t v
  | logical t₀ c args =>
    refine ⟨?_, ?_, hW.construct, hW.insertKey, hW.validate, hW.readItems, hW.readPairs, hW.warn, hW.keyStr, hW.pre, hW.post⟩
    · intro t v; simp only [nest]; split
      · exact C04_logical_terminates W hW L o c args v
      · exact hW.conv t v
    · intro st t v; simp only [nest]; split
      · exact C04_logical_terminates W hW L o c args v
      · exact hW.convAt st t v

/-- **composition**: over leaf components that each come back, every finite tree of nested constrained and logical
types comes back — by induction on the list of declarations, not by assuming it of the nested converters -/
theorem C04_type_tree_terminates (W : World V) (hW : W.Terminates) (L : Legacy) (o : Opts) (ds : List Nested) :
    (nestAll W L o ds).Terminates := by
  induction ds generalizing W with
  | nil => exact hW
  | cons d ds ih => exact ih (nest W L o d) (nest_terminates W hW L o d)

/-- in particular the entry point on top of the tree -/
theorem C04_rule_parse_over_tree_terminates (W : World V) (hW : W.Terminates) (L : Legacy) (o : Opts)
    (ds : List Nested) (R : RuleDecl) (v : V) : Term (ruleParse (nestAll W L o ds) L o R v) :=
  C04_rule_parse_terminates _ (C04_type_tree_terminates W hW L o ds) L o R v

/-- the same composition for the no-escape side: a nested constrained type is itself a component that lets only
ParseError out, so the hypothesis-free `Safe` of its parent is not an assumption about it but a consequence -/
theorem C04_nested_rule_is_safe_component (W : World V) (hw : ∀ s, Safe (W.warn s)) (o : Opts) (t₀ : Ty) (R : RuleDecl)
    (hpre : ∀ v, Safe (W.pre v)) (hpost : ∀ v, Safe (W.post v)) (v : V) :
    Safe ((nest W Legacy.none o (.rule t₀ R)).conv t₀ v) := by
  simp only [nest, beq_self_eq_true, if_true]
  exact C04_rule_parse_no_escape W hw o R v hpre hpost

/-- the `while` of `posOnlyMissing` (func.py:666-670) is given `index` units of fuel: it never runs out — when
`fillExcluded` stops, the loop condition is false or the loop has hit its `break` -/
theorem fillExcluded_fuel_sufficient (F : FuncDecl V) (index : Nat) :
    ∀ (fuel : Nat) (args : List V), index ≤ args.length + fuel →
      let r := fillExcluded F index fuel args
      ¬ (r.length < index ∧ F.excludeIndexes.contains r.length = true ∧ (F.excludeDefault r.length).isSome = true) := by
  intro fuel
  induction fuel with
  | zero =>
    intro args h
    simp only [fillExcluded]
    intro hc; omega
  | succ k ih =>
    intro args h
    simp only [fillExcluded]
    split
    · rename_i hcond
      split
      · rename_i hnone
        intro hc
        simp [hnone] at hc
      · rename_i d hsome
        apply ih
        simp only [List.length_append, List.length_singleton]; omega
    · rename_i hcond
      intro hc
      apply hcond
      have h2 := hc.2.1
      simp only [Bool.and_eq_true, decide_eq_true_eq]
      exact ⟨hc.1, h2⟩

/-! ## the pre-fix sites do let other exceptions out (concrete worlds; the same worlds are safe when fixed) -/

/-- a world over `V = Nat` in which type 1 never converts (TypeError) and type 2 raises KeyError -/
def wWorld : World Nat where
  conv := fun t v => if t == 1 then raise (builtinExc K.typeError)
                     else if t == 2 then raise (builtinExc 102) else pure v
  convAt := fun _ t v => if t == 1 then raise (builtinExc K.typeError) else pure v
  depthExceeded := fun _ => false
  isNone := fun _ => false
  typeIs := fun _ _ => false
  readItems := fun v => pure (if v == 5 then [7] else [])
  indexable := fun _ => false           -- a set
  readPairs := fun v => pure (if v == 5 then [(1, 2)] else [])
  warn := fun _ => pure ()
  ofList := fun _ => 9
  ofTuple := fun _ => 9
  ofPairs := fun _ => 9
  construct := fun t v => if t == 3 then raise (builtinExc K.typeError) else pure v   -- unhashable items
  insertKey := fun _ => raise (builtinExc K.typeError)                                -- unhashable key
  keyStr := fun _ => raise (builtinExc 108)                                           -- a key whose __str__ raises
  validate := fun _ v => pure v
  pre := pure
  post := pure
  isTypeOrValueError := fun c => c == K.typeError || c == K.valueError

def wData : DataWorld Nat where
  toWorld := wWorld
  isMapping := fun _ => true
  toDict := pure
  castKeys := pure
  readMapping := pure
  strKeyed := fun _ => false
  unpack := fun _ => []
  reservedKey := fun _ => true
  discLookup := fun _ _ => raise (builtinExc K.typeError)        -- unhashable discriminator value
  isBranchInstance := fun _ _ => false
  noInput := fun _ _ => false
  neq := fun _ _ => raise (builtinExc 107)                       -- Decimal('sNaN') != x
  depsLack := fun _ => false

/-- `Set[T]({'a'})`: the handler's `value[i]` on a set -/
theorem C04_legacy_seq_handler_witness :
    (ruleParse wWorld { seqIndex := true } {} { origin := some 0, args := .seq 1 } 5 {}).1.escapes = true
    ∧ (ruleParse wWorld Legacy.none {} { origin := some 0, args := .seq 1 } 5 {}).1.escapes = false := by
  decide

/-- `Tuple[int, str]((1,))` with `collect_errors`: IndexError from the handler -/
theorem C04_legacy_tuple_missing_witness :
    (ruleParse wWorld { tupleMissing := true } { collect := true } { origin := some 0, args := .tuple [0, 0] } 5 {}).1.escapes = true
    ∧ (ruleParse wWorld Legacy.none { collect := true } { origin := some 0, args := .tuple [0, 0] } 5 {}).1.escapes = false := by
  decide

/-- `Set[list]`: `origin(result)` on unhashable items -/
theorem C04_legacy_rewrap_witness :
    (ruleParse wWorld { rewrap := true } {} { origin := some 3, args := .seq 0 } 5 {}).1.escapes = true
    ∧ (ruleParse wWorld Legacy.none {} { origin := some 3, args := .seq 0 } 5 {}).1.escapes = false := by
  decide

/-- `Dict[list, int]`: `result[key] = val` with an unhashable converted key -/
theorem C04_legacy_map_insert_witness :
    (ruleParse wWorld { mapInsert := true } {} { origin := some 0, args := .map 0 none } 5 {}).1.escapes = true
    ∧ (ruleParse wWorld Legacy.none {} { origin := some 0, args := .map 0 none } 5 {}).1.escapes = false := by
  decide

/-- `contains=T` where converting an item raises neither TypeError nor ValueError -/
theorem C04_legacy_contains_witness :
    (ruleParse wWorld { containsNarrow := true } {} { origin := some 0, contains := some 2 } 5 {}).1.escapes = true
    ∧ (ruleParse wWorld Legacy.none {} { origin := some 0, contains := some 2 } 5 {}).1.escapes = false := by
  decide

/-- `(int & X)('abc')`: the raw TypeError is handed to `handle_error`, which re-raises it -/
theorem C04_legacy_allof_witness :
    (logicalParse wWorld { allOfRaw := true } {} .all [1] 5 {}).1.escapes = true
    ∧ (logicalParse wWorld Legacy.none {} .all [1] 5 {}).1.escapes = false := by
  decide

/-- the same field under two aliases, one value not comparable (`Decimal('sNaN')`) -/
theorem C04_legacy_alias_compare_witness :
    (parseData wData { aliasCompare := true } {} { fields := [{ id := 0, aliases := [0, 1] }] } [] [(0, 5), (1, 6)] {}).1.escapes = true
    ∧ (parseData wData Legacy.none {} { fields := [{ id := 0, aliases := [0, 1] }] } [] [(0, 5), (1, 6)] {}).1.escapes = false := by
  decide

/-- discriminator value that cannot be hashed -/
theorem C04_legacy_discriminator_witness :
    (parseValue wData { discLookup := true } {} { id := 0, disc := true } 5 false {}).1.escapes = true
    ∧ (parseValue wData Legacy.none {} { id := 0, disc := true } 5 false {}).1.escapes = false := by
  decide

/-- `Dict[int, int]({<key whose __str__ raises>: 1})`: the route f-string outside any try -/
theorem C04_legacy_map_key_str_witness :
    (ruleParse wWorld { mapKeyStr := true } {} { origin := some 0, args := .map 0 none } 5 {}).1.escapes = true
    ∧ (ruleParse wWorld Legacy.none {} { origin := some 0, args := .map 0 none } 5 {}).1.escapes = false := by
  decide

/-- a list subclass whose own `__iter__` raises: the parser loop header sat outside any try -/
theorem C04_legacy_raw_iteration_witness :
    (ruleParse { wWorld with readItems := fun _ => raise (builtinExc 102) } { rawIteration := true } {}
        { origin := some 0, args := .seq 0 } 5 {}).1.escapes = true
    ∧ (ruleParse { wWorld with readItems := fun _ => raise (builtinExc 102) } Legacy.none {}
        { origin := some 0, args := .seq 0 } 5 {}).1.escapes = false := by
  decide

/-- `S.__from__({'_obj_self': 1})`: the key collided with a parameter of the generated `__init__` -/
theorem C04_legacy_init_named_params_witness :
    (initDataclass { wData with strKeyed := fun _ => true } { initNamedParams := true } {} none none {} (pure ()) 5 false {}).1.escapes = true
    ∧ (initDataclass { wData with strKeyed := fun _ => true } Legacy.none {} none none {} (pure ()) 5 false {}).1.escapes = false := by
  decide

/-- KNOWN (not repaired): `collect_waring` calls `warnings.warn`; under a warnings filter that turns warnings into
errors the exclude / preserve policies raise the Warning from inside the handler.  The hypothesis `hw` of every
no-escape theorem is exactly the negation of this predicate. -/
def KnownDefect.warningsAsErrors (W : World V) : Prop := ¬ ∀ s, Safe (W.warn s)

theorem C04_warnings_as_errors_witness :
    KnownDefect.warningsAsErrors { wWorld with warn := fun _ => raise (builtinExc 120) }
    ∧ (ruleParse { wWorld with warn := fun _ => raise (builtinExc 120) } Legacy.none { invalidItems := .exclude }
        { origin := some 0, args := .seq 1 } 5 {}).1.escapes = true := by
  refine ⟨?_, by decide⟩
  intro h
  have := (h 0).h {}
  revert this
  decide

/-- `Cls.__from__({1: 'a'})`: a key that is not a str reached `cls.__init__(inst, **data)` -/
theorem C04_legacy_nonstring_keys_witness :
    (initDataclass wData { nonStrKeys := true } {} none none {} (pure ()) 5 false {}).1.escapes = true
    ∧ (initDataclass wData Legacy.none {} none none {} (pure ()) 5 false {}).1.escapes = false := by
  decide

/-! ## when the conversion glue walks through its input (Model/C04Iter.lean) -/

section Iteration
open Iter

/-- **a scalar target never consumes an input that `multi()` does not accept**: a lazy iterator / generator, an
object with only `__iter__` or only `__getitem__` is never walked through when an int, float, str, bytes, Decimal,
complex, bool, datetime, date, time, timedelta or UUID is asked for — so an endless one cannot make it hang -/
theorem C04_scalar_never_consumes_unsized (f : Flags) (hf : f.legacyDatetime = false) (s : Scalar) (k : InKind)
    (hk : isMulti k = false) : consumes f (.scalar s) k = false := by
  cases k <;> simp [isMulti] at hk <;> cases s <;> simp [consumes, attemptFrom, hf]

/-- **an array target consumes only what `multi()` accepts** (sized builtin containers): any other iterable is
wrapped as a single item, never walked through -/
theorem C04_array_consumes_only_multi (f : Flags) (same : Bool) (k : InKind)
    (h : consumes f (.array same) k = true) : isMulti k = true := by
  simp [consumes] at h
  exact h.2

/-- the only targets that read a lazy / `__iter__`-only / `__getitem__`-only input to its end are the mapping-like
ones (dict: "an iterable of key, value pairs"; a data class through `to_dict`), and never under no_explicit_cast -/
theorem C04_unsized_consumed_only_by_mapping_targets (f : Flags) (hf : f.legacyDatetime = false) (t : Target)
    (k : InKind) (hk : isMulti k = false) (h : consumes f t k = true) :
    (t = .mapping ∨ t = .dataclass) ∧ f.noExplicitCast = false := by
  cases t with
  | scalar s => rw [C04_scalar_never_consumes_unsized f hf s k hk] at h; cases h
  | array same => have := C04_array_consumes_only_multi f same k h; rw [hk] at this; cases this
  | mapping => simp [consumes] at h; exact ⟨Or.inl rfl, h.1⟩
  | dataclass => simp [consumes] at h; exact ⟨Or.inr rfl, h.1.1⟩

/-- whatever is consumed can be iterated, and a sized input is consumed by a scalar target only through
`_attempt_from` (non-empty, casts allowed, and a single item under no_data_loss) -/
theorem C04_scalar_consumes_sized_iff (f : Flags) (hf : f.legacyDatetime = false) (s : Scalar) (n : Nat)
    (h : consumes f (.scalar s) (.sized n) = true) :
    f.noExplicitCast = false ∧ n ≠ 0 ∧ (f.legacyAttemptFrom = true ∨ n = 1) := by
  cases s <;> simp [consumes, attemptFrom, hf] at h <;> exact ⟨h.1.1.1, h.1.1.2, h.2⟩

/-- **a scalar target never walks through more than one item of its input** (with `next(iter(value))`): whatever the
input is — sized, lazy, iterable — if it is consumed at all it had exactly one item -/
theorem C04_scalar_pulls_at_most_one (f : Flags) (hf : f.legacyDatetime = false) (ha : f.legacyAttemptFrom = false)
    (s : Scalar) (k : InKind) (h : consumes f (.scalar s) k = true) : k = .sized 1 := by
  cases k with
  | sized n =>
    have := (C04_scalar_consumes_sized_iff f hf s n h).2.2
    simp [ha] at this; rw [this]
  | lazy => rw [C04_scalar_never_consumes_unsized f hf s _ rfl] at h; cases h
  | iterable => rw [C04_scalar_never_consumes_unsized f hf s _ rfl] at h; cases h
  | getitem => rw [C04_scalar_never_consumes_unsized f hf s _ rfl] at h; cases h
  | text => rw [C04_scalar_never_consumes_unsized f hf s _ rfl] at h; cases h
  | scalar => rw [C04_scalar_never_consumes_unsized f hf s _ rfl] at h; cases h

/-- negation for `list(value)[0]`: a 40-item list was walked through to take its first item -/
theorem C04_legacy_attempt_from_walks_witness :
    consumes { legacyAttemptFrom := true } (.scalar .int) (.sized 40) = true
    ∧ consumes {} (.scalar .int) (.sized 40) = false := by decide

/-- negation for the code before fixes/C04-datetime-iterates-input: `"GMT" in data` walks through any iterable -/
theorem C04_legacy_datetime_walks_lazy_witness :
    consumes { legacyDatetime := true } (.scalar .datetime) .lazy = true
    ∧ consumes {} (.scalar .datetime) .lazy = false := by decide

end Iteration

/-! ## non-vacuity of the hypotheses used above -/

def idWorld : World Nat :=
  { wWorld with conv := fun _ v => pure v, convAt := fun _ _ v => pure v, construct := fun _ v => pure v,
                insertKey := fun _ => pure (), keyStr := fun _ => pure () }

example : idWorld.Terminates :=
  ⟨fun _ _ => term_pure _, fun _ _ _ => term_pure _, fun _ _ => term_pure _, fun _ => term_pure _,
   fun _ _ => term_pure _, fun _ => term_pure _, fun _ => term_pure _, fun _ => term_pure _, fun _ => term_pure _,
   fun _ => term_pure _, fun _ => term_pure _⟩

example : (∀ v, Safe (idWorld.pre v)) ∧ (∀ v, Safe (idWorld.post v)) :=
  ⟨fun _ => safe_pure _, fun _ => safe_pure _⟩


/-- `DataWorld.Terminates` is satisfiable by a world whose components RAISE (not only by the all-`pure` one) -/
example : (wData).Terminates := by
  refine ⟨⟨?_, ?_, ?_, ?_, ?_, ?_, ?_, ?_, ?_, ?_, ?_⟩, ?_, ?_, ?_, ?_, ?_⟩ <;> intros <;>
    first
    | exact term_pure _
    | exact term_raise _
    | (simp only [wData, wWorld]; split <;> first | exact term_raise _ | exact term_pure _ | (split <;> first | exact term_raise _ | exact term_pure _))

/-- the hypothesis `hbody` of `C04_call_no_escape` is satisfiable: a body that returns, and one that raises ParseError -/
example : (∀ (a : List Nat) (k : List (Nat × Nat)), Safe ((fun _ _ => pure 0 : List Nat → List (Nat × Nat) → M Nat) a k))
    ∧ (∀ (a : List Nat) (k : List (Nat × Nat)), Safe ((fun _ _ => raise (mk K.parse 0) : List Nat → List (Nat × Nat) → M Nat) a k)) :=
  ⟨fun _ _ => safe_pure _, fun _ _ => safe_raise rfl⟩

/-- a successful parse exists (the theorems are not about a model that always fails) -/
example : (ruleParse idWorld Legacy.none {} { origin := some 0, args := .seq 0 } 5 {}).1.isOk = true := by decide

/-- a component that diverges makes the entry point diverge (the `Terminates` hypothesis is needed) -/
example : (ruleParse { idWorld with conv := fun _ _ => divergeM } Legacy.none {} { origin := some 0 } 5 {}).1.diverges = true := by
  decide

end Utv.C04
