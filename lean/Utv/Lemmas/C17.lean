import Utv.Model.C17
/-!
Helper definitions and lemmas for Props/C17: the representation invariant relating a parser's
state to the declaration it was created from, and the three steps that maintain it
(creation, lazy resolution, parsing).
-/
namespace Utv.C17

/-! ### vocabulary of the invariant -/

/- the quoted leaves of an annotation -/
mutual
def quotedOf : Ann → List (Cell × Name)
  | .quoted c n => [(c, n)]
  | .list a => quotedOf a
  | .dict a => quotedOf a
  | .con _ a => quotedOf a
  | .tuple as => quotedOfL as
  | .union as => quotedOfL as
  | _ => []
def quotedOfL : List Ann → List (Cell × Name)
  | [] => []
  | a :: as => quotedOf a ++ quotedOfL as
end

/- the type a parser holds for an annotation while the cells in `P` are still pending -/
mutual
def unres (P : Cell → Bool) : Ann → Ty
  | .int => .int
  | .none => .none
  | .name n => .data n
  | .quoted c n => if P c then .fref c else .data n
  | .list a => .list (unres P a)
  | .dict a => .dict (unres P a)
  | .con k a => .con k (unres P a)
  | .tuple as => .tuple (unresL P as)
  | .union as => .union (unresL P as)
def unresL (P : Cell → Bool) : List Ann → List Ty
  | [] => []
  | a :: as => unres P a :: unresL P as
end

def curTy (P : Cell → Bool) : FieldAnn → Ty
  | .plain a => unres P a
  | .str c e => if P c then .fref c else direct e

/- every quoted leaf agrees with the global reading `cval` of its cell -/
mutual
def AnnOK (cval : Cell → Ty) : Ann → Prop
  | .quoted c n => cval c = .data n
  | .list a => AnnOK cval a
  | .dict a => AnnOK cval a
  | .con _ a => AnnOK cval a
  | .tuple as => AnnsOK cval as
  | .union as => AnnsOK cval as
  | _ => True
def AnnsOK (cval : Cell → Ty) : List Ann → Prop
  | [] => True
  | a :: as => AnnOK cval a ∧ AnnsOK cval as
end

def FieldAnnOK (cval : Cell → Ty) : FieldAnn → Prop
  | .plain a => AnnOK cval a
  | .str c e => cval c = direct e

/- types without ForwardRef objects whose class names all lie in `S` -/
mutual
def TyIn (S : List Name) : Ty → Prop
  | .data k => k ∈ S
  | .fref _ => False
  | .list a => TyIn S a
  | .dict a => TyIn S a
  | .con _ a => TyIn S a
  | .tuple as => TysIn S as
  | .union as => TysIn S as
  | _ => True
def TysIn (S : List Name) : List Ty → Prop
  | [] => True
  | a :: as => TyIn S a ∧ TysIn S as
end

def CellsOK (cval : Cell → Ty) (cells : List (Cell × Ty)) : Prop := ∀ p ∈ cells, p.2 = cval p.1

def pcells (pend : List Pending) : Cell → Bool := fun c => pend.any (fun q => q.cell == c)

/-- names a declaration mentions inside strings (quoted leaves and whole-string annotations) -/
def FieldAnn.strNames : FieldAnn → List Name
  | .plain a => (quotedOf a).map (·.2)
  | .str _ e => names e

def FieldAnn.allNames : FieldAnn → List Name
  | .plain a => names a
  | .str _ e => names e

def FieldAnn.quotedCells : FieldAnn → List Cell
  | .plain a => (quotedOf a).map (·.1)
  | .str _ _ => []

def FieldAnn.strCell : FieldAnn → List Cell
  | .plain _ => []
  | .str c _ => [c]

def Decl.strNames (d : Decl) : List Name := d.fields.flatMap (·.2.strNames)
def Decl.allNames (d : Decl) : List Name := d.fields.flatMap (·.2.allNames)

/-- a declaration is consistent with `cval`; the ForwardRef objects utype creates for whole-string
annotations are fresh (distinct from each other and from the typing-made ones of the declaration) -/
structure DeclOK (cval : Cell → Ty) (d : Decl) : Prop where
  anns  : ∀ fa ∈ d.fields, FieldAnnOK cval fa.2
  fresh : ∀ fa ∈ d.fields, ∀ fb ∈ d.fields, ∀ c ∈ fa.2.strCell, c ∉ fb.2.quotedCells
  dist  : (d.fields.flatMap (·.2.strCell)).Nodup

structure ClassOK (cval : Cell → Ty) (d : Decl) (ps : PState) : Prop where
  -- every ForwardRef still standing in a field type is listed as pending (the converse need not hold:
  -- a listed reference may already have been replaced, e.g. by the field pass of a subclass)
  flds  : ∃ P : Cell → Bool, (∀ c, P c = true → pcells ps.pending c = true) ∧
            ps.fields = d.fields.map fun fa => (fa.1, curTy P fa.2)
  pend  : ∀ p ∈ ps.pending, p.val = cval p.cell ∧ ∀ n ∈ p.need, n ∈ d.strNames
  loc   : ps.isLocal = d.isLocal
  ign   : ps.ignoreErr = d.isFunc
  selfv : ps.selfVis = !d.isFunc
  bases : ps.bases = d.bases
  rule  : ps.rule = d.rule
  anns  : ∀ fa ∈ d.fields, FieldAnnOK cval fa.2

def boundNames (defs : List (Name × Decl)) : List Name :=
  (defs.filter (·.2.bound)).map (·.1)

inductive ParsersOK (cval : Cell → Ty) : List (Name × PState) → List (Name × Decl) → Prop
  | nil : ParsersOK cval [] []
  | cons {k ps d ps' ds} : ClassOK cval d ps → ParsersOK cval ps' ds →
      ParsersOK cval ((k, ps) :: ps') ((k, d) :: ds)

structure Inv (cval : Cell → Ty) (s : State) (defs : List (Name × Decl)) : Prop where
  vis     : s.visible = boundNames defs
  cells   : CellsOK cval s.cells
  parsers : ParsersOK cval s.parsers defs

/-- `S` is a set of existing declarations closed under mention, whose string-spelled references
are visible to the parser that has to evaluate them (module namespace, or the class itself) -/
def Closed (defs : List (Name × Decl)) (S : List Name) : Prop :=
  ∀ k ∈ S, ∃ d, lookupD k defs = some d ∧ (∀ n ∈ d.allNames, n ∈ S) ∧
    (∀ n ∈ d.strNames, n ∈ boundNames defs ∨ (d.isFunc = false ∧ n = k)) ∧
    (∀ b ∈ d.bases, b ∈ S)

/-! ### basic facts -/

theorem lookupCell_mem {c : Cell} {v : Ty} : ∀ {cells : List (Cell × Ty)},
    lookupCell c cells = some v → (c, v) ∈ cells
  | [], h => by simp [lookupCell] at h
  | (k, w) :: rest, h => by
    simp only [lookupCell] at h
    split at h
    · rename_i hk
      have : k = c := by simpa using hk
      cases h; subst this; simp
    · exact List.mem_cons_of_mem _ (lookupCell_mem h)

theorem lookupCell_ok {cval : Cell → Ty} {cells : List (Cell × Ty)} (h : CellsOK cval cells) {c : Cell} {v : Ty}
    (hl : lookupCell c cells = some v) : v = cval c :=
  h (c, v) (lookupCell_mem hl)

theorem lookupCell_isSome_of_mem {c : Cell} : ∀ {cells : List (Cell × Ty)} {v : Ty},
    (c, v) ∈ cells → (lookupCell c cells).isSome
  | [], _, h => by simp at h
  | (k, w) :: rest, v, h => by
    simp only [lookupCell]
    split
    · simp
    · rename_i hk
      rcases List.mem_cons.mp h with h1 | h1
      · cases h1; simp at hk
      · exact lookupCell_isSome_of_mem h1

/-! ### `unres`, `direct`, `mkTy` -/

mutual
theorem unres_false (a : Ann) : unres (fun _ => false) a = direct a := by
  cases a <;> simp [unres, direct, unres_false, unresL_false]
theorem unresL_false (as : List Ann) : unresL (fun _ => false) as = directL as := by
  cases as <;> simp [unresL, directL, unres_false, unresL_false]
end

theorem curTy_false (fa : FieldAnn) : curTy (fun _ => false) fa = fa.direct := by
  cases fa <;> simp [curTy, FieldAnn.direct, unres_false]

mutual
theorem unres_congr {P Q : Cell → Bool} (a : Ann) (h : ∀ p ∈ quotedOf a, P p.1 = Q p.1) :
    unres P a = unres Q a := by
  cases a with
  | quoted c n => have := h (c, n) (by simp [quotedOf]); simp [unres, this]
  | list a => simp only [unres]; rw [unres_congr a (by simpa [quotedOf] using h)]
  | dict a => simp only [unres]; rw [unres_congr a (by simpa [quotedOf] using h)]
  | con _ a => simp only [unres]; rw [unres_congr a (by simpa [quotedOf] using h)]
  | tuple as => simp only [unres]; rw [unresL_congr as (by simpa [quotedOf] using h)]
  | union as => simp only [unres]; rw [unresL_congr as (by simpa [quotedOf] using h)]
  | _ => simp [unres]
theorem unresL_congr {P Q : Cell → Bool} (as : List Ann) (h : ∀ p ∈ quotedOfL as, P p.1 = Q p.1) :
    unresL P as = unresL Q as := by
  cases as with
  | nil => rfl
  | cons a as =>
    simp only [unresL]
    rw [unres_congr a (fun p hp => h p (by simp [quotedOfL, hp])),
        unresL_congr as (fun p hp => h p (by simp [quotedOfL, hp]))]
end

/-- what creation decides for a quoted leaf -/
def lazyAt (_cells : List (Cell × Ty)) (vis : Name → Bool) (_c : Cell) (n : Name) : Bool :=
  !vis n

mutual
theorem mkTy_eq {cval : Cell → Ty} {cells : List (Cell × Ty)} (hc : CellsOK cval cells) (vis : Name → Bool)
    (P : Cell → Bool) (a : Ann) (ha : AnnOK cval a) (hP : ∀ p ∈ quotedOf a, P p.1 = lazyAt cells vis p.1 p.2) :
    mkTy cells vis a = unres P a := by
  cases a with
  | quoted c n =>
    have hp := hP (c, n) (by simp [quotedOf])
    simp only [AnnOK] at ha
    simp only [mkTy, refTy, unres, hp, lazyAt]
    cases hv : vis n <;> simp
  | list a => simp only [mkTy, unres]; rw [mkTy_eq hc vis P a (by simpa [AnnOK] using ha) (by simpa [quotedOf] using hP)]
  | dict a => simp only [mkTy, unres]; rw [mkTy_eq hc vis P a (by simpa [AnnOK] using ha) (by simpa [quotedOf] using hP)]
  | con _ a => simp only [mkTy, unres]; rw [mkTy_eq hc vis P a (by simpa [AnnOK] using ha) (by simpa [quotedOf] using hP)]
  | tuple as => simp only [mkTy, unres]; rw [mkTyL_eq hc vis P as (by simpa [AnnOK] using ha) (by simpa [quotedOf] using hP)]
  | union as => simp only [mkTy, unres]; rw [mkTyL_eq hc vis P as (by simpa [AnnOK] using ha) (by simpa [quotedOf] using hP)]
  | _ => simp [mkTy, unres]
theorem mkTyL_eq {cval : Cell → Ty} {cells : List (Cell × Ty)} (hc : CellsOK cval cells) (vis : Name → Bool)
    (P : Cell → Bool) (as : List Ann) (ha : AnnsOK cval as) (hP : ∀ p ∈ quotedOfL as, P p.1 = lazyAt cells vis p.1 p.2) :
    mkTyL cells vis as = unresL P as := by
  cases as with
  | nil => rfl
  | cons a as =>
    simp only [AnnsOK] at ha
    simp only [mkTyL, unresL]
    rw [mkTy_eq hc vis P a ha.1 (fun p hp => hP p (by simp [quotedOfL, hp])),
        mkTyL_eq hc vis P as ha.2 (fun p hp => hP p (by simp [quotedOfL, hp]))]
end

mutual
theorem regs_eq (cells : List (Cell × Ty)) (vis : Name → Bool) (a : Ann) :
    regs cells vis a = (quotedOf a).filter (fun p => lazyAt cells vis p.1 p.2) := by
  cases a with
  | quoted c n => simp only [regs, quotedOf, lazyAt, List.filter]; cases vis n <;> rfl
  | list a => simpa [regs, quotedOf] using regs_eq cells vis a
  | dict a => simpa [regs, quotedOf] using regs_eq cells vis a
  | con _ a => simpa [regs, quotedOf] using regs_eq cells vis a
  | tuple as => simpa [regs, quotedOf] using regsL_eq cells vis as
  | union as => simpa [regs, quotedOf] using regsL_eq cells vis as
  | _ => simp [regs, quotedOf]
theorem regsL_eq (cells : List (Cell × Ty)) (vis : Name → Bool) (as : List Ann) :
    regsL cells vis as = (quotedOfL as).filter (fun p => lazyAt cells vis p.1 p.2) := by
  cases as with
  | nil => rfl
  | cons a as => simp [regsL, quotedOfL, regs_eq cells vis a, regsL_eq cells vis as]
end

mutual
theorem evals_ok {cval : Cell → Ty} (cells : List (Cell × Ty)) (vis : Name → Bool) (a : Ann) (ha : AnnOK cval a) :
    CellsOK cval (evals cells vis a) := by
  cases a with
  | quoted c n =>
    simp only [AnnOK] at ha
    simp only [evals]; split
    · intro p hp; simp at hp; subst hp; simp [ha]
    · intro p hp; simp at hp
  | list a => simpa [evals] using evals_ok cells vis a (by simpa [AnnOK] using ha)
  | dict a => simpa [evals] using evals_ok cells vis a (by simpa [AnnOK] using ha)
  | con _ a => simpa [evals] using evals_ok cells vis a (by simpa [AnnOK] using ha)
  | tuple as => simpa [evals] using evalsL_ok cells vis as (by simpa [AnnOK] using ha)
  | union as => simpa [evals] using evalsL_ok cells vis as (by simpa [AnnOK] using ha)
  | _ => intro p hp; simp [evals] at hp
theorem evalsL_ok {cval : Cell → Ty} (cells : List (Cell × Ty)) (vis : Name → Bool) (as : List Ann) (ha : AnnsOK cval as) :
    CellsOK cval (evalsL cells vis as) := by
  cases as with
  | nil => intro p hp; simp [evalsL] at hp
  | cons a as =>
    simp only [AnnsOK] at ha
    intro p hp
    simp only [evalsL, List.mem_append] at hp
    rcases hp with hp | hp
    · exact evals_ok cells vis a ha.1 p hp
    · exact evalsL_ok cells vis as ha.2 p hp
end

mutual
theorem quotedOf_ok {cval : Cell → Ty} (a : Ann) (ha : AnnOK cval a) : ∀ p ∈ quotedOf a, cval p.1 = .data p.2 := by
  cases a with
  | quoted c n => simp only [AnnOK] at ha; intro p hp; simp [quotedOf] at hp; subst hp; exact ha
  | list a => simpa [quotedOf] using quotedOf_ok a (by simpa [AnnOK] using ha)
  | dict a => simpa [quotedOf] using quotedOf_ok a (by simpa [AnnOK] using ha)
  | con _ a => simpa [quotedOf] using quotedOf_ok a (by simpa [AnnOK] using ha)
  | tuple as => simpa [quotedOf] using quotedOfL_ok as (by simpa [AnnOK] using ha)
  | union as => simpa [quotedOf] using quotedOfL_ok as (by simpa [AnnOK] using ha)
  | _ => intro p hp; simp [quotedOf] at hp
theorem quotedOfL_ok {cval : Cell → Ty} (as : List Ann) (ha : AnnsOK cval as) : ∀ p ∈ quotedOfL as, cval p.1 = .data p.2 := by
  cases as with
  | nil => intro p hp; simp [quotedOfL] at hp
  | cons a as =>
    simp only [AnnsOK] at ha
    intro p hp
    simp only [quotedOfL, List.mem_append] at hp
    rcases hp with hp | hp
    · exact quotedOf_ok a ha.1 p hp
    · exact quotedOfL_ok as ha.2 p hp
end

/-! ### registration -/

theorem pcells_append (l₁ l₂ : List Pending) (c : Cell) : pcells (l₁ ++ l₂) c = (pcells l₁ c || pcells l₂ c) := by
  simp [pcells]

theorem register_cells (pend : List Pending) (p : Pending) (c : Cell) :
    pcells (register Cfg.fixed pend p) c = (pcells pend c || p.cell == c) := by
  simp only [register, Cfg.fixed, if_true]
  split
  · rename_i h
    by_cases hc : p.cell = c
    · subst hc
      have : pcells pend p.cell = true := by
        simp only [pcells, List.any_eq_true] at h ⊢
        obtain ⟨q, hq, hk⟩ := h
        exact ⟨q, hq, by simp_all⟩
      simp [this]
    · simp [hc]
  · simp [pcells]

theorem registerAll_cells (ps : List Pending) : ∀ (pend : List Pending) (c : Cell),
    pcells (registerAll Cfg.fixed pend ps) c = (pcells pend c || ps.any (fun p => p.cell == c)) := by
  induction ps with
  | nil => intro pend c; simp [registerAll]
  | cons p ps ih =>
    intro pend c
    simp only [registerAll, ih, register_cells, List.any_cons, Bool.or_assoc]

theorem register_mem (pend : List Pending) (p q : Pending) (h : q ∈ register Cfg.fixed pend p) :
    q ∈ pend ∨ (q.cell = p.cell ∧ q.val = p.val ∧ q.need = p.need) := by
  simp only [register, Cfg.fixed, if_true] at h
  split at h
  · exact Or.inl h
  · rcases List.mem_append.mp h with h | h
    · exact Or.inl h
    · simp at h; subst h; exact Or.inr ⟨rfl, rfl, rfl⟩

theorem registerAll_mem (ps : List Pending) : ∀ (pend : List Pending) (q : Pending),
    q ∈ registerAll Cfg.fixed pend ps →
    q ∈ pend ∨ ∃ p ∈ ps, q.cell = p.cell ∧ q.val = p.val ∧ q.need = p.need := by
  induction ps with
  | nil => intro pend q h; exact Or.inl (by simpa [registerAll] using h)
  | cons p ps ih =>
    intro pend q h
    simp only [registerAll] at h
    rcases ih _ q h with h1 | ⟨p', hp', h2⟩
    · rcases register_mem pend p q h1 with h3 | h3
      · exact Or.inl h3
      · exact Or.inr ⟨p, by simp, h3⟩
    · exact Or.inr ⟨p', by simp [hp'], h2⟩

theorem nodup_flatMap_eq {α β : Type} (f : α → List β) : ∀ (l : List α), (l.flatMap f).Nodup →
    ∀ a ∈ l, ∀ b ∈ l, ∀ c, c ∈ f a → c ∈ f b → a = b := by
  intro l
  induction l with
  | nil => intro _ a ha; simp at ha
  | cons x xs ih =>
    intro hnd a ha b hb c hca hcb
    simp only [List.flatMap_cons, List.nodup_append] at hnd
    obtain ⟨_, hxs, hdis⟩ := hnd
    rcases List.mem_cons.mp ha with ha1 | ha1 <;> rcases List.mem_cons.mp hb with hb1 | hb1
    · rw [ha1, hb1]
    · subst ha1
      exact absurd rfl (hdis c hca c (List.mem_flatMap.mpr ⟨b, hb1, hcb⟩))
    · subst hb1
      exact absurd rfl (hdis c hcb c (List.mem_flatMap.mpr ⟨a, ha1, hca⟩))
    · exact ih hxs a ha1 b hb1 c hca hcb

/-! ### creation establishes the invariant -/

/-- the ForwardRef objects one field asks to register -/
def fieldRegCells (cells : List (Cell × Ty)) (vis : Name → Bool) : FieldAnn → List Cell
  | .plain a => ((quotedOf a).filter (fun p => lazyAt cells vis p.1 p.2)).map (·.1)
  | .str c e => if (names e).all vis then [] else [c]

theorem mkField_reg_cells (cells : List (Cell × Ty)) (vis : Name → Bool) (isFunc : Bool) (f : Nat) (fa : FieldAnn) :
    (mkField cells vis isFunc f fa).2.2.map (·.cell) = fieldRegCells cells vis fa := by
  cases fa with
  | plain a => simp [mkField, fieldRegCells, regs_eq, List.map_map, Function.comp_def]
  | str c e => simp only [mkField, fieldRegCells]; split <;> simp

theorem mkField_reg_ok {cval : Cell → Ty} (cells : List (Cell × Ty)) (vis : Name → Bool) (isFunc : Bool) (f : Nat)
    (fa : FieldAnn) (ha : FieldAnnOK cval fa) :
    ∀ q ∈ (mkField cells vis isFunc f fa).2.2, q.val = cval q.cell ∧ ∀ n ∈ q.need, n ∈ fa.strNames := by
  cases fa with
  | plain a =>
    intro q hq
    simp only [mkField, regs_eq, List.mem_map, List.mem_filter] at hq
    obtain ⟨p, ⟨hp, _⟩, rfl⟩ := hq
    refine ⟨(quotedOf_ok a ha p hp).symm, ?_⟩
    intro n hn
    simp only [List.mem_singleton] at hn
    subst hn
    simp only [FieldAnn.strNames, List.mem_map]
    exact ⟨p, hp, rfl⟩
  | str c e =>
    intro q hq
    simp only [mkField] at hq
    split at hq
    · simp at hq
    · simp only [List.mem_singleton] at hq
      subst hq
      exact ⟨ha.symm, fun n hn => hn⟩

theorem mkField_evals_ok {cval : Cell → Ty} (cells : List (Cell × Ty)) (vis : Name → Bool) (isFunc : Bool) (f : Nat)
    (fa : FieldAnn) (ha : FieldAnnOK cval fa) : CellsOK cval (mkField cells vis isFunc f fa).2.1 := by
  cases fa with
  | plain a => exact evals_ok cells vis a ha
  | str c e => simp only [mkField]; split <;> (intro p hp; simp at hp)

theorem boundNames_cons (k : Name) (d : Decl) (defs : List (Name × Decl)) :
    boundNames ((k, d) :: defs) = if d.bound then k :: boundNames defs else boundNames defs := by
  simp only [boundNames, List.filter_cons]
  split <;> simp

theorem define_inv {cval : Cell → Ty} {s : State} {defs : List (Name × Decl)} (h : Inv cval s defs)
    (k : Name) (d : Decl) (hd : DeclOK cval d) : Inv cval (define Cfg.fixed s k d) ((k, d) :: defs) := by
  -- abbreviations
  let vis := visOf s (if d.isFunc then none else some k)
  let rg := d.fields.flatMap fun p => (mkField s.cells vis d.isFunc p.1 p.2).2.2
  let pend := registerAll Cfg.fixed [] rg
  have hP : ∀ c, pcells pend c = true ↔ ∃ fa ∈ d.fields, c ∈ fieldRegCells s.cells vis fa.2 := by
    intro c
    have := registerAll_cells rg [] c
    simp only [pcells, List.any_nil, Bool.false_or] at this
    simp only [pend, pcells, this, List.any_eq_true, rg, List.mem_flatMap]
    constructor
    · rintro ⟨q, ⟨fa, hfa, hq⟩, hc⟩
      refine ⟨fa, hfa, ?_⟩
      rw [← mkField_reg_cells s.cells vis d.isFunc fa.1 fa.2]
      exact List.mem_map.mpr ⟨q, hq, by simpa using hc⟩
    · rintro ⟨fa, hfa, hc⟩
      rw [← mkField_reg_cells s.cells vis d.isFunc fa.1 fa.2] at hc
      obtain ⟨q, hq, rfl⟩ := List.mem_map.mp hc
      exact ⟨q, ⟨fa, hfa, hq⟩, by simp⟩
  -- each field type is the pending-view of its annotation
  have hF : ∀ fa ∈ d.fields, (mkField s.cells vis d.isFunc fa.1 fa.2).1 = curTy (pcells pend) fa.2 := by
    intro fa hfa
    have hok := hd.anns fa hfa
    rcases fa with ⟨f, fa⟩
    cases fa with
    | plain a =>
      simp only [mkField, curTy]
      apply mkTy_eq h.cells vis (pcells pend) a hok
      intro p hp
      cases hl : lazyAt s.cells vis p.1 p.2 with
      | true =>
        apply (hP p.1).mpr
        refine ⟨(f, .plain a), hfa, ?_⟩
        simp only [fieldRegCells, List.mem_map, List.mem_filter]
        exact ⟨p, ⟨hp, hl⟩, rfl⟩
      | false =>
        cases hpc : pcells pend p.1 with
        | false => rfl
        | true =>
          exfalso
          obtain ⟨fb, hfb, hc⟩ := (hP p.1).mp hpc
          have hokb := hd.anns fb hfb
          rcases fb with ⟨g, fb⟩
          cases fb with
          | plain b =>
            simp only [fieldRegCells, List.mem_map, List.mem_filter] at hc
            obtain ⟨p', ⟨hp', hl'⟩, hpe⟩ := hc
            have h1 := quotedOf_ok a hok p hp
            have h2 := quotedOf_ok b hokb p' hp'
            rw [hpe, h1] at h2
            have : p.2 = p'.2 := by injection h2
            rw [hpe, ← this] at hl'
            rw [hl] at hl'
            cases hl'
          | str c e =>
            simp only [fieldRegCells] at hc
            split at hc
            · simp at hc
            · simp only [List.mem_singleton] at hc
              exact hd.fresh (g, .str c e) hfb (f, .plain a) hfa c (by simp [FieldAnn.strCell])
                (by simp only [FieldAnn.quotedCells, List.mem_map]; exact ⟨p, hp, hc.symm ▸ rfl⟩)
    | str c e =>
      simp only [mkField, curTy]
      by_cases hv : (names e).all vis = true
      · simp only [hv, if_true]
        cases hpc : pcells pend c with
        | false => simp
        | true =>
          exfalso
          obtain ⟨fb, hfb, hc⟩ := (hP c).mp hpc
          rcases fb with ⟨g, fb⟩
          cases fb with
          | plain b =>
            simp only [fieldRegCells, List.mem_map, List.mem_filter] at hc
            obtain ⟨p', ⟨hp', _⟩, hpe⟩ := hc
            exact hd.fresh (f, .str c e) hfa (g, .plain b) hfb c (by simp [FieldAnn.strCell])
              (by simp only [FieldAnn.quotedCells, List.mem_map]; exact ⟨p', hp', hpe⟩)
          | str c' e' =>
            simp only [fieldRegCells] at hc
            split at hc
            · simp at hc
            · rename_i hv'
              simp only [List.mem_singleton] at hc
              subst hc
              have := nodup_flatMap_eq (fun (x : Nat × FieldAnn) => x.2.strCell) d.fields hd.dist
                (f, .str c e) hfa (g, .str c e') hfb c (by simp [FieldAnn.strCell]) (by simp [FieldAnn.strCell])
              injection this with _ h2
              injection h2 with _ h3
              subst h3
              exact hv' hv
      · have hpc : pcells pend c = true := by
          apply (hP c).mpr
          exact ⟨(f, .str c e), hfa, by simp [fieldRegCells, hv]⟩
        simp [hv, hpc]
  have hpend : ∀ q ∈ pend, q.val = cval q.cell ∧ ∀ n ∈ q.need, n ∈ d.strNames := by
    intro q hq
    rcases registerAll_mem rg [] q hq with h0 | ⟨p, hp, hc, hv, hn⟩
    · simp at h0
    · simp only [rg, List.mem_flatMap] at hp
      obtain ⟨fa, hfa, hp⟩ := hp
      obtain ⟨h1, h2⟩ := mkField_reg_ok s.cells vis d.isFunc fa.1 fa.2 (hd.anns fa hfa) p hp
      refine ⟨by rw [hv, hc, h1], ?_⟩
      intro n hn'
      rw [hn] at hn'
      simp only [Decl.strNames, List.mem_flatMap]
      exact ⟨fa, hfa, h2 n hn'⟩
  refine ⟨?_, ?_, ?_⟩
  · simp only [define, mkFields, boundNames_cons, h.vis]
  · simp only [define, mkFields]
    split
    · exact h.cells
    · intro p hp
      rcases List.mem_append.mp hp with hp | hp
      · simp only [List.mem_reverse, List.mem_flatMap] at hp
        obtain ⟨fa, hfa, hp⟩ := hp
        exact mkField_evals_ok s.cells vis d.isFunc fa.1 fa.2 (hd.anns fa hfa) p hp
      · exact h.cells p hp
  · simp only [define, mkFields]
    refine ParsersOK.cons ⟨⟨pcells pend, fun _ hc => hc, ?_⟩, hpend, rfl, rfl, rfl, rfl, rfl, hd.anns⟩ h.parsers
    simp only
    apply List.map_congr_left
    intro fa hfa
    rw [hF fa hfa]

/-! ### lazy resolution -/

theorem lookupCell_eq_of_isSome {cval : Cell → Ty} {cells : List (Cell × Ty)} (h : CellsOK cval cells) {c : Cell}
    (hs : (lookupCell c cells).isSome) : lookupCell c cells = some (cval c) := by
  cases hl : lookupCell c cells with
  | none => simp [hl] at hs
  | some v => rw [lookupCell_ok h hl]

theorem lookupCell_cons_isSome (c c' : Cell) (v : Ty) (cells : List (Cell × Ty))
    (h : (lookupCell c cells).isSome) : (lookupCell c ((c', v) :: cells)).isSome := by
  simp only [lookupCell]; split <;> simp_all

/-- the resolution loop, whatever happens in it -/
theorem resolveLoop_gen {cval : Cell → Ty} (vis : Name → Bool) (ie : Bool) : ∀ (ps : List Pending) (cells : List (Cell × Ty)),
    CellsOK cval cells → (∀ p ∈ ps, p.val = cval p.cell) →
    CellsOK cval (resolveLoop vis ie ps cells).cells ∧
    (∀ c, (lookupCell c cells).isSome → (lookupCell c (resolveLoop vis ie ps cells).cells).isSome) ∧
    ((resolveLoop vis ie ps cells).raised = false →
      ∀ p ∈ ps, p ∈ (resolveLoop vis ie ps cells).kept ∨ (lookupCell p.cell (resolveLoop vis ie ps cells).cells).isSome) ∧
    (∀ p ∈ (resolveLoop vis ie ps cells).kept, p ∈ ps) ∧
    ((∀ p ∈ ps, p.need.all vis = true) →
      (resolveLoop vis ie ps cells).kept = [] ∧ (resolveLoop vis ie ps cells).raised = false ∧
      (resolveLoop vis ie ps cells).resolved = !ps.isEmpty) := by
  intro ps
  induction ps with
  | nil => intro cells hc _; simp [resolveLoop, hc]
  | cons p ps ih =>
    intro cells hc hval
    have hval' : ∀ q ∈ ps, q.val = cval q.cell := fun q hq => hval q (by simp [hq])
    by_cases hn : p.need.all vis = true
    · have hc' : CellsOK cval ((p.cell, p.val) :: cells) := by
        intro q hq
        rcases List.mem_cons.mp hq with hq | hq
        · subst hq; exact hval p (by simp)
        · exact hc q hq
      obtain ⟨i1, i2, i3, i4, i5⟩ := ih _ hc' hval'
      simp only [resolveLoop, hn, if_true]
      refine ⟨i1, fun c hs => i2 c (lookupCell_cons_isSome c _ _ cells hs), ?_, ?_, ?_⟩
      · intro hr q hq
        rcases List.mem_cons.mp hq with hq | hq
        · subst hq
          exact Or.inr (i2 _ (by simp [lookupCell]))
        · exact i3 hr q hq
      · intro q hq; exact List.mem_cons_of_mem _ (i4 q hq)
      · intro hall
        obtain ⟨j1, j2, _⟩ := i5 (fun q hq => hall q (by simp [hq]))
        exact ⟨j1, j2, by simp⟩
    · simp only [resolveLoop, hn]
      cases ie with
      | true =>
        obtain ⟨i1, i2, i3, i4, _⟩ := ih cells hc hval'
        simp only [if_true]
        refine ⟨i1, i2, ?_, ?_, ?_⟩
        · intro hr q hq
          rcases List.mem_cons.mp hq with hq | hq
          · subst hq; exact Or.inl (by simp)
          · rcases i3 hr q hq with h1 | h1
            · exact Or.inl (List.mem_cons_of_mem _ h1)
            · exact Or.inr h1
        · intro q hq
          rcases List.mem_cons.mp hq with hq | hq
          · simp [hq]
          · exact List.mem_cons_of_mem _ (i4 q hq)
        · intro hall; exact absurd (hall p (by simp)) hn
      | false =>
        simp only [Bool.false_eq_true, if_false]
        refine ⟨hc, fun _ hs => hs, ?_, fun q hq => hq, ?_⟩
        · intro hr; exact absurd hr (by simp)
        · intro hall; exact absurd (hall p (by simp)) hn

theorem resolveLoop_unresolved (vis : Name → Bool) (ie : Bool) : ∀ (ps : List Pending) (cells : List (Cell × Ty)),
    (resolveLoop vis ie ps cells).raised = false → (resolveLoop vis ie ps cells).resolved = false →
    (resolveLoop vis ie ps cells).kept = ps ∧ (resolveLoop vis ie ps cells).cells = cells := by
  intro ps
  induction ps with
  | nil => intro cells _ _; simp [resolveLoop]
  | cons p ps ih =>
    intro cells hr hres
    by_cases hn : p.need.all vis = true
    · simp [resolveLoop, hn] at hres
    · cases ie with
      | true =>
        simp only [resolveLoop, hn, if_true, Bool.false_eq_true, if_false] at hr hres ⊢
        obtain ⟨i1, i2⟩ := ih cells hr hres
        exact ⟨by rw [i1], i2⟩
      | false => simp [resolveLoop, hn] at hr

/-- the field pass: ForwardRefs whose object is evaluated are replaced by their (correct) value -/
def stillRef (P : Cell → Bool) (cells : List (Cell × Ty)) : Cell → Bool :=
  fun c => P c && (lookupCell c cells).isNone

mutual
theorem resolveTy_unres {cval : Cell → Ty} {cells : List (Cell × Ty)} (hc : CellsOK cval cells) (P : Cell → Bool)
    (a : Ann) (ha : AnnOK cval a) :
    resolveTy Cfg.fixed cells (unres P a) = unres (stillRef P cells) a := by
  cases a with
  | quoted c n =>
    simp only [AnnOK] at ha
    simp only [unres, stillRef]
    by_cases hp : P c = true
    · simp only [hp, if_true, Bool.true_and, resolveTy]
      cases hl : lookupCell c cells with
      | none => simp
      | some v => simp [lookupCell_ok hc hl, ha]
    · have hp' : P c = false := by simpa using hp
      simp [hp', resolveTy]
  | list a => simp only [unres, resolveTy]; rw [resolveTy_unres hc P a (by simpa [AnnOK] using ha)]
  | dict a => simp only [unres, resolveTy]; rw [resolveTy_unres hc P a (by simpa [AnnOK] using ha)]
  | con _ a => simp only [unres, resolveTy]; rw [resolveTy_unres hc P a (by simpa [AnnOK] using ha)]
  | tuple as => simp only [unres, resolveTy]; rw [resolveTyL_unres hc P as (by simpa [AnnOK] using ha)]
  | union as =>
    simp only [unres, resolveTy, Cfg.fixed, if_true]
    rw [← Cfg.fixed, resolveTyL_unres hc P as (by simpa [AnnOK] using ha)]
  | _ => simp [unres, resolveTy]
theorem resolveTyL_unres {cval : Cell → Ty} {cells : List (Cell × Ty)} (hc : CellsOK cval cells) (P : Cell → Bool)
    (as : List Ann) (ha : AnnsOK cval as) :
    resolveTyL Cfg.fixed cells (unresL P as) = unresL (stillRef P cells) as := by
  cases as with
  | nil => rfl
  | cons a as =>
    simp only [AnnsOK] at ha
    simp only [unresL, resolveTyL]
    rw [resolveTy_unres hc P a ha.1, resolveTyL_unres hc P as ha.2]
end

mutual
theorem resolveTy_direct (cells : List (Cell × Ty)) (a : Ann) : resolveTy Cfg.fixed cells (direct a) = direct a := by
  cases a with
  | list a => simp only [direct, resolveTy]; rw [resolveTy_direct cells a]
  | dict a => simp only [direct, resolveTy]; rw [resolveTy_direct cells a]
  | con _ a => simp only [direct, resolveTy]; rw [resolveTy_direct cells a]
  | tuple as => simp only [direct, resolveTy]; rw [resolveTyL_direct cells as]
  | union as =>
    simp only [direct, resolveTy, Cfg.fixed, if_true]
    rw [← Cfg.fixed, resolveTyL_direct cells as]
  | _ => simp [direct, resolveTy]
theorem resolveTyL_direct (cells : List (Cell × Ty)) (as : List Ann) :
    resolveTyL Cfg.fixed cells (directL as) = directL as := by
  cases as with
  | nil => rfl
  | cons a as => simp only [directL, resolveTyL]; rw [resolveTy_direct cells a, resolveTyL_direct cells as]
end

theorem resolveTy_curTy {cval : Cell → Ty} {cells : List (Cell × Ty)} (hc : CellsOK cval cells) (P : Cell → Bool)
    (fa : FieldAnn) (ha : FieldAnnOK cval fa) :
    resolveTy Cfg.fixed cells (curTy P fa) = curTy (stillRef P cells) fa := by
  cases fa with
  | plain a => exact resolveTy_unres hc P a ha
  | str c e =>
    simp only [curTy, stillRef]
    by_cases hp : P c = true
    · simp only [hp, if_true, Bool.true_and, resolveTy]
      cases hl : lookupCell c cells with
      | none => simp
      | some v =>
        have : v = direct e := by rw [lookupCell_ok hc hl]; exact ha
        simp [this]
    · have hp' : P c = false := by simpa using hp
      simp [hp', resolveTy_direct]

theorem pcells_nil : pcells [] = fun _ => false := by
  funext c; simp [pcells]

theorem lookup_parsers {cval : Cell → Ty} : ∀ {parsers : List (Name × PState)} {defs : List (Name × Decl)},
    ParsersOK cval parsers defs → ∀ {k : Name} {d : Decl}, lookupD k defs = some d →
    ∃ ps, lookupP k parsers = some ps ∧ ClassOK cval d ps := by
  intro parsers defs h
  induction h with
  | nil => intro k d hk; simp [lookupD] at hk
  | cons hc _ ih =>
    intro k' d' hk
    simp only [lookupD] at hk
    simp only [lookupP]
    split at hk
    · rename_i he
      cases hk
      simp only [he, if_true]
      exact ⟨_, rfl, hc⟩
    · rename_i he
      simp only [he]
      exact ih hk

theorem lookup_parsers_rev {cval : Cell → Ty} : ∀ {parsers : List (Name × PState)} {defs : List (Name × Decl)},
    ParsersOK cval parsers defs → ∀ {k : Name} {ps : PState}, lookupP k parsers = some ps →
    ∃ d, lookupD k defs = some d ∧ ClassOK cval d ps := by
  intro parsers defs h
  induction h with
  | nil => intro k ps hk; simp [lookupP] at hk
  | cons hc _ ih =>
    intro k' ps' hk
    simp only [lookupP] at hk
    simp only [lookupD]
    split at hk
    · rename_i he
      cases hk
      simp only [he, if_true]
      exact ⟨_, rfl, hc⟩
    · rename_i he
      simp only [he]
      exact ih hk

theorem setP_ok {cval : Cell → Ty} : ∀ {parsers : List (Name × PState)} {defs : List (Name × Decl)},
    ParsersOK cval parsers defs → ∀ {k : Name} {d : Decl} (ps1 : PState), lookupD k defs = some d → ClassOK cval d ps1 →
    ParsersOK cval (setP k ps1 parsers) defs ∧ lookupP k (setP k ps1 parsers) = some ps1 := by
  intro parsers defs h
  induction h with
  | nil => intro k d _ hk; simp [lookupD] at hk
  | cons hc ht ih =>
    intro k' d' ps1 hk hok
    simp only [lookupD] at hk
    simp only [setP]
    split at hk
    · rename_i he
      cases hk
      simp only [he, if_true]
      exact ⟨ParsersOK.cons hok ht, by simp [lookupP, he]⟩
    · rename_i he
      simp only [he]
      obtain ⟨i1, i2⟩ := ih ps1 hk hok
      exact ⟨ParsersOK.cons hc i1, by simp [lookupP, he, i2]⟩

theorem lookupP_setP_ne {k k' : Name} (p : PState) (hne : k' ≠ k) : ∀ (l : List (Name × PState)),
    lookupP k' (setP k p l) = lookupP k' l
  | [] => rfl
  | (k₀, p₀) :: rest => by
    simp only [setP]
    split
    · rename_i he
      have : k₀ = k := by simpa using he
      subst this
      have : (k₀ == k') = false := by simpa using fun h => hne h.symm
      simp [lookupP, this]
    · simp only [lookupP, lookupP_setP_ne p hne rest]

theorem fields_of_resolved {cval : Cell → Ty} {d : Decl} {ps : PState} (hok : ClassOK cval d ps)
    (hp : ps.pending = []) : ps.fields = d.fields.map (fun fa => (fa.1, fa.2.direct)) := by
  obtain ⟨P, hP, hf⟩ := hok.flds
  have : P = fun _ => false := by
    funext c
    cases hpc : P c with
    | false => rfl
    | true => have := hP c hpc; rw [hp] at this; simp [pcells] at this
  rw [hf, this]
  simp [curTy_false]

theorem resolveTy_fieldDirect (cells : List (Cell × Ty)) (fa : FieldAnn) :
    resolveTy Cfg.fixed cells fa.direct = fa.direct := by
  cases fa <;> simp [FieldAnn.direct, resolveTy_direct]

/-- a declared class whose parser has nothing pending -/
def ResolvedD (defs : List (Name × Decl)) (s : State) (a : Name) : Prop :=
  ∃ d p, lookupD a defs = some d ∧ lookupP a s.parsers = some p ∧ p.pending = []

theorem lookup_none {cval : Cell → Ty} : ∀ {parsers : List (Name × PState)} {defs : List (Name × Decl)},
    ParsersOK cval parsers defs → ∀ {k : Name}, lookupD k defs = none → lookupP k parsers = none := by
  intro parsers defs h
  induction h with
  | nil => intro k _; rfl
  | cons _ _ ih =>
    intro k' hk
    simp only [lookupD] at hk
    simp only [lookupP]
    split at hk
    · cases hk
    · rename_i he
      simp only [he]
      exact ih hk

theorem parsers_length {cval : Cell → Ty} : ∀ {parsers : List (Name × PState)} {defs : List (Name × Decl)},
    ParsersOK cval parsers defs → parsers.length = defs.length := by
  intro parsers defs h
  induction h with
  | nil => rfl
  | cons _ _ ih => simp [ih]

/-- the field pass applied to a parser's own fields keeps it consistent with its declaration as long as
the new registry still lists every cell that is listed and not evaluated -/
theorem classOK_fieldpass {cval : Cell → Ty} {d : Decl} {ps : PState} (hok : ClassOK cval d ps)
    {cells : List (Cell × Ty)} (hc : CellsOK cval cells) (pend' : List Pending)
    (hsub : ∀ c, pcells ps.pending c = true → (lookupCell c cells).isNone = true → pcells pend' c = true)
    (hpend : ∀ p ∈ pend', p ∈ ps.pending) :
    ClassOK cval d { ps with pending := pend', fields := ps.fields.map (fun p => (p.1, resolveTy Cfg.fixed cells p.2)) } := by
  obtain ⟨P, hP, hf⟩ := hok.flds
  refine ⟨⟨stillRef P cells, ?_, ?_⟩, fun p hp => hok.pend p (hpend p hp), hok.loc, hok.ign, hok.selfv, hok.bases, hok.rule, hok.anns⟩
  · intro c hcs
    simp only [stillRef, Bool.and_eq_true] at hcs
    exact hsub c (hP c hcs.1) hcs.2
  · simp only [hf, List.map_map]
    apply List.map_congr_left
    intro fa hfa
    simp only [Function.comp]
    rw [resolveTy_curTy hc P fa.2 (hok.anns fa hfa)]

/-- the field pass over the fields a class shares with its ancestors, whatever their state -/
theorem passAnc_ok {cval : Cell → Ty} {defs : List (Name × Decl)} {cells : List (Cell × Ty)} (hc : CellsOK cval cells) :
    ∀ (ancs : List Name) (parsers : List (Name × PState)), ParsersOK cval parsers defs →
    ParsersOK cval (passAnc (resolveTy Cfg.fixed cells) ancs parsers) defs ∧
    ∀ k', (lookupP k' (passAnc (resolveTy Cfg.fixed cells) ancs parsers)).map (·.pending) =
          (lookupP k' parsers).map (·.pending) := by
  intro ancs
  induction ancs with
  | nil => intro parsers h; exact ⟨h, fun _ => rfl⟩
  | cons a as ih =>
    intro parsers h
    simp only [passAnc]
    cases hp : lookupP a parsers with
    | none => exact ih parsers h
    | some pa =>
      simp only
      obtain ⟨d, hd, hok⟩ := lookup_parsers_rev h hp
      have hok' := classOK_fieldpass hok hc pa.pending (fun c h1 _ => h1) (fun p hp => hp)
      obtain ⟨q1, q2⟩ := setP_ok h _ hd hok'
      obtain ⟨i1, i2⟩ := ih _ q1
      refine ⟨i1, fun k' => ?_⟩
      rw [i2]
      by_cases hka : k' = a
      · subst hka; rw [q2, hp]; rfl
      · rw [lookupP_setP_ne _ hka]

/-- `resolveOwn` in general: the invariant survives (also when the loop raises or resolves only a part),
other parsers' registries are untouched; when every listed reference can be evaluated it succeeds and
leaves nothing pending. -/
theorem resolveOwn_gen {cval : Cell → Ty} {s : State} {defs : List (Name × Decl)} (h : Inv cval s defs)
    (k : Name) (ancs : List Name) :
    Inv cval (resolveOwn Cfg.fixed s k ancs).1 defs ∧
    (∀ k', k' ≠ k → (lookupP k' (resolveOwn Cfg.fixed s k ancs).1.parsers).map (·.pending) =
                    (lookupP k' s.parsers).map (·.pending)) ∧
    (∀ d, lookupD k defs = some d →
      (∀ n ∈ d.strNames, n ∈ boundNames defs ∨ (d.isFunc = false ∧ n = k)) →
      (resolveOwn Cfg.fixed s k ancs).2 = true ∧
      ∃ ps1, lookupP k (resolveOwn Cfg.fixed s k ancs).1.parsers = some ps1 ∧ ps1.pending = []) := by
  cases hlk : lookupP k s.parsers with
  | none =>
    simp only [resolveOwn, hlk]
    refine ⟨h, fun _ _ => by first | rfl | trivial, ?_⟩
    intro d hd _
    obtain ⟨ps, hp, _⟩ := lookup_parsers h.parsers hd
    rw [hlk] at hp; cases hp
  | some ps =>
    obtain ⟨d0, hd0, hok⟩ := lookup_parsers_rev h.parsers hlk
    simp only [resolveOwn, hlk]
    by_cases hemp : ps.pending.isEmpty = true
    · simp only [hemp, if_true]
      exact ⟨h, fun _ _ => by first | rfl | trivial, fun _ _ _ => ⟨by first | rfl | trivial, ps, hlk, by simpa using hemp⟩⟩
    · simp only [hemp]
      obtain ⟨r1, _, r3, r4, r5⟩ := resolveLoop_gen (cval := cval)
        (visOf s (if ps.selfVis = true then some k else none)) ps.ignoreErr ps.pending s.cells h.cells
        (fun p hp => (hok.pend p hp).1)
      -- when everything listed can be evaluated
      have hall : ∀ d, lookupD k defs = some d →
          (∀ n ∈ d.strNames, n ∈ boundNames defs ∨ (d.isFunc = false ∧ n = k)) →
          ∀ p ∈ ps.pending, p.need.all (visOf s (if ps.selfVis = true then some k else none)) = true := by
        intro d hd hvis p hp
        rw [hd0] at hd; cases hd
        simp only [List.all_eq_true]
        intro n hn
        rcases hvis n ((hok.pend p hp).2 n hn) with hb | ⟨hf, hn⟩
        · simp [visOf, h.vis, hb]
        · simp [visOf, hok.selfv, hf, hn]
      cases hr : (resolveLoop (visOf s (if ps.selfVis = true then some k else none)) ps.ignoreErr ps.pending s.cells).raised with
      | true =>
        simp only [if_true, Cfg.fixed]
        refine ⟨⟨h.vis, r1, h.parsers⟩, fun _ _ => by first | rfl | trivial, ?_⟩
        intro d hd hvis
        have := (r5 (hall d hd hvis)).2.1
        rw [hr] at this; cases this
      | false =>
        simp only [Bool.false_eq_true, if_false]
        have hcells : CellsOK cval (if ps.isLocal = true then
            (resolveLoop (visOf s (if ps.selfVis = true then some k else none)) ps.ignoreErr ps.pending s.cells).cells.filter
              (fun p => !(resolveLoop (visOf s (if ps.selfVis = true then some k else none)) ps.ignoreErr ps.pending s.cells).popped.contains p.1)
            else (resolveLoop (visOf s (if ps.selfVis = true then some k else none)) ps.ignoreErr ps.pending s.cells).cells) := by
          split
          · intro q hq
            exact r1 q (List.mem_filter.mp hq).1
          · exact r1
        -- the parser's own new state
        have hsub : ∀ c, pcells ps.pending c = true →
            (lookupCell c (resolveLoop (visOf s (if ps.selfVis = true then some k else none)) ps.ignoreErr ps.pending s.cells).cells).isNone = true →
            pcells (resolveLoop (visOf s (if ps.selfVis = true then some k else none)) ps.ignoreErr ps.pending s.cells).kept c = true := by
          intro c hc hnone
          simp only [pcells, List.any_eq_true] at hc ⊢
          obtain ⟨q, hq, hqc⟩ := hc
          rcases r3 hr q hq with hk | hs
          · exact ⟨q, hk, hqc⟩
          · have : q.cell = c := by simpa using hqc
            rw [this] at hs
            cases hl : lookupCell c (resolveLoop (visOf s (if ps.selfVis = true then some k else none)) ps.ignoreErr ps.pending s.cells).cells <;> simp [hl] at hs hnone
        cases hres : (resolveLoop (visOf s (if ps.selfVis = true then some k else none)) ps.ignoreErr ps.pending s.cells).resolved with
        | false =>
          -- nothing could be evaluated (a function with unresolvable references): only the registry is re-listed
          simp only [Bool.false_eq_true, if_false]
          -- `resolved = false` means nothing was popped: the kept list is the whole list
          have hsame := resolveLoop_unresolved (visOf s (if ps.selfVis = true then some k else none)) ps.ignoreErr ps.pending s.cells hr hres
          have hok1 : ClassOK cval d0 { ps with pending := (resolveLoop (visOf s (if ps.selfVis = true then some k else none)) ps.ignoreErr ps.pending s.cells).kept } := by
            rw [hsame.1]; exact hok
          obtain ⟨p1, p2⟩ := setP_ok h.parsers _ hd0 hok1
          refine ⟨⟨h.vis, hcells, p1⟩, fun k' hne => by rw [lookupP_setP_ne _ hne], ?_⟩
          intro d hd hvis
          have := (r5 (hall d hd hvis)).2.2
          rw [hres] at this
          have hne : ps.pending ≠ [] := by intro h0; simp [h0] at hemp
          cases hpd : ps.pending with
          | nil => exact absurd hpd hne
          | cons _ _ => rw [hpd] at this; simp at this
        | true =>
          simp only [if_true]
          have hok1 := classOK_fieldpass hok r1
            (resolveLoop (visOf s (if ps.selfVis = true then some k else none)) ps.ignoreErr ps.pending s.cells).kept hsub r4
          obtain ⟨p1, p2⟩ := setP_ok h.parsers _ hd0 hok1
          obtain ⟨a1, a2⟩ := passAnc_ok (cval := cval) (defs := defs) r1 ancs _ p1
          refine ⟨⟨h.vis, hcells, a1⟩, ?_, ?_⟩
          · intro k' hne
            rw [a2, lookupP_setP_ne _ hne]
          · intro d hd hvis
            refine ⟨by first | rfl | trivial, ?_⟩
            have hk0 := (r5 (hall d hd hvis)).1
            have := a2 k
            rw [p2] at this
            simp only at this ⊢
            cases hl : lookupP k (passAnc (resolveTy Cfg.fixed
                (resolveLoop (visOf s (if ps.selfVis = true then some k else none)) ps.ignoreErr ps.pending s.cells).cells) ancs
                (setP k { ps with pending := (resolveLoop (visOf s (if ps.selfVis = true then some k else none)) ps.ignoreErr ps.pending s.cells).kept,
                                  fields := ps.fields.map (fun p => (p.1, resolveTy Cfg.fixed
                                    (resolveLoop (visOf s (if ps.selfVis = true then some k else none)) ps.ignoreErr ps.pending s.cells).cells p.2)) } s.parsers)) with
            | none => rw [hl] at this; simp at this
            | some ps1 =>
              rw [hl] at this
              simp only [Option.map_some, Option.some.injEq] at this
              exact ⟨ps1, rfl, by rw [this, hk0]⟩

/-! ### the walk up the bases -/

def chainFD : Nat → List (Name × Decl) → Name → List (Name × List Name)
  | 0, _, k => [(k, [])]
  | n + 1, defs, k =>
    let sub := match lookupD k defs with
      | none => []
      | some d => d.bases.flatMap (chainFD n defs)
    sub ++ [(k, sub.map (·.1))]

theorem chainF_eq {cval : Cell → Ty} {parsers : List (Name × PState)} {defs : List (Name × Decl)}
    (h : ParsersOK cval parsers defs) : ∀ (n : Nat) (k : Name), chainF n parsers k = chainFD n defs k := by
  intro n
  induction n with
  | zero => intro k; rfl
  | succ n ih =>
    intro k
    simp only [chainF, chainFD]
    cases hd : lookupD k defs with
    | none => simp [lookup_none h hd]
    | some d =>
      obtain ⟨p, hp, hok⟩ := lookup_parsers h hd
      have : p.bases.flatMap (chainF n parsers) = d.bases.flatMap (chainFD n defs) := by
        rw [hok.bases]
        congr 1
        funext b
        exact ih b
      simp [hp, this]

/-- every visited parser's ancestors were visited before it -/
def ChainClosed : List Name → List (Name × List Name) → Prop
  | _, [] => True
  | R, (a, ancs) :: rest => (∀ b ∈ ancs, b ∈ R) ∧ ChainClosed (a :: R) rest

theorem chainClosed_mono : ∀ (L : List (Name × List Name)) (R R' : List Name), (∀ r ∈ R, r ∈ R') →
    ChainClosed R L → ChainClosed R' L
  | [], _, _, _, _ => trivial
  | (a, ancs) :: rest, R, R', hsub, h => by
    simp only [ChainClosed] at h ⊢
    refine ⟨fun b hb => hsub b (h.1 b hb), chainClosed_mono rest (a :: R) (a :: R') ?_ h.2⟩
    intro r hr
    rcases List.mem_cons.mp hr with hr | hr
    · simp [hr]
    · exact List.mem_cons_of_mem _ (hsub r hr)

theorem chainClosed_append : ∀ (L1 L2 : List (Name × List Name)) (R : List Name),
    ChainClosed R L1 → ChainClosed (L1.map (·.1) ++ R) L2 → ChainClosed R (L1 ++ L2)
  | [], L2, R, _, h2 => by simpa using h2
  | (a, ancs) :: rest, L2, R, h1, h2 => by
    simp only [ChainClosed] at h1
    simp only [List.cons_append, ChainClosed]
    refine ⟨h1.1, chainClosed_append rest L2 (a :: R) h1.2 (chainClosed_mono L2 _ _ ?_ h2)⟩
    intro r hr
    simp only [List.map_cons, List.cons_append, List.mem_cons, List.mem_append, List.mem_map] at hr ⊢
    rcases hr with hr | hr | hr
    · exact Or.inr (Or.inl hr)
    · exact Or.inl hr
    · exact Or.inr (Or.inr hr)

theorem chainClosed_flatMap (f : Name → List (Name × List Name)) : ∀ (bs : List Name) (R : List Name),
    (∀ b ∈ bs, ∀ R, ChainClosed R (f b)) → ChainClosed R (bs.flatMap f)
  | [], _, _ => trivial
  | b :: bs, R, h => by
    simp only [List.flatMap_cons]
    exact chainClosed_append _ _ R (h b (by simp) R)
      (chainClosed_flatMap f bs _ (fun b' hb' => h b' (by simp [hb'])))

theorem chainFD_closed (defs : List (Name × Decl)) : ∀ (n : Nat) (k : Name) (R : List Name),
    ChainClosed R (chainFD n defs k) := by
  intro n
  induction n with
  | zero => intro k R; simp [chainFD, ChainClosed]
  | succ n ih =>
    intro k R
    simp only [chainFD]
    apply chainClosed_append
    · cases lookupD k defs with
      | none => trivial
      | some d => exact chainClosed_flatMap _ _ _ (fun b _ R => ih b R)
    · simp only [ChainClosed]
      exact ⟨fun b hb => by simp [hb], trivial⟩

theorem chainFD_in {defs : List (Name × Decl)} {S : List Name} (hS : Closed defs S) : ∀ (n : Nat) (k : Name), k ∈ S →
    ∀ p ∈ chainFD n defs k, p.1 ∈ S := by
  intro n
  induction n with
  | zero => intro k hk p hp; simp [chainFD] at hp; subst hp; exact hk
  | succ n ih =>
    intro k hk p hp
    obtain ⟨d, hd, _, _, hb⟩ := hS k hk
    simp only [chainFD, hd, List.mem_append, List.mem_flatMap, List.mem_singleton] at hp
    rcases hp with ⟨b, hbb, hp⟩ | hp
    · exact ih b (hb b hbb) p hp
    · subst hp; exact hk

theorem resolveChain_ok {cval : Cell → Ty} {defs : List (Name × Decl)} {S : List Name} (hS : Closed defs S) :
    ∀ (L : List (Name × List Name)) (R : List Name) (s : State), Inv cval s defs → (∀ p ∈ L, p.1 ∈ S) →
    (∀ r ∈ R, ResolvedD defs s r) →
    ∃ s1, resolveChain Cfg.fixed s L = (s1, true) ∧ Inv cval s1 defs ∧
      (∀ r, r ∈ L.map (·.1) ∨ r ∈ R → ResolvedD defs s1 r) := by
  intro L
  induction L with
  | nil =>
    intro R s h _ hR
    refine ⟨s, rfl, h, ?_⟩
    intro r hr
    rcases hr with hr | hr
    · simp at hr
    · exact hR r hr
  | cons node L ih =>
    intro R s h hin hR
    rcases node with ⟨a, ancs⟩
    obtain ⟨d, hd, _, hvis, _⟩ := hS a (hin (a, ancs) (by simp))
    obtain ⟨i1, fr1, g1⟩ := resolveOwn_gen h a ancs
    obtain ⟨e1', ps1, l1, pe1⟩ := g1 d hd hvis
    rcases hro : resolveOwn Cfg.fixed s a ancs with ⟨s1, b1⟩
    rw [hro] at i1 fr1 e1' l1
    simp only at i1 fr1 e1' l1
    subst e1'
    have e1 := hro
    have hR1 : ∀ r ∈ a :: R, ResolvedD defs s1 r := by
      intro r hr
      by_cases hra : r = a
      · subst hra; exact ⟨d, ps1, hd, l1, pe1⟩
      · have hrR : r ∈ R := by
          rcases List.mem_cons.mp hr with hr | hr
          · exact absurd hr hra
          · exact hr
        obtain ⟨dr, pr, h1, h2, h3⟩ := hR r hrR
        have := fr1 r hra
        rw [h2] at this
        cases hl : lookupP r s1.parsers with
        | none => simp [hl] at this
        | some pr1 =>
          simp only [hl, Option.map_some, Option.some.injEq] at this
          exact ⟨dr, pr1, h1, hl, by rw [this, h3]⟩
    obtain ⟨s2, e2, i2, r2⟩ := ih (a :: R) s1 i1 (fun p hp => hin p (by simp [hp])) hR1
    refine ⟨s2, by simp only [resolveChain, e1, e2], i2, ?_⟩
    intro r hr
    apply r2
    simp only [List.map_cons, List.mem_cons] at hr ⊢
    rcases hr with (hr | hr) | hr
    · exact Or.inr (Or.inl hr)
    · exact Or.inl hr
    · exact Or.inr (Or.inr hr)

theorem flatMap_congr' {α β : Type} {f g : α → List β} : ∀ {l : List α}, (∀ a ∈ l, f a = g a) →
    l.flatMap f = l.flatMap g
  | [], _ => rfl
  | a :: l, h => by
    simp only [List.flatMap_cons, h a (by simp), flatMap_congr' (l := l) (fun b hb => h b (by simp [hb]))]

theorem allFieldsF_eq {cval : Cell → Ty} {s : State} {defs : List (Name × Decl)} (h : Inv cval s defs) :
    ∀ (n : Nat) (k : Name), (∀ p ∈ chainFD n defs k, ResolvedD defs s p.1) →
    allFieldsF n s.parsers k = directFieldsF n defs k := by
  intro n
  induction n with
  | zero =>
    intro k hres
    obtain ⟨d, p, hd, hp, hpe⟩ := hres (k, []) (by simp [chainFD])
    obtain ⟨p', hp', hok⟩ := lookup_parsers h.parsers hd
    have : p' = p := by rw [hp] at hp'; cases hp'; rfl
    subst this
    simp [allFieldsF, directFieldsF, hd, hp, fields_of_resolved hok hpe]
  | succ n ih =>
    intro k hres
    have hself : ResolvedD defs s k := hres (k, _) (by simp only [chainFD, List.mem_append, List.mem_singleton]; exact Or.inr rfl)
    obtain ⟨d, p, hd, hp, hpe⟩ := hself
    obtain ⟨p', hp', hok⟩ := lookup_parsers h.parsers hd
    have : p' = p := by rw [hp] at hp'; cases hp'; rfl
    subst this
    simp only [allFieldsF, directFieldsF, hd, hp, fields_of_resolved hok hpe, hok.bases]
    rw [flatMap_congr' (l := d.bases.reverse) (f := allFieldsF n s.parsers) (g := directFieldsF n defs)]
    intro b hb
    apply ih b
    intro q hq
    apply hres q
    simp only [chainFD, hd, List.mem_append, List.mem_flatMap]
    exact Or.inl ⟨b, by simpa using hb, hq⟩

theorem resolveParser_ok {cval : Cell → Ty} {s : State} {defs : List (Name × Decl)} (h : Inv cval s defs)
    {S : List Name} (hS : Closed defs S) {k : Name} (hkS : k ∈ S) :
    ∃ s1 ps1, resolveParser Cfg.fixed s k = (s1, true) ∧ Inv cval s1 defs ∧
      lookupP k s1.parsers = some ps1 ∧
      allFieldsF s1.parsers.length s1.parsers k = directFieldsF defs.length defs k := by
  have hlen := parsers_length h.parsers
  simp only [resolveParser, Cfg.fixed, if_true]
  rw [← Cfg.fixed, chainF_eq h.parsers, hlen]
  obtain ⟨s1, e1, i1, r1⟩ := resolveChain_ok hS (chainFD defs.length defs k) [] s h
    (chainFD_in hS _ k hkS) (by intro r hr; simp at hr)
  have hk1 : ResolvedD defs s1 k := r1 k (Or.inl (by
    cases defs.length <;> simp [chainFD]))
  obtain ⟨_, p1, _, hp1, _⟩ := hk1
  refine ⟨s1, p1, e1, i1, hp1, ?_⟩
  rw [parsers_length i1.parsers]
  exact allFieldsF_eq i1 _ k (fun p hp => r1 p.1 (Or.inl (List.mem_map.mpr ⟨p, hp, rfl⟩)))

/-! ### the invariant survives every use, also one that cannot be resolved -/

theorem resolveChain_inv {cval : Cell → Ty} {defs : List (Name × Decl)} :
    ∀ (L : List (Name × List Name)) (s : State), Inv cval s defs → Inv cval (resolveChain Cfg.fixed s L).1 defs := by
  intro L
  induction L with
  | nil => intro s h; exact h
  | cons node L ih =>
    intro s h
    have i1 := (resolveOwn_gen h node.1 node.2).1
    simp only [resolveChain]
    rcases hro : resolveOwn Cfg.fixed s node.1 node.2 with ⟨s1, b1⟩
    rw [hro] at i1
    cases b1 with
    | false => exact i1
    | true => exact ih s1 i1

theorem resolveParser_inv {cval : Cell → Ty} {s : State} {defs : List (Name × Decl)} (h : Inv cval s defs) (k : Name) :
    Inv cval (resolveParser Cfg.fixed s k).1 defs := by
  simp only [resolveParser, Cfg.fixed, if_true]
  rw [← Cfg.fixed]
  exact resolveChain_inv _ s h

theorem mapS_inv {α : Type} (I : State → Prop) (f : State → α → State × Outcome)
    (hf : ∀ s x, I s → I (f s x).1) : ∀ (xs : List α) (s : State), I s → I (mapS f s xs).1 := by
  intro xs
  induction xs with
  | nil => intro s h; exact h
  | cons x xs ih =>
    intro s h
    have h1 := hf s x h
    rcases hfx : f s x with ⟨s1, o⟩
    rw [hfx] at h1
    have h2 := ih s1 h1
    cases o with
    | ok v =>
      simp only [mapS, hfx]
      rcases hm : mapS f s1 xs with ⟨s2, r⟩
      rw [hm] at h2
      cases r <;> exact h2
    | perr => simpa [mapS, hfx] using h1
    | nameErr => simpa [mapS, hfx] using h1
    | fuel => simpa [mapS, hfx] using h1

theorem firstOk_inv {α : Type} (I : State → Prop) (f : State → α → State × Outcome)
    (hf : ∀ s x, I s → I (f s x).1) : ∀ (xs : List α) (s : State), I s → I (firstOk f s xs).1 := by
  intro xs
  induction xs with
  | nil => intro s h; exact h
  | cons x xs ih =>
    intro s h
    have h1 := hf s x h
    rcases hfx : f s x with ⟨s1, o⟩
    rw [hfx] at h1
    have h2 := ih s1 h1
    cases o with
    | ok v => simpa [firstOk, hfx] using h1
    | fuel => simpa [firstOk, hfx] using h1
    | perr => simpa [firstOk, hfx] using h2
    | nameErr => simpa [firstOk, hfx] using h2

theorem fieldsS_inv (I : State → Prop) (f : State → Ty → Val → State × Outcome) (kvs : List (Nat × Val))
    (hf : ∀ s t x, I s → I (f s t x).1) : ∀ (fields : List (Nat × Ty)) (s : State), I s → I (fieldsS f kvs s fields).1 := by
  intro fields
  induction fields with
  | nil => intro s h; exact h
  | cons p fields ih =>
    intro s h
    rcases p with ⟨n, t⟩
    cases hl : lookupV n kvs with
    | none => simp only [fieldsS, hl]; exact ih s h
    | some x =>
      have h1 := hf s t x h
      rcases hfx : f s t x with ⟨s1, o⟩
      rw [hfx] at h1
      have h2 := ih s1 h1
      cases o with
      | ok v =>
        simp only [fieldsS, hl, hfx]
        rcases hm : fieldsS f kvs s1 fields with ⟨s2, r⟩
        rw [hm] at h2
        cases r <;> exact h2
      | perr => simpa [fieldsS, hl, hfx] using h1
      | nameErr => simpa [fieldsS, hl, hfx] using h1
      | fuel => simpa [fieldsS, hl, hfx] using h1

/-- whatever is parsed against whatever type, resolvable or not, the state stays consistent with the
declarations -/
theorem parseTy_inv {cval : Cell → Ty} (leaf : Val → Option Val) (chk : Nat → Val → Bool) {defs : List (Name × Decl)} :
    ∀ (fuel : Nat) (s : State) (ty : Ty) (v : Val), Inv cval s defs →
    Inv cval (parseTy Cfg.fixed leaf chk fuel s ty v).1 defs := by
  intro fuel
  induction fuel with
  | zero => intro s ty v h; exact h
  | succ fuel ih =>
    intro s ty v h
    cases ty with
    | int => simpa [parseTy] using h
    | none => simpa [parseTy] using h
    | fref c =>
      simp only [parseTy]
      cases lookupCell c s.cells with
      | none => exact h
      | some t => exact ih s t v h
    | list a =>
      cases v with
      | list xs =>
        simp only [parseTy]
        have := mapS_inv (fun s => Inv cval s defs) (fun s x => parseTy Cfg.fixed leaf chk fuel s a x)
          (fun s x hs => ih s a x hs) xs s h
        rcases hm : mapS (fun s x => parseTy Cfg.fixed leaf chk fuel s a x) s xs with ⟨s1, r⟩
        rw [hm] at this
        cases r <;> exact this
      | _ => simpa [parseTy] using h
    | dict a =>
      cases v with
      | dict kvs =>
        simp only [parseTy]
        have := mapS_inv (fun s => Inv cval s defs) (fun s (kv : Nat × Val) => parseTy Cfg.fixed leaf chk fuel s a kv.2)
          (fun s x hs => ih s a x.2 hs) kvs s h
        rcases hm : mapS (fun s (kv : Nat × Val) => parseTy Cfg.fixed leaf chk fuel s a kv.2) s kvs with ⟨s1, r⟩
        rw [hm] at this
        cases r <;> exact this
      | _ => simpa [parseTy] using h
    | tuple ts =>
      cases v with
      | list xs =>
        simp only [parseTy]
        by_cases hlen : (xs.length != ts.length) = true
        · simpa [hlen] using h
        · simp only [hlen]
          have := mapS_inv (fun s => Inv cval s defs) (fun s (tx : Ty × Val) => parseTy Cfg.fixed leaf chk fuel s tx.1 tx.2)
            (fun s x hs => ih s x.1 x.2 hs) (ts.zip xs) s h
          rcases hm : mapS (fun s (tx : Ty × Val) => parseTy Cfg.fixed leaf chk fuel s tx.1 tx.2) s (ts.zip xs) with ⟨s1, r⟩
          rw [hm] at this
          cases r <;> exact this
      | _ => simpa [parseTy] using h
    | union ts =>
      have hfo := firstOk_inv (fun s => Inv cval s defs) (fun s t => parseTy Cfg.fixed leaf chk fuel s t v)
        (fun s t hs => ih s t v hs) ts s h
      simp only [parseTy]
      cases v with
      | none =>
        cases ts.any isNoneTy with
        | true => exact h
        | false => exact hfo
      | int i => exact hfo
      | str x => exact hfo
      | list xs => exact hfo
      | tup xs => exact hfo
      | dict kvs => exact hfo
      | inst k fs => exact hfo
    | con c t =>
      simp only [parseTy]
      have := ih s t v h
      rcases hp : parseTy Cfg.fixed leaf chk fuel s t v with ⟨s1, o⟩
      rw [hp] at this
      exact this
    | data k =>
      simp only [parseTy]
      cases (lookupP k s.parsers).bind (·.rule) with
      | some c => exact h
      | none =>
        cases v with
        | dict kvs =>
          simp only
          have i1 := resolveParser_inv h k
          rcases hr : resolveParser Cfg.fixed s k with ⟨s1, b1⟩
          rw [hr] at i1
          cases b1 with
          | false => exact i1
          | true =>
            simp only
            cases hl : lookupP k s1.parsers with
            | none => exact i1
            | some ps1 =>
              simp only
              have := fieldsS_inv (fun s => Inv cval s defs) (fun s t x => parseTy Cfg.fixed leaf chk fuel s t x) kvs
                (fun s t x hs => ih s t x hs) (allFieldsF s1.parsers.length s1.parsers k) s1 i1
              rcases hm : fieldsS (fun s t x => parseTy Cfg.fixed leaf chk fuel s t x) kvs s1
                  (allFieldsF s1.parsers.length s1.parsers k) with ⟨s2, r⟩
              rw [hm] at this
              cases r <;> exact this
        | _ => exact h

theorem useTop_inv {cval : Cell → Ty} (leaf : Val → Option Val) (chk : Nat → Val → Bool) (fuel : Nat) {s : State}
    {defs : List (Name × Decl)} (h : Inv cval s defs) (k : Name) (kvs : List (Nat × Val)) :
    Inv cval (useTop Cfg.fixed leaf chk fuel s k kvs).1 defs := by
  simp only [useTop]
  have i1 := resolveParser_inv h k
  rcases hr : resolveParser Cfg.fixed s k with ⟨s1, b1⟩
  rw [hr] at i1
  cases b1 with
  | false => exact i1
  | true => exact parseTy_inv leaf chk fuel s1 (.data k) (.dict kvs) i1

/-! ### parsing: the threaded state never matters once the invariant holds -/

theorem mapS_spec {α : Type} (I : State → Prop) (f : State → α → State × Outcome) (g : α → Outcome) :
    ∀ (xs : List α) (s : State), (∀ x ∈ xs, ∀ s, I s → (f s x).2 = g x ∧ I (f s x).1) → I s →
    (mapS f s xs).2 = mapP g xs ∧ I (mapS f s xs).1 := by
  intro xs
  induction xs with
  | nil => intro s _ hI; exact ⟨rfl, hI⟩
  | cons x xs ih =>
    intro s hf hI
    obtain ⟨h1, h2⟩ := hf x (by simp) s hI
    rcases hfx : f s x with ⟨s1, o⟩
    rw [hfx] at h1 h2
    simp only at h1 h2
    obtain ⟨i1, i2⟩ := ih s1 (fun y hy => hf y (by simp [hy])) h2
    cases o with
    | ok v =>
      rcases hm : mapS f s1 xs with ⟨s2, r⟩
      rw [hm] at i1 i2
      simp only at i1 i2
      cases r <;> simp [mapS, hfx, hm, mapP, ← h1, ← i1, i2]
    | perr => simp [mapS, hfx, mapP, ← h1, h2]
    | nameErr => simp [mapS, hfx, mapP, ← h1, h2]
    | fuel => simp [mapS, hfx, mapP, ← h1, h2]

theorem firstOk_spec {α : Type} (I : State → Prop) (f : State → α → State × Outcome) (g : α → Outcome) :
    ∀ (xs : List α) (s : State), (∀ x ∈ xs, ∀ s, I s → (f s x).2 = g x ∧ I (f s x).1) → I s →
    (firstOk f s xs).2 = firstP g xs ∧ I (firstOk f s xs).1 := by
  intro xs
  induction xs with
  | nil => intro s _ hI; exact ⟨rfl, hI⟩
  | cons x xs ih =>
    intro s hf hI
    obtain ⟨h1, h2⟩ := hf x (by simp) s hI
    rcases hfx : f s x with ⟨s1, o⟩
    rw [hfx] at h1 h2
    simp only at h1 h2
    have i := ih s1 (fun y hy => hf y (by simp [hy])) h2
    cases o with
    | ok v => simp [firstOk, hfx, firstP, ← h1, h2]
    | fuel => simp [firstOk, hfx, firstP, ← h1, h2]
    | perr => simpa [firstOk, hfx, firstP, ← h1] using i
    | nameErr => simpa [firstOk, hfx, firstP, ← h1] using i

theorem fieldsS_spec (I : State → Prop) (f : State → Ty → Val → State × Outcome) (g : Ty → Val → Outcome)
    (kvs : List (Nat × Val)) :
    ∀ (fields : List (Nat × Ty)) (s : State),
    (∀ p ∈ fields, ∀ x s, I s → (f s p.2 x).2 = g p.2 x ∧ I (f s p.2 x).1) → I s →
    (fieldsS f kvs s fields).2 = fieldsP g kvs fields ∧ I (fieldsS f kvs s fields).1 := by
  intro fields
  induction fields with
  | nil => intro s _ hI; exact ⟨rfl, hI⟩
  | cons p fields ih =>
    intro s hf hI
    rcases p with ⟨n, t⟩
    cases hl : lookupV n kvs with
    | none =>
      simp only [fieldsS, fieldsP, hl]
      exact ih s (fun q hq => hf q (by simp [hq])) hI
    | some x =>
      obtain ⟨h1, h2⟩ := hf (n, t) (by simp) x s hI
      rcases hfx : f s t x with ⟨s1, o⟩
      rw [hfx] at h1 h2
      simp only at h1 h2
      obtain ⟨i1, i2⟩ := ih s1 (fun q hq => hf q (by simp [hq])) h2
      cases o with
      | ok v =>
        rcases hm : fieldsS f kvs s1 fields with ⟨s2, r⟩
        rw [hm] at i1 i2
        simp only at i1 i2
        cases r <;> simp [fieldsS, fieldsP, hl, hfx, hm, ← h1, ← i1, i2]
      | perr => simp [fieldsS, fieldsP, hl, hfx, ← h1, h2]
      | nameErr => simp [fieldsS, fieldsP, hl, hfx, ← h1, h2]
      | fuel => simp [fieldsS, fieldsP, hl, hfx, ← h1, h2]

theorem TysIn_mem {S : List Name} : ∀ {ts : List Ty}, TysIn S ts → ∀ t ∈ ts, TyIn S t
  | [], _, t, ht => by simp at ht
  | a :: as, h, t, ht => by
    simp only [TysIn] at h
    rcases List.mem_cons.mp ht with ht | ht
    · subst ht; exact h.1
    · exact TysIn_mem h.2 t ht

mutual
theorem TyIn_direct {S : List Name} (a : Ann) (h : ∀ n ∈ names a, n ∈ S) : TyIn S (direct a) := by
  cases a with
  | name n => simp only [direct, TyIn]; exact h n (by simp [names])
  | quoted c n => simp only [direct, TyIn]; exact h n (by simp [names])
  | list a => simp only [direct, TyIn]; exact TyIn_direct a (by simpa [names] using h)
  | dict a => simp only [direct, TyIn]; exact TyIn_direct a (by simpa [names] using h)
  | con _ a => simp only [direct, TyIn]; exact TyIn_direct a (by simpa [names] using h)
  | tuple as => simp only [direct, TyIn]; exact TysIn_direct as (by simpa [names] using h)
  | union as => simp only [direct, TyIn]; exact TysIn_direct as (by simpa [names] using h)
  | _ => simp [direct, TyIn]
theorem TysIn_direct {S : List Name} (as : List Ann) (h : ∀ n ∈ namesL as, n ∈ S) : TysIn S (directL as) := by
  cases as with
  | nil => simp [directL, TysIn]
  | cons a as =>
    simp only [directL, TysIn]
    exact ⟨TyIn_direct a (fun n hn => h n (by simp [namesL, hn])),
           TysIn_direct as (fun n hn => h n (by simp [namesL, hn]))⟩
end

theorem mem_zip_left {α β : Type} {a : α} {b : β} : ∀ {l₁ : List α} {l₂ : List β}, (a, b) ∈ l₁.zip l₂ → a ∈ l₁
  | [], _, h => by simp at h
  | _ :: _, [], h => by simp at h
  | x :: xs, y :: ys, h => by
    simp only [List.zip_cons_cons, List.mem_cons, Prod.mk.injEq] at h
    rcases h with ⟨h, _⟩ | h
    · simp [h]
    · exact List.mem_cons_of_mem _ (mem_zip_left h)

theorem fieldDirect_in {S : List Name} {d : Decl} (hall : ∀ n ∈ d.allNames, n ∈ S) :
    ∀ p ∈ d.fields.map (fun fa => (fa.1, fa.2.direct)), TyIn S p.2 := by
  intro p hp
  simp only [List.mem_map] at hp
  obtain ⟨fa, hfa, rfl⟩ := hp
  have hsub : ∀ n ∈ fa.2.allNames, n ∈ S := fun n hn =>
    hall n (by simp only [Decl.allNames, List.mem_flatMap]; exact ⟨fa, hfa, hn⟩)
  rcases fa with ⟨f, fa⟩
  cases fa with
  | plain a => exact TyIn_direct a hsub
  | str c e => exact TyIn_direct e hsub

theorem dictPut_mem (kv : Nat × Ty) : ∀ (acc : List (Nat × Ty)) (p : Nat × Ty), p ∈ dictPut kv acc → p = kv ∨ p ∈ acc
  | [], p, h => by simp [dictPut] at h; exact Or.inl h
  | (k, v) :: rest, p, h => by
    simp only [dictPut] at h
    split at h
    · rename_i he
      have hk : k = kv.1 := by simpa using he
      rcases List.mem_cons.mp h with h | h
      · left; rw [h, hk]
      · exact Or.inr (List.mem_cons_of_mem _ h)
    · rcases List.mem_cons.mp h with h | h
      · exact Or.inr (by simp [h])
      · rcases dictPut_mem kv rest p h with h | h
        · exact Or.inl h
        · exact Or.inr (List.mem_cons_of_mem _ h)

theorem dictMerge_mem (l : List (Nat × Ty)) : ∀ p ∈ dictMerge l, p ∈ l := by
  have : ∀ (l acc : List (Nat × Ty)) (p : Nat × Ty),
      p ∈ l.foldl (fun acc kv => dictPut kv acc) acc → p ∈ acc ∨ p ∈ l := by
    intro l
    induction l with
    | nil => intro acc p h; exact Or.inl h
    | cons kv l ih =>
      intro acc p h
      simp only [List.foldl_cons] at h
      rcases ih _ p h with h | h
      · rcases dictPut_mem kv acc p h with h | h
        · exact Or.inr (by simp [h])
        · exact Or.inl h
      · exact Or.inr (List.mem_cons_of_mem _ h)
  intro p hp
  rcases this l [] p hp with h | h
  · simp at h
  · exact h

theorem directFieldsF_in {defs : List (Name × Decl)} {S : List Name} (hS : Closed defs S) :
    ∀ (n : Nat) (k : Name), k ∈ S → ∀ p ∈ directFieldsF n defs k, TyIn S p.2 := by
  intro n
  induction n with
  | zero =>
    intro k hk p hp
    obtain ⟨d, hd, hall, _, _⟩ := hS k hk
    simp only [directFieldsF, hd] at hp
    exact fieldDirect_in hall p hp
  | succ n ih =>
    intro k hk p hp
    obtain ⟨d, hd, hall, _, hb⟩ := hS k hk
    simp only [directFieldsF, hd] at hp
    have := dictMerge_mem _ p hp
    simp only [List.mem_append, List.mem_flatMap, List.mem_reverse] at this
    rcases this with ⟨b, hbb, hp⟩ | hp
    · exact ih b (hb b hbb) p hp
    · exact fieldDirect_in hall p hp

theorem parse_spec {cval : Cell → Ty} (leaf : Val → Option Val) (chk : Nat → Val → Bool) {defs : List (Name × Decl)} {S : List Name}
    (hS : Closed defs S) :
    ∀ (fuel : Nat) (s : State) (ty : Ty) (v : Val), Inv cval s defs → TyIn S ty →
    (parseTy Cfg.fixed leaf chk fuel s ty v).2 = specParse leaf chk (envOf defs) fuel ty v ∧
    Inv cval (parseTy Cfg.fixed leaf chk fuel s ty v).1 defs := by
  intro fuel
  induction fuel with
  | zero => intro s ty v h _; first | exact ⟨rfl, h⟩ | exact ⟨trivial, h⟩
  | succ fuel ih =>
    intro s ty v h hty
    cases ty with
    | int => simp only [parseTy, specParse]; first | exact ⟨rfl, h⟩ | exact ⟨trivial, h⟩
    | none => simp only [parseTy, specParse]; first | exact ⟨rfl, h⟩ | exact ⟨trivial, h⟩
    | fref c => simp only [TyIn] at hty
    | list a =>
      simp only [TyIn] at hty
      cases v with
      | list xs =>
        simp only [parseTy, specParse]
        obtain ⟨m1, m2⟩ := mapS_spec (fun s => Inv cval s defs) (fun s x => parseTy Cfg.fixed leaf chk fuel s a x)
          (fun x => specParse leaf chk (envOf defs) fuel a x) xs s (fun x _ s hs => ih s a x hs hty) h
        rcases hm : mapS (fun s x => parseTy Cfg.fixed leaf chk fuel s a x) s xs with ⟨s1, r⟩
        rw [hm] at m1 m2
        simp only at m1 m2
        cases r with
        | inl e => simp only [← m1]; first | exact ⟨rfl, m2⟩ | exact ⟨trivial, m2⟩
        | inr vs => simp only [← m1]; first | exact ⟨rfl, m2⟩ | exact ⟨trivial, m2⟩
      | _ => simp only [parseTy, specParse]; first | exact ⟨rfl, h⟩ | exact ⟨trivial, h⟩
    | dict a =>
      simp only [TyIn] at hty
      cases v with
      | dict kvs =>
        simp only [parseTy, specParse]
        obtain ⟨m1, m2⟩ := mapS_spec (fun s => Inv cval s defs) (fun s (kv : Nat × Val) => parseTy Cfg.fixed leaf chk fuel s a kv.2)
          (fun (kv : Nat × Val) => specParse leaf chk (envOf defs) fuel a kv.2) kvs s (fun x _ s hs => ih s a x.2 hs hty) h
        rcases hm : mapS (fun s (kv : Nat × Val) => parseTy Cfg.fixed leaf chk fuel s a kv.2) s kvs with ⟨s1, r⟩
        rw [hm] at m1 m2
        simp only at m1 m2
        cases r with
        | inl e => simp only [← m1]; first | exact ⟨rfl, m2⟩ | exact ⟨trivial, m2⟩
        | inr vs => simp only [← m1]; first | exact ⟨rfl, m2⟩ | exact ⟨trivial, m2⟩
      | _ => simp only [parseTy, specParse]; first | exact ⟨rfl, h⟩ | exact ⟨trivial, h⟩
    | tuple ts =>
      simp only [TyIn] at hty
      cases v with
      | list xs =>
        simp only [parseTy, specParse]
        by_cases hlen : (xs.length != ts.length) = true
        · simp only [hlen, if_true]; first | exact ⟨rfl, h⟩ | exact ⟨trivial, h⟩
        · simp only [hlen]
          obtain ⟨m1, m2⟩ := mapS_spec (fun s => Inv cval s defs)
            (fun s (tx : Ty × Val) => parseTy Cfg.fixed leaf chk fuel s tx.1 tx.2)
            (fun (tx : Ty × Val) => specParse leaf chk (envOf defs) fuel tx.1 tx.2) (ts.zip xs) s
            (fun tx htx s hs => ih s tx.1 tx.2 hs (TysIn_mem hty tx.1 (mem_zip_left (b := tx.2) htx))) h
          rcases hm : mapS (fun s (tx : Ty × Val) => parseTy Cfg.fixed leaf chk fuel s tx.1 tx.2) s (ts.zip xs) with ⟨s1, r⟩
          rw [hm] at m1 m2
          simp only at m1 m2
          cases r with
          | inl e => simp only [← m1]; first | exact ⟨rfl, m2⟩ | exact ⟨trivial, m2⟩
          | inr vs => simp only [← m1]; first | exact ⟨rfl, m2⟩ | exact ⟨trivial, m2⟩
      | _ => simp only [parseTy, specParse]; first | exact ⟨rfl, h⟩ | exact ⟨trivial, h⟩
    | union ts =>
      simp only [TyIn] at hty
      have hfo := fun v => firstOk_spec (fun s => Inv cval s defs) (fun s t => parseTy Cfg.fixed leaf chk fuel s t v)
          (fun t => specParse leaf chk (envOf defs) fuel t v) ts s (fun t ht s hs => ih s t v hs (TysIn_mem hty t ht)) h
      simp only [parseTy, specParse]
      cases v with
      | none =>
        cases hn : ts.any isNoneTy with
        | true => first | exact ⟨rfl, h⟩ | exact ⟨trivial, h⟩
        | false => exact hfo .none
      | int i => exact hfo (.int i)
      | str x => exact hfo (.str x)
      | list xs => exact hfo (.list xs)
      | tup xs => exact hfo (.tup xs)
      | dict kvs => exact hfo (.dict kvs)
      | inst k fs => exact hfo (.inst k fs)
    | con c t =>
      simp only [TyIn] at hty
      obtain ⟨i1, i2⟩ := ih s t v h hty
      simp only [parseTy, specParse]
      rcases hp : parseTy Cfg.fixed leaf chk fuel s t v with ⟨s1, o⟩
      rw [hp] at i1 i2
      simp only at i1 i2
      simp only [← i1]
      exact ⟨trivial, i2⟩
    | data k =>
      simp only [TyIn] at hty
      obtain ⟨d, hk, _⟩ := hS k hty
      obtain ⟨ps, hlk, hok⟩ := lookup_parsers h.parsers hk
      have henv : envOf defs k = some (d.rule, directFieldsF defs.length defs k) := by simp [envOf, hk]
      have hrule : (lookupP k s.parsers).bind (·.rule) = d.rule := by simp [hlk, hok.rule]
      cases hdr : d.rule with
      | some c =>
        simp only [parseTy, specParse, henv, hrule, hdr]
        exact ⟨trivial, h⟩
      | none =>
      cases v with
      | dict kvs =>
        obtain ⟨s1, ps1, hr, hinv1, hl1, hf1⟩ := resolveParser_ok h hS hty
        simp only [parseTy, specParse, hr, hl1, henv, hf1, hrule, hdr]
        obtain ⟨m1, m2⟩ := fieldsS_spec (fun s => Inv cval s defs) (fun s t x => parseTy Cfg.fixed leaf chk fuel s t x)
          (fun t x => specParse leaf chk (envOf defs) fuel t x) kvs (directFieldsF defs.length defs k) s1
          (by
            intro p hp x s hs
            apply ih s _ x hs
            exact directFieldsF_in hS _ k hty p hp) hinv1
        rcases hm : fieldsS (fun s t x => parseTy Cfg.fixed leaf chk fuel s t x) kvs s1
            (directFieldsF defs.length defs k) with ⟨s2, r⟩
        rw [hm] at m1 m2
        simp only at m1 m2
        try rw [hm]
        cases r with
        | inl e => simp only [← m1]; first | exact ⟨rfl, m2⟩ | exact ⟨trivial, m2⟩
        | inr vs => simp only [← m1]; first | exact ⟨rfl, m2⟩ | exact ⟨trivial, m2⟩
      | _ => simp only [parseTy, specParse, henv, hrule, hdr]; first | exact ⟨rfl, h⟩ | exact ⟨trivial, h⟩

end Utv.C17
