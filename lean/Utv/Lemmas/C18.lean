import Utv.Model.C18
/-!
Helper lemmas for C18: how the generic loops of the model (`seqM`, `tryAll`, `orElse`, `mapOut`,
`inCtx`) transport a relation between a *limited* and an *unlimited* run, and how they bound cost.
-/
namespace Utv.C18

/-- `od` = outcome under the declared limits, `ou` = outcome with the limits removed, `w` = "the
result respects the limits".  (1) what the limited run accepts respects the limits and is accepted
without limits too; (2) what the unlimited run produces within the limits, the limited run produces. -/
def Good {β} (w : β → Bool) (od ou : Out β) : Prop :=
  (∀ b, od = .ok b → w b = true ∧ ou.isOk = true) ∧ (∀ b, ou = .ok b → w b = true → od = .ok b)

theorem good_err {β} (w : β → Bool) (f g : Flags) : Good w (Out.err f) (Out.err g) := by
  constructor <;> intro b h <;> cases h

theorem good_ok {β} (w : β → Bool) (b : β) (h : w b = true) : Good w (Out.ok b) (Out.ok b) := by
  constructor
  · intro b' hb; cases hb; exact ⟨h, rfl⟩
  · intro b' hb _; exact hb

theorem good_err_left {β} (w : β → Bool) (f : Flags) (ou : Out β)
    (h : ∀ b, ou = .ok b → w b = false) : Good w (Out.err f) ou := by
  constructor
  · intro b hb; cases hb
  · intro b hb hw; rw [h b hb] at hw; cases hw

/-- a limited run that is not ok forces nothing on the left; if the unlimited one is an error the
limited one must be an error too (contrapositive of (1)) -/
theorem Good.err_of_err {β} {w : β → Bool} {od ou : Out β} (h : Good w od ou) {g : Flags}
    (hu : ou = .err g) : ∃ f, od = .err f := by
  cases od with
  | err f => exact ⟨f, rfl⟩
  | ok b => have := (h.1 b rfl).2; rw [hu] at this; cases this

theorem mapOut_fst_ok {β γ} (g : β → γ) (o : Out β × Nat) (c : γ) :
    (mapOut g o).1 = .ok c ↔ ∃ b, o.1 = .ok b ∧ c = g b := by
  rcases o with ⟨o, n⟩
  cases o with
  | ok b => simp [mapOut]; constructor <;> intro h <;> exact h.symm
  | err f => simp [mapOut]

theorem mapOut_isOk {β γ} (g : β → γ) (o : Out β × Nat) : (mapOut g o).1.isOk = o.1.isOk := by
  rcases o with ⟨o, n⟩
  cases o <;> rfl

theorem mapOut_snd {β γ} (g : β → γ) (o : Out β × Nat) : (mapOut g o).2 = o.2 := by
  rcases o with ⟨o, n⟩
  cases o <;> rfl

theorem mapOut_good {β γ} (g : β → γ) (w : β → Bool) (w' : γ → Bool) (hw : ∀ b, w' (g b) = w b)
    (o o' : Out β × Nat) (h : Good w o.1 o'.1) : Good w' (mapOut g o).1 (mapOut g o').1 := by
  constructor
  · intro c hc
    obtain ⟨b, hb, rfl⟩ := (mapOut_fst_ok g o c).1 hc
    have := h.1 b hb
    rw [hw, mapOut_isOk]
    exact this
  · intro c hc hwc
    obtain ⟨b, hb, rfl⟩ := (mapOut_fst_ok g o' c).1 hc
    rw [hw] at hwc
    exact (mapOut_fst_ok g o _).2 ⟨b, h.2 b hb hwc, rfl⟩

/-! ### sequences -/

theorem seqM_ok_cons {α β} (p : α → Out β × Nat) (a : α) (as : List α) (bs : List β) :
    (seqM p (a :: as)).1 = .ok bs ↔ ∃ b bs', (p a).1 = .ok b ∧ (seqM p as).1 = .ok bs' ∧ bs = b :: bs' := by
  simp only [seqM]
  rcases hp : p a with ⟨o, c⟩
  cases o with
  | err f => simp
  | ok b =>
    rcases hs : seqM p as with ⟨o', c'⟩
    cases o' with
    | err f => simp
    | ok bs' =>
      simp only [Out.ok.injEq]
      constructor
      · intro h; exact ⟨b, bs', rfl, rfl, h.symm⟩
      · rintro ⟨b', bs'', h1, h2, h3⟩; cases h1; cases h2; exact h3.symm

theorem seqM_good {α β} (w : β → Bool) (p q : α → Out β × Nat)
    (h : ∀ a, Good w (p a).1 (q a).1) (l : List α) :
    Good (fun bs => bs.all w) (seqM p l).1 (seqM q l).1 := by
  induction l with
  | nil => exact good_ok _ _ rfl
  | cons a as ih =>
    constructor
    · intro bs hbs
      obtain ⟨b, bs', h1, h2, rfl⟩ := (seqM_ok_cons p a as bs).1 hbs
      have ha := (h a).1 b h1
      have hr := ih.1 bs' h2
      refine ⟨by simp [ha.1]; simpa using hr.1, ?_⟩
      cases hq : (q a).1 with
      | err f => rw [hq] at ha; cases ha.2
      | ok b2 =>
        cases hq2 : (seqM q as).1 with
        | err f => rw [hq2] at hr; cases hr.2
        | ok bs2 =>
          have := (seqM_ok_cons q a as (b2 :: bs2)).2 ⟨b2, bs2, hq, hq2, rfl⟩
          rw [this]; rfl
    · intro bs hbs hw
      obtain ⟨b, bs', h1, h2, rfl⟩ := (seqM_ok_cons q a as bs).1 hbs
      simp only [List.all_cons, Bool.and_eq_true] at hw
      exact (seqM_ok_cons p a as _).2 ⟨b, bs', (h a).2 b h1 hw.1, ih.2 bs' h2 hw.2, rfl⟩

/-! ### union stages -/

theorem tryAll_ok_cons {α β} (p : α → Out β × Nat) (a : α) (as : List α) (f : Flags) (b : β) :
    (tryAll p (a :: as) f).1 = .ok b ↔
      (p a).1 = .ok b ∨ ∃ g, (p a).1 = .err g ∧ (tryAll p as (f.or g)).1 = .ok b := by
  simp only [tryAll]
  rcases hp : p a with ⟨o, c⟩
  cases o with
  | ok b' => simp
  | err g => simp

theorem tryAll_isOk_of {α β} (p : α → Out β × Nat) (l : List α) (f : Flags)
    (h : ∃ a ∈ l, (p a).1.isOk = true) : (tryAll p l f).1.isOk = true := by
  induction l generalizing f with
  | nil => obtain ⟨a, ha, _⟩ := h; cases ha
  | cons a as ih =>
    simp only [tryAll]
    rcases hp : p a with ⟨o, c⟩
    cases o with
    | ok b => rfl
    | err g =>
      obtain ⟨a', ha', hok⟩ := h
      rcases List.mem_cons.1 ha' with rfl | hmem
      · rw [hp] at hok; cases hok
      · exact ih _ ⟨a', hmem, hok⟩

theorem tryAll_ok_mem {α β} (p : α → Out β × Nat) (l : List α) (f : Flags) (b : β)
    (h : (tryAll p l f).1 = .ok b) : ∃ a ∈ l, (p a).1 = .ok b := by
  induction l generalizing f with
  | nil => simp [tryAll] at h
  | cons a as ih =>
    rcases (tryAll_ok_cons p a as f b).1 h with h1 | ⟨g, _, h2⟩
    · exact ⟨a, by simp, h1⟩
    · obtain ⟨a', ha', h3⟩ := ih _ h2
      exact ⟨a', by simp [ha'], h3⟩

theorem tryAll_good {α β} (w : β → Bool) (p q : α → Out β × Nat)
    (h : ∀ a, Good w (p a).1 (q a).1) (l : List α) (f f' : Flags) :
    Good w (tryAll p l f).1 (tryAll q l f').1 := by
  constructor
  · intro b hb
    obtain ⟨a, ha, hpa⟩ := tryAll_ok_mem p l f b hb
    have := (h a).1 b hpa
    exact ⟨this.1, tryAll_isOk_of q l f' ⟨a, ha, this.2⟩⟩
  · induction l generalizing f f' with
    | nil => intro b hb; simp [tryAll] at hb
    | cons a as ih =>
      intro b hb hw
      rcases (tryAll_ok_cons q a as f' b).1 hb with h1 | ⟨g, h1, h2⟩
      · exact (tryAll_ok_cons p a as f b).2 (Or.inl ((h a).2 b h1 hw))
      · obtain ⟨g', hg'⟩ := (h a).err_of_err h1
        exact (tryAll_ok_cons p a as f b).2 (Or.inr ⟨g', hg', ih _ _ b h2 hw⟩)

theorem orElse_ok {β} (a : Out β × Nat) (k : Flags → Out β × Nat) (b : β) :
    (orElse a k).1 = .ok b ↔ a.1 = .ok b ∨ ∃ f, a.1 = .err f ∧ (k f).1 = .ok b := by
  rcases a with ⟨o, c⟩
  cases o with
  | ok b' => simp [orElse]
  | err f => simp [orElse]

theorem orElse_isOk {β} (a : Out β × Nat) (k : Flags → Out β × Nat) :
    (orElse a k).1.isOk = true ↔ a.1.isOk = true ∨ ∃ f, a.1 = .err f ∧ (k f).1.isOk = true := by
  rcases a with ⟨o, c⟩
  cases o with
  | ok b' => simp [orElse, Out.isOk]
  | err f => simp [orElse, Out.isOk]

theorem orElse_good {β} (w : β → Bool) (a a' : Out β × Nat) (k k' : Flags → Out β × Nat)
    (ha : Good w a.1 a'.1) (hk : ∀ f f', Good w (k f).1 (k' f').1) :
    Good w (orElse a k).1 (orElse a' k').1 := by
  constructor
  · intro b hb
    rcases (orElse_ok a k b).1 hb with h1 | ⟨f, h1, h2⟩
    · have := ha.1 b h1
      exact ⟨this.1, (orElse_isOk a' k').2 (Or.inl this.2)⟩
    · cases hq : a'.1 with
      | ok b' => exact ⟨((hk f f).1 b h2).1, (orElse_isOk a' k').2 (Or.inl (by rw [hq]; rfl))⟩
      | err f' =>
        have := (hk f f').1 b h2
        exact ⟨this.1, (orElse_isOk a' k').2 (Or.inr ⟨f', hq, this.2⟩)⟩
  · intro b hb hw
    rcases (orElse_ok a' k' b).1 hb with h1 | ⟨f', h1, h2⟩
    · exact (orElse_ok a k b).2 (Or.inl (ha.2 b h1 hw))
    · obtain ⟨f, hf⟩ := ha.err_of_err h1
      exact (orElse_ok a k b).2 (Or.inr ⟨f, hf, (hk f f').2 b h2 hw⟩)

/-! ### data-first assembly -/

theorem dedupFst_nodup {α} (l : List (String × α)) : ((dedupFst l).map Prod.fst).Nodup := by
  induction l with
  | nil => simp [dedupFst]
  | cons x xs ih =>
    simp only [dedupFst, List.map_cons, List.nodup_cons]
    constructor
    · intro hmem
      obtain ⟨y, hy, hxy⟩ := List.mem_map.1 hmem
      have := (List.mem_filter.1 hy).2
      simp [hxy] at this
    · exact ih.sublist ((List.filter_sublist).map _)

theorem dedupFst_subset {α} (l : List (String × α)) (x : String × α) (h : x ∈ dedupFst l) : x ∈ l := by
  induction l with
  | nil => simp [dedupFst] at h
  | cons y ys ih =>
    simp only [dedupFst, List.mem_cons] at h
    rcases h with h | h
    · simp [h]
    · exact List.mem_cons_of_mem _ (ih (List.mem_filter.1 h).1)

theorem lookup_some_mem {α} (l : List (String × α)) (s : String) (a : α) (h : l.lookup s = some a) :
    (s, a) ∈ l := by
  induction l with
  | nil => simp [List.lookup] at h
  | cons x xs ih =>
    rcases x with ⟨s', a'⟩
    simp only [List.lookup] at h
    split at h
    · rename_i heq
      cases h
      have : s = s' := by simpa using heq
      subst this; simp
    · exact List.mem_cons_of_mem _ (ih h)

theorem seqM_map_fst {α β} (p : α → Out (String × β) × Nat) (key : α → String)
    (hp : ∀ a b, (p a).1 = .ok b → b.1 = key a) (l : List α) (bs : List (String × β))
    (h : (seqM p l).1 = .ok bs) : bs.map Prod.fst = l.map key := by
  induction l generalizing bs with
  | nil => simp [seqM] at h; subst h; rfl
  | cons a as ih =>
    obtain ⟨b, bs', h1, h2, rfl⟩ := (seqM_ok_cons p a as bs).1 h
    simp [hp a b h1, ih bs' h2]

theorem lookup_of_mem_nodup {α} (rs : List (String × α)) (s : String) (r : α)
    (hn : (rs.map Prod.fst).Nodup) (hm : (s, r) ∈ rs) : rs.lookup s = some r := by
  induction rs with
  | nil => cases hm
  | cons x xs ih =>
    rcases x with ⟨s', r'⟩
    simp only [List.map_cons, List.nodup_cons] at hn
    simp only [List.lookup]
    rcases List.mem_cons.1 hm with h | h
    · cases h; simp
    · have hne : s ≠ s' := by
        intro he; subst he
        exact hn.1 (List.mem_map.2 ⟨(s, r), h, rfl⟩)
      have : (s == s') = false := by simpa using hne
      simp only [this]
      exact ih hn.2 h

end Utv.C18

namespace Utv.C18

/-! ### where an accepted result comes from -/

theorem seqM_ok_mem {α β} (p : α → Out β × Nat) (l : List α) (bs : List β) (h : (seqM p l).1 = .ok bs) :
    ∀ a ∈ l, ∃ b ∈ bs, (p a).1 = .ok b := by
  induction l generalizing bs with
  | nil => intro a ha; cases ha
  | cons x xs ih =>
    obtain ⟨b, bs', h1, h2, rfl⟩ := (seqM_ok_cons p x xs bs).1 h
    intro a ha
    rcases List.mem_cons.1 ha with rfl | hm
    · exact ⟨b, by simp, h1⟩
    · obtain ⟨b', hb', h3⟩ := ih bs' h2 a hm
      exact ⟨b', by simp [hb'], h3⟩

theorem inCtx_ok {β} (e : Out Ctx) (p : Ctx → Out β × Nat) (b : β) (h : (inCtx e p).1 = .ok b) :
    ∃ c, e = .ok c ∧ (p c).1 = .ok b := by
  cases e with
  | err f => simp [inCtx] at h
  | ok c => exact ⟨c, rfl, h⟩

theorem mem_indexed {α} (l : List α) (i : Nat) (x : α) (h : x ∈ l) : ∃ j, (j, x) ∈ indexed i l := by
  induction l generalizing i with
  | nil => cases h
  | cons y ys ih =>
    rcases List.mem_cons.1 h with rfl | hm
    · exact ⟨i, by simp [indexed]⟩
    · obtain ⟨j, hj⟩ := ih (i + 1) hm
      exact ⟨j, by simp [indexed, hj]⟩

/-- the first entry with a given key survives `dedupFst` -/
theorem dedupFst_first {α} (l : List (String × α)) (s : String) (a : α) (h : l.lookup s = some a) :
    (s, a) ∈ dedupFst l := by
  induction l with
  | nil => simp [List.lookup] at h
  | cons x xs ih =>
    rcases x with ⟨s', a'⟩
    simp only [List.lookup] at h
    simp only [dedupFst, List.mem_cons]
    split at h
    · rename_i heq
      cases h
      have : s = s' := by simpa using heq
      subst this
      exact Or.inl rfl
    · rename_i hne
      right
      refine List.mem_filter.2 ⟨ih h, ?_⟩
      have : s ≠ s' := by simpa using hne
      simpa using this

theorem filterMap_lookup (fields : List (String × Ty)) (kvs : List (Key × Val)) (f : String) (ft : Ty) (sub : Val)
    (hf : fields.lookup f = some ft) (hk : lookupKey (.str f) kvs = some sub) :
    (kvs.filterMap fun (kv : Key × Val) =>
      match kv.1 with
      | .str s => (fields.lookup s).map fun t => (s, t, kv.2)
      | _ => none).lookup f = some (ft, sub) := by
  induction kvs with
  | nil => simp [lookupKey] at hk
  | cons kv rest ih =>
    rcases kv with ⟨k, v⟩
    simp only [lookupKey] at hk
    split at hk
    · rename_i heq
      cases hk
      subst heq
      simp [hf]
    · rename_i hne
      simp only [List.filterMap_cons]
      cases k with
      | int i => simpa using ih hk
      | other n => simpa using ih hk
      | str s =>
        simp only
        cases hl : fields.lookup s with
        | none => simpa [hl] using ih hk
        | some t =>
          have hsf : (f == s) = false := by
            have : s ≠ f := fun he => hne (by rw [he])
            simpa using fun he => this he.symm
          simp only [Option.map_some, List.lookup, hsf]
          exact ih hk

theorem knownItems_mem (fields : List (String × Ty)) (kvs : List (Key × Val)) (f : String) (ft : Ty) (sub : Val)
    (hf : fields.lookup f = some ft) (hk : lookupKey (.str f) kvs = some sub) :
    (f, ft, sub) ∈ knownItems fields kvs :=
  dedupFst_first _ f (ft, sub) (filterMap_lookup fields kvs f ft sub hf hk)

theorem wrapSeq_mem (m : Mode) (v : Val) (vs : List Val) (hl : isList v = false) (hne : v ≠ .dict [])
    (hw : wrapSeq m v = some vs) : v ∈ vs := by
  cases v with
  | list l => simp [isList] at hl
  | tok a =>
    simp only [wrapSeq] at hw
    split at hw
    · cases hw
    · cases hw; simp
  | none =>
    simp only [wrapSeq] at hw
    split at hw
    · cases hw
    · cases hw; simp
  | dict kvs =>
    cases kvs with
    | nil => exact absurd rfl hne
    | cons kv rest =>
      simp only [wrapSeq] at hw
      split at hw
      · cases hw
      · cases hw; simp

/-! ### forbidden additional keys -/

theorem failIf_ok {β} (b : Bool) (o : Out β × Nat) (r : β) :
    (failIf b o).1 = .ok r ↔ b = false ∧ o.1 = .ok r := by
  rcases o with ⟨o, n⟩
  cases b <;> cases o <;> simp [failIf]

theorem failIf_snd {β} (b : Bool) (o : Out β × Nat) : (failIf b o).2 = o.2 := by
  rcases o with ⟨o, n⟩
  cases b <;> cases o <;> rfl

theorem failIf_false {β} (o : Out β × Nat) : failIf false o = o := rfl

theorem failIf_isOk_false {β} (b : Bool) (o : Out β × Nat) (h : o.1.isOk = false) : (failIf b o).1.isOk = false := by
  rcases o with ⟨o, n⟩
  cases b <;> cases o <;> simp_all [failIf, Out.isOk]

theorem failIf_good {β} (w : β → Bool) (b : Bool) (o o' : Out β × Nat) (h : Good w o.1 o'.1) :
    Good w (failIf b o).1 (failIf b o').1 := by
  cases b with
  | false => exact h
  | true =>
    constructor
    · intro r hr; simp [failIf_ok] at hr
    · intro r hr; simp [failIf_ok] at hr

/-! ### sequences standing for mappings (`transform_dataclass`, `to_dict`) -/

theorem unwrapData_scalar (m : Mode) (v : Val) (h : isScalarVal v = true) : unwrapData m v = some v := by
  cases v <;> simp_all [unwrapData, isScalarVal]

theorem unwrapData_dict (m : Mode) (kvs : List (Key × Val)) : unwrapData m (.dict kvs) = some (.dict kvs) := rfl

theorem toDict_dict (m : Mode) (kvs : List (Key × Val)) : toDict m (.dict kvs) = some kvs := rfl

theorem toDict_scalar (m : Mode) (v : Val) (h : isScalarVal v = true) : toDict m v = none := by
  cases v <;> simp_all [toDict, isScalarVal]

/-- whatever preferences let the conversion through, it yields the same mapping -/
theorem toDict_indep (m m2 : Mode) (v : Val) (kvs kvs2 : List (Key × Val)) (h : toDict m v = some kvs)
    (h2 : toDict m2 v = some kvs2) : kvs2 = kvs := by
  cases v with
  | tok n => simp [toDict] at h
  | none => simp [toDict] at h
  | dict l => simp [toDict] at h h2; rw [← h, ← h2]
  | list l =>
    cases l with
    | nil =>
      simp only [toDict] at h h2
      split at h <;> split at h2 <;> simp_all
    | cons w ws =>
      simp only [toDict] at h h2
      split at h
      · cases h
      · split at h
        · cases h
        · split at h2
          · cases h2
          · split at h2
            · cases h2
            · cases w with
              | dict l2 => simp at h h2; rw [← h, ← h2]
              | list l2 =>
                cases l2 with
                | nil => simp at h h2; rw [h, h2]
                | cons a b => simp at h
              | tok n => simp at h
              | none => simp at h

theorem toDict_cross (m m2 : Mode) (w : Val) (ws : List Val) (l l' : List (Key × Val))
    (h : toDict m (.list (w :: ws)) = some l) (h' : toDict m2 w = some l') : l' = l := by
  simp only [toDict] at h
  split at h
  · cases h
  · split at h
    · cases h
    · cases w with
      | dict k0 => simp at h; simp [toDict] at h'; rw [← h, ← h']
      | list l0 =>
        cases l0 with
        | nil =>
          simp at h
          simp only [toDict] at h'
          split at h'
          · cases h'
          · simp at h'; rw [h, h']
        | cons a b => simp at h
      | tok n => simp at h
      | none => simp at h

theorem unwrapData_cases (m : Mode) (w : Val) (ws : List Val) (v1 : Val)
    (h : unwrapData m (.list (w :: ws)) = some v1) : v1 = w ∨ v1 = .list (w :: ws) := by
  simp only [unwrapData] at h
  split at h
  · simp at h; exact Or.inr h.symm
  · split at h
    · cases h
    · simp at h; exact Or.inl h.symm

/-- the same for the whole preparation of a data-class input (context preferences `m`, class preferences `m'`) -/
theorem dataPrep_indep (m m2 m' : Mode) (v v1 v2 : Val) (kvs kvs2 : List (Key × Val))
    (hu : unwrapData m v = some v1) (ht : toDict m' v1 = some kvs)
    (hu2 : unwrapData m2 v = some v2) (ht2 : toDict m' v2 = some kvs2) : kvs2 = kvs := by
  cases v with
  | tok n => simp [unwrapData] at hu hu2; subst hu; subst hu2; simp [toDict] at ht
  | none => simp [unwrapData] at hu hu2; subst hu; subst hu2; simp [toDict] at ht
  | dict l => simp [unwrapData] at hu hu2; subst hu; subst hu2; exact toDict_indep _ _ _ _ _ ht ht2
  | list l =>
    cases l with
    | nil => simp [unwrapData] at hu hu2; subst hu; subst hu2; exact toDict_indep _ _ _ _ _ ht ht2
    | cons w ws =>
      rcases unwrapData_cases m w ws v1 hu with h1 | h1 <;>
        rcases unwrapData_cases m2 w ws v2 hu2 with h2 | h2 <;> subst h1 <;> subst h2
      · exact toDict_indep _ _ _ _ _ ht ht2
      · exact (toDict_cross _ _ _ _ _ _ ht2 ht).symm
      · exact toDict_cross _ _ _ _ _ _ ht ht2
      · exact toDict_indep _ _ _ _ _ ht ht2

end Utv.C18
