import Utv.Lemmas.C20
/-!
C20 — termination: a natural-number bound on the steps a thread can still take (`psi`), which every step of a
thread that is neither finished nor waiting for the lock strictly decreases and no step of another thread
increases.  Helper material for `Utv/Props/C20.lean`.
-/
namespace Utv.C20

/-! ### a natural-number measure that every effective step decreases -/

def parseT (u : Nat) : Nat := 8 * u + 4
def costU (u0 : Nat) : Nat := parseT u0 + 2
def costF (N u0 : Nat) : Nat := 6 * N + 3 + costU u0
def callCost (P N : Nat) (c : Call) : Nat := 7 + 10 * P + costF N c.length

def rest (P N : Nat) : List Call → Nat
  | [] => 0
  | c :: cs => callCost P N c + rest P N cs

/-- an upper bound on the number of steps thread-state `t` still takes when `P` names are pending -/
def psi (W : World) (P : Nat) (t : Th) : Nat :=
  let N := W.nf
  let u0 := (t.calls.headD []).length
  let R := rest P N t.calls.tail
  let Lr := 2 * t.clear.length + t.rn.length
  let F := costF N u0
  let U := costU u0
  let A := 1 + Lr + U
  let fld (off : Nat) := 6 * (N - t.fi - 1) + off + A + R
  let prs (off : Nat) := 8 * (t.uses.length - 1) + off + 1 + R
  match t.pc with
  | .start => 1 + rest P N t.calls
  | .chkBase => 6 + 10 * P + F + R
  | .chk => 5 + 10 * P + F + R
  | .lock => 4 + 10 * P + Lr + F + R
  | .list => 3 + 10 * P + Lr + F + R
  | .next => 1 + 10 * t.names.length + Lr + F + R
  | .get => 10 + 10 * t.names.length + Lr + F + R
  | .eval => 9 + 10 * t.names.length + Lr + F + R
  | .isev => 8 + 10 * t.names.length + Lr + F + R
  | .rdval => 7 + 10 * t.names.length + Lr + F + R
  | .wrA | .wrcA => 6 + 10 * t.names.length + Lr + F + R
  | .wrB | .wrcArg => 5 + 10 * t.names.length + Lr + F + R
  | .wrcB => 5 + 10 * t.names.length + Lr + F + R
  | .pop => 4 + 10 * t.names.length + Lr + F + R
  | .fldTyQ => fld 6
  | .fldTy => fld 5
  | .rftIsev | .rrfA => fld 4
  | .rftRdval | .rrfB => fld 3
  | .rrfC => fld 2
  | .fldOtyQ => fld 1
  | .addn => A + R
  | .clr1 => 2 * t.clrIt.length + 2 + t.rn.length + U + R
  | .clr2 => 2 * t.clrIt.length + 1 + t.rn.length + U + R
  | .popd => t.popIt.length + 1 + U + R
  | .unlock => U + R
  | .frfPos => parseT u0 + 1 + R
  | .frfRet => parseT u0 + R
  | .pv => prs 8
  | .tcIsev => prs 7
  | .tcRdval => prs 6
  | .nested => prs 5
  | .nested2 => prs 4
  | .nestedPv => prs 3
  | .nestedErr => prs 2
  | .pvErr => prs 1
  | .fin => 0
  | .stuck => 0

theorem rest_mono {P P' N : Nat} (h : P' ≤ P) (cs : List Call) : rest P' N cs ≤ rest P N cs := by
  induction cs with
  | nil => simp [rest]
  | cons c cs ih => simp only [rest, callCost]; omega

theorem psi_mono (W : World) {P P' : Nat} (h : P' ≤ P) (t : Th) : psi W P' t ≤ psi W P t := by
  have h1 := rest_mono (N := W.nf) h t.calls.tail
  have h2 := rest_mono (N := W.nf) h t.calls
  unfold psi
  cases t.pc <;> simp only <;> omega


def uz (t : Th) : Nat := (t.calls.headD []).length
def rz (W : World) (P : Nat) (t : Th) : Nat := rest P W.nf t.calls.tail
def lr (t : Th) : Nat := 2 * t.clear.length + t.rn.length

theorem psi_endCall (W : World) (P : Nat) (t : Th) (o : Outcome) : psi W P (endCall t o) ≤ rz W P t := by
  unfold endCall rz
  cases h : t.calls.tail with
  | nil => simp [psi]
  | cons c cs =>
    simp only [List.isEmpty_cons, Bool.false_eq_true, if_false, psi, rest, callCost, List.headD_cons, List.tail_cons]
    omega

theorem psi_parseNext (W : World) (P : Nat) (t : Th) : psi W P (parseNext t) ≤ 8 * t.uses.length + 1 + rz W P t := by
  unfold parseNext
  split
  · rename_i h
    have := psi_endCall W P t (if t.wrongF then .wrong else .ok)
    omega
  · rename_i u us h
    simp only [psi, rz, h, List.length_cons]
    omega

theorem psi_startParse (W : World) (P : Nat) (t : Th) : psi W P (startParse t) ≤ 8 * uz t + 1 + rz W P t := by
  have := psi_parseNext W P { t with uses := t.calls.headD [] }
  simpa [startParse, uz, rz] using this

theorem psi_nextUse (W : World) (P : Nat) (t : Th) (c : Conv := .byType) :
    psi W P (nextUse t c) ≤ 8 * (t.uses.length - 1) + 1 + rz W P t := by
  have := psi_parseNext W P
    { t with uses := t.uses.tail, vals := t.vals ++ (t.uses.head?.map fun u => (u.fld, c)).toList }
  simpa [nextUse, rz] using this

theorem psi_leaveResolve (W : World) (P : Nat) (t : Th) :
    psi W P (leaveResolve W t) ≤ parseT (uz t) + 1 + rz W P t := by
  unfold leaveResolve
  split
  · have := psi_endCall W P t ‹Outcome›
    omega
  · split
    · simp [psi, uz, rz]
    · have := psi_startParse W P t
      simp only [parseT]; omega

theorem psi_popAdvance (W : World) (P : Nat) (t : Th) :
    psi W P (popAdvance t) ≤ t.popIt.length + costU (uz t) + rz W P t := by
  unfold popAdvance
  split
  · simp [psi, uz, rz]
  · rename_i n ns h
    simp only [psi, uz, rz, h, List.length_cons]
    omega

theorem psi_enterFinally (W : World) (P : Nat) (t : Th) :
    psi W P (enterFinally W false t) ≤ t.rn.length + costU (uz t) + rz W P t := by
  have := psi_popAdvance W P { t with popIt := if t.exc.isSome then [] else t.rn }
  have hl : (if t.exc.isSome then ([] : List Nat) else t.rn).length ≤ t.rn.length := by split <;> simp
  simp only [enterFinally, uz, rz, Bool.false_eq_true, if_false] at this ⊢
  omega

theorem psi_clearAdvance (W : World) (P : Nat) (t : Th) :
    psi W P (clearAdvance W false t) ≤ 2 * t.clrIt.length + t.rn.length + costU (uz t) + rz W P t := by
  unfold clearAdvance
  split
  · have := psi_enterFinally W P t
    omega
  · rename_i r rs h
    simp only [psi, uz, rz, h, List.length_cons]
    omega

theorem psi_enterClear (W : World) (P : Nat) (t : Th) :
    psi W P (enterClear W false t) ≤ lr t + costU (uz t) + rz W P t := by
  unfold enterClear
  split
  · have := psi_clearAdvance W P { t with clrIt := t.clear }
    simp only [uz, rz, lr] at this ⊢
    omega
  · have := psi_enterFinally W P t
    simp only [lr]; omega

theorem psi_fieldAdvance (W : World) (P : Nat) (t : Th) :
    psi W P (fieldAdvance W t) ≤ 6 * (W.nf - t.fi) + 1 + lr t + costU (uz t) + rz W P t := by
  unfold fieldAdvance
  split
  · simp only [psi, uz, rz, lr]; omega
  · simp only [psi, uz, rz, lr]; omega

theorem psi_afterLoop (W : World) (P : Nat) (t : Th) :
    psi W P (afterLoop W false t) ≤ 6 * W.nf + 1 + lr t + costU (uz t) + rz W P t := by
  unfold afterLoop
  split
  · have := psi_fieldAdvance W P { t with fi := 0 }
    simp only [uz, rz, lr] at this ⊢
    omega
  · have := psi_enterClear W P t
    omega

theorem psi_advance (W : World) (P : Nat) (t : Th) :
    psi W P (advance W false t) ≤ 10 * t.names.length + lr t + costF W.nf (uz t) + rz W P t := by
  unfold advance
  split
  · have := psi_afterLoop W P t
    simp only [costF]; omega
  · rename_i n ns h
    simp only [psi, uz, rz, lr, h, List.length_cons]
    omega

theorem psi_raise (W : World) (P : Nat) (t : Th) (e : Outcome) :
    psi W P (raise W false t e) ≤ t.rn.length + costU (uz t) + rz W P t := by
  have := psi_enterFinally W P { t with exc := some e }
  simpa [raise, uz, rz] using this


theorem psi_afterType (W : World) (P : Nat) (t : Th) (u : Use) (v : Val) (d : Bool) :
    psi W P (afterType W t u v d) ≤ 8 * (t.uses.length - 1) + 6 + rz W P t := by
  have h1 := psi_nextUse W P t
  have h2 := psi_nextUse W P { t with wrongF := true } .asIs
  simp only [rz] at h1 h2
  unfold afterType
  split
  · split
    · simp only [psi, rz]; omega
    · simp only [rz]; omega
  · split
    · simp only [psi, rz]; omega
    · split
      · simp only [psi, rz]; omega
      · simp only [psi, rz]; omega
    · split
      · simp only [psi, rz]; omega
      · simp only [rz]; omega
    · simp only [psi, rz]; omega

/-- every step of a thread that is neither finished nor waiting for the lock strictly decreases its bound -/
theorem step_psi (W : World) (k : Nat) (g : G) (t : Th) (ha : t.pc.dead = false) (hf : t.pc ≠ .fin)
    (hb : ¬ (t.pc = .lock ∧ g.lock ≠ none)) :
    psi W g.pending.length (stepTh W false k g t).2 < psi W g.pending.length t := by
  cases hpc : t.pc with
  | start =>
    simp only [stepTh, hpc]
    cases hc : t.calls with
    | nil => simp [psi, hpc, hc, rest]
    | cons c cs => simp only [psi, hpc, hc, rest, callCost, List.isEmpty_cons, List.headD_cons, List.tail_cons]; simp; omega
  | chk =>
    simp only [stepTh, hpc, stepChk]
    split
    · have := psi_startParse W g.pending.length t
      simp only [psi, hpc, uz, rz, costF, costU, parseT] at this ⊢; omega
    · simp only [psi, hpc, Bool.false_eq_true, if_false, List.length_nil]; omega
  | chkBase =>
    simp only [stepTh, hpc, stepChk]
    split
    · split
      · have := psi_startParse W g.pending.length t
        simp only [psi, hpc, uz, rz, costF, costU, parseT] at this ⊢; omega
      · simp only [psi, hpc, Bool.false_eq_true, if_false, List.length_nil]; omega
    · simp only [psi, hpc]; omega
  | nested2 => simp only [stepTh, hpc, psi]; omega
  | lock =>
    simp only [stepTh, hpc]
    cases hl : g.lock with
    | none => simp only [psi, hpc]; omega
    | some o => exact absurd ⟨hpc, by simp [hl]⟩ hb
  | list =>
    simp only [stepTh, hpc]
    have := psi_advance W g.pending.length { t with names := g.pending }
    simp only [psi, hpc, uz, rz, lr] at this ⊢; omega
  | next =>
    simp only [stepTh, hpc]
    have := psi_advance W g.pending.length t
    simp only [psi, hpc, uz, rz, lr] at this ⊢; omega
  | get =>
    simp only [stepTh, hpc]
    split
    · simp only [psi, hpc]; omega
    · have := psi_raise W g.pending.length t .keyError
      simp only [psi, hpc, uz, rz, costF] at this ⊢; omega
  | eval =>
    simp only [stepTh, hpc]
    split
    · simp only [psi, hpc]; omega
    · split
      · simp only [psi, hpc]; omega
      · have := psi_raise W g.pending.length t .nameError
        simp only [psi, hpc, uz, rz, costF] at this ⊢; omega
  | isev => simp only [stepTh, hpc]; split <;> simp only [psi, hpc] <;> omega
  | rdval => simp only [stepTh, hpc]; split <;> simp only [psi, hpc] <;> omega
  | wrA => simp only [stepTh, hpc, psi]; omega
  | wrB =>
    simp only [stepTh, hpc, afterWrite, psi, Bool.false_eq_true, if_false]
    split <;> simp only [List.length_append, List.length_cons, List.length_nil] <;> omega
  | fldTyQ => simp only [stepTh, hpc]; split <;> simp only [psi, hpc] <;> omega
  | fldTy =>
    simp only [stepTh, hpc]
    split
    · simp only [psi, hpc]; omega
    · split
      · simp only [psi, hpc]; omega
      · split <;> simp only [psi, hpc] <;> omega
  | rftIsev => simp only [stepTh, hpc]; split <;> simp only [psi, hpc] <;> omega
  | rftRdval => simp only [stepTh, hpc, psi]; omega
  | rrfA => simp only [stepTh, hpc, psi]; omega
  | rrfB => simp only [stepTh, hpc, psi]; omega
  | rrfC => simp only [stepTh, hpc, psi]; omega
  | fldOtyQ =>
    simp only [stepTh, hpc]
    have := psi_fieldAdvance W g.pending.length { t with fi := t.fi + 1 }
    simp only [psi, hpc, uz, rz, lr] at this ⊢; omega
  | addn =>
    simp only [stepTh, hpc]
    have := psi_enterClear W g.pending.length t
    simp only [psi, hpc, uz, rz, lr] at this ⊢; omega
  | clr1 => simp only [stepTh, hpc, psi]; omega
  | clr2 =>
    simp only [stepTh, hpc]
    have := psi_clearAdvance W g.pending.length t
    simp only [psi, hpc, uz, rz] at this ⊢; omega
  | popd =>
    simp only [stepTh, hpc]
    have := psi_popAdvance W g.pending.length t
    simp only [psi, hpc, uz, rz] at this ⊢; omega
  | unlock =>
    simp only [stepTh, hpc]
    have := psi_leaveResolve W g.pending.length t
    simp only [psi, hpc, uz, rz, costU] at this ⊢; omega
  | frfPos => simp only [stepTh, hpc, psi]; omega
  | frfRet =>
    simp only [stepTh, hpc]
    have := psi_startParse W g.pending.length t
    simp only [psi, hpc, uz, rz, parseT] at this ⊢; omega
  | pv =>
    simp only [stepTh, hpc]
    split
    · rename_i h; simp only [psi, hpc, h, List.length_nil]; omega
    · rename_i u us h
      split
      · simp only [psi, hpc]; omega
      · have := psi_afterType W g.pending.length t u ‹Val› false
        simp only [psi, hpc, rz] at this ⊢; omega
  | tcIsev =>
    simp only [stepTh, hpc]
    split
    · simp only [psi, hpc]; omega
    · split <;> simp only [psi, hpc] <;> omega
  | nested =>
    simp only [stepTh, hpc]
    split <;> simp only [psi, hpc] <;> omega
  | nestedPv =>
    simp only [stepTh, hpc]
    split
    · simp only [psi, hpc]; omega
    · split
      · simp only [psi, hpc]; omega
      · have := psi_nextUse W g.pending.length t
        simp only [psi, hpc, rz] at this ⊢; omega
  | nestedErr => simp only [stepTh, hpc, psi]; omega
  | pvErr =>
    simp only [stepTh, hpc]
    have := psi_endCall W g.pending.length t .perr
    simp only [psi, hpc, rz] at this ⊢; omega
  | fin => exact absurd hpc hf
  | wrcA => simp [hpc, PC.dead] at ha
  | wrcArg => simp [hpc, PC.dead] at ha
  | wrcB => simp [hpc, PC.dead] at ha
  | pop => simp [hpc, PC.dead] at ha
  | stuck => simp [hpc, PC.dead] at ha
  | tcRdval => simp [hpc, PC.dead] at ha


theorem step_pending_len (W : World) (k : Nat) (g : G) (t : Th) :
    (stepTh W false k g t).1.pending.length ≤ g.pending.length := by
  cases hpc : t.pc <;> simp only [stepTh, stepChk, hpc] <;> (repeat' split) <;>
    first | exact Nat.le_refl _ | exact List.length_erase_le ..

/-- thread `k` cannot take a step now: it waits for the lock -/
def blocked (s : Sys) (k : Nat) : Prop := (s.th k).pc = .lock ∧ s.g.lock ≠ none

/-- thread `k` is neither finished nor waiting for the lock -/
def effective (s : Sys) (k : Nat) : Prop := (s.th k).pc ≠ .fin ∧ ¬ blocked s k

/-- bound on the number of effective steps the threads `0 … n-1` can still take -/
def total (W : World) (n : Nat) (s : Sys) : Nat :=
  ((List.range n).map fun j => psi W s.g.pending.length (s.th j)).sum

theorem sum_lt_of (n : Nat) (f f' : Nat → Nat) (k : Nat) (hk : k < n) (h1 : f' k < f k) (h2 : ∀ j, j ≠ k → f' j ≤ f j) :
    ((List.range n).map f').sum < ((List.range n).map f).sum := by
  induction n with
  | zero => omega
  | succ m ih =>
    simp only [List.range_succ, List.map_append, List.sum_append, List.map_cons, List.map_nil, List.sum_cons, List.sum_nil]
    by_cases hkm : k = m
    · subst hkm
      have : ((List.range k).map f').sum ≤ ((List.range k).map f).sum := by
        clear ih
        have : ∀ l : List Nat, (∀ j ∈ l, j ≠ k) → (l.map f').sum ≤ (l.map f).sum := by
          intro l
          induction l with
          | nil => intro _; simp
          | cons a as iha =>
            intro h
            simp only [List.map_cons, List.sum_cons]
            have := h2 a (h a (by simp))
            have := iha (fun j hj => h j (by simp [hj]))
            omega
        apply this
        intro j hj
        have := List.mem_range.mp hj
        omega
      omega
    · have := ih (by omega)
      have := h2 m (by omega)
      omega

theorem total_step_lt {W : World} {prog : Nat → List Call} {s : Sys} {n k : Nat} (I : Inv W prog s)
    (hk : k < n) (he : effective s k) : total W n (s.step W false k) < total W n s := by
  unfold total
  apply sum_lt_of n _ _ k hk
  · simp only [Sys.step, if_true]
    have h1 := step_psi W k s.g (s.th k) (I.tinv k).alive he.1 he.2
    have h2 := psi_mono W (step_pending_len W k s.g (s.th k)) (stepTh W false k s.g (s.th k)).2
    omega
  · intro j hj
    simp only [Sys.step, hj, if_false]
    exact psi_mono W (step_pending_len W k s.g (s.th k)) (s.th j)

/-- a schedule all of whose steps are taken by threads `< n` that are neither finished nor blocked -/
inductive EffRun (W : World) (n : Nat) : Sys → List Nat → Prop
  | nil (s : Sys) : EffRun W n s []
  | cons {s : Sys} {k : Nat} {ks : List Nat} : k < n → effective s k → EffRun W n (s.step W false k) ks →
      EffRun W n s (k :: ks)

theorem effRun_bounded {W : World} {prog : Nat → List Call} {n : Nat} {sched : List Nat} :
    ∀ {s : Sys}, Inv W prog s → EffRun W n s sched → sched.length + total W n (run W false s sched) ≤ total W n s := by
  induction sched with
  | nil => intro s _ _; simp [run]
  | cons k ks ih =>
    intro s I h
    cases h with
    | cons hk he hr =>
      have h1 := ih (inv_step k I) hr
      have h2 := total_step_lt I hk he
      simp only [List.length_cons, run, List.foldl_cons] at h1 ⊢
      omega


theorem effRun_idle {W : World} {n : Nat} {sched : List Nat} :
    ∀ {s : Sys}, EffRun W n s sched → ∀ j, n ≤ j → (run W false s sched).th j = s.th j := by
  induction sched with
  | nil => intro s _ j _; rfl
  | cons k ks ih =>
    intro s h j hj
    cases h with
    | cons hk he hr =>
      have := ih hr j hj
      simp only [run, List.foldl_cons] at this ⊢
      rw [this]
      have : j ≠ k := by omega
      simp [Sys.step, this]


/-! executable version of `EffRun` (used to exhibit concrete complete runs) -/

def effectiveB (s : Sys) (k : Nat) : Bool :=
  (s.th k).pc != .fin && !((s.th k).pc == .lock && s.g.lock.isSome)

theorem effective_of_B {s : Sys} {k : Nat} (h : effectiveB s k = true) : effective s k := by
  simp only [effectiveB, Bool.and_eq_true, bne_iff_ne, ne_eq, Bool.not_eq_true', Bool.and_eq_false_iff,
    beq_eq_false_iff_ne, Option.isSome_eq_false_iff, Option.isNone_iff_eq_none] at h
  refine ⟨h.1, ?_⟩
  rintro ⟨h1, h2⟩
  rcases h.2 with h3 | h3
  · exact h3 h1
  · exact h2 h3

def effRunB (W : World) (n : Nat) : Sys → List Nat → Bool
  | _, [] => true
  | s, k :: ks => decide (k < n) && effectiveB s k && effRunB W n (s.step W false k) ks

theorem effRun_of_B {W : World} {n : Nat} {sched : List Nat} :
    ∀ {s : Sys}, effRunB W n s sched = true → EffRun W n s sched := by
  induction sched with
  | nil => intro s _; exact .nil s
  | cons k ks ih =>
    intro s h
    simp only [effRunB, Bool.and_eq_true, decide_eq_true_eq] at h
    exact .cons h.1.1 (effective_of_B h.1.2) (ih h.2)

end Utv.C20
