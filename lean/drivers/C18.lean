import Utv.Model.C18
import Utv.Util.J
open Lean Utv.J Utv.C18

/-- the harness' counting leaf converter (harness/c18.py `to_leaf`): token classes mod 4 -/
def driverWorld : World :=
  { leafOk := fun m n => n % 4 == 0 || (n % 4 == 2 && !m.noLoss) || (n % 4 == 3 && !m.noCast) }

instance : Inhabited Ty := ⟨.none⟩
instance : Inhabited Val := ⟨.none⟩
instance : Inhabited Res := ⟨.none⟩

partial def mkTy (j : Json) : Ty :=
  match j with
  | .str "leaf" => .leaf
  | .str "none" => .none
  | _ =>
    match obj? j "data" with
    | some k => .data (nat! k)
    | none =>
    match obj? j "list" with
    | some t => .list (mkTy t)
    | none =>
    match obj? j "tuple" with
    | some t => .tuple (mkTy t)
    | none =>
    match obj? j "dict" with
    | some t => .dict (if str! (fld j "key") == "int" then .int else .str) (mkTy t)
    | none =>
    match obj? j "union" with
    | some ts => .union ((arr! ts).map mkTy)
    | none => .none

def mkKey (j : Json) : Key :=
  match j with
  | .str s => .str s
  | _ => .int (int! j)

partial def mkVal (j : Json) : Val :=
  match j with
  | .null => .none
  | _ =>
    match obj? j "t" with
    | some n => .tok (nat! n)
    | none =>
    match obj? j "l" with
    | some xs => .list ((arr! xs).map mkVal)
    | none =>
    match obj? j "d" with
    | some kvs => .dict ((arr! kvs).map fun p => match arr! p with
        | [k, v] => (mkKey k, mkVal v)
        | _ => (.str "?", .none))
    | none => .none

def mkClass (j : Json) : ClassDecl :=
  let o := fld j "opts"
  { fields := (arr! (fld j "fields")).map fun p => match arr! p with
      | [n, t] => (str! n, mkTy t)
      | _ => ("?", .none)
    mode := ⟨bool! (fld o "no_data_loss"), bool! (fld o "no_explicit_cast")⟩
    maxDepth := optNat (fld o "max_depth")
    dfs := bool! (fld o "dfs") }

def keyJ : Key → Json
  | .str s => Json.str s
  | .int i => Json.num i

partial def resJ : Res → Json
  | .leaf n => Json.mkObj [("x", Json.num n)]
  | .none => Json.null
  | .data k fs => Json.mkObj [("k", Json.num k), ("f", Json.arr (fs.map fun p => Json.arr #[Json.str p.1, resJ p.2]).toArray)]
  | .list rs => Json.mkObj [("l", Json.arr (rs.map resJ).toArray)]
  | .tuple rs => Json.mkObj [("tu", Json.arr (rs.map resJ).toArray)]
  | .dict kvs => Json.mkObj [("m", Json.arr (kvs.map fun p => Json.arr #[keyJ p.1, resJ p.2]).toArray)]

def outJ (E : Env) (o : Out Res × Nat) : Json :=
  match o with
  | (.ok r, c) => Json.mkObj [("ok", resJ r), ("cost", Json.num c), ("rdepth", Json.num (rdepth r)),
                              ("within", Json.bool (within E 0 r))]
  | (.err f, c) => Json.mkObj [("err", Json.str (if f.fuel then "fuel" else if f.depth then "depth" else "parse")),
                               ("cost", Json.num c)]

def handle (j : Json) : Json :=
  let E : Env := (arr! (fld j "classes")).map mkClass
  let v := mkVal (fld j "value")
  let Q := if bool! (fld j "legacy") then Quirks.legacy else Quirks.fixed
  let via := str! (fld j "entry") == "transform"
  let k := nat! (fld j "root")
  let fuel := 100000
  let lim := outJ E (parseTop driverWorld Q E fuel via k v)
  if bool! (fld j "skip_unl") then Json.mkObj [("lim", lim)]
  else Json.mkObj [("lim", lim), ("unl", outJ E (parseTop driverWorld Q (unlimited E) fuel via k v))]

def main : IO Unit := serve handle
