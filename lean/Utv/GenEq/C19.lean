import Utv.GenEq.Support
import Utv.Gen.Field
import Utv.Model.C19
/-!
C19 — T1 obligation: `Field.ci` of the heap model is the recorded set-up decision, and the regenerated
`ParserField.is_case_insensitive` answers exactly that — for *every* options object of the parse (so the options of
a subclass or of the running parse play no part: `keyMatches` may read `f.ci` alone).
-/
namespace Utv.GenEq.C19
open Utv.Obj Utv.C19 Utv.Gen

/-- a `ParserField` after `setup` (only the attributes `is_case_insensitive` can reach; `own` = its own
`case_insensitive=`, whatever it is) -/
def encField (f : C19.Field) (own : OVal Unit) : OVal Unit :=
  .obj "ParserField" [("setup_case_insensitive", .bool f.ci), ("case_insensitive", own)]

theorem C19_gen_is_case_insensitive (W : World Unit) (f : C19.Field) (own options : OVal Unit) :
    Field.is_case_insensitive W (encField f own) options = .ok (.bool f.ci) := by
  gen_obligation "C19_gen_is_case_insensitive: the regenerated code (Utv.Gen) is no longer equal to the hand model here" by
    obj_simp [Field.is_case_insensitive, encField, getattr, lookupAttr, OVal.isNone]

end Utv.GenEq.C19
