import Utv.Model.C19
/-!
C19 — declarations do not influence each other: a parse for a declaration whose types only mention
declarations of `E` computes the same in every extension `E ++ ds` (subclasses, variants with other
Options, further functions declared later).
-/
namespace Utv.C19

/-- no declaration of `E` refers (by forward reference) to a class that is not in `E` -/
def Env.closed (E : Env) : Bool := E.all (Decl.scoped E.length)

mutual
theorem scoped_mono {n m : Nat} : ∀ {t : Ty}, t.scoped n = true → n ≤ m → t.scoped m = true
  | .any, _, _ => rfl
  | .int, _, _ => rfl
  | .bare _, _, _ => rfl
  | .data k, h, hm => by simp only [Ty.scoped, decide_eq_true_eq] at h ⊢; omega
  | .seq _ t, h, hm => by simp only [Ty.scoped] at h ⊢; exact scoped_mono h hm
  | .map t, h, hm => by simp only [Ty.scoped] at h ⊢; exact scoped_mono h hm
  | .opt t, h, hm => by simp only [Ty.scoped] at h ⊢; exact scoped_mono h hm
  | .con t _ _ _, h, hm => by simp only [Ty.scoped] at h ⊢; exact scoped_mono h hm
  | .tup ts, h, hm => by simp only [Ty.scoped] at h ⊢; exact scopedL_mono h hm
theorem scopedL_mono {n m : Nat} : ∀ {ts : List Ty}, scopedL n ts = true → n ≤ m → scopedL m ts = true
  | [], _, _ => rfl
  | t :: ts, h, hm => by
    simp only [scopedL, Bool.and_eq_true] at h ⊢
    exact ⟨scoped_mono h.1 hm, scopedL_mono h.2 hm⟩
end

theorem scopedL_mem {n : Nat} : ∀ {ts : List Ty}, scopedL n ts = true → ∀ t ∈ ts, t.scoped n = true
  | [], _, t, h => by simp at h
  | a :: as, hs, t, h => by
    simp only [scopedL, Bool.and_eq_true] at hs
    rcases List.mem_cons.mp h with rfl | h
    · exact hs.1
    · exact scopedL_mem hs.2 t h

theorem zipC_congr (f g : Ty → Val → Comp) : ∀ (ts : List Ty), (∀ t ∈ ts, f t = g t) →
    ∀ xs s, zipC f ts xs s = zipC g ts xs s
  | [], _, xs, s => by simp [zipC]
  | t :: ts, h, [], s => by simp [zipC]
  | t :: ts, h, x :: xs, s => by
    simp only [zipC]
    rw [h t (by simp)]
    cases g t x s with
    | mk r s1 =>
      cases r with
      | error e => rfl
      | ok v => simp only; rw [zipC_congr f g ts (fun u hu => h u (List.mem_cons_of_mem _ hu)) xs s1]

theorem fieldsFF_congr (f g : Ty → Val → Comp) (ro : ROpts) (ks : List String) (xs : List Val) :
    ∀ (fields : List Field), (∀ fl ∈ fields, f fl.ty = g fl.ty) →
    ∀ s, fieldsFF f ro ks xs fields s = fieldsFF g ro ks xs fields s
  | [], _, s => by simp [fieldsFF]
  | fl :: fls, h, s => by
    have ih := fieldsFF_congr f g ro ks xs fls (fun u hu => h u (List.mem_cons_of_mem _ hu))
    simp only [fieldsFF]
    rw [h fl (by simp)]
    cases lookupF fl ks xs with
    | some v =>
      simp only
      cases g fl.ty v s with
      | mk r s1 =>
        cases r with
        | error e => rfl
        | ok v' => simp only; rw [ih s1]
    | none =>
      simp only
      split
      · rfl
      · cases getDefaultAt false fl.defer ro fl.dflt s with
        | mk od s1 =>
          cases od with
          | none => simp only; rw [ih s1]
          | some d => simp only; rw [ih s1]

theorem find?_mem' {α : Type _} {p : α → Bool} {l : List α} {a : α} (h : l.find? p = some a) : a ∈ l :=
  List.mem_of_find?_eq_some h

theorem dataLoop_congr (f g : Ty → Val → Comp) (fields : List Field)
    (h : ∀ fl ∈ fields, f fl.ty = g fl.ty) :
    ∀ (ks : List String) (xs : List Val) s, dataLoop f fields ks xs s = dataLoop g fields ks xs s
  | [], xs, s => by cases xs <;> simp [dataLoop]
  | k :: ks, [], s => by simp [dataLoop]
  | k :: ks, x :: xs, s => by
    have ih := dataLoop_congr f g fields h ks xs
    simp only [dataLoop]
    cases hf : fields.find? (fun fl => keyMatches fl k) with
    | none => simp only; exact ih s
    | some fl =>
      simp only
      rw [h fl (find?_mem' hf)]
      cases g fl.ty x s with
      | mk r s1 =>
        cases r with
        | error e => rfl
        | ok v' => simp only; rw [ih s1]

theorem parseData_congr (f g : Ty → Val → Comp) (ro : ROpts) (d : Decl)
    (h : ∀ fl ∈ d.fields, f fl.ty = g fl.ty) (ks : List String) (xs : List Val) (s : St) :
    parseData f ro d ks xs s = parseData g ro d ks xs s := by
  simp only [parseData]
  split
  · rw [dataLoop_congr f g d.fields h ks xs s]
  · exact fieldsFF_congr f g ro ks xs d.fields h s

theorem parseInto_congr (f g : Ty → Val → Comp) (ro : ROpts) (d : Decl)
    (h : ∀ fl ∈ d.fields, f fl.ty = g fl.ty) (ks : List String) (xs : List Val) :
    parseInto f ro d ks xs = parseInto g ro d ks xs := by
  unfold parseInto
  have : (fun s => parseData f ro d ks xs s) = (fun s => parseData g ro d ks xs s) :=
    funext (fun s => parseData_congr f g ro d h ks xs s)
  simp only [this]

theorem closed_lookup {E : Env} (hE : E.closed = true) {k : Nat} {d : Decl} (h : E[k]? = some d) :
    d.scoped E.length = true := by
  have hd : d ∈ E := List.mem_of_getElem? h
  exact List.all_eq_true.mp hE d hd

theorem initWith_append (f g : Ty → Val → Comp) (ro : ROpts) (E ds : Env) (hE : E.closed = true)
    (hfg : ∀ t, t.scoped E.length = true → f t = g t) (k : Nat) (hk : k < E.length)
    (ks : List String) (xs : List Val) (s : St) :
    initWith f ro (E ++ ds) k ks xs s = initWith g ro E k ks xs s := by
  simp only [initWith]
  rw [List.getElem?_append_left hk]
  cases hd : E[k]? with
  | none => rfl
  | some d =>
    simp only
    have hsc := closed_lookup hE hd
    simp only [Decl.scoped, Bool.and_eq_true, List.all_eq_true] at hsc
    have hpi : ∀ ks xs, parseInto f ro d ks xs = parseInto g ro d ks xs :=
      fun ks xs => parseInto_congr f g ro d (fun fl hfl => hfg fl.ty (hsc.1 fl hfl)) ks xs
    simp only [hpi]

/-- **Declaration independence of the transformer**: for a type that only mentions declarations of `E`, the
conversion is the same function in `E` and in every extension of `E`. -/
theorem guardL_congr (L : Ty → Cid) (f g : Ty → Val → Comp) (t : Ty) (h : f t = g t) : guardL L f t = guardL L g t := by
  funext v s; simp [guardL, h]

theorem conv_append (L : Ty → Cid) (E ds : Env) (hE : E.closed = true) :
    ∀ (fuel : Nat) (o : Opts) (ty : Ty), ty.scoped E.length = true →
      conv L (E ++ ds) o fuel ty = conv L E o fuel ty := by
  intro fuel
  induction fuel with
  | zero => intro o ty _; funext v s; simp [conv]
  | succ fuel ih =>
    intro o ty hty
    funext v s
    cases ty with
    | any => simp [conv]
    | int => simp [conv]
    | bare k => simp [conv]
    | seq k t =>
      simp only [Ty.scoped] at hty
      simp only [conv, ih o t hty]
    | map t =>
      simp only [Ty.scoped] at hty
      simp only [conv, ih o t hty]
    | tup ts =>
      simp only [Ty.scoped] at hty
      have hz : ∀ xs s, zipC (conv L (E ++ ds) o fuel) ts xs s = zipC (conv L E o fuel) ts xs s :=
        zipC_congr _ _ ts (fun t ht => ih o t (scopedL_mem hty t ht))
      simp only [conv, hz]
    | opt t =>
      simp only [Ty.scoped] at hty
      simp only [conv, ih o t hty]
    | con t lg mx mn =>
      simp only [Ty.scoped] at hty
      simp only [conv, ih o t hty]
    | data k =>
      simp only [Ty.scoped, decide_eq_true_eq] at hty
      have hi : ∀ ks xs s, initWith (guardL L (conv L (E ++ ds) {} fuel)) {} (E ++ ds) k ks xs s
          = initWith (guardL L (conv L E {} fuel)) {} E k ks xs s :=
        fun ks xs s => initWith_append _ _ {} E ds hE (fun t ht => guardL_congr L _ _ t (ih {} t ht)) k hty ks xs s
      simp only [conv, hi]

/-- … and of a whole parse: a target declared in `E` parses the same whatever is declared after it. -/
theorem callWith_append (optsOf : List (Option Opts) → Nat → Opts) (L : Ty → Cid) (ro : ROpts) (E ds : Env)
    (hE : E.closed = true) (target : Nat) (ht : target < E.length) (wrapper : Nat)
    (ks : List String) (xs : List Val) (s : St) (rb : Bool) :
    callWith optsOf L rb ro (E ++ ds) target wrapper ks xs s = callWith optsOf L true ro E target wrapper ks xs s := by
  simp only [callWith]
  rw [List.getElem?_append_left ht]
  cases hd : E[target]? with
  | none => rfl
  | some d =>
    simp only
    have hsc := closed_lookup hE hd
    have hsc' : d.scoped (E ++ ds).length = true := by
      simp only [Decl.scoped, Bool.and_eq_true, List.all_eq_true] at hsc ⊢
      refine ⟨fun f hf => scoped_mono (hsc.1 f hf) (by simp), ?_⟩
      cases hr : d.ret with
      | none => rfl
      | some rt => have := hsc.2; rw [hr] at this; exact scoped_mono this (by simp)
    simp only [hsc', Bool.not_true, Bool.and_false, Bool.false_and, Bool.false_eq_true, ↓reduceIte]
    simp only [Decl.scoped, Bool.and_eq_true, List.all_eq_true] at hsc
    split
    · rw [parseInto_congr (guardL L (conv L (E ++ ds) (optsOf d.wrappers wrapper) fuelDefault))
        (guardL L (conv L E (optsOf d.wrappers wrapper) fuelDefault)) {} { d with dfs := false }
        (fun fl hfl => guardL_congr L _ _ _ (conv_append L E ds hE fuelDefault _ fl.ty (hsc.1 fl hfl))) ks xs]
      cases parseInto (guardL L (conv L E (optsOf d.wrappers wrapper) fuelDefault)) {} { d with dfs := false } ks xs s with
      | mk r s1 =>
        cases r with
        | error e => rfl
        | ok vals =>
          simp only
          cases hr : d.ret with
          | none => rfl
          | some rt =>
            obtain ⟨fname, ty⟩ := rt
            simp only
            have hty : ty.scoped E.length = true := by
              have := hsc.2; rw [hr] at this; exact this
            rw [guardL_congr L _ _ ty (conv_append L E ds hE fuelDefault _ ty hty)]
    · exact initWith_append _ _ ro E ds hE
        (fun t ht' => guardL_congr L _ _ t (conv_append L E ds hE fuelDefault {} t ht')) target ht ks xs s

end Utv.C19
