import Utv.Model.C20
import Utv.Model.C20Reg
import Utv.Model.C20Reg2
import Utv.Model.C20Lazy
import Utv.Util.J
open Lean Utv.J Utv.C20

def boolAt (l : List Json) (i : Nat) : Bool := bool! (l.getD i Json.null)

def mkWorld (j : Json) : World :=
  let isRef := arr! (fld j "isRef")
  let defd := arr! (fld j "defd")
  let rawOk := arr! (fld j "rawOk")
  { nf := nat! (fld j "nf"), isRef := boolAt isRef, defd := boolAt defd, rawOk := boolAt rawOk,
    isLocal := bool! (fld j "isLocal"), isFn := bool! (fld j "isFn"),
    schemaBase := !(bool! (fld j "objectBase")) }

def mkCall (j : Json) : Call := (arr! j).map fun u => match arr! u with
  | [f, b] => ⟨nat! f, bool! b⟩ | _ => ⟨0, false⟩

def outName : Outcome → String
  | .ok => "ok" | .perr => "perr" | .nameError => "NameError" | .keyError => "KeyError"
  | .wrong => "wrong" | .unmodelled => "unmodelled"

/-- replay the observed (thread, label) sequence on the model; stop at the first label it cannot follow -/
def replay (W : World) (lg : Bool) : Sys → List (Nat × String) → Nat → Sys × Option (Nat × String)
  | s, [], _ => (s, none)
  | s, (tid, lab) :: rest, k =>
    let want := (s.th tid).pc.label
    if want != lab then (s, some (k, want)) else replay W lg (s.step W lg tid) rest (k + 1)

def handleFwd (j : Json) : Json :=
  let W := mkWorld (fld j "world")
  let progs := (arr! (fld j "threads")).map fun t => (arr! t).map mkCall
  let n := progs.length
  let lg := bool! (fld j "legacy")
  let trace := (arr! (fld j "trace")).map fun e => match arr! e with
    | [t, l] => (nat! t, str! l) | _ => (0, "")
  let s0 := init W (fun k => progs.getD k [])
  let (s, bad) := replay W lg s0 trace 0
  let tids := List.range n
  let outs := tids.map fun k => Json.arr ((s.th k).outs.map (Json.str ∘ outName)).toArray
  let pcs := tids.map fun k => Json.str (s.th k).pc.label
  let vt (v : ValTrace) := Json.arr (v.map fun (f, c) =>
      Json.arr #[Json.num (JsonNumber.fromNat f), Json.str (match c with | .byType => "byType" | .asIs => "asIs")]).toArray
  let vouts := tids.map fun k => Json.arr ((s.th k).vouts.map vt).toArray
  let specV := progs.map fun cs => Json.arr (cs.map (vt ∘ aloneVals W)).toArray
  let spec := progs.map fun cs => Json.arr (cs.map (Json.str ∘ outName ∘ alone W)).toArray
  Json.mkObj [
    ("follows", Json.bool bad.isNone),
    ("at", match bad with | some (k, _) => Json.num k | none => Json.null),
    ("model_label", match bad with | some (_, l) => Json.str l | none => Json.null),
    ("outs", Json.arr outs.toArray), ("pcs", Json.arr pcs.toArray), ("alone", Json.arr spec.toArray),
    ("vouts", Json.arr vouts.toArray), ("aloneVals", Json.arr specV.toArray),
    ("pending", Json.arr (s.g.pending.map (fun (i : Nat) => Json.num (JsonNumber.fromNat i))).toArray)]

/-! registry cases -/
section Registry
open Utv.C16 (Entry Det)

def pairs (j : Json) : List (Nat × Nat) := (arr! j).map fun p => match arr! p with
  | [a, b] => (nat! a, nat! b) | _ => (0, 0)

def mkRWorld (j : Json) : Utv.C16.World :=
  let issub := pairs (fld j "issub")
  let isinst := pairs (fld j "isinst")
  let hasattr := pairs (fld j "hasattr")
  let custom := (arr! (fld j "custom")).map fun p => match arr! p with
    | [k, t, v] => ((nat! k, nat! t), nat! v) | _ => ((0, 0), 2)
  let shortcut := pairs (fld j "shortcut")
  let dflt := optNat (fld j "default")
  { issub := fun t c => issub.contains (t, c)
    isinst := fun t m => isinst.contains (t, m)
    hasattr := fun t a => hasattr.contains (t, a)
    custom := fun k t => match custom.lookup (k, t) with
      | some 0 => some false | some 1 => some true | _ => none
    shortcut := fun t => shortcut.lookup t
    fallback := fun _ => dflt }

def mkEntry (r : Json) : Entry :=
  let det := match optNat (fld r "custom") with
    | some k => Det.custom k
    | none => Det.std ((arr! (fld r "classes")).map nat!) (bool! (fld r "sub"))
                (optNat (fld r "meta")) (optNat (fld r "attr"))
  ⟨det, nat! (fld r "fn"), int! (fld r "prio")⟩

def mkROp (j : Json) : Reg.Op :=
  match obj? j "res" with
  | some t => .res (nat! t)
  | none => .reg (mkEntry (fld j "reg"))

def resJson : Reg.Res → Json
  | .fn (some f) => Json.mkObj [("fn", Json.num (JsonNumber.fromNat f))]
  | .fn none => Json.mkObj [("fn", Json.null)]
  | .keyError => Json.mkObj [("err", Json.str "KeyError")]

def replayReg (W : Utv.C16.World) (co lg : Bool) :
    Reg.Sys → List (Nat × String) → Nat → Reg.Sys × Option (Nat × String)
  | s, [], _ => (s, none)
  | s, (tid, lab) :: rest, k =>
    let want := (s.th tid).pc.label
    if want != lab then (s, some (k, want)) else replayReg W co lg (s.step W co lg tid) rest (k + 1)

def handleReg (j : Json) : Json :=
  let W := mkRWorld (fld j "world")
  let co := bool! (fld j "cache")
  let lg := bool! (fld j "legacy")
  let initEntries := (arr! (fld j "init")).map mkEntry
  -- the registrations made before the threads start, one after the other (Utv.C16.register)
  let r0 := initEntries.foldl Utv.C16.register { cacheOn := co }
  let progs := (arr! (fld j "threads")).map fun t => (arr! t).map mkROp
  let trace := (arr! (fld j "trace")).map fun e => match arr! e with
    | [t, l] => (nat! t, str! l) | _ => (0, "")
  let s0 := Reg.init { entries := r0.entries, cache := [] } (fun k => progs.getD k [])
  let (s, bad) := replayReg W co lg s0 trace 0
  let tids := List.range progs.length
  let outs := tids.map fun k => Json.arr ((s.th k).outs.map resJson).toArray
  let pcs := tids.map fun k => Json.str (s.th k).pc.label
  -- lookups made one after the other on the state the threads left behind
  let n := nat! (fld j "nclasses")
  let post := ((List.range n).foldl (fun (acc : Utv.C16.Reg × List Json) c =>
      let (r', o) := Utv.C16.resolve W acc.1 c
      (r', acc.2 ++ [resJson (.fn o)])) ({ entries := s.g.entries, cache := s.g.cache, cacheOn := co }, [])).2
  Json.mkObj [
    ("follows", Json.bool bad.isNone),
    ("at", match bad with | some (k, _) => Json.num k | none => Json.null),
    ("model_label", match bad with | some (_, l) => Json.str l | none => Json.null),
    ("outs", Json.arr outs.toArray), ("pcs", Json.arr pcs.toArray), ("post", Json.arr post.toArray),
    ("alone", Json.arr (progs.map fun ops => Json.arr ((Reg.answers W r0.entries ops).map resJson).toArray).toArray)]
/-- the registry as it is after fixes/C20-register-race.patch -/
def replayReg2 (W : Utv.C16.World) (co : Bool) :
    Reg2.Sys → List (Nat × String) → Nat → Reg2.Sys × Option (Nat × String)
  | s, [], _ => (s, none)
  | s, (tid, lab) :: rest, k =>
    let want := (s.th tid).pc.label
    if want != lab then (s, some (k, want)) else replayReg2 W co (s.step W co tid) rest (k + 1)

def handleReg2 (j : Json) : Json :=
  let W := mkRWorld (fld j "world")
  let co := bool! (fld j "cache")
  let initEntries := (arr! (fld j "init")).map mkEntry
  let r0 := initEntries.foldl Utv.C16.register { cacheOn := co }
  let progs := (arr! (fld j "threads")).map fun t => (arr! t).map mkROp
  let trace := (arr! (fld j "trace")).map fun e => match arr! e with
    | [t, l] => (nat! t, str! l) | _ => (0, "")
  let s0 := Reg2.init r0.entries [] (fun k => progs.getD k [])
  let (s, bad) := replayReg2 W co s0 trace 0
  let tids := List.range progs.length
  let outs := tids.map fun k => Json.arr ((s.th k).outs.map resJson).toArray
  let wits := tids.map fun k => Json.arr ((s.th k).wits.map fun w =>
      Json.arr #[Json.num (JsonNumber.fromNat w.cls), Json.num (JsonNumber.fromNat w.lo),
                 Json.num (JsonNumber.fromNat w.j), Json.num (JsonNumber.fromNat w.hi)]).toArray
  let pcs := tids.map fun k => Json.str (s.th k).pc.label
  let n := nat! (fld j "nclasses")
  let post := ((List.range n).foldl (fun (acc : Utv.C16.Reg × List Json) c =>
      let (r', o) := Utv.C16.resolve W acc.1 c
      (r', acc.2 ++ [resJson (.fn o)])) ({ entries := s.g.entries, cache := s.g.cache, cacheOn := co }, [])).2
  Json.mkObj [
    ("follows", Json.bool bad.isNone),
    ("at", match bad with | some (k, _) => Json.num k | none => Json.null),
    ("model_label", match bad with | some (_, l) => Json.str l | none => Json.null),
    ("outs", Json.arr outs.toArray), ("wits", Json.arr wits.toArray), ("pcs", Json.arr pcs.toArray),
    ("post", Json.arr post.toArray), ("versions", Json.num (JsonNumber.fromNat s.g.vers.length)),
    ("generation", Json.num (JsonNumber.fromNat s.g.gen)),
    ("alone", Json.arr (progs.map fun ops => Json.arr ((Reg.answers W r0.entries ops).map resJson).toArray).toArray)]
end Registry

/-! lazily initialised attribute: replay of the getter-body lines of `positional_fields` among all other events -/
def replayLazy (W : Lazy.World) : Lazy.Sys → List (Nat × String) → Nat → Lazy.Sys × Option (Nat × String)
  | s, [], _ => (s, none)
  | s, (tid, lab) :: rest, k =>
    if lab.startsWith "pf:" then
      let t := s.th tid
      -- entering the body is only possible for a thread that did not find the attribute when it last looked
      let s1 := if t.pc == .out then (if t.miss then Lazy.body W false s tid else s) else s
      let want := (s1.th tid).pc.label
      if want != lab then (s, some (k, if t.pc == .out && !t.miss then "<attribute already published>" else want))
      else replayLazy W (Lazy.body W false s1 tid) rest (k + 1)
    else replayLazy W (Lazy.other s tid) rest (k + 1)

def handleLazy (j : Json) : Json :=
  let n := nat! (fld j "n")
  let W : Lazy.World := { n := n, hasField := fun _ => true }
  let nthreads := nat! (fld j "nthreads")
  let trace := (arr! (fld j "trace")).map fun e => match arr! e with
    | [t, l] => (nat! t, str! l) | _ => (0, "")
  let (s, bad) := replayLazy W Lazy.init trace 0
  let tids := List.range nthreads
  let lst (l : List Nat) := Json.arr (l.map (fun (i : Nat) => Json.num (JsonNumber.fromNat i))).toArray
  Json.mkObj [
    ("follows", Json.bool bad.isNone),
    ("at", match bad with | some (k, _) => Json.num k | none => Json.null),
    ("model_label", match bad with | some (_, l) => Json.str l | none => Json.null),
    ("pcs", Json.arr (tids.map fun k => Json.str (s.th k).pc.label).toArray),
    ("builds", Json.arr (tids.map fun k => Json.num (JsonNumber.fromNat (s.th k).rets.length)).toArray),
    ("rets", Json.arr (tids.map fun k => Json.arr ((s.th k).rets.map lst).toArray).toArray),
    ("slot", match s.slot with | some l => lst l | none => Json.null)]

def handle (j : Json) : Json :=
  match str! (fld j "op") with
  | "fwd" => handleFwd j
  | "registry" => handleReg j
  | "registry2" => handleReg2 j
  | "lazy" => handleLazy j
  | o => Json.mkObj [("driver-error", Json.str ("unknown op " ++ o))]

def main : IO Unit := serve handle
