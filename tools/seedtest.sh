#!/bin/bash
# usage: tools/seedtest.sh <Cxx> <seed-dir-with patch.diff demo.py> [tier]
# 1. confirm in a scratch worktree: patch applies, suite green, demo exits 1 with / 0 without.
# 2. apply to /repo, run ./check Cxx --tier quick, undo.  Prints a one-line verdict.
P=$1; D=$(readlink -f $2); T=${3:-quick}
S=$(mktemp -d /tmp/seedchk.XXXX)
git -C /repo worktree add -f --detach $S/repo HEAD >/dev/null 2>&1
cd $S/repo
PYTHONPATH=$S/repo /venv/bin/python $D/demo.py >/dev/null 2>&1; base=$?
if ! git apply $D/patch.diff 2>/dev/null; then echo "SEED $P $D: patch does not apply"; cd /; git -C /repo worktree remove --force $S/repo; rm -rf $S; exit 3; fi
/venv/bin/python -m pytest -q -p no:cacheprovider --timeout=900 -x >$S/pytest.log 2>&1; suite=$?
PYTHONPATH=$S/repo /venv/bin/python $D/demo.py >$S/demo.log 2>&1; demo=$?
cd /; git -C /repo worktree remove --force $S/repo; 
echo "SEED $P $D: demo_base=$base suite_with_patch=$suite demo_with_patch=$demo ($(tail -1 $S/pytest.log))"
rm -rf $S
if [ $base -ne 0 ] || [ $suite -ne 0 ] || [ $demo -eq 0 ]; then echo "  -> seed NOT confirmed"; exit 3; fi
git -C /repo apply $D/patch.diff || exit 3
cd /verif; ./check $P --tier $T > /tmp/seedrun.$P.log 2>&1; rc=$?
git -C /repo checkout -- .
echo "  -> check $P $T rc=$rc: $(grep -E 'VIOLATION' /tmp/seedrun.$P.log | head -2 | tr '\n' ' ')"
exit $rc
