/-
C01 — parsed results conform to the declared type and constraints.

Executable model of what `transformer(value, T)` does for every kind of declared type `T`
(`parse`, by recursion on a fuel argument that bounds the nesting of declarations + values):

  TypeTransformer.__call__ / apply           transform.py:711-734     leaf: `Utv.Conv.transformU` (C12's converter model,
                                                                      branch for branch — NOT abstract here)
  transform_rule → Rule.parse                rule.py:1699-1772        `ruleParse` (+ the `@utype.apply` shortcut :1713-1718, `Ty.applied`)
  Rule._parse_seq_args / _parse_tuple_args / _parse_map_args
                                             rule.py:1911-2062        `seqLoop` / `tupleArgs` / `mapLoop` (+ re-wrap `origin(value)`)
  validator loop over `cls.__validators__`   rule.py:1736-1755        `validatePhase` = `Utv.Rule.validate` over the GENERATED
                                                                      validators (`Utv.Gen.Constraints`, T1)
  LogicalType.logical_parse  (& | ^ ~)       rule.py:364-477          `allLoop` / `unionParse` / `xorLoop` / `negLoop`
  transform_dataclass / init_dataclass       cls.py:567-630           `dataParse`
  field-first search + ParserField.parse_value   base.py:552-…, field.py:1043-1125   `fieldStep` / `fieldsLoop` / `additions`
  FunctionParser params + parse_result       func.py:721-730          `callFn`

Error collection (`collect_errors`) does not change whether a parse returns: every collected error is raised by
`context.raise_error()` before the value is handed back (that is C10's theorem); the model is fail-fast and the
correspondence run drives the real code under both settings.

Values are `Utv.Conv.V`.  An instance of the data class number `k` is the dict-subclass value `.dict (dataTagBase + k) fields`
(`utype.Schema` *is* a `dict` subclass).  Data-class instances as *inputs* are outside the fragment (`unmodelled`).
The validators work on `Utv.Py.PyVal`; `toPy` / `ofPy` embed the values that have a `PyVal` form (builtin scalars and
list/tuple/set/frozenset of them); constraints on any other value are `unmodelled`.

Core Lean only.
-/
import Utv.Model.Conv
import Utv.Model.Rule

namespace Utv.C01
open Utv.Conv
open Utv.Py (PyVal)

/-! ## options -/

inductive Policy where
  | throw | exclude | preserve
  deriving DecidableEq, Repr

/-- `options.addition`: None / False / True (a *type* as addition is outside the fragment) -/
inductive Addition where
  | unset | forbid | allow
  deriving DecidableEq, Repr

structure Opts where
  nec : Bool := false                      -- no_explicit_cast
  ndl : Bool := false                      -- no_data_loss
  addition : Addition := .unset
  invalidItems : Policy := .throw
  invalidKeys : Policy := .throw
  invalidValues : Policy := .throw
  unresolved : Unresolved := .throw
  ignoreConstraints : Bool := false
  deriving Repr

def Opts.flags (o : Opts) : Flags := ⟨o.nec, o.ndl⟩

/-- `Options.__init__` (options.py:151-156): `no_data_loss` turns an unset `addition` into `False` -/
def Opts.norm (o : Opts) : Opts :=
  if o.ndl && o.addition == .unset then { o with addition := .forbid } else o

/-- the options that do NOT waive the guarantee: no 'preserve' policy, constraints on, unresolved types not ignored -/
def Opts.safe (o : Opts) : Bool :=
  o.invalidItems != .preserve && o.invalidKeys != .preserve && o.invalidValues != .preserve &&
  !o.ignoreConstraints && o.unresolved != .ignore

/-- `context.enter('|', options=Options(no_data_loss=True, no_explicit_cast=True))` (rule.py:392-394):
`self.options & options` keeps the caller's policies, overrides the two flags and — because the fresh `Options`
normalised its own `addition` to `False` — the addition -/
def Opts.strict (o : Opts) : Opts :=
  { o with nec := true, ndl := true, addition := .forbid,
           -- e7d1ed5: the trial stages run with the three policies at 'throw' (rule.py:398-402)
           invalidItems := .throw, invalidKeys := .throw, invalidValues := .throw }
/-- `Options(no_data_loss=True)` (rule.py:408) -/
def Opts.noLoss (o : Opts) : Opts :=
  { o with ndl := true, addition := .forbid, invalidItems := .throw, invalidKeys := .throw, invalidValues := .throw }

/-! ## declared types -/

/-- which args parser `resolve_args_parser` picked (rule.py:1894-1906) -/
inductive ArgsK where
  | none | seq | tuple | map
  deriving DecidableEq, Repr

/-- a declared type as the transformer sees it.  `rule` is a `Rule` subclass: its `__origin__` (a class, or the
union a `typing.Union` annotation became), the args parser and `__args__`, and `__validators__` as
(validator name, constraint value) in the order the class stores them. -/
inductive Ty where
  | any                                                        -- `Rule` itself / `typing.Any`
  | plain (t : Target)                                         -- a class the registry resolves (or not)
  | rule (origin : Option Ty) (k : ArgsK) (args : List Ty) (vs : List (String × PyVal))
  | union (ts : List Ty)                                       -- `|`
  | xor (ts : List Ty)                                         -- `^`
  | all (ts : List Ty)                                         -- `&`
  | neg (ts : List Ty)                                         -- `~`
  | data (k : Nat)                                             -- data class number k of the environment
  | applied (t : Target) (inner : Ty)                          -- `@utype.apply(...)` on class `t`: `inner` is the Rule it built

instance : Inhabited Ty := ⟨.any⟩

structure FieldDecl where
  name : String
  ty : Ty
  required : Bool
  default : Option V := none                                   -- declared defaults are trusted
  onError : Option Policy := none                              -- `Field(on_error=…)`

structure DataDecl where
  fields : List FieldDecl
  opts : Opts := {}                                            -- the class's own `__options__`

structure DEnv where
  enums : Env
  datas : List DataDecl

/-! ## values -/

def isNone : V → Bool
  | .none => true
  | _ => false

def dataTagBase : Nat := 1000

/-- an instance of one of the environment's data classes -/
def isDataInst : V → Bool
  | .dict c _ => c ≥ dataTagBase
  | _ => false

def seqCls : SeqK → Option Utv.Py.Cls
  | .list => some .list | .tuple => some .tuple | .set => some .set | .frozenset => some .frozenset
  | .deque => none

def clsSeq : Utv.Py.Cls → Option SeqK
  | .list => some .list | .tuple => some .tuple | .set => some .set | .frozenset => some .frozenset
  | _ => none

mutual
/-- the `PyVal` form of a value of a builtin class (no subclass tag) -/
def toPy : V → Option PyVal
  | .none => some .none
  | .bool b => some (.bool b)
  | .int c i => if c == 0 then some (.int i) else none
  | .float c f => if c == 0 then some (.float f) else none
  | .dec c d => if c == 0 && !isSNaN (.dec c d) then some (.dec d) else none     -- comparing a signalling NaN raises: outside `Py.eq`
  | .str c s => if c == 0 then some (.str s) else none
  | .seq k c xs =>
    if c == 0 then
      match seqCls k, toPyList xs with
      | some cl, some ys => some (.seq cl ys)
      | _, _ => none
    else none
  | _ => none
termination_by structural v => v
def toPyList : List V → Option (List PyVal)
  | [] => some []
  | x :: xs =>
    match toPy x, toPyList xs with
    | some y, some ys => some (y :: ys)
    | _, _ => none
termination_by structural xs => xs
end

mutual
def ofPy : PyVal → Option V
  | .none => some .none
  | .bool b => some (.bool b)
  | .int i => some (.int 0 i)
  | .float f => some (.float 0 f)
  | .dec d => some (.dec 0 d)
  | .str s => some (.str 0 s)
  | .seq cl xs =>
    match clsSeq cl, ofPyList xs with
    | some k, some ys => some (.seq k 0 ys)
    | _, _ => none
  | .cls _ => none
  | .opaque _ => none
termination_by structural v => v
def ofPyList : List PyVal → Option (List V)
  | [] => some []
  | x :: xs =>
    match ofPy x, ofPyList xs with
    | some y, some ys => some (y :: ys)
    | _, _ => none
termination_by structural xs => xs
end

/-! ## exception plumbing -/

/-- `try: x  except Exception as e: raise ParseError(origin_exc=e)` -/
def guard {α} (x : Outcome α) : Outcome α :=
  match x with
  | .perr _ => .perr .typeError
  | .escape _ => .perr .typeError
  | o => o

/-- one element / key / value / field conversion under an error policy (`except Exception`):
`some y` keep, `none` drop -/
def itemStep (pol : Policy) (raw : V) (x : Outcome V) : Outcome (Option V) :=
  match x with
  | .ok y => .ok (some y)
  | .diverge => .diverge
  | .unmodelled w => .unmodelled w
  | _ =>
    match pol with
    | .exclude => .ok none
    | .preserve => .ok (some raw)
    | .throw => .perr .typeError

/-! ## the validator phase (rule.py:1736-1751) -/

/-- `for key, constraint, validator in cls.__validators__: value = validator(value, constraint)`; any exception
becomes a ConstraintError. -/
def validatePhase (PP : Utv.Py.Prims) (vs : List (String × PyVal)) (v : V) : Outcome V :=
  if vs.isEmpty then .ok v else
  match toPy v with
  | none => .unmodelled "constraint on a value without PyVal form"
  | some pv =>
    match Utv.Rule.validate PP vs pv with
    | .ok r =>
      (match ofPy r with
       | some r' => .ok r'
       | none => .unmodelled "validator result without V form")
    | .error (.unmodelled w) => .unmodelled w
    | .error _ => .perr .valueError

def finish (PP : Utv.Py.Prims) (o : Opts) (vs : List (String × PyVal)) (v : V) : Outcome V :=
  if o.ignoreConstraints then .ok v else validatePhase PP vs v

/-! ## args parsers (rule.py:1908-2059) over an element parser `p` -/

/-- `_parse_seq_args` -/
def seqLoop (p : V → Outcome V) (pol : Policy) : List V → Outcome (List V)
  | [] => .ok []
  | x :: xs => do
    let s ← itemStep pol x (p x)
    let ys ← seqLoop p pol xs
    pure (match s with | some y => y :: ys | none => ys)

/-- the prefix loop of `_parse_tuple_args`: only PRESERVE is honoured, any other policy hands the error on -/
def tupleLoop (p : Ty → V → Outcome V) (pol : Policy) : List Ty → List V → Outcome (List V)
  | [], _ => .ok []
  | _ :: _, [] => .perr .typeError                          -- AbsenceError: prefix item not provided
  | t :: ts, x :: xs => do
    let s ← itemStep (if pol == .preserve then .preserve else .throw) x (p t x)
    let ys ← tupleLoop p pol ts xs
    pure (match s with | some y => y :: ys | none => ys)

def tupleArgs (p : Ty → V → Outcome V) (o : Opts) (ts : List Ty) (items : List V) : Outcome (List V) :=
  if items.length > ts.length && (o.addition == .forbid || o.ndl) then .perr .typeError   -- TupleExceedError
  else do
    let ys ← tupleLoop p o.invalidItems ts items
    pure (if o.addition == .allow then ys ++ items.drop ts.length else ys)

/-- `_parse_map_args` -/
def mapLoop (pk : V → Outcome V) (pv : Option (V → Outcome V)) (o : Opts) :
    List (V × V) → List (V × V) → Outcome (List (V × V))
  | [], acc => .ok acc
  | (k, x) :: rest, acc => do
    let key ← itemStep o.invalidKeys k (pk k)
    match key with
    | none => mapLoop pk pv o rest acc
    | some key => do
      let val ← (match pv with
        | none => pure (some x)
        | some pv => itemStep o.invalidValues x (pv x))
      match val with
      | none => mapLoop pk pv o rest acc
      | some val =>
        if hashable key then mapLoop pk pv o rest (dictSet acc key val)
        else .perr .typeError                                  -- `result[key] = val`: unhashable converted key

/-- `if not cls.__abstract__ and type(value) != cls.__origin__: value = cls.__origin__(value)` for the list
`_parse_seq_args` returned (and `cls.__origin__(result)` at the end of `_parse_tuple_args`) -/
def rewrapSeq (b : Base) (c : Nat) (ys : List V) : Outcome V :=
  match b.seqK? with
  | some sk => if sk == .list && c == 0 then .ok (.seq .list 0 ys) else guard (construct sk c ys)
  | none => .unmodelled "sequence args on a non-sequence origin"

def argsParse (p : Opts → Ty → V → Outcome V) (o : Opts) (ot : Ty) (k : ArgsK) (args : List Ty) (r0 : V) :
    Outcome V :=
  match k with
  | .none => .ok r0
  | .seq =>
    (match ot, args, r0 with
     | .plain (.cls b c), [t], .seq _ _ xs => do
       let ys ← seqLoop (p o t) o.invalidItems xs
       rewrapSeq b c ys
     | _, _, _ => .unmodelled "seq args")
  | .tuple =>
    (match ot, r0 with
     | .plain (.cls b c), .seq _ _ xs => do
       let ys ← tupleArgs (p o) o args xs
       rewrapSeq b c ys
     | _, _ => .unmodelled "tuple args")
  | .map =>
    (match ot, args, r0 with
     | .plain (.cls .dict c), [kt], .dict _ kvs => do
       let r ← mapLoop (p o kt) none o kvs []
       pure (.dict c r)
     | .plain (.cls .dict c), [kt, vt], .dict _ kvs => do
       let r ← mapLoop (p o kt) (some (p o vt)) o kvs []
       pure (.dict c r)
     | _, _, _ => .unmodelled "map args")

/-! ## Rule.parse (rule.py:1689-1760) -/

def ruleParse (PP : Utv.Py.Prims) (p : Opts → Ty → V → Outcome V) (o : Opts)
    (origin : Option Ty) (k : ArgsK) (args : List Ty) (vs : List (String × PyVal)) (v : V) : Outcome V :=
  match origin with
  | none => finish PP o vs v            -- no origin: no conversion, no args parser (`resolve_args_parser`)
  | some ot =>
    match guard (p o ot v) with          -- `context.transformer.apply(value, origin, func)`; failure is final
    | .ok r0 =>
      if isNone r0 then .ok r0 else      -- `if value is None: return value`
      (match argsParse p o ot k args r0 with
       | .ok r1 => finish PP o vs r1
       | e => e)
    | e => e

/-! ## LogicalType.logical_parse (rule.py:364-477) -/

/-- `type(value) == con` for a condition of a union -/
def typeEqTy (v : V) : Ty → Bool
  | .plain t => typeEq v t
  | _ => false

/-- `&`: every condition converts what the previous one produced -/
def allLoop (p : Ty → V → Outcome V) : List Ty → V → Outcome V
  | [], v => .ok v
  | t :: ts, v =>
    match guard (p t v) with
    | .ok y => allLoop p ts y
    | e => e

/-- one stage of `|`: the first condition that converts wins -/
def anyStage (p : Ty → V → Outcome V) : List Ty → V → Outcome (Option V)
  | [], _ => .ok none
  | t :: ts, v =>
    match p t v with
    | .ok y => .ok (some y)
    | .diverge => .diverge
    | .unmodelled w => .unmodelled w
    | _ => anyStage p ts v

def unionParse (p : Opts → Ty → V → Outcome V) (o : Opts) (ts : List Ty) (v : V) : Outcome V :=
  if ts.any (typeEqTy v) then .ok v else                                        -- 1. exact type
  match (if !o.ndl || !o.nec then anyStage (p o.strict) ts v else .ok none) with -- 2. strict
  | .ok (some y) => .ok y
  | .ok none =>
    (match (if !o.ndl && !o.nec then anyStage (p o.noLoss) ts v else .ok none) with   -- 3. no data loss
     | .ok (some y) => .ok y
     | .ok none =>
       (match anyStage (p o) ts v with                                                 -- 4. common mode
        | .ok (some y) => .ok y
        | .ok none => .perr .typeError
        | .perr e => .perr e | .escape e => .escape e | .diverge => .diverge | .unmodelled w => .unmodelled w)
     | .perr e => .perr e | .escape e => .escape e | .diverge => .diverge | .unmodelled w => .unmodelled w)
  | .perr e => .perr e | .escape e => .escape e | .diverge => .diverge | .unmodelled w => .unmodelled w

/-- `^`: every condition converts the ORIGINAL input; a second acceptance is OneOfViolatedError -/
def xorLoop (p : Ty → V → Outcome V) (v : V) : List Ty → Option V → Outcome (Option V)
  | [], acc => .ok acc
  | t :: ts, acc =>
    match p t v with
    | .ok y =>
      (match acc with
       | none => xorLoop p v ts (some y)
       | some _ => .perr .typeError)
    | .diverge => .diverge
    | .unmodelled w => .unmodelled w
    | _ => xorLoop p v ts acc

def xorParse (p : Ty → V → Outcome V) (ts : List Ty) (v : V) : Outcome V :=
  match xorLoop p v ts none with
  | .ok (some y) => .ok y
  | .ok none => .perr .typeError
  | .perr e => .perr e | .escape e => .escape e | .diverge => .diverge | .unmodelled w => .unmodelled w

/-- `~`: a condition that converts is NegateViolatedError; the first one that fails ends the loop -/
def negLoop (p : Ty → V → Outcome V) : List Ty → V → Outcome V
  | [], v => .ok v
  | t :: _, v =>
    match p t v with
    | .ok _ => .perr .typeError
    | .diverge => .diverge
    | .unmodelled w => .unmodelled w
    | _ => .ok v

/-! ## data classes (cls.py:567-630, base.py field-first search, field.py:1043-1125) -/

/-- `data[name]` on the keyword mapping handed to `__init__` -/
def lookupKey (name : String) : List (V × V) → Option V
  | [] => none
  | (.str _ s, x) :: rest => if s == name then some x else lookupKey name rest
  | _ :: rest => lookupKey name rest

def isStrKey : V → Bool
  | .str _ _ => true
  | _ => false

/-- one declared field: the given value converted under the field's error policy, or the default -/
def fieldStep (p : Ty → V → Outcome V) (co : Opts) (f : FieldDecl) (kvs : List (V × V)) : Outcome (Option V) :=
  match lookupKey f.name kvs with
  | some x =>
    (match p f.ty x with
     | .ok y => .ok (some y)
     | .diverge => .diverge
     | .unmodelled w => .unmodelled w
     | _ =>
       match f.onError.getD co.invalidValues with
       | .exclude => if f.required then .perr .typeError else .ok f.default
       | .preserve => .ok (some x)
       | .throw => .perr .typeError)
  | none => if f.required then .perr .typeError else .ok f.default      -- AbsenceError / default

def fieldsLoop (p : Ty → V → Outcome V) (co : Opts) (kvs : List (V × V)) : List FieldDecl → Outcome (List (V × V))
  | [] => .ok []
  | f :: fs => do
    let s ← fieldStep p co f kvs
    let rest ← fieldsLoop p co kvs fs
    pure (match s with | some y => (.str 0 f.name, y) :: rest | none => rest)

/-- keys no field takes (`parse_addition`, base.py:411-442; no addition type declared) -/
def additions (co : Opts) (fields : List FieldDecl) (kvs : List (V × V)) : Outcome (List (V × V)) :=
  let extra := kvs.filter fun kv =>
    match kv.1 with
    | .str _ s => !fields.any (fun f => f.name == s)
    | _ => true
  if extra.isEmpty then .ok [] else
  match co.addition with
  | .forbid => .perr .typeError          -- ExceedError
  | .unset => .ok []
  | .allow => .ok extra

/-- `cls.__init__(inst, **data)` -/
def initFields (p : Ty → V → Outcome V) (co : Opts) (fields : List FieldDecl) (kvs : List (V × V)) :
    Outcome (List (V × V)) :=
  if !kvs.all (fun kv => isStrKey kv.1) then .perr .typeError else do      -- keywords must be strings
  let fs ← fieldsLoop p co kvs fields
  let ex ← additions co fields kvs
  pure (fs ++ ex)

/-- the list / tuple unwrapping at the top of `transform_dataclass` (cls.py:613-622) -/
def dataUnwrap (o : Opts) (v : V) : Outcome V :=
  match v with
  | .seq k _ xs =>
    if (k == .list || k == .tuple) && !o.nec then
      match xs with
      | [] => .ok v
      | x :: rest => if o.ndl && !rest.isEmpty then .perr .typeError else .ok x
    else .ok v
  | _ => .ok v

def dataParse (P : Prims) (D : DEnv) (p : Opts → Ty → V → Outcome V) (o : Opts) (k : Nat) (v : V) : Outcome V :=
  match D.datas[k]? with
  | none => .unmodelled "no such data class"
  | some decl =>
    match dataUnwrap o v with
    | .ok d =>
      if isDataInst d then .unmodelled "data-class instance as input" else
      let co := decl.opts
      -- init_dataclass: the class's own options from here on
      let m : Outcome V :=
        if isInst d .dict then .ok d
        else if co.nec then .perr .typeError
        else guard (toDict P D.enums co.flags 0 d)
      (match m with
       | .ok (.dict _ kvs) =>
         (match initFields (p co) co decl.fields kvs with
          | .ok fs => .ok (.dict (dataTagBase + k) fs)
          | .perr e => .perr e | .escape e => .escape e | .diverge => .diverge | .unmodelled w => .unmodelled w)
       | .ok _ => .unmodelled "to_dict returned a non-dict"
       | e => e)
    | e => e

/-! ## the transformer call on a declared type -/

/-- a class handed to the registry; abstract collection classes are outside the fragment -/
def leaf (P : Prims) (D : DEnv) (o : Opts) (t : Target) (v : V) : Outcome V :=
  match t with
  | .abc _ => .unmodelled "abstract origin"
  | _ => transformU P D.enums o.flags o.unresolved t v

/-- `context.transformer(value, T)` with the context's options `o`.  `fuel` bounds the nesting. -/
def parse (P : Prims) (PP : Utv.Py.Prims) (D : DEnv) : Nat → Opts → Ty → V → Outcome V
  | 0, _, _, _ => .unmodelled "fuel"
  | n + 1, o, T, v =>
    if isDataInst v then .unmodelled "data-class instance as input" else
    match T with
    | .any => .ok v
    | .plain t => leaf P D o t v
    | .rule origin k args vs => ruleParse PP (parse P PP D n) o origin k args vs v
    | .union ts => unionParse (parse P PP D n) o ts v
    | .xor ts => xorParse (parse P PP D n o) ts v
    | .all ts => allLoop (parse P PP D n o) ts v
    | .neg ts => negLoop (parse P PP D n o) ts v
    | .data k => dataParse P D (parse P PP D n) o k v
    | .applied t inner =>
      -- `if cls.__applied__ and isinstance(value, cls.__origin__): return cls.post_validate(value)` (rule.py:1713-1718):
      -- a value that already is an instance of the decorated class is final — no conversion, no constraint
      if isInstT v t then .ok v else parse P PP D n o inner v

/-! ## public entry points -/

/-- `type_transform(v, T, options=o)` / `T(v)` -/
def typeTransform (P : Prims) (PP : Utv.Py.Prims) (D : DEnv) (fuel : Nat) (o : Opts) (T : Ty) (v : V) : Outcome V :=
  parse P PP D fuel o.norm T v

/-- `Schema(**data)` for data class `k` (its own options) -/
def schemaInit (P : Prims) (PP : Utv.Py.Prims) (D : DEnv) (fuel : Nat) (k : Nat) (kvs : List (V × V)) : Outcome V :=
  match D.datas[k]? with
  | none => .unmodelled "no such data class"
  | some decl =>
    match initFields (parse P PP D fuel decl.opts) decl.opts decl.fields kvs with
    | .ok fs => .ok (.dict (dataTagBase + k) fs)
    | .perr e => .perr e | .escape e => .escape e | .diverge => .diverge | .unmodelled w => .unmodelled w

structure FnDecl where
  params : List FieldDecl
  ret : Option Ty
  opts : Opts := {}

/-- a decorated function called with keyword arguments: the body sees the converted parameters; what it returns is
converted to the return annotation (func.py:721-730) -/
def callFn (P : Prims) (PP : Utv.Py.Prims) (D : DEnv) (fuel : Nat) (F : FnDecl)
    (body : List (V × V) → V) (kwargs : List (V × V)) : Outcome (List (V × V) × V) := do
  let args ← initFields (parse P PP D fuel F.opts) F.opts F.params kwargs
  let raw := body args
  match F.ret with
  | none => pure (args, raw)
  | some rt => do
    let r ← guard (parse P PP D fuel F.opts rt raw)
    pure (args, r)

end Utv.C01
