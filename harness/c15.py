"""C15 — seeded generators: JSON Schemas over the supported fragment and instances for them.

Everything here is data (JSON); nothing from utype is imported.  The fragment (DESIGN.md §6 C15, design.d/C15.md):
type (one name or a list), format, multipleOf / maximum / minimum / exclusive*, maxLength / minLength / pattern,
enum / const, items / prefixItems, maxItems / minItems / uniqueItems, properties / required / additionalProperties /
dependentRequired, maxProperties / minProperties, anyOf / oneOf / allOf — nested, with and without `type`.
"""
from __future__ import annotations

import random

PRIMS = ["string", "integer", "number", "boolean", "null"]
NAMES = ["a", "b", "c", "items", "keys", "copy", "get", "class", "def", "a-b", "a_b", "a b", "a.b", "1x", "-",
         "_a", "__init__", "__options__", "self", "é", "name", "type", "values", "update", "pop", "a_b_1",
         "A", "data", "None", "field_", "x-y"]
# property names the parser cannot use as attributes, with the attribute it derives from them
RENAMED = {"a-b": "a_b", "a b": "a_b", "a.b": "a_b", "x-y": "x_y", "1x": "field_1x", "-": "field_", "class": "class_value",
           "def": "def_value", "None": "None_value", "_a": "a", "__init__": "init", "__options__": "options", "é": "field_",
           "items": "items_1", "keys": "keys_1", "copy": "copy_1"}
STRS = ["", "a", "ab", "abc", "abcd", "ba", "1", "2020-01-01", "x y", "é", "éé", "P1D", "10:00:00",
        "2020-01-01T10:00:00", "a0eebc99-9c0b-4ef8-bb6d-6bb9bd380a11", "1.2.3.4", "true", "3"]
PATTERNS = ["^a", "a", "b$", "^[a-z]+$", "^[0-9]+$", "^.{2}$", "a|b", "^$", "^2020", "[0-9]"]
FORMATS = ["date", "date-time", "time", "duration", "uuid", "binary", "ipv4", "ipv6", "email", "int32", "float",
           "decimal", "integer", "int", "bigint", "string", "number", "boolean", "bool", "null", "object", "array", "uri"]
FORMAT_SAMPLES = {"date": "2020-01-01", "date-time": "2020-01-01T10:00:00", "time": "10:00:00", "duration": "P1D",
                  "uuid": "a0eebc99-9c0b-4ef8-bb6d-6bb9bd380a11", "ipv4": "1.2.3.4", "binary": "ab"}
INTS = [-2, -1, 0, 1, 2, 3, 4, 5, 6, 10]
FLOATS = [-1.5, -0.5, 0.5, 1.5, 2.5, 2.25, 3.0, 0.25, 4.0, 1.0, 0.0]
MULTS = [1, 2, 3, 0.5, 0.25, 1.5, 5]


def num(rng, floats=0.3):
    return rng.choice(FLOATS) if rng.random() < floats else rng.choice(INTS)


def scalar(rng):
    k = rng.random()
    if k < 0.3:
        return rng.choice(INTS)
    if k < 0.45:
        return rng.choice(FLOATS)
    if k < 0.75:
        return rng.choice(STRS)
    if k < 0.9:
        return rng.random() < 0.5
    return None


def any_value(rng, depth=2):
    k = rng.random()
    if depth <= 0 or k < 0.6:
        return scalar(rng)
    if k < 0.8:
        return [any_value(rng, depth - 1) for _ in range(rng.randint(0, 3))]
    return {rng.choice(NAMES): any_value(rng, depth - 1) for _ in range(rng.randint(0, 3))}


# ---- keyword groups ----------------------------------------------------------------------------

def kw_number(rng, s, integer=False):
    fl = 0.0 if integer and rng.random() < 0.8 else 0.3
    lo = hi = None
    if rng.random() < 0.5:
        lo = num(rng, fl)
        s["minimum" if rng.random() < 0.7 else "exclusiveMinimum"] = lo
    if rng.random() < 0.5:
        hi = num(rng, fl)
        if lo is not None and rng.random() < 0.85:
            # mostly a satisfiable range written in one spelling (utype refuses the others at declaration)
            hi = lo + rng.choice([2, 3, 4, 6]) if isinstance(lo, int) else lo + rng.choice([0.5, 1.5, 2.0, 4.0])
        s["maximum" if rng.random() < 0.7 else "exclusiveMaximum"] = hi
    if rng.random() < 0.03:
        s["minimum"] = num(rng)          # may sit next to exclusiveMinimum (degenerate for utype)
    if rng.random() < 0.3:
        s["multipleOf"] = rng.choice(MULTS[:3] if integer and rng.random() < 0.7 else MULTS)


def kw_string(rng, s):
    if rng.random() < 0.45:
        s["minLength"] = rng.choice([0, 1, 1, 2, 3])
    if rng.random() < 0.45:
        s["maxLength"] = max(rng.choice([1, 2, 3, 3, 4] + [0] * (rng.random() < 0.1)), s.get("minLength", 0) if rng.random() < 0.9 else 0)
    if rng.random() < 0.35:
        s["pattern"] = rng.choice(PATTERNS)


def kw_array(rng, s, depth):
    k = rng.random()
    if k < 0.05:
        s["items"] = False                               # an empty array only
    elif k < 0.55:
        s["items"] = gen_schema(rng, depth - 1)
    elif k < 0.85:
        s["prefixItems"] = [gen_schema(rng, depth - 1) for _ in range(rng.randint(1, 3))]
        j = rng.random()
        if j < 0.3:
            s["items"] = False
        elif j < 0.55:
            s["items"] = gen_schema(rng, depth - 1)
    if rng.random() < 0.35:
        s["minItems"] = rng.choice([0, 1, 1, 2, 3])
    if rng.random() < 0.35:
        s["maxItems"] = max(rng.choice([1, 2, 2, 3, 4] + [0] * (rng.random() < 0.1)), s.get("minItems", 0) if rng.random() < 0.9 else 0)
    if rng.random() < 0.25:
        s["uniqueItems"] = rng.random() < 0.85


def kw_object(rng, s, depth):
    names = []
    if rng.random() < 0.8:
        names = rng.sample(NAMES, rng.randint(1, 4)) if rng.random() < 0.5 else rng.sample(NAMES[:3] + ["d"], rng.randint(1, 3))
        if rng.random() < 0.02:
            names.append("")                             # a property named "" (known finding empty-property-name)
        s["properties"] = {n: gen_schema(rng, depth - 1) for n in names}
    pool = names + ([rng.choice(NAMES)] if rng.random() < 0.25 else [])
    renamed = [n for n in names if n in RENAMED]
    if renamed and rng.random() < 0.3:
        # a member that is only mentioned and spells the attribute a renamed property would get
        n = rng.choice(renamed)
        pool.append(RENAMED[n] + ("_1" if rng.random() < 0.2 else ""))
        pool = list(dict.fromkeys(pool))
    if pool and rng.random() < 0.55:
        s["required"] = rng.sample(pool, rng.randint(1, min(len(pool), 2)))
    k = rng.random()
    if k < 0.2:
        s["additionalProperties"] = False
    elif k < 0.3:
        s["additionalProperties"] = True
    elif k < 0.5:
        s["additionalProperties"] = gen_schema(rng, depth - 1)
    if pool and rng.random() < 0.25:
        deps = {}
        for n in rng.sample(pool, rng.randint(1, min(len(pool), 2))):
            others = [m for m in pool + (["z"] if rng.random() < 0.2 else []) if m != n]
            if others:
                deps[n] = rng.sample(others, rng.randint(1, min(len(others), 2)))
        if deps:
            s["dependentRequired"] = deps
    if rng.random() < 0.25:
        s["minProperties"] = rng.choice([0, 1, 1, 2, 3])
    if rng.random() < 0.25:
        s["maxProperties"] = max(rng.choice([1, 2, 2, 3, 4] + [0] * (rng.random() < 0.1)), s.get("minProperties", 0) if rng.random() < 0.9 else 0)


def kw_for(rng, s, t, depth):
    if t == "integer":
        kw_number(rng, s, True)
    elif t == "number":
        kw_number(rng, s)
    elif t == "string":
        kw_string(rng, s)
    elif t == "array":
        kw_array(rng, s, depth)
    elif t == "object":
        kw_object(rng, s, depth)


def enum_for(rng, s, t, depth):
    """add enum / const with values that (mostly) fit the schema so far"""
    vals = []
    for _ in range(rng.randint(1, 4)):
        if rng.random() < 0.8:
            vals.append(gen_instance(rng, s, depth))
        else:
            vals.append(scalar(rng))
    uniq = []
    for v in vals:
        if not any(type(u) == type(v) and u == v for u in uniq) and not any(
                isinstance(u, (int, float)) and isinstance(v, (int, float)) and not isinstance(u, bool) and not isinstance(v, bool) and u == v for u in uniq):
            uniq.append(v)
    if rng.random() < 0.7:
        s["enum"] = uniq
    else:
        s["const"] = uniq[0]
    if rng.random() < 0.05 and "enum" in s:
        s["const"] = rng.choice(uniq)


def gen_schema(rng: random.Random, depth: int = 3, top: bool = False):
    """a schema of the fragment; now and then one of the boolean schemas (rarely as the whole document)"""
    if rng.random() < (0.004 if top else 0.04):
        return rng.random() < 0.6
    s = gen_schema_obj(rng, depth)
    r = rng.random()
    if r < 0.01:
        s["enum"] = []                                   # admits nothing
    elif r < 0.03:
        for k in ("maxLength", "minLength", "maxItems", "minItems", "maxProperties", "minProperties"):
            if k in s and rng.random() < 0.5:
                s[k] = float(s[k])                       # 2.0 is a non-negative integer too (Rule refuses the spelling)
    return s


def gen_schema_obj(rng: random.Random, depth: int = 3) -> dict:
    s: dict = {}
    k = rng.random()
    structural = depth > 0
    if k < 0.08:
        return s                                         # {}
    if rng.random() < 0.10:
        # a bare type: the plain class, no Rule around it (fields of such a type take the parser's shortest paths)
        return {"type": rng.choice(PRIMS + ["integer", "number"] + (["array", "object"] if structural else []))}
    if k < 0.55:                                         # one explicit type
        t = rng.choice(PRIMS + (["array", "object"] * 2 if structural else []))
        s["type"] = t
        kw_for(rng, s, t, depth)
        if rng.random() < 0.12:                          # keywords of another type next to it (annotations there)
            kw_for(rng, s, rng.choice(["integer", "string", "array", "object"]) if structural else rng.choice(["integer", "string"]), 1 if structural else 0)
        if t in ("string", "number", "integer") and rng.random() < 0.25:
            s["format"] = rng.choice(FORMATS)
        elif rng.random() < 0.03:
            s["format"] = rng.choice(FORMATS)
    elif k < 0.63:                                       # a list of types
        ts = rng.sample(PRIMS + (["array", "object"] if structural else []), rng.randint(1, 3))
        s["type"] = ts
        for t in ts:
            if rng.random() < 0.7:
                kw_for(rng, s, t, depth)
    elif k < 0.75:                                       # no type, keywords only
        for t in rng.sample(["integer", "string"] + (["array", "object"] if structural else []), rng.randint(1, 2)):
            kw_for(rng, s, t, depth)
    elif k < 0.80:                                       # no type, enum/const only (added below)
        pass
    elif structural:                                     # combinators, alone or next to a type / keywords
        if rng.random() < 0.35:
            t = rng.choice(PRIMS + ["array", "object"])
            s["type"] = t
            if rng.random() < 0.5:
                kw_for(rng, s, t, depth - 1)
        for _ in range(1 if rng.random() < 0.8 else 2):
            op = rng.choice(["anyOf", "oneOf", "allOf"])
            n = rng.randint(1, 3)
            if "type" in s and rng.random() < 0.7:
                # conditions about the same type
                subs = []
                for _ in range(n):
                    sub = {}
                    if rng.random() < 0.3:
                        sub["type"] = s["type"]
                    kw_for(rng, sub, s["type"], depth - 1)
                    subs.append(sub)
                s[op] = subs
            else:
                s[op] = [gen_schema(rng, depth - 1) for _ in range(n)]
    else:
        t = rng.choice(PRIMS)
        s["type"] = t
        kw_for(rng, s, t, depth)
    if (k >= 0.75 and k < 0.80) or rng.random() < 0.12:
        enum_for(rng, s, s.get("type"), depth)
    return s


# ---- instances ---------------------------------------------------------------------------------

def _pick_type(rng, s):
    t = s.get("type")
    if isinstance(t, list):
        return rng.choice(t) if t else None
    if t:
        return t
    for kws, name in ((("minimum", "maximum", "exclusiveMinimum", "exclusiveMaximum", "multipleOf"), "number"),
                      (("items", "prefixItems", "minItems", "maxItems", "uniqueItems"), "array"),
                      (("properties", "required", "additionalProperties", "dependentRequired", "minProperties", "maxProperties"), "object"),
                      (("minLength", "maxLength", "pattern"), "string")):
        if any(k in s for k in kws):
            return name
    return None


def _num_for(rng, s, integer):
    lo = s.get("minimum", s.get("exclusiveMinimum"))
    hi = s.get("maximum", s.get("exclusiveMaximum"))
    m = s.get("multipleOf")
    cands = []
    for b in (lo, hi):
        if b is not None:
            cands += [b, b + 1, b - 1, b + 0.5, b - 0.5]
    if m:
        cands += [m, 2 * m, 3 * m, -m, 0]
        if lo is not None:
            cands += [((lo // m) + 1) * m, (lo // m) * m]
    cands += [rng.choice(INTS), rng.choice(FLOATS)]
    if integer:
        ints = [int(c) for c in cands if float(c).is_integer()]
        cands = ints or [rng.choice(INTS)]
        if rng.random() < 0.15:
            return float(rng.choice(cands))     # 3.0 is an integer in JSON Schema
    v = rng.choice(cands)
    return v


def _str_for(rng, s):
    lo, hi = int(s.get("minLength", 0)), int(s.get("maxLength", 6))
    fmt = s.get("format")
    if fmt in FORMAT_SAMPLES and rng.random() < 0.8:
        return FORMAT_SAMPLES[fmt]
    pool = [x for x in STRS if lo <= len(x) <= hi] or STRS
    p = s.get("pattern")
    if p and rng.random() < 0.8:
        import re
        ok = [x for x in pool if re.search(p, x)]
        if ok:
            return rng.choice(ok)
    return rng.choice(pool)


def gen_instance(rng: random.Random, s, depth: int = 3):
    """an instance aimed at satisfying `s` (best effort; the validator decides)"""
    if not isinstance(s, dict):
        return any_value(rng, 1)
    if "const" in s and rng.random() < 0.9:
        return s["const"]
    if s.get("enum") and rng.random() < 0.9:
        return rng.choice(s["enum"])
    for op in ("allOf", "anyOf", "oneOf"):
        if s.get(op) and rng.random() < 0.5:
            subs = s[op]
            base = {k: v for k, v in s.items() if k not in ("allOf", "anyOf", "oneOf")}
            merged = dict(base)
            for sub in (subs if op == "allOf" else [rng.choice(subs)]):
                if isinstance(sub, dict):
                    for k, v in sub.items():
                        if k == "properties" and isinstance(merged.get(k), dict):
                            merged[k] = {**merged[k], **v}
                        elif k == "required" and isinstance(merged.get(k), list):
                            merged[k] = merged[k] + [x for x in v if x not in merged[k]]
                        else:
                            merged.setdefault(k, v) if k == "type" else merged.__setitem__(k, v)
            return gen_instance(rng, merged, depth - 1) if depth > 0 else any_value(rng, 1)
    t = _pick_type(rng, s)
    if t is None:
        return any_value(rng, 1)
    if t == "null":
        return None
    if t == "boolean":
        return rng.random() < 0.5
    if t in ("integer", "number") and rng.random() < 0.12:
        return rng.random() < 0.5                        # Python's bool is an int: the value a number must not let through
    if t == "integer":
        return _num_for(rng, s, True)
    if t == "number":
        return _num_for(rng, s, False)
    if t == "string":
        return _str_for(rng, s)
    if t == "array":
        pre = s.get("prefixItems") or []
        items = s.get("items")
        lo, hi = int(s.get("minItems", 0)), int(s.get("maxItems", 4))
        out = [gen_instance(rng, p, depth - 1) for p in pre]
        n_extra = 0
        if items is not False:
            want = rng.randint(min(lo, 5), max(min(hi, 4), min(lo, 5)))
            n_extra = max(0, want - len(out))
        for _ in range(n_extra):
            out.append(gen_instance(rng, items, depth - 1) if isinstance(items, dict) else any_value(rng, 1))
        if pre and rng.random() < 0.1:
            out = out[:rng.randint(0, len(pre))]
        return out
    if t == "object":
        props = s.get("properties") or {}
        req = list(s.get("required") or [])
        ap = s.get("additionalProperties", True)
        out = {}
        for n, ps in props.items():
            if n in req or rng.random() < 0.7:
                out[n] = gen_instance(rng, ps, depth - 1)
        for n in req:
            if n not in out:
                out[n] = gen_instance(rng, ap, depth - 1) if isinstance(ap, dict) else any_value(rng, 1)
        for n, ds in (s.get("dependentRequired") or {}).items():
            if n in out:
                for d in ds:
                    if d not in out:
                        out[d] = gen_instance(rng, props.get(d, ap if isinstance(ap, dict) else {}), depth - 1)
        lo = int(s.get("minProperties", 0))
        tries = 0
        while (ap is not False) and (len(out) < lo or rng.random() < 0.25) and tries < 6:
            tries += 1
            n = rng.choice(NAMES + ["z", "y", "x"])
            if n not in out and n not in props:
                out[n] = gen_instance(rng, ap, depth - 1) if isinstance(ap, dict) else any_value(rng, 1)
        return out
    return any_value(rng, 1)


def mutate(rng: random.Random, v, depth=2):
    """a neighbour of an instance: the kind of value that sits just outside a schema"""
    k = rng.random()
    if isinstance(v, bool):
        return rng.choice([int(v), not v, str(v).lower(), None])
    if isinstance(v, (int, float)):
        return rng.choice([v + 1, v - 1, v + 0.5, -v, float(v), str(v), v * 2, bool(v) if v in (0, 1) else v + 2, None, [v],
                           rng.random() < 0.5, rng.random() < 0.5])     # bool is a subclass of int in Python
    if isinstance(v, str):
        return rng.choice([v + "a", v[:-1], "", v + v, v.upper(), 0, None, [v], rng.choice(STRS)])
    if v is None:
        return rng.choice([0, "", False, [], {}])
    if isinstance(v, list):
        if k < 0.25 and v:
            i = rng.randrange(len(v))
            return v[:i] + v[i + 1:]
        if k < 0.5:
            return v + [v[0] if v and rng.random() < 0.5 else scalar(rng)]
        if k < 0.8 and v and depth > 0:
            i = rng.randrange(len(v))
            return v[:i] + [mutate(rng, v[i], depth - 1)] + v[i + 1:]
        return rng.choice([{}, None, "x", list(reversed(v))])
    if isinstance(v, dict):
        ks = list(v)
        if k < 0.25 and ks:
            d = dict(v)
            d.pop(rng.choice(ks))
            return d
        if k < 0.5:
            d = dict(v)
            d[rng.choice(NAMES + ["z"])] = scalar(rng)
            return d
        if k < 0.8 and ks and depth > 0:
            d = dict(v)
            n = rng.choice(ks)
            d[n] = mutate(rng, v[n], depth - 1)
            return d
        return rng.choice([[], None, "x", 0])
    return v


def ordered(v):
    """order-preserving wire form (the transport sorts object members; Lean's Json objects are sorted maps):
    {"a":[…]} = array, {"o":[[k,v],…]} = object"""
    if isinstance(v, dict):
        return {"o": [[k, ordered(x)] for k, x in v.items()]}
    if isinstance(v, list):
        return {"a": [ordered(x) for x in v]}
    return v


def unordered(v):
    if isinstance(v, dict):
        if "a" in v:
            return [unordered(x) for x in v["a"]]
        return {k: unordered(x) for k, x in v.get("o", [])}
    return v


def mk_case(schema, inputs) -> dict:
    return {"schema": ordered(schema), "inputs": [ordered(v) for v in inputs]}


def schema_of(case):
    return unordered(case["schema"])


def inputs_of(case):
    return [unordered(v) for v in case["inputs"]]


def gen_case(rng: random.Random, depth: int = 3, n_inputs: int = 6) -> dict:
    s = gen_schema(rng, depth, top=True)
    inputs = []
    for _ in range(n_inputs):
        v = gen_instance(rng, s, depth)
        if rng.random() < 0.35:
            v = mutate(rng, v)
        inputs.append(v)
    inputs.append(any_value(rng, 2))
    if rng.random() < 0.25:
        inputs.append(rng.random() < 0.5)                # the value Python takes for an int
    return mk_case(s, inputs)


# ==============================================================================================
# the check
# ==============================================================================================
import ast
import json
import os
import re

from . import common
from .common import Check, REPO, run_driver, run_impl

STRICT = {"no_explicit_cast": True, "no_data_loss": True}


# ---- the implementation side (runs in the worker processes, utype from $UTYPE_REPO) -------------------

_PRIM_NAMES = {"NoneType", "str", "bool", "int", "float", "dict", "list", "tuple", "Decimal", "bytes", "datetime",
               "date", "time", "timedelta", "UUID", "IPv4Address", "IPv6Address"}


def describe(t):
    """canonical descriptor of a built type (read through the public attributes of Rule / LogicalType / Schema)"""
    from typing import Any
    from utype.parser.rule import LogicalType, Rule
    from utype.schema import Schema
    if t is Any:
        return "any"
    if t is Rule:
        return "rule"
    if isinstance(t, type) and issubclass(t, Schema) and not issubclass(t, Rule):
        p = t.__parser__
        fields = []
        for f in p.fields.values():
            deps = f.field.dependencies
            fields.append([f.attname, f.name, describe(f.type), f.required is True, list(deps) if deps else []])
        o = p.options
        add = o.addition
        return {"data": fields,
                "add": "free" if add is True else "reject" if add is False else "drop" if add is None else describe(add),
                "min": o.min_params, "max": o.max_params}
    if isinstance(t, LogicalType):
        if t.combinator:
            return {"op": t.combinator, "args": [describe(a) for a in t.args]}
        origin = t.__origin__
        args = list(t.__args__ or [])
        cons = [[k, ordered(v)] for k, v in t.__dict__.items() if k in Rule.__constraints__]
        opts = t.__dict__.get("__options__")
        if origin is list:
            base = {"arr": [describe(a) for a in args]} if args else {"p": "list"}
        elif origin is tuple:
            if args or opts is not None:
                add = opts.addition if opts is not None else None
                base = {"tup": [describe(a) for a in args],
                        "add": "free" if add is None or add is True else "reject" if add is False else describe(add)}
            else:
                base = {"p": "tuple"}
        elif origin is dict:
            base = {"map": describe(args[1])} if args else {"p": "dict"}
            if args and args[0] is not str:
                base["key"] = describe(args[0])
        elif origin is None:
            base = "rule"
        else:
            base = describe(origin)
        return {"rule": base, "cons": cons} if cons else base
    if isinstance(t, type):
        return {"p": t.__name__ if t.__name__ in _PRIM_NAMES else "class:" + t.__name__}
    return {"unknown": repr(t)[:80]}


def _names(s, acc):
    if isinstance(s, dict):
        for k, v in s.items():
            if k == "properties" and isinstance(v, dict):
                acc.update(v.keys())
                for x in v.values():
                    _names(x, acc)
            elif k in ("required",) and isinstance(v, list):
                acc.update(x for x in v if isinstance(x, str))
            elif k == "dependentRequired" and isinstance(v, dict):
                acc.update(v.keys())
                for x in v.values():
                    if isinstance(x, list):
                        acc.update(y for y in x if isinstance(y, str))
            else:
                _names(v, acc)
    elif isinstance(s, list):
        for x in s:
            _names(x, acc)


def impl(case):
    """build the type with the public parser, convert every input under strict options, publish as JSON"""
    import math
    import warnings
    warnings.simplefilter("ignore")
    from utype import Options, Schema, type_transform
    from utype.specs.json_schema.parser import JsonSchemaParser
    from utype.utils.encode import JSONEncoder
    from utype.utils.exceptions import ParseError
    schema, inputs = schema_of(case), inputs_of(case)
    names = set()
    _names(schema, names)
    res = {"reserved": sorted(dir(Schema)), "ident": sorted([n, n.isidentifier()] for n in names)}
    try:
        T = JsonSchemaParser(schema)()
    except Exception as e:     # noqa: the verdict is the exception class
        res.update(build=type(e).__name__, msg=str(e)[:160])
        return res
    res["build"] = "ok"
    try:
        res["type"] = describe(T)
    except Exception as e:
        res["type"] = {"describe-failed": f"{type(e).__name__}: {e}"[:160]}
    strict = Options(**case.get("options", STRICT))
    outs = []
    for v in inputs:
        try:
            r = type_transform(v, T, options=strict)
        except Exception as e:   # noqa
            outs.append({"err": "ParseError" if isinstance(e, ParseError) else type(e).__name__})
            continue
        try:
            txt = json.dumps(r, cls=JSONEncoder, allow_nan=False)
            outs.append({"ok": json.loads(txt)})
        except Exception as e:   # noqa
            try:
                rp = repr(r)[:120]
            except Exception:    # noqa: an instance whose methods were overwritten cannot even print itself
                rp = f"<{type(r).__name__} instance>"
            outs.append({"unpublishable": f"{type(e).__name__}: {e}"[:120], "repr": rp})
    res["outs"] = outs
    return res


# ---- helpers ------------------------------------------------------------------------------------

def _walk(s, f):
    if isinstance(s, dict):
        f(s)
        for v in s.values():
            _walk(v, f)
    elif isinstance(s, list):
        for v in s:
            _walk(v, f)


def relax_oneof(s):
    if isinstance(s, dict):
        return {("anyOf" if k == "oneOf" and "anyOf" not in s else k): relax_oneof(v) for k, v in s.items()} \
            if not ("oneOf" in s and "anyOf" in s) else \
            {**{k: relax_oneof(v) for k, v in s.items() if k not in ("oneOf", "anyOf")},
             "allOf": [relax_oneof(x) for x in s.get("allOf", [])] + [{"anyOf": relax_oneof(s["anyOf"])}, {"anyOf": relax_oneof(s["oneOf"])}]}
    if isinstance(s, list):
        return [relax_oneof(v) for v in s]
    return s


def norm_ty(d):
    """descriptor normal form for the comparison: `Any` and the bare `Rule` class are the same type
    (a field annotated Any is stored as Rule), constraints in name order, document values unordered"""
    if d == "rule":
        return "any"
    if isinstance(d, dict):
        out = {}
        for k, v in d.items():
            if k == "cons":
                out[k] = sorted([[c[0], unordered(c[1])] for c in v], key=lambda c: c[0])
            elif k == "data":
                # a property named "" (known finding): Field(alias='') is no alias, the real field is named after
                # its attribute; the model keeps the property name
                out[k] = [[f[0], f[1] or f[0], norm_ty(f[2]), f[3], sorted(f[4])] for f in v]
            elif k in ("min", "max", "p", "op"):
                out[k] = v
            else:
                out[k] = norm_ty(v)
        return out
    if isinstance(d, list):
        return [norm_ty(x) for x in d]
    return d


def float_exact(x) -> bool:
    """a float whose shortest repr is its exact value (dyadic with few digits): both validators see the same number"""
    if isinstance(x, bool) or not isinstance(x, float):
        return True
    if x != x or x in (float("inf"), float("-inf")):
        return False
    from fractions import Fraction
    from decimal import Decimal
    return Fraction(x) == Fraction(Decimal(repr(x)))


def all_exact(v) -> bool:
    if isinstance(v, float):
        return float_exact(v) and abs(v) < 1e15
    if isinstance(v, list):
        return all(all_exact(x) for x in v)
    if isinstance(v, dict):
        return all(all_exact(x) for x in v.values())
    return True


def source_tables(repo) -> dict:
    """the tables of constant.py / parser.py / keyword the Lean model copies, read from the source text"""
    import keyword
    src = (repo / "utype/specs/json_schema/constant.py").read_text()
    env = {}
    for node in ast.parse(src).body:
        if isinstance(node, ast.Assign) and len(node.targets) == 1 and isinstance(node.targets[0], ast.Name):
            env[node.targets[0].id] = node.value

    def pairs(d):
        out = []
        for k, v in zip(d.keys, d.values):
            if k is None:
                out += pairs(env[v.id])
            else:
                out.append([ast.literal_eval(k), ast.literal_eval(v)])
        return out

    t = {"CONSTRAINTS_MAP": pairs(env["CONSTRAINTS_MAP"]),
         "DEFAULT_CONSTRAINTS_MAP": [k for k, _ in pairs(env["DEFAULT_CONSTRAINTS_MAP"])]}
    tcm = []
    d = env["TYPE_CONSTRAINTS_MAP"]
    for k, v in zip(d.keys, d.values):
        mp = pairs(v) if isinstance(v, ast.Dict) else pairs(env[v.id])
        tcm.append([list(ast.literal_eval(k)), [kw for _, kw in mp]])
    t["TYPE_CONSTRAINTS_MAP"] = tcm
    prim = {}
    d = env["PRIMITIVE_MAP"]
    for k, v in zip(d.keys, d.values):
        for name in re.findall(r"[A-Za-z_]+", ast.unparse(k)):
            prim[name] = ast.literal_eval(v)
    prim.update({"MAP_TYPES": "object", "SEQ_TYPES": "array"})
    cls_prim = {"NoneType": "null", "bool": "boolean", "dict": prim["MAP_TYPES"], "list": prim["SEQ_TYPES"],
                "int": prim.get("int"), "float": prim.get("float"), "Decimal": prim.get("Decimal")}
    tm = []
    d = env["TYPE_MAP"]
    for k, v in zip(d.keys, d.values):
        name = ast.unparse(v)
        name = "NoneType" if name == "type(None)" else name
        tm.append([ast.literal_eval(k), [name, cls_prim.get(name, "string")]])
    tm.append(["nope", None])
    t["TYPE_MAP"] = tm
    psrc = (repo / "utype/specs/json_schema/parser.py").read_text()
    t["TYPE_KEYWORDS"] = None
    for node in ast.walk(ast.parse(psrc)):
        if isinstance(node, ast.Assign) and any(isinstance(x, ast.Name) and x.id == "TYPE_KEYWORDS" for x in node.targets):
            t["TYPE_KEYWORDS"] = [[k, list(v)] for k, v in ast.literal_eval(node.value).items()]
    t["kwlist"] = list(keyword.kwlist)
    return t


FINDINGS_ORDER = ["max-properties-zero", "format-string-constraints", "enum-bool-number", "tuple-rest-in-object",
                  "conj-converts-kind"]


class C15(Check):
    prop = "C15"
    props_modules = ["Utv.Props.C15"]
    driver = "C15"
    impl = "harness.c15:impl"
    case_timeout = 20.0
    rule = ("generated schemas over the fragment (typed / typeless / type lists / combinators next to types, boolean "
            "schemas, items:false with and without prefixItems, empty enum, empty property names, sizes spelled as "
            "floats, depth<=3, hostile property names, degenerate constraint sets) x 7 instances each (schema-directed, mutated neighbours, "
            "noise); non-trivial = the schema has >= 2 keywords, the type was built and at least one instance came back; "
            "distinct by the schema document")
    assumptions = [
        "the contract `conforms` of a built type (what a successful strict parse returns, JSON side) is assumed by the "
        "soundness theorem and evaluated on every value the real code returned (C01/C05 own its proof)",
        "regular expressions: `re.fullmatch` / `re.search` answers are table parameters; patterns come from a subset common to Python re and ECMA-262",
        "floats are dyadic rationals whose repr is exact (multipleOf / bounds are exact on them); jsonschema 4.x "
        "(Draft202012Validator, formats not asserted) is the reference validator for Lean `validate`",
        "strict conversion options = Options(no_explicit_cast=True, no_data_loss=True) passed to type_transform; "
        "Schema classes built by the parser keep their own options inside",
    ]
    budget = {"quick": 4000, "thorough": 60000}
    search_budget = {"quick": 3000, "thorough": 15000}

    # ---- cases ---------------------------------------------------------------------------------
    def cases(self, tier, rng, n):
        out = []
        for i in range(n):
            depth = 3 if rng.random() < 0.5 else 2 if rng.random() < 0.7 else 1
            out.append(gen_case(rng, depth))
        return out

    def neighbours(self, case, rng):
        out = []
        s, inputs = schema_of(case), inputs_of(case)
        for k in list(s):
            if len(s) > 1:
                out.append(mk_case({a: b for a, b in s.items() if a != k}, inputs))
        out.append(mk_case(s, [mutate(rng, v) for v in inputs]))
        if isinstance(s.get("properties"), dict):
            for name, sub in s["properties"].items():
                if isinstance(sub, dict):
                    out.append(mk_case(sub, [v.get(name) for v in inputs if isinstance(v, dict) and name in v] or [None]))
        if isinstance(s.get("items"), dict):
            out.append(mk_case(s["items"], [x for v in inputs if isinstance(v, list) for x in v][:8] or [None]))
        for k in ("anyOf", "oneOf", "allOf", "prefixItems"):
            if isinstance(s.get(k), list):
                for sub in s[k]:
                    if isinstance(sub, dict):
                        out.append(mk_case(sub, inputs))
        return out

    # ---- evaluation: implementation, independent validator, model -----------------------------------
    def evaluate(self, cases):
        from .c13 import run_jsonschema, rx_table
        impl_outs = run_impl(self.impl, cases, self.case_timeout, extra_env=self.impl_env)
        jobs, where = [], []
        for ci, (c, io) in enumerate(zip(cases, impl_outs)):
            if not isinstance(io, dict) or "build" not in io:
                continue
            rets = [o["ok"] for o in io.get("outs", []) if "ok" in o]
            schema, inputs = schema_of(c), inputs_of(c)
            jobs.append({"schema": schema, "instances": rets + inputs})
            where.append((ci, "js"))
            if rets and '"oneOf"' in json.dumps(schema):
                jobs.append({"schema": relax_oneof(schema), "instances": rets})
                where.append((ci, "js_relaxed"))
        verdicts = run_jsonschema(jobs)
        for (ci, key), v in zip(where, verdicts):
            impl_outs[ci][key] = v
        lines = []
        for c, io in zip(cases, impl_outs):
            io = io if isinstance(io, dict) else {}
            rets = [o["ok"] for o in io.get("outs", []) if "ok" in o]
            lines.append({"schema": c["schema"], "outs": [ordered(r) for r in rets],
                          "instances": c["inputs"],
                          "rx": rx_table([schema_of(c)], rets + inputs_of(c)),
                          "reserved": io.get("reserved", []), "ident": io.get("ident", [])})
        model_outs = run_driver(self.driver, lines)
        return impl_outs, model_outs

    def compare(self, case, io, mo):
        if not isinstance(mo, dict) or "build" not in mo:
            return f"driver: {str(mo)[:200]}"
        if "build" not in io:
            return f"impl: {str(io)[:200]}"
        built = io["build"] == "ok"
        if mo.get("emptyName"):
            # not modelled: `Field(alias='')` is no alias, so a property named "" becomes a field named after its
            # attribute (and a dependency on "" a ConfigError).  These schemas are outside the theorems (known finding
            # empty-property-name) and outside the type correspondence; the validator tie and the spec sweep still run.
            built = False
        elif built != mo["build"]:
            return f"build verdict differs: real parser {'built a type' if built else 'raised ' + io['build'] + ': ' + io.get('msg', '')}, model {'builds' if mo['build'] else 'raises'}"
        js = io.get("js") or {}
        if js.get("check") is False:
            return None if not mo.get("fragment") else f"HARNESS: a schema in the fragment is not a valid 2020-12 schema: {js.get('why')}"
        if built:
            a, b = norm_ty(io.get("type")), norm_ty(mo.get("ty"))
            if a != b:
                return f"built type differs: real={json.dumps(a)[:400]} model={json.dumps(b)[:400]}"
        # the Lean validator against the jsonschema library, on everything we have for this schema
        rets = [o["ok"] for o in io.get("outs", []) if "ok" in o]
        if js.get("check") and all_exact(schema_of(case)):
            lean = [o["valid"] for o in mo.get("outs", [])] + list(mo.get("valid", []))
            for inst, lv, jv in zip(rets + inputs_of(case), lean, js.get("valid", [])):
                if all_exact(inst) and isinstance(jv, bool) and lv != jv:
                    return f"validator: Lean validate={lv} jsonschema={jv} instance={json.dumps(inst)[:200]}"
        return None

    def violations(self, case, io, mo):
        """every departure from C15 on this case, each with the listed finding it falls under (or None).
        The class is decided by the Lean predicates (`KnownDefect.*`) the driver evaluated, never by a message."""
        if not isinstance(mo, dict) or not mo.get("fragment"):
            return []            # outside the quantifier (counted in the distribution)
        if "build" not in io:
            return [(f"the parser did not finish: {str(io)[:120]}", None)]
        js, jr = io.get("js") or {}, io.get("js_relaxed")
        if not js.get("check"):
            return []
        if io["build"] != "ok":
            fid = "degenerate-constraints" if io["build"] == "ConfigError" and mo.get("degenerate") else \
                "empty-property-name" if io["build"] == "ConfigError" and mo.get("emptyName") else None
            return [(f"building a type raised {io['build']}: {io.get('msg', '')[:120]}", fid)]
        out = []
        clash = mo.get("clash", [])
        # a listed finding is a statement about the code the model mirrors: where the implementation no longer
        # behaves as the model records (DESIGN.md section 8), a violation is a different one and is reported
        agrees = self.compare(case, io, mo) is None
        k = 0
        for i, (o, inp) in enumerate(zip(io.get("outs", []), inputs_of(case))):
            clashing = i < len(clash) and clash[i]
            if "unpublishable" in o:
                out.append((f"input {json.dumps(inp)[:80]} returned a value with no JSON form: {o['repr']}",
                            "member-name-clash" if clashing and agrees else None))
            if "ok" in o:
                if js["valid"][k] is not True:
                    m = mo["outs"][k]
                    fid = None
                    if clashing:
                        fid = "member-name-clash"
                    elif jr and jr["valid"][k] is True and not m["oneOfAtMost"]:
                        # the failure vanishes once oneOf only asks for "at least one", and Lean sees an overlap
                        fid = "oneof-branch-stricter"
                    elif m["conforms"] is False:
                        # contract departures: only when the returned value breaks the contract of the built type
                        fid = "empty-property-name" if mo.get("emptyName") else \
                            next((f for f in FINDINGS_ORDER if f in mo.get("defects", [])), None)
                    out.append((f"input {json.dumps(inp)[:120]} returned {json.dumps(o['ok'])[:160]}, which the schema forbids",
                                fid if agrees else None))
                k += 1
        return out

    def spec(self, case, io, mo):
        """C15 on what the implementation did: the build succeeds; every returned value validates (jsonschema).
        Reports the first departure that no listed finding covers, else the first listed one."""
        vs = self.violations(case, io, mo)
        if not vs:
            return None
        self._class = {}
        for msg, fid in vs:
            if fid is None:
                self._class[msg] = None
                return msg
        self._class[vs[0][0]] = vs[0][1]
        return vs[0][0]

    def classify(self, case, io, why):
        return getattr(self, "_class", {}).get(why)

    # ---- evidence ------------------------------------------------------------------------------
    def key(self, case, io):
        s = schema_of(case)
        n = [0]
        _walk(s, lambda d: n.__setitem__(0, n[0] + len(d)))
        if n[0] < 2 or not isinstance(io, dict) or io.get("build") != "ok":
            return None
        if not any("ok" in o for o in io.get("outs", [])):
            return None
        return json.dumps(s, sort_keys=True)

    def distribution(self, case, io):
        s = schema_of(case)
        if isinstance(s, bool):
            s = {"type": f"document-{str(s).lower()}"}
        t = s.get("type")
        shape = ("list" if isinstance(t, list) else t) if t else ("enum" if ("enum" in s or "const" in s) and len(s) <= 2 else "typeless" if s else "empty")
        comb = "+".join(k for k in ("anyOf", "oneOf", "allOf") if k in s)
        b = io.get("build", "?") if isinstance(io, dict) else "?"
        ok = sum("ok" in o for o in io.get("outs", [])) if isinstance(io, dict) else 0
        return f"{shape}{'/' + comb if comb else ''}/build={b}/returned={'some' if ok else 'none'}"

    def reproduce(self, case):
        return (f"cd {common.VERIF} && UTYPE_REPO={REPO} {common.PY} -c 'import json,sys; sys.path.insert(0,\"{REPO}\"); "
                f"from harness.c15 import impl; print(json.dumps(impl(json.loads(sys.argv[1])), indent=1))' '{json.dumps(case)}'")

    def extra_static(self, tier):
        broken = []
        try:
            src = source_tables(REPO)
        except Exception as e:
            return [f"tables of constant.py / parser.py could not be read: {type(e).__name__}: {e}"]
        lean = run_driver(self.driver, [{"op": "tables"}])[0]
        for k, v in src.items():
            if lean.get(k) != v:
                broken.append(f"table {k} (utype/specs/json_schema/constant.py, parser.py, keyword.kwlist) differs from the Lean copy in "
                              f"Utv/Model/C15.lean: source={json.dumps(v)[:240]} lean={json.dumps(lean.get(k))[:240]}")
        return broken

    def finish_evidence(self, ev, tier):
        ev["coverage"]["exhaustive"] = False


CHECK = C15()
