import Utv.Model.JsonSchema
/-! Generic facts about `Utv.JsonSchema.validate` / `wf` (keyword by keyword, append, unknown keywords). -/
set_option linter.unusedSimpArgs false
namespace Utv.JsonSchema

/-! ### `validateKws` is a conjunction over the members of the schema object -/

/-- one keyword, as `validateKws` treats it -/
def validateEntry (C : Ctx) (all : Obj) (k : String) (v i : Json) : Bool :=
  if k == "items" then (match i with
    | .arr xs => (xs.drop (prefixLen all)).all fun x => validate C v x
    | _ => true)
  else if k == "prefixItems" then (match v with
    | .arr ss => (match i with
      | .arr xs => validatePrefix C ss xs
      | _ => true)
    | _ => true)
  else if k == "contains" then (match i with
    | .arr xs => containsOk all (xs.filter fun x => validate C v x).length
    | _ => true)
  else if k == "properties" then (match v with
    | .obj ps => (match i with
      | .obj o => validateProps C ps o
      | _ => true)
    | _ => true)
  else if k == "patternProperties" then (match v with
    | .obj pps => (match i with
      | .obj o => validatePatProps C pps o
      | _ => true)
    | _ => true)
  else if k == "additionalProperties" then (match i with
    | .obj o => o.all fun m => isDeclared C all m.1 || validate C v m.2
    | _ => true)
  else if k == "allOf" then (match v with
    | .arr ss => validateAll C ss i
    | _ => true)
  else if k == "anyOf" then (match v with
    | .arr ss => validateAny C ss i
    | _ => true)
  else if k == "oneOf" then (match v with
    | .arr ss => validateCount C ss i == 1
    | _ => true)
  else if k == "not" then !validate C v i
  else if k == "$ref" then (match v with
    | .str r => C.ref r i
    | _ => true)
  else checkSimple C k v i

theorem validateKws_nil (C : Ctx) (all : Obj) (i : Json) : validateKws C all [] i = true := by
  simp [validateKws]

theorem validateKws_cons (C : Ctx) (all : Obj) (k : String) (v : Json) (rest : List (String × Json)) (i : Json) :
    validateKws C all ((k, v) :: rest) i = (validateEntry C all k v i && validateKws C all rest i) := by
  conv => lhs; rw [validateKws.eq_def]
  rfl

theorem validateKws_append (C : Ctx) (all : Obj) (a b : List (String × Json)) (i : Json) :
    validateKws C all (a ++ b) i = (validateKws C all a i && validateKws C all b i) := by
  induction a with
  | nil => simp [validateKws_nil]
  | cons e rest ih =>
    obtain ⟨k, v⟩ := e
    simp [validateKws_cons, ih, Bool.and_assoc]

theorem validate_obj (C : Ctx) (kvs : Obj) (i : Json) : validate C (.obj kvs) i = validateKws C kvs kvs i := by
  rw [validate]

theorem validateKws_eq_all (C : Ctx) (all : Obj) (l : List (String × Json)) (i : Json) :
    validateKws C all l i = l.all fun e => validateEntry C all e.1 e.2 i := by
  induction l with
  | nil => simp [validateKws_nil]
  | cons e rest ih => obtain ⟨k, v⟩ := e; simp [validateKws_cons, ih]

/-- the keywords `validate` gives a meaning to; every other member of a schema object is an annotation -/
def assertionKeywords : List String :=
  ["items", "prefixItems", "contains", "properties", "patternProperties", "additionalProperties", "allOf", "anyOf",
   "oneOf", "not", "$ref", "type", "enum", "const", "multipleOf", "maximum", "exclusiveMaximum", "minimum",
   "exclusiveMinimum", "maxLength", "minLength", "pattern", "maxItems", "minItems", "uniqueItems", "maxProperties",
   "minProperties", "required", "dependentRequired"]

theorem validateEntry_annotation (C : Ctx) (all : Obj) (k : String) (v i : Json)
    (h : assertionKeywords.contains k = false) : validateEntry C all k v i = true := by
  simp [assertionKeywords, List.contains_cons, not_or] at h
  simp [validateEntry, checkSimple, h]

/-! ### the same for `wf` -/

def wfEntry (k : String) (v : Json) : Bool :=
  if schemaKeywords.contains k then wf v
  else if schemaArrayKeywords.contains k then (match v with
    | .arr (s :: ss) => wf s && wfList ss
    | _ => false)
  else if schemaMapKeywords.contains k then (match v with
    | .obj m => wfMap m
    | _ => false)
  else wfSimple k v

theorem wfKws_nil : wfKws [] = true := by simp [wfKws]

theorem wfKws_cons (k : String) (v : Json) (rest : List (String × Json)) :
    wfKws ((k, v) :: rest) = (wfEntry k v && wfKws rest) := by
  conv => lhs; rw [wfKws.eq_def]
  rfl

theorem wfKws_append (a b : List (String × Json)) : wfKws (a ++ b) = (wfKws a && wfKws b) := by
  induction a with
  | nil => simp [wfKws_nil]
  | cons e rest ih => obtain ⟨k, v⟩ := e; simp [wfKws_cons, ih, Bool.and_assoc]

theorem wfKws_eq_all (l : List (String × Json)) : wfKws l = l.all fun e => wfEntry e.1 e.2 := by
  induction l with
  | nil => simp [wfKws_nil]
  | cons e rest ih => obtain ⟨k, v⟩ := e; simp [wfKws_cons, ih]

theorem wf_obj (kvs : Obj) : wf (.obj kvs) = wfKws kvs := by rw [wf]

theorem wfList_cons (s : Json) (ss : List Json) : wfList (s :: ss) = (wf s && wfList ss) := by rw [wfList]
theorem wfList_nil : wfList [] = true := by rw [wfList]
theorem wfMap_cons (k : String) (s : Json) (rest : List (String × Json)) : wfMap ((k, s) :: rest) = (wf s && wfMap rest) := by
  rw [wfMap]
theorem wfMap_nil : wfMap [] = true := by rw [wfMap]

/-- keywords the restricted metaschema constrains; any other member is free -/
def typedKeywords : List String :=
  schemaKeywords ++ schemaArrayKeywords ++ schemaMapKeywords ++
  ["type", "enum", "multipleOf", "maximum", "exclusiveMaximum", "minimum", "exclusiveMinimum", "maxLength", "minLength",
   "maxItems", "minItems", "maxContains", "minContains", "maxProperties", "minProperties", "pattern", "format", "title",
   "description", "$ref", "$schema", "$id", "$comment", "$anchor", "uniqueItems", "deprecated", "readOnly", "writeOnly",
   "examples", "required", "dependentRequired"]

theorem wfEntry_free (k : String) (v : Json) (h : typedKeywords.contains k = false) : wfEntry k v = true := by
  simp [typedKeywords, schemaKeywords, schemaArrayKeywords, schemaMapKeywords, List.contains_cons, not_or] at h
  simp [wfEntry, wfSimple, schemaKeywords, schemaArrayKeywords, schemaMapKeywords, List.contains_cons, h]

/-! ### small facts -/

theorem lookup_append (k : String) (a b : Obj) :
    lookup k (a ++ b) = (match lookup k a with
      | some v => some v
      | none => lookup k b) := by
  induction a with
  | nil => simp [lookup]
  | cons e rest ih =>
    obtain ⟨k', v⟩ := e
    simp only [List.cons_append, lookup]
    split <;> simp_all

theorem all_drop_of_all {α : Type} (p : α → Bool) (xs : List α) (n : Nat) (h : xs.all p = true) : (xs.drop n).all p = true := by
  rw [List.all_eq_true] at *
  intro x hx
  exact h x (List.mem_of_mem_drop hx)

end Utv.JsonSchema
